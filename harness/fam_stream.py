"""Families over the streaming writer and reader."""
import json

import lib
import streamlib as sl
import gen_calls as gc
from lib import H, L, Lst
from family import Family, hx, unhx


class Stream(Family):
    """Well-ordered call sequences: writer bytes after every call (C02/C09) and reader records of the result
    (C01/C03/C04), model vs implementation; C01 oracle = independent statement of the round trip."""
    name = 'stream'
    rule = ('random well-ordered call sequences (0-1 main preamble/meta, 1-3 changes with optional preamble/meta, 1-3 '
            'files with meta and optional diff), per-section encodings from 10 codecs + 20 alias spellings, indent in '
            '{default,None,0,1,2,4,7}, line_endings in {unset,unix,dos}, hostile texts (header/hunk look-alikes, BOM, '
            'NUL, lone CR, misaligned UTF-16 newline bytes); non-trivial = at least two containers at one level or a '
            'non-default encoding or non-ASCII text; distinct by the whole call list')

    def cases(self, tier, rng, prop_id):
        n = 600 if tier == 'quick' else 12000
        for i in range(n):
            main, calls = gc.gen_wellformed_calls(rng)
            yield dict(kind='wellformed', main=main, calls=calls)

    def _impl(self, c):
        if '_impl' not in c:
            wobs, data, per = sl.run_writer(sl.S(c['main']) if c['main'] is not None else None, sl.S('1.0'), c['calls'])
            if data is None:
                c['_impl'] = (wobs, None, None, None, '()', per)
            else:
                robs, records, term, orc = sl.run_reader(data, chunk=c.get('chunk'))
                c['_impl'] = (wobs, data, robs, (records, term), orc, per)
        return c['_impl']

    def model_line(self, c):
        wobs, data, robs, rt, orc, per = self._impl(c)
        return L('write_read', sl.wv_sx(sl.S(c['main']) if c['main'] is not None else None), sl.wv_sx(sl.S('1.0')),
                 Lst([sl.call_sx(x) for x in c['calls']]), str(c.get('chunk') or 96), orc)

    def impl_obs(self, c):
        wobs, data, robs, rt, orc, per = self._impl(c)
        if data is None:
            return wobs
        return '(%s %s)' % (wobs, robs)

    def normalize_model(self, line):
        return sl.collapse_exc(line)

    def nontrivial(self, c):
        names = [x[0] for x in c['calls']]
        multi = names.count('new_change') > 1 or names.count('new_file') > 1
        enc = any(x[1] is not None for x in c['calls'] if x[0] in ('new_change', 'new_file')) or \
            any(x[2] is not None for x in c['calls'] if x[0] in ('write_preamble', 'write_meta'))
        nonascii = any(ord(ch) > 127 for x in c['calls'] if x[0] == 'write_preamble' for ch in x[1]['s'])
        return multi or enc or nonascii

    def bucket(self, c):
        return '%s/%dcalls' % (c['kind'], min(len(c['calls']), 12) // 4 * 4)

    def oracle(self, c, obs):
        wobs, data, robs, rt, orc, per = self._impl(c)
        out = []
        if c['kind'] != 'wellformed':
            return out
        bad = [i for i, p in enumerate(per) if not p[0]]
        if data is None or bad:
            what = 'a well-ordered call with valid arguments was rejected (call %s: %s)' % (
                bad[:1], per[bad[0]][2].__name__ if bad else 'init')
            return [('C01', 'rejected-valid-call', what), ('C09', 'rejected-valid-call', what),
                    ('C02', 'rejected-valid-call', what)]
        records, term = rt
        if term[0] != 'end':
            what = 'reading the written stream ended with %r' % (term,)
            out.append(('C01', 'round-trip-error', what))
            out.append(('C04', 'round-trip-error', what))
        else:
            diff = gc.compare_records(gc.expected_records(c['main'], c['calls']), records)
            if diff:
                out.append(('C01', 'round-trip-differs', diff))
                out.append(('C04', 'round-trip-differs', diff))
        return out
