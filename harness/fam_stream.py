"""Families over the streaming writer and reader."""
import json

import lib
import streamlib as sl
import gen_calls as gc
from lib import H, L, Lst
from family import Family, hx, unhx


MISALIGNED_FIRST_LINE = {
    'utf-16-le': ('\u0a41\u4100', '\u0d41\u0a00\u4100'), 'utf-16': ('\u0a41\u4100', '\u0d41\u0a00\u4100'),
    'utf-16-be': ('\u4100\u0a41', '\u4100\u0d00\u0a41'),
    'utf-32-le': ('\u0a41\u4100', '\u0d41\u0a00\u4100'), 'utf-32': ('\u0a41\u4100', '\u0d41\u0a00\u4100'),
    'utf-32-be': ('\U00010000\U000a0041', None),
}


class Stream(Family):
    """Well-ordered call sequences: writer bytes after every call (C02/C09) and reader records of the result
    (C01/C03/C04), model vs implementation; C01 oracle = independent statement of the round trip."""
    name = 'stream'
    rule = ('random well-ordered call sequences (0-1 main preamble/meta, 1-3 changes with optional preamble/meta, 1-3 '
            'files with meta and optional diff), per-section encodings from 10 codecs + 20 alias spellings, indent in '
            '{default,None,0,1,2,4,7}, line_endings in {unset,unix,dos}, hostile texts (header/hunk look-alikes, BOM, '
            'NUL, lone CR, misaligned UTF-16 newline bytes), metadata with tuples and private-use / astral keys; non-trivial = at least two containers at one level or a '
            'non-default encoding or non-ASCII text; distinct by the whole call list')

    def cases(self, tier, rng, prop_id):
        n = 600 if tier == 'quick' else 12000
        for i in range(n):
            main, calls = gc.gen_wellformed_calls(rng)
            yield dict(kind='wellformed', main=main, calls=calls)
            if i % 150 == 0:
                # size boundaries (powers of two +-1): very large indents with lines that start with spaces; content whose
                # multi-byte newline straddles byte 65536; a first line longer than 8192 bytes
                lead = ' lead\n  two\n\n   \nx\n'
                for ind in (1023, 1024, 1025, 2049):
                    for codec in ('utf-8', 'utf-16'):
                        yield dict(kind='wellformed', main=codec, boundary=True,
                                   calls=[['write_preamble', sl.S(lead), None, {'i': ind}, None, None], ['new_change', None],
                                          ['new_file', None], ['write_meta', {'d': {'k': 1}}, None, 'omitted']])
                big = [('utf-8', 'x' * 65535 + '\r\ntail\r\n', None), ('utf-8', 'x' * 65535 + '\r\ntail\r\n', sl.S('dos')),
                       ('utf-16-le', 'x' * 32767 + '\r\ntail\r\n', None), ('utf-8', 'x' * 65534 + '\r\ntail', sl.S('dos')),
                       ('utf-8', 'y' * 8190 + '\r\na\nb\r\n', None), ('utf-8', 'y' * 8191 + '\r\n a\n b\r\n', None),
                       ('utf-8', 'z' * 65535 + '\n' + 'w' * 65535 + '\n', None)]
                for codec, t, le in big:
                    yield dict(kind='wellformed', main=codec, boundary=True,
                               calls=[['write_preamble', sl.S(t), None, {'i': 2}, le, None], ['new_change', None],
                                      ['new_file', None], ['write_meta', {'d': {'k': 1}}, None, 'omitted']])
            if i % 60 == 0:
                # metadata dictionaries that compare == in Python but are different JSON (1 / True / 1.0, 0 / False), written
                # one after the other by one writer
                a, b, c3 = [({'e': 1, 'n': [0]}, {'e': True, 'n': [False]}, {'e': 1, 'n': [0]}),
                            ({'k': {'x': 0}}, {'k': {'x': False}}, {'k': {'x': 0}}),
                            ({'e': True}, {'e': 1}, {'e': True})][(i // 60) % 3]
                yield dict(kind='wellformed', main='utf-8', calls=[['write_meta', {'d': a}, None, 'omitted'], ['new_change', None],
                                                                   ['write_meta', {'d': b}, None, 'omitted'], ['new_file', None],
                                                                   ['write_meta', {'d': c3}, None, 'omitted'], ['new_file', None],
                                                                   ['write_meta', {'d': b}, None, 'omitted']])
            if i % 20 == 0:
                # first lines whose ENCODED form contains the newline bytes at a non-character boundary, with no declared
                # line endings: the kind is detected on the text, never on the encoded bytes
                for codec, (lf_pair, crlf_triple) in MISALIGNED_FIRST_LINE.items():
                    texts = ['a' + lf_pair + 'b\r\nsecond\r\n', lf_pair + '\r\nx']
                    if crlf_triple:
                        texts += ['a' + crlf_triple + 'b\nsecond\n', crlf_triple + '\nx']
                    # ... and the misaligned newline directly followed by a 0x20 BYTE (part of a character), with indent
                    sp = {'utf-16-le': 'x\u0a41\u2000y\nz\n', 'utf-16': 'x\u0a41\u2000y\nz\n', 'utf-16-be': 'x\u2000\u0a20y\nz\n',
                          'utf-32-le': 'x\u0a41\u2000y\nz\n', 'utf-32': 'x\u0a41\u2000y\nz\n'}.get(codec)
                    if sp:
                        texts += [sp, sp.replace('\n', '\r\n')]
                    t = texts[(i // 20) % len(texts)]
                    ind = [None, {'i': 0}, {'i': 4}, 'omitted'][(i // 20) % 4]
                    yield dict(kind='wellformed', main=codec, misaligned=True,
                               calls=[['write_preamble', sl.S(t), None, ind, None, None], ['new_change', None],
                                      ['write_preamble', sl.S(t), None, ind, None, None], ['new_file', None],
                                      ['write_meta', {'d': {'k': 1}}, None, 'omitted']])
            if i % 10 == 0:
                # a file that declares no encoding (valid: content is then 8-bit data); metadata may be written with
                # no encoding in force at all
                main, calls = gc.gen_wellformed_calls(rng, no_main=True)
                yield dict(kind='wellformed', main=main, calls=calls, noenc=True)
                # the same reader object iterated twice (rewound in between): the last container declares a wide codec
                # that must not be in force when the second pass starts
                calls2 = [list(x) for x in calls]
                for x in reversed(calls2):
                    if x[0] == 'new_file':
                        x[1] = sl.S(rng.choice(['utf-16', 'utf-32-be']))
                        break
                yield dict(kind='wellformed', main=main, calls=calls2, noenc=True, second_pass=True)

    def _impl(self, c):
        if '_impl' not in c:
            wobs, data, per = sl.run_writer(sl.S(c['main']) if c['main'] is not None else None, sl.S('1.0'), c['calls'])
            if data is None:
                c['_impl'] = (wobs, None, None, None, '()', per)
            else:
                robs, records, term, orc = sl.run_reader(data, chunk=c.get('chunk'))
                if c.get('second_pass'):
                    # the oracle looks at what the same reader object yields when it is iterated again
                    records, term = sl.run_reader_twice(data)
                c['_impl'] = (wobs, data, robs, (records, term), orc, per)
        return c['_impl']

    def model_line(self, c):
        wobs, data, robs, rt, orc, per = self._impl(c)
        return L('write_read', sl.wv_sx(sl.S(c['main']) if c['main'] is not None else None), sl.wv_sx(sl.S('1.0')),
                 Lst([sl.call_sx(x) for x in c['calls']]), str(c.get('chunk') or 96), orc)

    def impl_obs(self, c):
        wobs, data, robs, rt, orc, per = self._impl(c)
        if data is None:
            return wobs
        return '(%s %s)' % (wobs, robs)

    def normalize_model(self, line):
        return sl.collapse_exc(line)

    def nontrivial(self, c):
        names = [x[0] for x in c['calls']]
        multi = names.count('new_change') > 1 or names.count('new_file') > 1
        enc = any(x[1] is not None for x in c['calls'] if x[0] in ('new_change', 'new_file')) or \
            any(x[2] is not None for x in c['calls'] if x[0] in ('write_preamble', 'write_meta'))
        nonascii = any(ord(ch) > 127 for x in c['calls'] if x[0] == 'write_preamble' for ch in x[1]['s'])
        return multi or enc or nonascii

    def bucket(self, c):
        return '%s%s/%dcalls' % (c['kind'], '-noenc' if c.get('noenc') else '', min(len(c['calls']), 12) // 4 * 4)

    def oracle(self, c, obs):
        wobs, data, robs, rt, orc, per = self._impl(c)
        out = []
        if c['kind'] != 'wellformed':
            return out
        bad = [i for i, p in enumerate(per) if not p[0]]
        if data is None or bad:
            what = 'a well-ordered call with valid arguments was rejected (call %s: %s)' % (
                bad[:1], per[bad[0]][2].__name__ if bad else 'init')
            return [('C01', 'rejected-valid-call', what), ('C09', 'rejected-valid-call', what),
                    ('C02', 'rejected-valid-call', what)]
        records, term = rt
        if term[0] != 'end':
            what = 'reading the written stream ended with %r' % (term,)
            out.append(('C01', 'round-trip-error', what))
            out.append(('C04', 'round-trip-error', what))
        else:
            diff = gc.compare_records(gc.expected_records(c['main'], c['calls']), records)
            if diff:
                out.append(('C01', 'round-trip-differs', diff))
                out.append(('C04', 'round-trip-differs', diff))
        return out


def resolve_calls(calls):
    """case calls -> python-valued calls with defaults applied (for spec.py)."""
    out = []
    for c in calls:
        n = c[0]
        if n in ('new_change', 'new_file'):
            out.append([n, sl.pyval(c[1])])
        elif n == 'write_preamble':
            ind = 4 if c[3] == 'omitted' else sl.pyval(c[3])
            out.append([n, sl.pyval(c[1]), sl.pyval(c[2]), ind, sl.pyval(c[4]), sl.pyval(c[5])])
        elif n == 'write_meta':
            out.append([n, sl.pyval(c[1]), sl.pyval(c[2])])
        else:
            out.append([n, sl.pyval(c[1]), sl.pyval(c[2]), sl.pyval(c[3]), sl.pyval(c[4])])
    return out


def c02_oracle(c, data):
    import spec
    try:
        want = spec.spec_serialize(c['main'], resolve_calls(c['calls']))
    except Exception as e:  # the spec serializer cannot encode: not a valid C02 instance
        return []
    if want != data:
        n = next((i for i in range(min(len(want), len(data))) if want[i] != data[i]), min(len(want), len(data)))
        return [('C02', 'bytes-differ-from-spec',
                 'writer output differs from the spec serializer at byte %d: got %r, spec %r'
                 % (n, data[max(0, n - 20):n + 20], want[max(0, n - 20):n + 20]))]
    return []


_orig_stream_oracle = Stream.oracle


def _stream_oracle(self, c, obs):
    out = _orig_stream_oracle(self, c, obs)
    wobs, data, robs, rt, orc, per = self._impl(c)
    if c['kind'] == 'wellformed' and data is not None and all(p[0] for p in per):
        out += c02_oracle(c, data)
    return out


Stream.oracle = _stream_oracle


# ------------------------------------------------------------------ C09: call sequences and invalid-argument variants
VALID = {
    'new_change': ['new_change', None],
    'new_file': ['new_file', None],
    'write_preamble': ['write_preamble', sl.S('hi\n'), None, 'omitted', None, None],
    'write_meta': ['write_meta', {'d': {'k': 1}}, None, 'omitted'],
    'write_diff': ['write_diff', sl.Bv(b'-a\n+b\n'), None, None, None],
}
KINDS = list(VALID)

# (call, must_reject): variants of each call with one invalid argument
INVALID = [
    (['new_change', sl.S('\xe9')], True),                      # header cannot be encoded as ASCII
    (['new_file', sl.S('\xe9')], True),
    (['new_change', sl.S('nope')], False),                     # unknown codec: the writer does not validate it here
    (['new_file', sl.S('nope')], False),
    (['write_preamble', sl.Bv(b'bytes'), None, 'omitted', None, None], True),
    (['write_preamble', sl.S(''), None, 'omitted', None, None], True),
    (['write_preamble', None, None, 'omitted', None, None], True),
    (['write_preamble', sl.S('x'), None, 'omitted', sl.S('mac'), None], True),
    (['write_preamble', sl.S('x'), None, 'omitted', None, sl.S('text/html')], True),
    (['write_preamble', sl.S('x'), sl.S('nope'), 'omitted', None, None], True),
    (['write_preamble', sl.S('x'), sl.S('\xe9'), 'omitted', None, None], True),
    (['write_preamble', sl.S('\ud800'), None, 'omitted', None, None], True),
    (['write_preamble', sl.S('\xe9'), sl.S('ascii'), 'omitted', None, None], True),
    (['write_preamble', sl.S('x'), None, sl.S('x'), None, None], True),
    (['write_preamble', sl.S('x'), None, 'other', None, None], True),
    (['write_meta', 'other', None, 'omitted'], True),
    (['write_meta', None, None, 'omitted'], True),
    (['write_meta', {'d': {}}, None, 'omitted'], True),
    (['write_meta', {'d': {'k': 1}}, None, sl.S('yaml')], True),
    (['write_meta', {'d': {'k': 1}}, sl.S('nope'), 'omitted'], True),
    (['write_meta', {'d': {'k': {'__bad__': 1}}}, None, 'omitted'], True),
    (['write_diff', sl.S('text'), None, None, None], True),
    (['write_diff', sl.Bv(b''), None, None, None], True),
    (['write_diff', sl.Bv(b'x\n'), sl.S('weird'), None, None], True),
    (['write_diff', sl.Bv(b'x\n'), None, None, sl.S('mac')], True),
    (['write_diff', sl.Bv(b'x\n'), None, sl.S('nope'), None], True),
    # text that no codec can encode strictly, from the range an error handler such as surrogateescape would let through
    (['write_preamble', sl.S('caf\udce9'), None, 'omitted', None, None], True),
    (['write_preamble', sl.S('\udc80x\n'), sl.S('latin-1'), 'omitted', None, None], True),
    (['write_preamble', sl.S('a\udcff\n'), sl.S('ascii'), 'omitted', None, None], True),
    (['write_preamble', sl.S('\udfff'), None, 'omitted', None, None], True),
    # numbers that EQUAL a valid int without being one
    (['write_preamble', sl.S('x'), None, {'f': 4.0}, None, None], True),
    (['write_preamble', sl.S('x'), None, {'f': 2.0}, None, None], True),
    (['write_preamble', sl.S('x'), None, {'f': 16.0}, None, None], True),
    (['write_preamble', sl.S('x'), None, {'f': 1.5}, None, None], True),
    # invalid values that are FALSY in Python (a `if value and value not in VALID` guard lets them through)
    (['write_preamble', sl.S('x'), None, 'omitted', sl.S(''), None], True),
    (['write_preamble', sl.S('x'), None, 'omitted', {'i': 0}, None], True),
    (['write_preamble', sl.S('x'), None, 'omitted', {'bool': False}, None], True),
    (['write_preamble', sl.S('x'), None, 'omitted', sl.Bv(b''), None], True),
    (['write_preamble', sl.S('x'), None, 'omitted', None, sl.S('')], True),
    (['write_preamble', sl.S('x'), None, 'omitted', None, {'i': 0}], True),
    (['write_meta', {'d': {'k': 1}}, None, sl.S('')], True),
    (['write_meta', {'d': {'k': 1}}, None, {'i': 0}], True),
    (['write_meta', {'d': {'k': 1}}, None, None], True),
    (['write_diff', sl.Bv(b'x\n'), sl.S(''), None, None], True),
    (['write_diff', sl.Bv(b'x\n'), {'i': 0}, None, None], True),
    (['write_diff', sl.Bv(b'x\n'), None, None, sl.S('')], True),
    (['write_diff', sl.Bv(b'x\n'), None, None, {'i': 0}], True),
    (['write_diff', sl.Bv(b'x\n'), None, None, {'bool': False}], True),
]


def gen_enc_accept(rng):
    import spec
    wide = rng.random() < 0.35
    main = rng.choice(['utf-16', 'utf-16-le', 'utf-16-be', 'utf-32', 'utf-32-le', 'utf-32-be', 'utf-8-sig']) if wide else \
        rng.choice(['ascii', 'utf-8', 'latin-1'])
    texts = ['x\n', 'caf\u00e9\n', '\u65e5\u672c\n']
    if wide:
        # hostile but ENCODABLE texts: characters whose code units contain the newline bytes across a boundary, byte order
        # marks inside the text, NUL, lone CR, lines of spaces (valid whatever the indent)
        texts += [a + b for a in ('', 'a') for pair in MISALIGNED_FIRST_LINE.values() for x in pair if x
                  for b in (x + 'b\r\nsecond\r\n', x + '\nx', x)]
        texts += ['\ufeffx\n\ufeffy\n', 'a\n\ufffeb\n', '\x00\n', 'a\rb\n', '   \n \n', '\u0a00\u0a0a\u0d0a\n', '\u2028x\u2029\n']
    eff = {0: main}
    level = 0
    prev = 'diffx'
    calls, expect = [], []

    def can(t, enc):
        try:
            t.encode(enc)
            return True
        except UnicodeError:
            return False
    for _ in range(rng.randint(4, 12)):
        legal = [k for k in KINDS if spec.may_follow(prev, spec.target_section(level, k))]
        if not legal:
            break
        kind = rng.choice(legal)
        target = spec.target_section(level, kind)
        ok = True
        if kind in ('new_change', 'new_file'):
            e = rng.choice([None, None, 'ascii', 'utf-8', 'latin-1'] + (['utf-16', 'utf-32-be', 'utf-16-le'] if wide else []))
            call = [kind, sl.S(e) if e else None]
            level = 1 if kind == 'new_change' else 2
            eff[level] = e or eff[level - 1]
        elif kind == 'write_preamble':
            own = rng.choice([None, None, None, 'ascii', 'utf-8'])
            t = rng.choice(texts)
            ok = can(t, own or eff[level])
            ind = rng.choice(['omitted', 'omitted', None, {'i': 0}, {'i': 1}, {'i': 3}]) if wide else 'omitted'
            call = ['write_preamble', sl.S(t), sl.S(own) if own else None, ind, None, None]
        elif kind == 'write_meta':
            call = ['write_meta', {'d': {'k': 'caf\u00e9'}}, None, 'omitted']
        else:
            call = ['write_diff', sl.Bv(b'-a\n+b\n'), None, None, None]
        calls.append(call)
        expect.append(ok)
        if ok:
            prev = target
    return dict(kind='enc-accept', main=main, calls=calls, must=[], expect=expect)


class Calls(Family):
    name = 'calls'
    rule = ('every sequence over {new_change,new_file,write_preamble,write_meta,write_diff} with valid arguments up to '
            'a bounded length (exhaustive), plus every way of replacing one call of every shorter sequence by one of 26 '
            'invalid-argument variants followed by every valid continuation of length <= 2, plus random longer '
            'sequences, encodability-acceptance cases (incl. wide codecs and hostile texts), modal codecs, writers with NO '
            'encoding in force; non-trivial = at least one accepted and one rejected call; distinct by the call list')

    def cases(self, tier, rng, prop_id):
        import itertools
        maxlen = 4 if tier == 'quick' else 6
        for n in range(0, maxlen + 1):
            for seq in itertools.product(KINDS, repeat=n):
                yield dict(kind='exh%d' % n, main='utf-8', calls=[VALID[k] for k in seq], must=[])
        vlen = 2 if tier == 'quick' else 3
        for n in range(0, vlen + 1):
            for seq in itertools.product(KINDS, repeat=n):
                for pos in range(n + 1):
                    for (bad, must) in INVALID:
                        for m in range(0, 3):
                            for cont in itertools.product(KINDS, repeat=m):
                                if tier == 'quick' and m == 2 and rng.random() < 0.8:
                                    continue
                                calls = [VALID[k] for k in seq[:pos]] + [bad] + [VALID[k] for k in seq[pos:]] + \
                                        [VALID[k] for k in cont]
                                yield dict(kind='invalid', main='utf-8', calls=calls, must=[pos] if must else [])
        for i in range(300 if tier == 'quick' else 5000):
            n = rng.randint(5, 14)
            calls = []
            must = []
            for j in range(n):
                if rng.random() < 0.15:
                    bad, m = rng.choice(INVALID)
                    if m:
                        must.append(j)
                    calls.append(bad)
                else:
                    # bias towards a plausible order so that long accepted prefixes occur
                    calls.append(VALID[rng.choice(KINDS + ['new_file', 'write_meta', 'write_diff'])])
            yield dict(kind='random', main=rng.choice(['utf-8', 'utf-16', 'latin-1']), calls=calls, must=must)
        # acceptance that depends on WHICH encoding is in force: a text call is valid iff its text can be encoded in the
        # nearest declared encoding (own, else the innermost enclosing container that declares one, else the main one)
        for i in range(300 if tier == 'quick' else 6000):
            yield gen_enc_accept(rng)
        # a writer with NO encoding in force (valid: content is then bytes): text calls without an encoding of their own cannot
        # be written and must be rejected as a whole, whatever their indent; with one of their own they are written
        for own in (None, 'utf-8', 'utf-16'):
            for ind in ('omitted', {'i': 0}, None, {'i': 2}):
                for le in (None, sl.S('unix'), sl.S('dos')):
                    wp = ['write_preamble', sl.S('hello\nworld\n'), sl.S(own) if own else None, ind, le, None]
                    yield dict(kind='noenc', main=None, must=[], calls=[wp, wp, ['new_change', None], wp, ['new_file', None],
                                                                       ['write_meta', {'d': {'k': 1}}, None, 'omitted'],
                                                                       ['write_diff', sl.Bv(b'-a\n+b\n'), None, None, None]])
                    yield dict(kind='noenc', main=None, must=[], calls=[['new_change', None], wp, wp, ['write_meta', {'d': {'k': 1}}, None, 'omitted'],
                                                                       ['new_file', None], wp, ['write_meta', {'d': {'k': 1}}, None, 'omitted']])
        # stateful (modal) codecs: a REJECTED text call must leave nothing behind in the writer, so the calls accepted
        # afterwards write what a writer that never saw the rejected call writes (the model does not execute these
        # codecs and discards the comparison; the atomicity oracle runs on the implementation)
        for codec, good, bad in [('iso2022_jp', '\u3042\u3044\n', '\u3042\u20ac\n'), ('iso2022_jp_2', '\u3042\n', '\u3042\U0001f600\n'),
                                 ('hz', '\u4f60\u597d\n', '\u4f60\u20ac\n'), ('iso2022_kr', '\ud55c\n', '\ud55c\U0001f600\n'),
                                 ('shift_jis', '\u3042\n', '\u3042\u20ac\n')]:
            try:
                good.encode(codec)
                try:
                    bad.encode(codec)
                    continue            # the "bad" text is encodable after all in this Python: not a rejection case
                except UnicodeEncodeError:
                    pass
            except (LookupError, UnicodeError):
                continue
            for own in (False, True):
                enc = sl.S(codec) if own else None
                main = 'utf-8' if own else codec
                yield dict(kind='modal', main=main, must=[0, 3],
                           calls=[['write_preamble', sl.S(bad), enc, 'omitted', None, None],
                                  ['write_preamble', sl.S(good), enc, 'omitted', None, None],
                                  ['new_change', enc],
                                  ['write_preamble', sl.S(bad), None if not own else enc, 'omitted', None, None],
                                  ['write_preamble', sl.S(good), None if not own else enc, {'i': 2}, None, None],
                                  ['new_file', None], ['write_meta', {'d': {'k': good}}, None, 'omitted']])

    def _impl(self, c):
        if '_impl' not in c:
            c['_impl'] = sl.run_writer(sl.S(c['main']) if c['main'] is not None else None, sl.S('1.0'), c['calls'])
        return c['_impl']

    def model_line(self, c):
        return sl.write_model_line(sl.S(c['main']) if c['main'] is not None else None, sl.S('1.0'), c['calls'])

    def impl_obs(self, c):
        return self._impl(c)[0]

    def normalize_model(self, line):
        return sl.collapse_exc(line)

    def nontrivial(self, c):
        per = self._impl(c)[2]
        return any(p[0] for p in per) and any(not p[0] for p in per)

    def bucket(self, c):
        return c['kind']

    def oracle(self, c, obs):
        """C09 on the implementation: accept iff may_follow (valid arguments); rejected calls are atomic
        (stream unchanged, and the rest of the run is as if the call had not been made); append-only."""
        import io
        import spec
        from pydiffx.writer import DiffXWriter
        out = []
        stream = io.BytesIO()
        w = DiffXWriter(stream, encoding=c['main'])
        prev = 'diffx'
        level = 0
        before = stream.getvalue()
        accepted_idx = []
        tainted = False
        for i, call in enumerate(c['calls']):
            valid_args = call in VALID.values()
            target = spec.target_section(level, call[0])
            try:
                sl.apply_call(w, call)
                ok = True
            except Exception:
                ok = False
            after = stream.getvalue()
            if not after.startswith(before):
                out.append(('C09', 'not-append-only', 'call %d changed bytes already written' % i))
            if not ok and after != before:
                out.append(('C09', 'rejected-call-wrote', 'call %d raised after writing %r' % (i, after[len(before):][:60])))
            if ok and call[0] in ('new_change', 'new_file') and call[1] == sl.S('nope'):
                tainted = True      # an unknown codec is now inherited: later content calls cannot be encoded
            if valid_args and ok != spec.may_follow(prev, target) and not (tainted and not ok):
                out.append(('C09', 'order', 'call %d (%s after %s): accepted=%s but may_follow=%s'
                            % (i, target, prev, ok, spec.may_follow(prev, target))))
            if c['kind'] == 'enc-accept' and ok != c['expect'][i]:
                out.append(('C09', 'encodability-acceptance', 'call %d (%s): accepted=%s, but with the nearest declared '
                            'encoding the call is %s' % (i, target, ok, 'valid' if c['expect'][i] else 'invalid')))
            if i in c.get('must', []) and ok:
                out.append(('C09', 'invalid-argument-accepted', 'call %d with an invalid argument was accepted' % i))
            if ok:
                accepted_idx.append(i)
                prev = target
                if call[0] == 'new_change':
                    level = 1
                elif call[0] == 'new_file':
                    level = 2
            before = after
            if out:
                return out
        # continuing "exactly as if the call had not been made": replay only the accepted calls on a fresh writer
        if len(accepted_idx) != len(c['calls']):
            s2 = io.BytesIO()
            w2 = DiffXWriter(s2, encoding=c['main'])
            try:
                for i in accepted_idx:
                    sl.apply_call(w2, c['calls'][i])
                if s2.getvalue() != before:
                    out.append(('C09', 'rejected-call-changed-state',
                                'output differs from the run without the rejected calls'))
            except Exception as e:
                out.append(('C09', 'rejected-call-changed-state',
                            'the accepted calls alone are not accepted by a fresh writer: %s' % type(e).__name__))
        return out


# ------------------------------------------------------------------ foreign files (C03, C12)
import gen_foreign as gf


def compare_foreign(exp, records, upto=None):
    """First difference between the specification's reading and the reader's records (None if equal)."""
    exp = exp if upto is None else exp[:upto]
    if len(records) != len(exp):
        return 'expected %d records, got %d' % (len(exp), len(records))
    for i, (e, r) in enumerate(zip(exp, records)):
        if (e['section'], e['level'], e['line']) != (r['section'], r['level'], r['line']):
            return 'record %d: (id, level, line) = %r, spec says %r' % (
                i, (r['section'], r['level'], r['line']), (e['section'], e['level'], e['line']))
        if r['options'] != e['options'] or any(type(r['options'][k]) is not type(e['options'][k]) for k in e['options']):
            return 'record %d: options %r, spec says %r' % (i, r['options'], e['options'])
        for k in ('text', 'metadata', 'diff'):
            if k in e:
                if k not in r or type(r[k]) is not type(e[k]) or r[k] != e[k]:
                    return 'record %d: %s = %r, spec says %r' % (i, k, r.get(k), e[k])
                if k == 'metadata' and not gc.json_equal(r[k], e[k]):
                    return 'record %d: metadata differs as JSON' % i
    return None


class Foreign(Family):
    name = 'foreign'
    rule = ('well-formed files from an independent spec-derived generator (options shuffled, optional options absent, '
            'blank/whitespace lines, CRLF headers, compact/pretty JSON, BOM or BOM-free text, undeclared line endings), '
            'their single-defect mutations from the C03 catalogue (invalid JSON also at the byte level, also with no '
            'encoding in force), and copies with 1-4 unknown options inserted (also read through BufferedReader / a real '
            'file with a later header placed across the buffer edge; keys named like the methods of Python containers); '
            'non-trivial = at least 4 sections; distinct by file bytes')

    def cases(self, tier, rng, prop_id):
        n = 250 if tier == 'quick' else 5000
        for i in range(n):
            f = gf.gen_file(rng)
            yield dict(kind='wellformed', file=f)
            if prop_id in ('C03', 'ALL'):
                cands = [(k, d) for k in range(len(f['sections'])) for d in gf.DEFECTS if gf.applicable(f, k, d)]
                picks = cands if tier != 'quick' else [rng.choice(cands) for _ in range(3)]
                for (k, d) in picks:
                    yield dict(kind='defect', file=gf.inject(f, k, d, rng), base=f, at=k, defect=d)
            if prop_id in ('C03', 'ALL') and i % 50 == 0:
                yield dict(kind='misaligned', file=gf.misaligned_file(rng))
            if prop_id in ('C03', 'ALL') and i % 25 == 0:
                # a file that declares no encoding anywhere (metadata is then JSON in the bytes' own UTF-8/16/32 form): each
                # metadata section in turn gets well-formed JSON whose bytes are text in none of these
                meta = lambda sid, d: dict(id=sid, opts=[['format', 'json'], ['length', str(len(json.dumps(d)) + 1)]], blank=[],
                                           content=(json.dumps(d) + '\n').encode().hex(), expect=dict(metadata=d), enc=None, ast=None)
                cont = lambda sid: dict(id=sid, opts=[], blank=[], content=None, expect={}, enc=None, ast=None)
                base = dict(crlf=False, trailing=[], sections=[
                    dict(id='diffx', opts=[['version', '1.0']], blank=[], content=None, expect={}, enc=None, ast=None),
                    meta('.meta', {'k': 1}), cont('.change'), meta('..meta', {'id': 'a'}), cont('..file'), meta('...meta', {'path': 'p'})])
                for k in (1, 3, 5):
                    for _ in range(3):
                        yield dict(kind='defect', file=gf.inject(base, k, 'invalid-json', rng), base=base, at=k, defect='invalid-json')
            if i % 40 == 0:
                yield dict(kind='wellformed', file=gf.longline_file(rng))
            if prop_id in ('C12', 'ALL'):
                for _ in range(2):
                    g, added = gf.add_unknown_options(f, rng)
                    yield dict(kind='unknown-options', file=g, base=f, added={str(k): v for k, v in added.items()})
                if i == 0:
                    # names of the methods and attributes of Python's own containers and strings (an options mapping that is
                    # also used as an object, a namespace or keyword arguments gives these a meaning), as the first option of
                    # every header
                    names = set()
                    for ty in (dict, list, str, bytes, object, type, int):
                        names |= {n for n in dir(ty) if _re.fullmatch(r'[A-Za-z][A-Za-z0-9_-]*', n)}
                    names |= {'self', 'cls', 'args', 'kwargs', 'None', 'True', 'False', 'print', 'len', 'id', 'class', 'def', 'lambda', 'import'}
                    names -= {'version', 'encoding', 'length', 'indent', 'line_endings', 'format', 'type', 'mimetype'}   # interpreted
                    for key in sorted(names):
                        for k in range(len(f['sections'])):
                            if key in {o[0] for o in f['sections'][k]['opts']}:
                                continue
                            g = json.loads(json.dumps(f))
                            g['sections'][k]['opts'].insert(0, [key, '1'])
                            yield dict(kind='unknown-options', file=g, base=f, added={str(k): {key: 1}})
                if i % 6 == 0:
                    # other stream kinds (BufferedReader, real file): an unknown option on the main header long enough to
                    # push a later header across the stream's buffer edge (it starts d bytes before the edge, its newline
                    # comes after it), for every later header of the file
                    import io as _io
                    base_data = gf.render(f)
                    starts = [m.start() + 1 for m in _re.finditer(rb'\n#', base_data)]
                    for wrap in ('buffered', 'file'):
                        for hs in rng.sample(starts, min(3, len(starts))):
                            ln = base_data.index(b'\n', hs) - hs
                            d = rng.randint(1, max(1, min(95, ln)))
                            edge = _io.DEFAULT_BUFFER_SIZE * rng.choice([1, 1, 2])
                            k = edge - d - hs - len(b', pad=')
                            if k >= 1 and not any(o[0] == 'pad' for o in f['sections'][0]['opts']):
                                g = json.loads(json.dumps(f))
                                g['sections'][0]['opts'].append(['pad', 'p' * k])
                                yield dict(kind='unknown-options', file=g, base=f, added={'0': {'pad': 'p' * k}}, wrap=wrap)
                if i < 3:
                    # every confusable key (internal identifiers, names containing an interpreted option's name) as the
                    # FIRST and as the LAST option of every header of this file
                    import sizes
                    interpreted = {'version', 'encoding', 'length', 'indent', 'line_endings', 'format', 'type', 'mimetype'}
                    for key in sorted(set(gf.UNKNOWN_KEYS[7:]) | (set(sizes.harvested_identifiers()) - interpreted)):
                        for k in range(len(f['sections'])):
                            if key in {o[0] for o in f['sections'][k]['opts']}:
                                continue
                            for first in (True, False):
                                g = json.loads(json.dumps(f))
                                val = ['2.0', 'x1', '7'][(k + len(key)) % 3]
                                opts = g['sections'][k]['opts']
                                opts.insert(0 if first else len(opts), [key, val])
                                yield dict(kind='unknown-options', file=g, base=f, added={str(k): {key: gf.conv(val)}})

    def _impl(self, c):
        if '_impl' not in c:
            data = gf.render(c['file'])
            c['_impl'] = (data,) + sl.run_reader(data, wrap=c.get('wrap'))
        return c['_impl']

    def model_line(self, c):
        data, robs, records, term, orc = self._impl(c)
        return sl.read_model_line(data, orc)

    def impl_obs(self, c):
        return self._impl(c)[1]

    def normalize_model(self, line):
        return sl.collapse_exc(line)

    def key(self, c):
        return gf.render(c['file']).hex() + (c.get('wrap') or '')

    def bucket(self, c):
        return c['kind'] + ('/' + c['defect'] if 'defect' in c else '')

    def nontrivial(self, c):
        return len(c['file']['sections']) >= 4

    def describe(self, c):
        d = {k: v for k, v in c.items() if not k.startswith('_')}
        d['data_hex'] = gf.render(c['file']).hex()
        return d

    def oracle(self, c, obs):
        data, robs, records, term, orc = self._impl(c)
        out = []
        if c['kind'] == 'misaligned':
            # line numbers are not compared here: the producer and a byte-level splitter disagree on the line count
            exp = gf.expected(c['file'])
            got = [r.get('text') for r in records if 'text' in r]
            if term[0] != 'end' or got != [e['text'] for e in exp if 'text' in e]:
                out.append(('C03', 'misaligned-newline-bytes', 'text %r read as %r then %r'
                            % ([e['text'] for e in exp if 'text' in e], got, term[:2])))
            return out
        if c['kind'] == 'wellformed':
            exp = gf.expected(c['file'])
            if term[0] != 'end':
                out.append(('C03', 'wellformed-rejected', 'a well-formed file ended with %r' % (term,)))
            else:
                d = compare_foreign(exp, records)
                if d:
                    out.append(('C03', 'reading-differs-from-spec', d))
            if out:
                # C04, last clause: the failing section is a diff with no encoding of its own below a container that declares a
                # codec whose newline is not the ASCII one -- a diff never inherits an encoding
                secs = c['file']['sections']
                k = len(records) if term[0] != 'end' else next((i for i in range(min(len(exp), len(records)))
                                                                if compare_foreign(exp[i:i + 1], records[i:i + 1])), None)
                if k is not None and k < len(secs) and secs[k]['id'] == '...diff' and not any(o[0] == 'encoding' for o in secs[k]['opts']):
                    inherited = None
                    for j in range(k - 1, -1, -1):
                        if secs[j]['content'] is None and secs[j]['id'].count('.') < 3:
                            e = next((o[1] for o in secs[j]['opts'] if o[0] == 'encoding'), None)
                            if e and (secs[j]['id'] == 'diffx' or j >= max(i for i in range(k) if secs[i]['id'] == '.change')):
                                inherited = e
                                break
                    try:
                        wide = inherited is not None and '\n'.encode(inherited) != b'\n'
                    except LookupError:
                        wide = False
                    if wide:
                        out.append(('C04', 'diff-inherited-encoding', 'diff section %d (no encoding of its own, below %r): %s'
                                    % (k, inherited, out[0][2])))
        elif c['kind'] == 'defect':
            exp = gf.expected(c['base'])
            k = c['at']
            if term[0] != 'parse':
                out.append(('C03', 'defect-not-rejected', 'defect %s at section %d: reader ended with %r'
                            % (c['defect'], k, term[:2])))
            else:
                d = compare_foreign(exp, records, upto=k)
                if d:
                    out.append(('C03', 'defect-prefix-differs', d))
                lo = exp[k]['line']
                # the offending section's lines in the mutated file
                mexp = gf.expected(c['file'])
                hi = mexp[k]['line'] + mexp[k]['nlines']
                if not (lo <= term[1] <= hi):
                    out.append(('C03', 'defect-line', 'defect %s at section %d (lines %d..%d) reported on line %r'
                                % (c['defect'], k, lo, hi, term[1])))
        elif c['kind'] == 'unknown-options':
            exp = gf.expected(c['base'])
            for k, extra in c['added'].items():
                exp[int(k)]['options'] = dict(exp[int(k)]['options'], **extra)
            if term[0] != 'end':
                out.append(('C12', 'unknown-option-rejected', 'file with unknown options %r ended with %r'
                            % (c['added'], term[:4])))
            else:
                d = compare_foreign(exp, records)
                if d:
                    out.append(('C12', 'unknown-option-changed-output', d))
        return out


class SpecFile(Family):
    """Ties coq/theories/SpecReader.v (the AST of well-formed files, render_file, wf_file, spec_records: the vocabulary
    of theorems C03_reads_spec and C12_file) to the implementation: the generator's files are sent as ASTs; the model
    must render the very bytes the generator rendered, judge them well-formed, and assign the records the real reader
    yields for those bytes."""
    name = 'specfile'
    rule = ('the foreign generator\'s well-formed files (and copies with unknown options) expressed as SpecReader.ffile '
            'ASTs: model = (wf_file, render_file, spec_records) of the AST, implementation = (true, the generator\'s own '
            'bytes, what DiffXReader yields for them); files with misaligned newline bytes must be judged not well-formed; '
            'non-trivial = at least 4 sections; distinct by file bytes')

    def cases(self, tier, rng, prop_id):
        n = 150 if tier == 'quick' else 3000
        for i in range(n):
            f = gf.gen_file(rng)
            yield dict(kind='wellformed', file=f)
            g, added = gf.add_unknown_options(f, rng)
            # SpecReader.spec_conv is the specification's (positional, 10^k) reading of a digit string: fine as a
            # definition, far too slow to run on the 4300-digit values; those stay with the foreign and header families
            if all(len(o[1]) <= 200 for sec in g['sections'] for o in sec['opts']):
                yield dict(kind='unknown-options', file=g)
            if i % 25 == 0:
                yield dict(kind='misaligned', file=gf.misaligned_file(rng))

    def _impl(self, c):
        if '_impl' not in c:
            data = gf.render(c['file'])
            c['_impl'] = (data,) + sl.run_reader(data)
        return c['_impl']

    def model_line(self, c):
        a = gf.to_ast(c['file'])
        return None if a is None else L('spec_file', a)

    def impl_obs(self, c):
        data, robs, records, term, orc = self._impl(c)
        if c['kind'] == 'misaligned':
            return '((wf false) %s)' % H(data)
        return '((wf true) %s %s)' % (H(data), robs)

    def normalize_model(self, line):
        return sl.collapse_exc(line)

    def discard(self, raw, c):
        # wf_file is deliberately narrower than the generator's notion of well-formed (e.g. BOM-free UTF-32 text whose
        # first bytes look like another codec's byte order mark): such a file is outside the theorems' domain. It is
        # counted, not compared - but only if the model still rendered the very same bytes.
        return c['kind'] != 'misaligned' and raw == '((wf false) %s)' % H(gf.render(c['file']))

    def key(self, c):
        return gf.render(c['file']).hex()

    def nontrivial(self, c):
        return len(c['file']['sections']) >= 4

    def describe(self, c):
        d = {k: v for k, v in c.items() if not k.startswith('_')}
        d['data_hex'] = gf.render(c['file']).hex()
        return d


# ------------------------------------------------------------------ truncation and bad lengths (C07)
def small_file(rng, limit):
    for _ in range(50):
        f = gf.gen_file(rng)
        if len(gf.render(f)) <= limit:
            return f
    return f


def ends_with_own_newline(b):
    """Does the content of record b end with the line ending of ITS kind (declared, else detected on its first line)? The
    recorded short-read finding only ever yields such content; anything else is a different failure."""
    try:
        le = b['options'].get('line_endings')
        if 'text' in b:
            t = b['text']
            if isinstance(t, bytes):        # no encoding in force: the text is given as bytes
                t = t.decode('latin-1')
            i = t.find('\n')
            kind = le if le in ('unix', 'dos') else ('dos' if i > 0 and t[i - 1] == '\r' else 'unix')
            return t.endswith('\r\n' if kind == 'dos' else '\n')
        if 'diff' in b:
            enc = b['options'].get('encoding')
            kind = le if le in ('unix', 'dos') else gc.detect_kind_bytes(b['diff'], enc)
            return b['diff'].endswith(gc.bomfree_newline(kind, enc))
    except Exception:
        pass
    return True


def classify_c07(intact, got, exhausted, tail=b'\n'):
    """None if got is a prefix of intact; else (signature, what)."""
    for i, g in enumerate(got):
        if i < len(intact) and sl.record_sx(intact[i]) == sl.record_sx(g):
            continue
        last = i == len(got) - 1
        if last and i < len(intact) and g['section'] == intact[i]['section'] and exhausted:
            a, b = intact[i], g
            oa = {k: v for k, v in a['options'].items() if k != 'length'}
            ob = {k: v for k, v in b['options'].items() if k != 'length'}
            same_opts = oa == ob
            for key in ('text', 'diff'):
                # the recorded finding is about a stream that ends RIGHT AFTER one of the section's newlines (seen on the last
                # bytes of the stream, or -- in codecs whose newline is not the ASCII byte, e.g. EBCDIC -- on the shortened
                # text itself ending with a newline); a shortened section yielded when the stream ends anywhere else is a
                # different failure
                if key in a and key in b and type(a[key]) is type(b[key]) and same_opts and \
                        a[key].startswith(b[key]) and 0 < len(b[key]) < len(a[key]) and \
                        (tail[-1:] in (b'\n', b'\x00') or (key == 'text' and b[key].endswith('\n'))) and ends_with_own_newline(b):
                    return ('short-read-accepted',
                            'record %d (%s) was yielded with content cut short (%d of %d units) because the stream '
                            'ended inside it' % (i, g['section'], len(b[key]), len(a[key])))
            if 'metadata' in a and 'metadata' in b and same_opts:
                return ('short-read-accepted', 'record %d (%s): metadata read from a short read' % (i, g['section']))
        return ('truncation-altered-record', 'record %d differs from the intact file: %s vs %s'
                % (i, sl.record_sx(g)[:200], sl.record_sx(intact[i])[:200] if i < len(intact) else 'nothing'))
    return None


LOOKALIKE_PREFIXES = [b'\xef\xbb\xbf', b'\xff\xfe', b'\xfe\xff', b'\xff\xfe\x00\x00', b'\x00\x00\xfe\xff', b' ', b'\t', b'\r',
                      b'\x00', b'\x0c', b'\x0b', b'\xa0', b'\xc2\xa0', b'\xe2\x80\x8b', b'\x1b', b'\x7f', b'>', b'+', b'-', b'\\', b'##']


class Truncate(Family):
    name = 'truncate'
    rule = ('well-formed files x every truncation point 0..len, and every content section length perturbed by '
            '+-1..3, 0, -1, abc, 1_0, 2^70; content lines that are a header behind a non-grammar prefix, intact and with the '
            'length shortened to end right before them; writer files under every non-ASCII-transparent catalogue codec '
            '(escape characters before newlines) cut at every byte; shortened lengths must leave content that ends with '
            'its own newline or be rejected; non-trivial = the cut falls strictly inside the file / the perturbed '
            'length differs from the true one; distinct by resulting bytes')

    def cases(self, tier, rng, prop_id):
        nfiles = 12 if tier == 'quick' else 150
        limit = 500 if tier == 'quick' else 2500
        for i in range(nfiles):
            f = small_file(rng, limit)
            data = gf.render(f)
            for k in range(len(data) + 1):
                yield dict(kind='cut', file=f, cut=k)
            for si, s in enumerate(f['sections']):
                if s['content'] is None:
                    continue
                true = len(bytes.fromhex(s['content']))
                for v in [str(true + d) for d in (-3, -2, -1, 1, 2, 3)] + ['0', '-1', 'abc', '1_0', str(2 ** 70),
                                                                          str(true + 10 ** 6)]:
                    yield dict(kind='length', file=f, at=si, value=v)
            # text sections under stateful codecs (the model discards them; the prefix oracle runs on the implementation):
            # every cut point, including right after a shift sequence
            if i < 4:
                codec, text = [('utf-7', 'Summary\n\u00e9t\u00e9 2021\nlast\n'), ('iso2022_jp', 'Summary\n\u3042\u3044\u3046\nlast\n'),
                               ('hz', 'Summary\n\u4f60\u597d\nlast\n'), ('iso2022_kr', 'Summary\n\ud55c\uae00\nlast\n')][i]
                try:
                    body = text.encode(codec)
                except (LookupError, UnicodeError):
                    body = None
                if body:
                    sf = dict(crlf=False, trailing=[], sections=[
                        dict(id='diffx', opts=[['version', '1.0'], ['encoding', 'utf-8']], blank=[], content=None, expect={}, enc=None, ast=None),
                        dict(id='.preamble', opts=[['encoding', codec], ['length', str(len(body))]], blank=[], content=body.hex(),
                             expect=dict(text=text), enc=codec, ast=None),
                        dict(id='.change', opts=[], blank=[], content=None, expect={}, enc=None, ast=None),
                        dict(id='..file', opts=[], blank=[], content=None, expect={}, enc=None, ast=None),
                        dict(id='...meta', opts=[['length', '3']], blank=[], content=b'{}\n'.hex(), expect=dict(metadata={}), enc='utf-8', ast=None)])
                    for k in range(len(gf.render(sf)) + 1):
                        yield dict(kind='cut', file=sf, cut=k)
            # text sections under every codec of the catalogue that is not ASCII-transparent (escape characters, shift
            # sequences, multi-byte units), written by the library itself from a text full of that codec's escape characters
            # in front of newlines, and two hand-made contents (hz line continuation); cut at EVERY byte
            if i == 0:
                probe = 'Moved C:\\new ~\n~{ +AGE- \\n\n\\\n~\nlast ~\n'
                raws = []
                for codec in catalogue_text_codecs():
                    if _can(PRINTABLE, codec) and PRINTABLE.encode(codec) == PRINTABLE.encode('ascii') and codec not in ('utf_7', 'hz', 'unicode_escape'):
                        continue
                    t = ''.join(ch for ch in probe if _can(ch, codec))
                    for ind in ('omitted', {'i': 0}):
                        wobs, wdata, per = sl.run_writer(sl.S('utf-8'), sl.S('1.0'), [
                            ['write_preamble', sl.S(t), sl.S(codec), ind, None, None], ['new_change', None], ['new_file', None],
                            ['write_meta', {'d': {'k': 1}}, None, 'omitted']])
                        if wdata is not None and all(p_[0] for p_ in per):
                            raws.append(wdata)
                for body in (b'ab~\ncd\n', b'ab~\n~\ncd\n'):
                    raws.append(b'#diffx: version=1.0, encoding=utf-8\n#.preamble: encoding=hz, indent=0, length=%d\n' % len(body) + body +
                                b'#.change:\n#..file:\n#...meta: length=3\n{}\n')
                for wdata in raws:
                    lo = wdata.index(b'\n', wdata.index(b'#.preamble')) + 1
                    hi = wdata.index(b'#.change')
                    for k in range(lo, hi + 2):
                        yield dict(kind='cutraw', data=wdata.hex(), cut=k)
            # content with a line that is a valid next header behind a prefix the grammar does not allow (byte order marks
            # of every Unicode codec, white space, NUL, ...): the intact file reads as written, and the same file with the
            # declared length SHORTENED so that the content ends right before that line has a non-header line in header
            # position (rejected, nothing more yielded)
            if i == 0:
                for pre in LOOKALIKE_PREFIXES:
                    for hdr in (b'#.change:', b'#.meta: format=json, length=3', b'#.preamble: length=2', b'#diffx: version=1.0'):
                        first = b'Summary line\n'
                        body = first + pre + hdr + b'\n{}\nx\n#..file:\n#...meta: length=3\n{}\n'
                        lf = dict(crlf=False, trailing=[], sections=[
                            dict(id='diffx', opts=[['version', '1.0'], ['encoding', 'latin-1']], blank=[], content=None, expect={}, enc=None, ast=None),
                            dict(id='.preamble', opts=[['length', str(len(body))], ['indent', '0']], blank=[], content=body.hex(),
                                 expect=dict(text=body.decode('latin-1')), enc='latin-1', ast=None),
                            dict(id='.change', opts=[], blank=[], content=None, expect={}, enc=None, ast=None),
                            dict(id='..file', opts=[], blank=[], content=None, expect={}, enc=None, ast=None),
                            dict(id='...meta', opts=[['length', '3']], blank=[], content=b'{}\n'.hex(), expect=dict(metadata={}), enc='utf-8', ast=None)])
                        yield dict(kind='frame', file=lf)
                        yield dict(kind='land', file=lf, at=1, value=str(len(first)), first=first.decode(), line=(pre + hdr).hex())
            # framing of LARGE content (sizes around the usual buffer sizes and around every size harvested from the code
            # under test): exactly `length` bytes, then the next header
            import sizes
            harvested = sorted(sizes.harvested_sizes(lo=4096, hi=2 * 1024 * 1024), reverse=True)
            big_sizes = [c0 + 5 for c0 in harvested] + [8191, 8192, 8193, 65537] + [c0 + d for c0 in harvested for d in (-1, 1)]
            if i < len(big_sizes):
                n = big_sizes[i]
                body = (b'a' * 70 + b'\n') * (n // 71) + b'b' * (n - 71 * (n // 71) - 1) + b'\n'
                big = dict(crlf=False, trailing=[], sections=[
                    dict(id='diffx', opts=[['version', '1.0'], ['encoding', 'utf-8']], blank=[], content=None, expect={}, enc=None, ast=None),
                    dict(id='.preamble', opts=[['length', str(len(body))], ['indent', '0']], blank=[], content=body.hex(),
                         expect=dict(text=body.decode('ascii')), enc='utf-8', ast=None),
                    dict(id='.change', opts=[], blank=[], content=None, expect={}, enc=None, ast=None),
                    dict(id='..file', opts=[], blank=[], content=None, expect={}, enc=None, ast=None),
                    dict(id='...meta', opts=[['length', '3']], blank=[], content=b'{}\n'.hex(), expect=dict(metadata={}), enc='utf-8', ast=None)])
                yield dict(kind='frame', file=big)
                data_big = gf.render(big)
                hdr_end = data_big.index(b'\n', data_big.index(b'#.preamble')) + 1
                for k in (hdr_end, hdr_end + 1, hdr_end + 71, hdr_end + len(body) - 1, hdr_end + len(body), hdr_end + len(body) + 1,
                          hdr_end + 8192, hdr_end + 8191):
                    if k <= len(data_big):
                        yield dict(kind='cut', file=big, cut=k)
            # framing at block boundaries: a content header padded (with an unknown option) so that its line ends
            # just before / at / after a 96-byte read-ahead block; the content must still be exactly `length` bytes
            cands = [si for si, s in enumerate(f['sections']) if s['content'] is not None]
            if cands:
                si = cands[i % len(cands)]
                base = len(gf.render_header(f['sections'][si]['id'], f['sections'][si]['opts'] + [['pad', 'x']], f['crlf']))
                for target in (94, 95, 96, 97, 190, 191, 192, 193):
                    k = target - base + 1
                    if k >= 1:
                        g = json.loads(json.dumps(f))
                        g['sections'][si]['opts'].append(['pad', 'x' * k])
                        yield dict(kind='frame', file=g)

    def _data(self, c):
        if c['kind'] == 'frame':
            return gf.render(c['file'])
        if c['kind'] == 'cut':
            return gf.render(c['file'])[:c['cut']]
        if c['kind'] == 'cutraw':
            return bytes.fromhex(c['data'])[:c['cut']]
        g = json.loads(json.dumps(c['file']))
        for o in g['sections'][c['at']]['opts']:
            if o[0] == 'length':
                o[1] = c['value']
        return gf.render(g)

    def _impl(self, c):
        if '_impl' not in c:
            data = self._data(c)
            c['_impl'] = (data,) + sl.run_reader(data)
        return c['_impl']

    def model_line(self, c):
        data, robs, records, term, orc = self._impl(c)
        if len(data) > 300000:
            return None         # very large files: the framing oracle alone (the specification's reading of the same file)
        return sl.read_model_line(data, orc)

    def impl_obs(self, c):
        return self._impl(c)[1]

    def normalize_model(self, line):
        return sl.collapse_exc(line)

    def key(self, c):
        return self._data(c).hex()

    def bucket(self, c):
        return c['kind']

    def nontrivial(self, c):
        if c['kind'] == 'cut':
            return 0 < c['cut'] < len(gf.render(c['file']))
        if c['kind'] == 'cutraw':
            return 0 < c['cut'] < len(c['data']) // 2
        return True

    def describe(self, c):
        d = {k: v for k, v in c.items() if not k.startswith('_')}
        d['data_hex'] = self._data(c).hex()
        return d

    _intact_cache = {}
    _raw_cache = {}

    def _intact(self, f):
        key = id(f)
        if key not in self._intact_cache:
            data = gf.render(f)
            self._intact_cache[key] = (f, sl.run_reader(data)[1])
        return self._intact_cache[key][1]

    def oracle(self, c, obs):
        data, robs, records, term, orc = self._impl(c)
        out = []
        if term[0] == 'exc':
            out.append(('C07', 'other-exception', 'reader raised %s' % term[1]))
            return out
        if c['kind'] == 'frame':
            exp = gf.expected(c['file'])
            if term[0] != 'end':
                out.append(('C07', 'framing-differs', 'a well-formed file whose content header ends near a block boundary '
                            'ended with %r' % (term[:2],)))
            else:
                d = compare_foreign(exp, records)
                if d:
                    out.append(('C07', 'framing-differs', d))
            return out
        if c['kind'] == 'land':
            si, line = c['at'], bytes.fromhex(c['line'])
            if spec_parse_header(line) is not None:
                return out          # control: the line IS a header; whether it may follow is another property's business
            ok = (term[0] == 'parse' and len(records) == si + 1 and records[si].get('text') == c['first'])
            if not ok:
                out.append(('C07', 'non-header-line-accepted',
                            'content declared as %s bytes is followed by the line %r, which is not a header: got %d records '
                            'then %r (expected %d records, the last with text %r, then a parse error)'
                            % (c['value'], line, len(records), term[:2], si + 1, c['first'])))
            return out
        if c['kind'] == 'cutraw':
            full = bytes.fromhex(c['data'])
            if c['data'] not in self._raw_cache:
                self._raw_cache.clear()
                self._raw_cache[c['data']] = sl.run_reader(full)[1]
            r = classify_c07(self._raw_cache[c['data']], records, exhausted=True, tail=data[-4:])
            if r:
                out.append(('C07', r[0], 'file cut at byte %d of %d: %s' % (c['cut'], len(full), r[1])))
            return out
        intact = self._intact(c['file'])
        if c['kind'] == 'cut':
            r = classify_c07(intact, records, exhausted=True, tail=data[-4:])
            if r:
                out.append(('C07', r[0], 'file cut at byte %d of %d: %s' % (c['cut'], len(gf.render(c['file'])), r[1])))
        else:
            # which section of the intact record list is perturbed
            si = c['at']
            v = c['value']
            true = len(bytes.fromhex(c['file']['sections'][si]['content']))
            after = sum(len(bytes.fromhex(s['content'])) if s['content'] else 0 for s in c['file']['sections'][si:]) + 10 ** 5
            try:
                n = int(v) if __import__('re').fullmatch(r'-?[0-9]+', v) else None
            except ValueError:
                n = None
            constrained = n is None or n < 0 or n > self._bytes_after_header(c['file'], si)
            sec = c['file']['sections'][si]
            if n is not None and 0 < n < true and not sec['id'].endswith('meta'):
                # a SHORTER declared length is another file: its content is the first n bytes, whose line ending is the declared
                # one or the one detected on its first line; if these bytes do not end with that newline the section is not
                # well-formed and must be rejected (single-byte newlines only: no alignment question)
                try:
                    enc = sec.get('enc')
                    body = bytes.fromhex(sec['content'])[:n]
                    if gc.bomfree_newline('unix', enc) == b'\n':
                        le = next((o[1] for o in sec['opts'] if o[0] == 'line_endings'), None)
                        kind = le if le in ('unix', 'dos') else gc.detect_kind_bytes(body, enc)
                        if not body.endswith(gc.bomfree_newline(kind, enc)) and (term[0] != 'parse' or len(records) != si):
                            out.append(('C07', 'shortened-content-without-final-newline-accepted',
                                        'length=%s (true %d) at section %d (%s): the %d bytes end with %r, not with the %s newline, and '
                                        'the reader gave %d records then %r' % (v, true, si, sec['id'], n, body[-3:], kind, len(records), term[:2])))
                except (LookupError, ValueError):
                    pass
            if constrained:
                # records before the perturbed section unchanged; the perturbed one must not be yielded altered
                if [sl.record_sx(x) for x in records[:si]] != [sl.record_sx(x) for x in intact[:len(records[:si])]]:
                    out.append(('C07', 'bad-length-altered-earlier-record', 'length=%s at section %d' % (v, si)))
                elif len(records) > si:
                    a, b = intact[si], records[si]
                    same = all(a.get(k) == b.get(k) for k in ('text', 'metadata', 'diff'))
                    if not same:
                        # the known short read yields a non-empty, newline-terminated part of the content; a section
                        # yielded with NO content at all is not that finding
                        nonempty = any(b.get(k) for k in ('text', 'metadata', 'diff'))
                        exceeds = n is not None and n > 0 and nonempty and ends_with_own_newline(b)
                        out.append(('C07', 'short-read-accepted' if exceeds else 'bad-length-accepted',
                                    'length=%s (true %d) at section %d (%s): the section was yielded with different '
                                    'content' % (v, true, si, b['section'])))
        return out

    def _bytes_after_header(self, f, si):
        n = 0
        for j, s in enumerate(f['sections']):
            if j < si:
                continue
            if j > si:
                n += sum(len(bytes.fromhex(b)) for b in s['blank'])
                n += len(gf.render_header(s['id'], s['opts'], f['crlf']))
            if s['content']:
                n += len(bytes.fromhex(s['content']))
        n += sum(len(bytes.fromhex(b)) for b in f.get('trailing', []))
        return n


# ------------------------------------------------------------------ section order (C10)
NAMES6 = ['diffx', 'preamble', 'meta', 'change', 'file', 'diff']
IDS24 = ['.' * lvl + n for lvl in range(4) for n in NAMES6]


def render_id(sid, body=None):
    """A header (with the minimal valid options and content for its kind) for any of the 24 syntactic ids."""
    name = sid.lstrip('.')
    if body is not None and name in ('preamble', 'meta', 'diff'):
        b = body.encode('utf-8')
        return ('#%s: %slength=%d\n' % (sid, 'format=json, ' if name == 'meta' else '', len(b))).encode() + b
    if name == 'diffx':
        return ('#%s: encoding=utf-8, version=1.0\n' % sid).encode()
    if name == 'preamble':
        return ('#%s: length=2\nx\n' % sid).encode()
    if name == 'meta':
        return ('#%s: format=json, length=9\n{"a": 1}\n' % sid).encode()
    if name == 'diff':
        return ('#%s: length=2\nx\n' % sid).encode()
    return ('#%s:\n' % sid).encode()


BLANKS = ['\n', '\n\n', '  \n', '\t\n\n', '\r\n']


gen_doc_meta = gc.gen_doc_meta


def hash_ids(seq):
    import zlib
    return zlib.crc32('|'.join(seq).encode())


class Order(Family):
    name = 'order'
    rule = ('every sequence over the 24 syntactic section ids (9 legal + 15 well-formed but illegal level/name '
            'combinations) up to a bounded length, each rendered with minimal valid options/content; plus headers the '
            'grammar rejects; every sequence again with tolerated blank lines before the last (or every) header; '
            'histories of 2-4 files read one after the other in one process (the verdict on the last one is compared); '
            'walks rendered with spec-documented metadata and declared counts that agree / disagree with the real ones; '
            'other stream kinds (buffered, real file, document starting inside the stream); '
            'non-trivial = length >= 2; distinct by id sequence, blank-line pattern and history')

    def cases(self, tier, rng, prop_id):
        import itertools
        maxlen = 3 if tier == 'quick' else 4
        for n in range(1, maxlen + 1):
            if n <= 3:
                for seq in itertools.product(IDS24, repeat=n):
                    yield dict(kind='exh%d' % n, ids=list(seq))
                    if n >= 2:
                        # the same sequence with tolerated blank lines before the last header (and, for one variant,
                        # before every header): blank lines must not change which order is accepted
                        bl = BLANKS[(hash_ids(seq)) % len(BLANKS)]
                        yield dict(kind='exh%d-blank-last' % n, ids=list(seq), blanks=[''] * (n - 1) + [bl])
                        if n == 2 or hash_ids(seq) % 4 == 0:
                            yield dict(kind='exh%d-blank-all' % n, ids=list(seq), blanks=[''] + [bl] * (n - 1))
            else:
                # length 4: all sequences whose first three ids are accepted (the others are decided by a prefix)
                import spec
                for seq in itertools.product(spec.NINE, repeat=3):
                    if seq[0] == 'diffx' and spec.may_follow(seq[0], seq[1]) and spec.may_follow(seq[1], seq[2]):
                        for last in IDS24:
                            yield dict(kind='exh4', ids=list(seq) + [last])
        import spec
        for i in range(200 if tier == 'quick' else 5000):
            # random long legal walks with one random id at the end
            seq = ['diffx']
            for _ in range(rng.randint(3, 12)):
                seq.append(rng.choice(spec.MAY_FOLLOW[seq[-1]]))
            seq.append(rng.choice(IDS24))
            yield dict(kind='walk', ids=seq)
            yield dict(kind='walk-blank', ids=seq,
                       blanks=[''] + [rng.choice(BLANKS) if rng.random() < 0.5 else '' for _ in seq[1:]])
            # the same walk with realistic content: metadata using the keys the specification documents (statistics with
            # counts that agree, disagree or are zero, paths, revisions, operations), preambles and diffs that mention
            # sections: what a section CONTAINS never decides which section may follow
            bodies = []
            for sid in seq:
                nm = sid.lstrip('.')
                if nm == 'meta':
                    bodies.append(json.dumps(gen_doc_meta(rng), sort_keys=True) + '\n')
                elif nm in ('preamble', 'diff'):
                    bodies.append(rng.choice(['1 file, 2 changes\n', 'files: 0\n', '--- a\n+++ b\n@@ -1 +1 @@\n-x\n+y\n', '{"stats": {"files": 0}}\n',
                                              'version=1.0, encoding=utf-8\n', 'x\n',
                                              # content that is nothing but line breaks / white space (what separates headers)
                                              '\n', '\n\n', '\n\n\n\n', ' \n', '\t\n \n']))
                else:
                    bodies.append(None)
            yield dict(kind='walk-content', ids=seq, bodies=bodies)
        for nfiles in (0, 1, 2, 3):
            for nchanges in (0, 1, 2):
                # declared counts of every size against 1-3 real changes of 1-3 files, with and without metadata on the later ones
                for real_c in (1, 2, 3):
                    for real_f in (1, 2, 3):
                        st = json.dumps({'stats': {'changes': nchanges, 'files': nfiles, 'insertions': nfiles, 'deletions': 0,
                                                   'lines changed': nfiles}}, sort_keys=True) + '\n'
                        for where in ('main', 'first-change', 'every-change', 'file'):
                            seq, bodies = ['diffx'], [None]
                            if where == 'main':
                                seq.append('.meta'); bodies.append(st)
                            for ci in range(real_c):
                                seq.append('.change'); bodies.append(None)
                                if where == 'every-change' or (where == 'first-change' and ci == 0):
                                    seq.append('..meta'); bodies.append(st)
                                for fi in range(real_f):
                                    seq.append('..file'); bodies.append(None)
                                    seq.append('...meta'); bodies.append(st if where == 'file' and fi == 0 else None)
                            yield dict(kind='declared-counts', ids=seq, bodies=bodies)
        for h in ['#....meta: length=2\nx\n', '#.Change:\n', '#.change\n', '.change:\n', '#.changes:\n', '# .change:\n']:
            yield dict(kind='bad-header', ids=['diffx'], extra=h)
        # header lines whose total length sits at / around the sizes harvested from the code under test (and one read-ahead
        # block more): the order check must not depend on how long the header is
        import sizes
        targets = sorted({t0 + d for c0 in sizes.harvested_sizes(lo=64, hi=70000) for t0 in (c0, c0 + 96) for d in (-1, 0, 1)})
        for t0 in targets:
            for _ in range(2):
                seq = ['diffx']
                for _ in range(rng.randint(0, 3)):
                    seq.append(rng.choice(spec.MAY_FOLLOW[seq[-1]]))
                seq.append(rng.choice(IDS24) if rng.random() < 0.6 else rng.choice(spec.MAY_FOLLOW[seq[-1]]))
                yield dict(kind='long-header', ids=seq, pad_last=t0)
                yield dict(kind='long-header', ids=seq + [rng.choice(IDS24)], pad_last=t0)
        # other stream kinds (BufferedReader, real file): the last header starting just before / at the stream's buffer edge
        import io as _io
        for wrap in ('buffered', 'file'):
            for k in (1, 2, 9, 10, 40, 95, 96, 0):
                for _ in range(2):
                    seq = ['diffx']
                    for _ in range(rng.randint(1, 3)):
                        seq.append(rng.choice(spec.MAY_FOLLOW[seq[-1]]))
                    seq.append(rng.choice(IDS24))
                    yield dict(kind='stream-kind', ids=seq, shift_to=_io.DEFAULT_BUFFER_SIZE - k, wrap=wrap)
                    yield dict(kind='stream-kind', ids=seq, shift_to=2 * _io.DEFAULT_BUFFER_SIZE - k, wrap=wrap)
        # the document starts somewhere inside the stream (after a copy of itself, after unrelated bytes)
        for wrap in ('offset', 'offset-junk'):
            for _ in range(40 if tier == 'quick' else 800):
                seq = ['diffx']
                for _ in range(rng.randint(1, 6)):
                    seq.append(rng.choice(spec.MAY_FOLLOW[seq[-1]]))
                if rng.random() < 0.6:
                    seq.append(rng.choice(IDS24))
                yield dict(kind='stream-kind', ids=seq, wrap=wrap)
        # histories: several files read one after the other IN ONE PROCESS (the case carries the whole history, so a replay
        # reproduces it): what an earlier file made the reader do must not change the verdict on a later one
        for i in range(150 if tier == 'quick' else 3000):
            hist = []
            for _ in range(rng.randint(2, 4)):
                seq = ['diffx']
                for _ in range(rng.randint(1, 8)):
                    seq.append(rng.choice(spec.MAY_FOLLOW[seq[-1]]))
                if rng.random() < 0.6:
                    seq.append(rng.choice(IDS24))
                hist.append(seq)
            yield dict(kind='history', ids=hist[-1], history=hist)

    def _data(self, c):
        blanks = c.get('blanks') or [''] * len(c['ids'])
        bodies = c.get('bodies') or [None] * len(c['ids'])
        parts = [b.encode() + render_id(s, body) for b, s, body in zip(blanks, c['ids'], bodies)]
        if c.get('pad_last') and parts:
            # the last header line padded with an unknown option to an exact total length (newline included)
            last = parts[-1]
            i = last.index(b'\n')
            line = last[:i]
            sep = b', pad=' if b'=' in line else b' pad='
            k = c['pad_last'] - (len(line) + len(sep) + 1)
            if k >= 1:
                parts[-1] = line + sep + b'p' * k + last[i:]
        if c.get('shift_to') and len(parts) >= 2:
            # the FIRST header padded so that the last header starts at an exact file offset
            base = sum(len(x) for x in parts[:-1])
            need = c['shift_to'] - base
            i = parts[0].index(b'\n')
            if need >= 7:
                parts[0] = parts[0][:i] + b', pad=' + b'p' * (need - 6) + parts[0][i:]
        return b''.join(parts) + c.get('extra', '').encode()

    def _impl(self, c):
        if '_impl' not in c and c.get('wrap'):
            data = self._data(c)
            c['_impl'] = (data,) + sl.run_reader(data, wrap=c['wrap'])
        if '_impl' not in c:
            if c['kind'] == 'history':
                # all but the last file are read first, in this same process; the observation is the last file's
                for seq in c['history'][:-1]:
                    sl.run_reader(self._data(dict(ids=seq)))
            data = self._data(c)
            c['_impl'] = (data,) + sl.run_reader(data)
        return c['_impl']

    def model_line(self, c):
        data, robs, records, term, orc = self._impl(c)
        return sl.read_model_line(data, orc)

    def impl_obs(self, c):
        return self._impl(c)[1]

    def normalize_model(self, line):
        return sl.collapse_exc(line)

    def key(self, c):
        return json.dumps([c['kind'], c.get('history') or c['ids'], c.get('blanks'), c.get('extra'), c.get('pad_last'), c.get('shift_to'), c.get('wrap'),
                           c.get('bodies')])

    def nontrivial(self, c):
        return len(c['ids']) >= 2

    def bucket(self, c):
        return c['kind']

    def oracle(self, c, obs):
        import spec
        data, robs, records, term, orc = self._impl(c)
        ids = c['ids']
        # spec: first index that may not follow its predecessor (index 0 must be diffx)
        rej = None
        for i, s in enumerate(ids):
            ok = (s == 'diffx') if i == 0 else spec.may_follow(ids[i - 1], s)
            if not ok:
                rej = i
                break
        if 'extra' in c and rej is None:
            rej = len(ids)
        got = len(records)
        out = []
        if term[0] == 'exc':
            return [('C10', 'other-exception', 'reader raised %s' % term[1])]
        if rej is None:
            if term[0] != 'end' or got != len(ids):
                out.append(('C10', 'legal-order-rejected', 'legal sequence %r: %d records then %r' % (ids, got, term[:2])))
        else:
            if term[0] != 'parse' or got != rej:
                out.append(('C10', 'first-rejected-index', 'sequence %r: spec rejects index %d, reader yielded %d '
                            'records then %r' % (ids, rej, got, term[:2])))
        for r in records:
            if r['section'] not in spec.NINE:
                out.append(('C10', 'illegal-id-accepted', 'accepted id %r' % r['section']))
        return out


# ------------------------------------------------------------------ header grammar (C11)
import re as _re
SPEC_HEADER_RE = _re.compile(
    rb'#(\.{0,3})(diffx|preamble|meta|change|file|diff):'
    rb'(?: ([A-Za-z][A-Za-z0-9_-]*=[A-Za-z0-9/._-]+(?:, [A-Za-z][A-Za-z0-9_-]*=[A-Za-z0-9/._-]+)*))?')
SPEC_INT_RE = _re.compile(rb'-?[0-9]+')
ALPHABET16 = [b'a', b'Z', b'0', b'_', b'-', b'.', b'/', b'=', b',', b' ', b'\t', b'#', b':', b'+', b'\xc3', b'9']


def spec_parse_header(line):
    """The property's grammar: None if the line is not a header, else (id, options dict with ints converted)."""
    m = SPEC_HEADER_RE.fullmatch(line)
    if not m:
        return None
    opts = {}
    if m.group(3):
        for pair in m.group(3).split(b', '):
            k, v = pair.split(b'=', 1)
            if SPEC_INT_RE.fullmatch(v) and len(v.lstrip(b'-')) <= 4300:
                opts[k.decode()] = int(v)
            else:
                opts[k.decode()] = v.decode()
    return (m.group(1) + m.group(2)).decode(), opts


def re_key(b):
    import re as _r
    return _r.fullmatch(rb'[A-Za-z][A-Za-z0-9_-]*', b) is not None


_CONFUSABLES = None


def ascii_confusables(rng, n_other):
    global _CONFUSABLES
    import sys
    import unicodedata
    if _CONFUSABLES is None:
        ci = _re.compile('[a-z0-9]', _re.I)
        out, other = [], []
        for cp in range(128, sys.maxunicode + 1):
            if 0xd800 <= cp <= 0xdfff:
                continue
            ch = chr(cp)
            forms = [ch.lower(), ch.upper(), ch.casefold(), unicodedata.normalize('NFKC', ch), unicodedata.normalize('NFKD', ch)]
            if ci.fullmatch(ch) or ch.isdigit() or any(f != ch and f and all(ord(x) < 128 for x in f) for f in forms):
                out.append(ch)
            elif ch.isalnum():
                other.append(ch)
        _CONFUSABLES = (out, other)
    out, other = _CONFUSABLES
    return out + rng.sample(other, min(n_other, len(other)))


class HeaderFam(Family):
    name = 'header'
    rule = ('header lines "#.change: <s>" and "#.change: k=v, <s>" for every option string s over a 16-symbol alphabet '
            '(letters, digits, each punctuation character of the grammar, space, tab, #, :, +, a non-ASCII byte) up to '
            'a bounded length (exhaustive), structural variants of the "#..name:" part, random longer strings, every non-ASCII '
            'character that Unicode case folding / normalisation / digit classes equate with an ASCII one, valid and '
            'one-junk-byte lines placed across the buffer edge of a BufferedReader / real file; each '
            'placed after a valid main header; non-trivial = the string contains "="; distinct by line')

    PREFIX = b'#diffx: version=1.0\n'

    def cases(self, tier, rng, prop_id):
        import itertools
        maxlen = 3 if tier == 'quick' else 4
        for n in range(0, maxlen + 1):
            for tup in itertools.product(ALPHABET16, repeat=n):
                s = b''.join(tup)
                yield dict(kind='exh%d' % n, line=hx(b'#.change: ' + s))
                if n <= (2 if tier == 'quick' else 3):
                    yield dict(kind='cont%d' % n, line=hx(b'#.change: k=v, ' + s))
                    yield dict(kind='kv%d' % n, line=hx(b'#.change: a' + s + b'=b' + s))
        # the same in a file whose headers end in CRLF (the first header fixes the file's newline style), with CR in
        # the alphabet: a stray CR before the CRLF is not part of the grammar
        for n in range(0, (2 if tier == 'quick' else 3) + 1):
            for tup in itertools.product(ALPHABET16 + [b'\r'], repeat=n):
                s = b''.join(tup)
                yield dict(kind='crlf%d' % n, line=hx(b'#.change: ' + s), crlf=True)
                yield dict(kind='crlf-kv%d' % n, line=hx(b'#.change: a=b' + s), crlf=True)
        for tail in [b'', b'\r', b'\r\r', b' ', b'\t', b'\r ', b' \r']:
            for base in [b'#.change:', b'#.change: a=b', b'#.change: a=b, c=1']:
                yield dict(kind='crlf-tail', line=hx(base + tail), crlf=True)
                yield dict(kind='lf-tail', line=hx(base + tail))
        for dots in range(0, 5):
            for name in [b'diffx', b'preamble', b'meta', b'change', b'file', b'diff', b'Change', b'changes', b'', b'chang']:
                for tail in [b':', b'', b'::', b': ', b':  a=b', b': a=b', b':a=b', b':\t', b': a=b ', b' :', b': a=b,c=d',
                             b': a=b, c=d', b': a=b,  c=d', b': a=b , c=d', b': a = b', b': =b', b': a=', b': a==b']:
                    yield dict(kind='structure', line=hx(b'#' + b'.' * dots + name + tail))
        for pre in [b' #.change:', b'.change:', b'##.change:', b'#.change:\r', b'#\xc3.change:', b'#.change: a=b\x00']:
            yield dict(kind='structure', line=hx(pre))
        keych = b'aZ09_-'
        valch = b'aZ09_-./'
        junk = b' \t,=#:+\xc3\x00\x7f'
        for i in range(800 if tier == 'quick' else 20000):
            pairs = []
            for _ in range(rng.randint(1, 4)):
                k = bytes(rng.choice(keych) for _ in range(rng.randint(1, 4)))
                v = bytes(rng.choice(valch) for _ in range(rng.randint(1, 5)))
                if rng.random() < 0.3:
                    v = rng.choice([b'0', b'-1', b'007', b'12', b'-', b'1-2', b'1_0', b'9' * 20, b'--1', b'1.0'])
                p = k + b'=' + v
                if rng.random() < 0.15:
                    j = rng.randrange(len(p) + 1)
                    p = p[:j] + bytes([rng.choice(junk)]) + p[j:]
                pairs.append(p)
            sep = b', ' if rng.random() < 0.9 else rng.choice([b',', b',  ', b' ,', b' '])
            yield dict(kind='random', line=hx(b'#.change: ' + sep.join(pairs)))
        for n in (4299, 4300, 4301):
            for pre in (b'', b'-', b'000'):
                yield dict(kind='bigint', line=hx(b'#.change: a=' + pre + b'9' * n))
        # size boundaries: very long keys, values and option lists (a header line longer than any buffer)
        for n in (95, 96, 97, 4095, 4096, 8191, 8192, 8193, 65536):
            yield dict(kind='long', line=hx(b'#.change: k=' + b'v' * n))
            yield dict(kind='long', line=hx(b'#.change: ' + b'k' * n + b'=v'))
            yield dict(kind='long', line=hx(b'#.change: k=' + b'v' * n + b'+'))
            yield dict(kind='long', line=hx(b'#.change: ' + b', '.join(b'k%d=%d' % (j, j) for j in range(n // 8 + 1))))
            yield dict(kind='long', line=hx(b'#.change: k=1' + b' ' * n))
        # a header whose key / value is a token that an EARLIER header of the same type used in the other role
        for tok in (b'7', b'1.0', b'/x', b'_a', b'-', b'a/b', b'007', b'x'):
            for other in (b'v', b'1'):
                yield dict(kind='two-headers', prelude=hx(b'#.change: rev=' + tok), line=hx(b'#.change: ' + tok + b'=' + other))
                yield dict(kind='two-headers', prelude=hx(b'#.change: ' + (tok if re_key(tok) else b'k') + b'=' + other),
                           line=hx(b'#.change: ' + other + b'=' + tok))
                yield dict(kind='two-headers', prelude=hx(b'#.change: rev=' + tok), line=hx(b'#.change: rev=' + tok + b', ' + tok + b'=' + tok))
        # repeated keys: EVERY pair must match the grammar, not only the one whose value survives (last one wins)
        bads = [b'+', b'a:b', b'a=b', b'#', b'\xc3\xa9', b'a+b', b'1:0']
        goods = [b'v', b'1', b'a/b']
        for bad in bads:
            for good in goods:
                for key in (b'k', b'version', b'encoding'):
                    yield dict(kind='dup-key', line=hx(b'#.change: ' + key + b'=' + bad + b', ' + key + b'=' + good))
                    yield dict(kind='dup-key', line=hx(b'#.change: ' + key + b'=' + good + b', ' + key + b'=' + bad))
                    yield dict(kind='dup-key', line=hx(b'#.change: a=1, ' + key + b'=' + bad + b', b=2, ' + key + b'=' + good))
        for good in goods:
            yield dict(kind='dup-key', line=hx(b'#.change: k=' + good + b', k=' + good + b', k=7'))
        # other stream kinds (BufferedReader, real file): the header under test starts d bytes before the stream's buffer
        # edge (its newline lies beyond it); valid lines of many lengths, and the same with one junk byte somewhere
        import io as _io
        for wrap in ('buffered', 'file'):
            for _ in range(60 if tier == 'quick' else 1500):
                pairs = []
                for _ in range(rng.randint(1, 12)):
                    pairs.append(bytes(rng.choice(b'abcXYZ') for _ in range(rng.randint(1, 6))) + b'=' +
                                 bytes(rng.choice(valch) for _ in range(rng.randint(1, 12))))
                line = b'#.change: ' + b', '.join(pairs)
                d = rng.randint(1, min(95, len(line) - 1))
                edge = _io.DEFAULT_BUFFER_SIZE * rng.choice([1, 1, 2])
                yield dict(kind='stream-kind', line=hx(line), shift_to=edge - d, wrap=wrap)
                j = rng.randrange(10, len(line) + 1)
                bad = line[:j] + bytes([rng.choice(b'+ ;\xc3=,')]) * rng.choice([1, 1, 2, 30, 90]) + line[j:]
                yield dict(kind='stream-kind', line=hx(bad), shift_to=edge - rng.randint(1, 95), wrap=wrap)
        # every non-ASCII character that some Unicode-aware operation equates with an ASCII letter or digit (case folding,
        # case-insensitive matching, compatibility normalisation, decimal digits of other scripts, plus a sample of other
        # letters), UTF-8 encoded, as a key, inside a key, and as a value: the grammar is about ASCII bytes only
        for ch in ascii_confusables(rng, 150 if tier == 'quick' else 3000):
            b = ch.encode('utf-8')
            yield dict(kind='confusable', line=hx(b'#.change: ' + b + b'=1'))
            yield dict(kind='confusable', line=hx(b'#.change: a' + b + b'=1'))
            yield dict(kind='confusable', line=hx(b'#.change: k=' + b))
            yield dict(kind='confusable', line=hx(b'#.change: k=v' + b + b', x=1'))

    def _impl(self, c):
        if '_impl' not in c:
            if c.get('crlf'):
                data = self.PREFIX[:-1] + b'\r\n' + unhx(c['line']) + b'\r\n'
            else:
                # an optional earlier, valid header of the same type (with the sections that make the second one legal)
                pre = b''
                if c.get('prelude'):
                    pre = unhx(c['prelude']) + b'\n#..file:\n#...meta: length=3\n{}\n'
                prefix = self.PREFIX
                if c.get('shift_to'):
                    # the main header padded with an unknown option so that the line under test starts at an exact offset
                    k = c['shift_to'] - len(prefix) - len(pre) - len(b', pad=')
                    if k >= 1:
                        prefix = prefix[:-1] + b', pad=' + b'p' * k + b'\n'
                data = prefix + pre + unhx(c['line']) + b'\n'
            c['_impl'] = (data,) + sl.run_reader(data, wrap=c.get('wrap'))
        return c['_impl']

    def model_line(self, c):
        data, robs, records, term, orc = self._impl(c)
        return sl.read_model_line(data, orc)

    def impl_obs(self, c):
        return self._impl(c)[1]

    def normalize_model(self, line):
        return sl.collapse_exc(line)

    def nontrivial(self, c):
        return b'=' in unhx(c['line'])

    def bucket(self, c):
        return c['kind']

    def oracle(self, c, obs):
        data, robs, records, term, orc = self._impl(c)
        line = unhx(c['line'])
        if b'\n' in line:
            return []
        if term[0] == 'exc':
            return [('C11', 'other-exception', 'header %r raised %s' % (line, term[1]))]
        want = spec_parse_header(line)
        skip = 3 if c.get('prelude') else 0        # records of the earlier change, its file and metadata
        if skip:
            if len(records) < 1 + skip:
                return [('C11', 'valid-header-rejected', 'the earlier valid header %r was not read: %r' % (unhx(c['prelude']), term[:4]))]
            records = records[:1] + records[1 + skip:]
        accepted = len(records) == 2 and term[0] == 'end'
        if want is not None and want[0] == '.change':
            if not accepted:
                return [('C11', 'valid-header-rejected', 'header %r matches the grammar and was rejected: %r'
                         % (line, term[:4]))]
            got = records[1]['options']
            if got != want[1] or any(type(got[k]) is not type(want[1][k]) for k in got):
                return [('C11', 'options-not-verbatim', 'header %r: options %r, grammar says %r' % (line, got, want[1]))]
        else:
            if accepted or term[0] != 'parse' or len(records) != 1:
                return [('C11', 'invalid-header-accepted', 'line %r does not match the grammar (or is not ".change") '
                         'and gave %d records then %r' % (line, len(records), term[:2]))]
        return []


# ------------------------------------------------------------------ chunking (C17)
class Chunk(Family):
    name = 'chunk'
    rule = ('well-formed files whose first header is padded by p extra option bytes (p = 0..2*96, shifting every later '
            'header through every alignment) x read-ahead block sizes 1..2*96 and larger than the file: a seeded sample '
            'of the grid plus the diagonal in quick, the full grid in thorough; files incl. CRLF headers with CR-rich content '
            '(UTF-16 CRLF, lone CRs), a 400-byte line; non-trivial = block size != 96; '
            'distinct by (file, padding, block)')

    def cases(self, tier, rng, prop_id):
        nfiles = 2 if tier == 'quick' else 3
        files = []
        for i in range(nfiles):
            main, calls = gc.gen_wellformed_calls(rng, max_changes=2, max_files=2)
            wobs, data, per = sl.run_writer(sl.S(main), sl.S('1.0'), calls)
            files.append(data)
        # a file whose header lines end in CRLF (the delimiter the reader looks for is still LF, preceded by CR)
        for _ in range(200):
            f = gf.gen_file(rng)
            if f['crlf'] and len(gf.render(f)) < 1500:
                files.append(gf.render(f))
                break
        long_line = b'#diffx: version=1.0\n#.preamble: length=%d\n' % 401 + b'y' * 400 + b'\n#.change:\n#..file:\n#...meta: length=3\n{}\n'
        files.append(long_line)
        # CRLF header lines with content full of CR bytes that are NOT followed by LF (UTF-16 CRLF is 0D 00 0A 00; lone CRs)
        p16 = 'one\r\ntwo\r\n\r\nthree\r\n'.encode('utf-16-le')
        d16 = '-a\r\n+b\r\n c\r\n'.encode('utf-16-le')
        lone = b'a\rb\r\rc\r\n\rd\r\n'
        files.append(b'#diffx: version=1.0, encoding=utf-8\r\n#.preamble: encoding=utf-16-le, indent=0, length=%d, line_endings=dos\r\n' % len(p16) + p16 +
                     b'#.change:\r\n#..preamble: indent=0, length=%d, line_endings=dos\r\n' % len(lone) + lone +
                     b'#..file:\r\n#...meta: length=4, line_endings=dos\r\n{}\r\n#...diff: encoding=utf-16-le, length=%d, line_endings=dos\r\n' % len(d16) + d16)
        grid = []
        if tier == 'quick':
            for fi in range(len(files)):
                for d in range(0, 193, 3):
                    grid.append((fi, d, max(1, d)))
                for _ in range(150):
                    grid.append((fi, rng.randint(0, 192), rng.randint(1, 192)))
                for b in (1, 2, 95, 96, 97, 192, 100000):
                    grid.append((fi, rng.randint(0, 192), b))
        else:
            for fi in range(len(files)):
                for p in range(0, 193):
                    for b in list(range(1, 193)) + [100000]:
                        if fi == 0 or (p + b) % 7 == 0 or b in (1, 96, 100000):
                            grid.append((fi, p, b))
        # size boundaries: first headers thousands of bytes long (many read-ahead blocks), larger block sizes
        for fi in range(min(2, len(files))):
            for p in (8095, 8096, 8097, 8191, 8192, 8193, 65439, 65440, 65536):
                for b in (96, 97, 4096, 8192):
                    if tier != 'quick' or (p + b + fi) % 3 == 0:
                        grid.append((fi, p, b))
        for (fi, p, b) in grid:
            yield dict(kind='grid', data=hx(files[fi]), pad=p, block=b)
        # other kinds of byte stream (a BufferedReader, a real file): whatever the stream object offers (peek, readinto,
        # its own buffer of io.DEFAULT_BUFFER_SIZE bytes), the records are those of the in-memory reading; pads move the
        # following headers across the buffer edge
        import io as _io
        edge = _io.DEFAULT_BUFFER_SIZE
        for wrap in ('buffered', 'file'):
            for fi in range(min(2, len(files))):
                first = files[fi].index(b'\n') + 1
                for p in [edge - first - d for d in (0, 1, 2, 5, 30, 60, 95, 96, 97, 120)] + [2 * edge - first - 40, 5, 0]:
                    if p >= 5 or p == 0:
                        for b in ((96,) if tier == 'quick' else (96, 7, 4096)):
                            yield dict(kind='grid', data=hx(files[fi]), pad=p, block=b, wrap=wrap)

    def _data(self, c):
        data = unhx(c['data'])
        i = data.index(b'\n')
        if i > 0 and data[i - 1:i] == b'\r':
            i -= 1
        p = c['pad']
        if p == 0:
            return data
        if p < 5:
            return data        # too short to form ", x=a"
        return data[:i] + b', x=' + b'a' * (p - 4) + data[i:]

    def _impl(self, c):
        if '_impl' not in c:
            data = self._data(c)
            c['_impl'] = (data,) + sl.run_reader(data, chunk=c['block'], wrap=c.get('wrap'))
        return c['_impl']

    def model_line(self, c):
        data, robs, records, term, orc = self._impl(c)
        return sl.read_model_line(data, orc, chunk=c['block'])

    def impl_obs(self, c):
        return self._impl(c)[1]

    def normalize_model(self, line):
        return sl.collapse_exc(line)

    def nontrivial(self, c):
        return c['block'] != 96

    def bucket(self, c):
        return 'block<96' if c['block'] < 96 else ('block=96' if c['block'] == 96 else 'block>96')

    _ref = {}

    def oracle(self, c, obs):
        data, robs, records, term, orc = self._impl(c)
        key = c['data']
        if key not in self._ref:
            self._ref[key] = sl.run_reader(unhx(c['data']))
        ref_obs, ref_records, ref_term, _ = self._ref[key]
        if term != ref_term:
            return [('C17', 'chunking-changed-termination', 'pad=%d block=%d: %r vs %r' % (c['pad'], c['block'], term[:3], ref_term[:3]))]
        a = [dict(r, options={k: v for k, v in r['options'].items() if k != 'x'}) for r in records]
        if [sl.record_sx(x) for x in a] != [sl.record_sx(x) for x in ref_records]:
            return [('C17', 'chunking-changed-records', 'pad=%d block=%d: records differ from the unpadded, default-block reading' % (c['pad'], c['block']))]
        return []


# ------------------------------------------------------------------ nesting histories (C04)
MARK = ['utf-16-le', 'utf-32-be', 'latin-1']


PRINTABLE = ''.join(chr(i) for i in range(0x20, 0x7f))
_TEXT_CODECS = None


def _can(t, codec):
    try:
        return t.encode(codec).decode(codec) == t
    except Exception:
        return False


def catalogue_text_codecs():
    """Text codecs of the running interpreter that encode piecewise (encode(a + b) = encode(a) + encode(b) up to a
    signature) -- punycode and idna do not, and are not content encodings."""
    global _TEXT_CODECS
    if _TEXT_CODECS is None:
        import codecs
        import encodings.aliases
        out = []
        for n in sorted(set(encodings.aliases.aliases.values()) | {'utf_8_sig', 'unicode_escape'}):
            try:
                info = codecs.lookup(n)
            except LookupError:
                continue
            if not getattr(info, '_is_text_encoding', True) or n in ('punycode', 'idna', 'raw_unicode_escape'):
                continue
            if _can('ab\n', n) and _can('x', n):
                out.append(n)
        _TEXT_CODECS = out
    return _TEXT_CODECS


def coincident_pairs():
    """(X, Y, t1, t2): single-byte catalogue codecs and printable-ASCII texts t1 != t2 with t1.encode(X) == t2.encode(Y)."""
    cs = [c for c in catalogue_text_codecs() if _can(PRINTABLE, c) and len(PRINTABLE.encode(c)) == len(PRINTABLE)]
    out = []
    for X in cs:
        bx = PRINTABLE.encode(X)
        for Y in cs:
            if X == Y or '\n'.encode(X) != '\n'.encode(Y):
                continue
            try:
                t = bx.decode(Y)
            except UnicodeError:
                continue
            diff = [(a, b) for a, b in zip(PRINTABLE, t) if a != b and b in PRINTABLE and a not in '"\\' and b not in '"\\']
            if diff and all(a == b or (a, b) in diff for a, b in zip(PRINTABLE, t) if a in 'abnote{}:", \n'):
                t1 = 'x' + ''.join(a for a, b in diff) + 'y'
                t2 = 'x' + ''.join(b for a, b in diff) + 'y'
                out.append((X, Y, t1, t2))
    return out


class Nesting(Family):
    name = 'nesting'
    rule = ('every container history main -> (change|file)* up to a bounded number of transitions that the hierarchy '
            'allows, each container declaring no encoding or one of 3 marker codecs, each followed by a text section '
            '(with and without its own encoding) whose text encodes differently under every codec involved; plus every text '
            'codec of the interpreter catalogue declared on a change / file / section with an all-printable-ASCII text; '
            'sibling containers under codec pairs that give DIFFERENT texts IDENTICAL bytes (EBCDIC variants); '
            'non-trivial = at least one file -> change or sibling transition after a declaration; distinct by history')

    def cases(self, tier, rng, prop_id):
        import itertools
        maxt = 3 if tier == 'quick' else 4
        decls = [None] + MARK[:2] if tier == 'quick' else [None] + MARK
        text = '\xe9\xff\n'
        # texts whose bytes in an 8-bit codec spell another codec's byte order mark (EF BB BF, FF FE, FE FF): content,
        # never a signature; used for every other history
        bomlike = ['\xef\xbb\xbfRelease notes caf\xe9\n', '\xff\xfeab\n', '\xfe\xff\n', '\xef\xbb\xbf\n']

        def histories(n):
            # sequences of 'c' / 'f' where the first is 'c'
            for seq in itertools.product('cf', repeat=n):
                if seq and seq[0] == 'c':
                    yield seq
        for n in range(1, maxt + 1):
            for seq in histories(n):
                for ds in itertools.product(decls, repeat=n):
                    for own in ([None] if tier == 'quick' and n == maxt else [None, 'utf-32-le']):
                        calls = []
                        for kind, d in zip(seq, ds):
                            if kind == 'c':
                                # a change needs at least one file before the next change: add a minimal file if the
                                # previous container was a change
                                if calls and calls[-1][0] in ('new_change', 'write_preamble') and self._last_container(calls) == 'c':
                                    calls.append(['new_file', None])
                                    calls.append(['write_meta', {'d': {'t': text}}, None, 'omitted'])
                                calls.append(['new_change', sl.S(d) if d else None])
                                calls.append(['write_preamble', sl.S(text), sl.S(own) if own else None, 'omitted', None, None])
                            else:
                                calls.append(['new_file', sl.S(d) if d else None])
                                calls.append(['write_meta', {'d': {'t': text}}, sl.S(own) if own else None, 'omitted'])
                        if self._last_container(calls) == 'c':
                            calls.append(['new_file', None])
                            calls.append(['write_meta', {'d': {'t': text}}, None, 'omitted'])
                        yield dict(kind='wellformed', main='utf-8', calls=calls, hist=''.join(seq))
                        if 'latin-1' in ds or own is None:
                            alt = bomlike[(len(calls) + len(seq)) % len(bomlike)]
                            calls2 = [[c[0], (sl.S(alt) if c[0] == 'write_preamble' else c[1])] + c[2:] for c in calls]
                            yield dict(kind='wellformed', main='latin-1', calls=calls2, hist=''.join(seq), bomlike=True)

        # every text codec of the running interpreter's catalogue (not only the modelled ones) declared on a change and
        # inherited by a preamble and metadata below it, with a text made of every printable ASCII character (escape
        # characters of modal codecs included) that the codec can encode; oracle only where the model has no such codec
        for codec in catalogue_text_codecs():
            probe = ''.join(ch for ch in PRINTABLE if _can(ch, codec)) + '\nsecond line ~{ +AGE- \\u00e9 ~} A\n'
            probe = ''.join(ch for ch in probe if _can(ch, codec))
            m1 = {'t': 'caf\xe9 ~ \\ + x', 'u': '~{'}
            for where in ('change', 'file', 'own'):
                d_c, d_f, own = (sl.S(codec) if where == 'change' else None, sl.S(codec) if where == 'file' else None,
                                 sl.S(codec) if where == 'own' else None)
                calls = [['new_change', d_c], ['write_preamble', sl.S(probe), own, 'omitted', None, None],
                         ['write_meta', {'d': m1}, own, 'omitted'], ['new_file', d_f], ['write_meta', {'d': m1}, own, 'omitted'],
                         ['new_change', None], ['write_preamble', sl.S(probe), None, {'i': 2}, None, None], ['new_file', None],
                         ['write_meta', {'d': {'k': 1}}, None, 'omitted']]
                yield dict(kind='wellformed', main='utf-8', calls=calls, hist='cfc', catalogue=codec)

        # byte-coincident siblings: two codecs of the catalogue that map some ASCII characters to each other's bytes (EBCDIC
        # variants): sibling containers declare one each, and the metadata / preamble below them are DIFFERENT texts whose
        # encoded bytes are IDENTICAL -- each must come back as its own text
        for X, Y, t1, t2 in coincident_pairs():
            try:
                d1, d2 = {'note': t1}, {'note': t2}
                j1 = json.dumps(d1, indent=4, sort_keys=True)
                if json.loads(j1.encode(X).decode(Y)) != d2:
                    continue
            except Exception:
                continue
            for kinds in (('c', 'c'), ('f', 'f'), ('c', 'f')):
                calls = []
                for kind, codec, d, t in ((kinds[0], X, d1, t1), (kinds[1], Y, d2, t2), (kinds[0], X, d1, t1)):
                    if kind == 'c':
                        if calls and self._last_container(calls) == 'c':
                            calls += [['new_file', None], ['write_meta', {'d': {'k': 1}}, None, 'omitted']]
                        calls += [['new_change', sl.S(codec)], ['write_preamble', sl.S(t + '\n'), None, {'i': 0}, None, None],
                                  ['write_meta', {'d': d}, None, 'omitted']]
                    else:
                        if not calls:
                            calls += [['new_change', None]]
                        calls += [['new_file', sl.S(codec)], ['write_meta', {'d': d}, None, 'omitted']]
                if self._last_container(calls) == 'c':
                    calls += [['new_file', None], ['write_meta', {'d': d1}, None, 'omitted']]
                yield dict(kind='wellformed', main=X, calls=calls, hist='coincident', catalogue=X)

    @staticmethod
    def _last_container(calls):
        for c in reversed(calls):
            if c[0] == 'new_change':
                return 'c'
            if c[0] == 'new_file':
                return 'f'
        return None

    # same implementation/observation/oracle as the stream family
    _impl = Stream._impl

    def model_line(self, c):
        import codecs
        if c.get('catalogue') and codecs.lookup(c['catalogue']).name not in MODELLED_CANON:
            return None
        return Stream.model_line(self, c)

    impl_obs = Stream.impl_obs
    normalize_model = Stream.normalize_model
    oracle = Stream.oracle

    def nontrivial(self, c):
        return 'fc' in c['hist'] or 'cc' in c['hist'] or 'ff' in c['hist']

    def bucket(self, c):
        return 'len%d' % len(c['hist'])


# ------------------------------------------------------------------ arbitrary bytes (C08)
FUZZ_TOKENS = [b'0', b'-1', b'abc', b'1_0', b'=', b', ', b' ', b'\r\n', b'\n', b'utf-16', b'nope', b'123', b'encoding=',
               b'length=', b'indent=', b'line_endings=', b'format=', b'version=', b'#.', b'#..file:\n', b'dos', b'unix',
               b'\xff', b'\x00', b'json', b'[1]', b'{', b'999999999999999999999999', b'files=3', b'options=1',
               b'parent_section=1', b'self=1', b'changes=1', b'meta_section=1', b'_content=1', b'content=1',
               b'section_id=1', b'_level=1', b'subsections=1', b'base64', b'undefined', b'utf-8-sig', b'UTF-32',
               b'#diffx: version=1.0\n', b'#.change:\n', b'#...meta: length=3\n{}\n', b'    ', b'indent=4294967295',
               b'indent=-1', b'line_endings=5', b'encoding=5', b'mimetype=x', b'type=x', b'diff_type=text',
               b'encoding=punycode', b'encoding=idna', b'encoding=utf-7', b'encoding=cp037', b'encoding=undefined',
               b'encoding=rot13', b'encoding=hex', b'encoding=unicode_escape', b'encoding=raw_unicode_escape',
               b'encoding=utf-16-be', b'encoding=cp1252', b'encoding=shift_jis', b'encoding=iso2022_jp', b'encoding=hz',
               b'punycode', b'idna', b'xn--a', b'%', b'%s', b'%d%%', b'{0}', b'%(linenum)d',
               b'9' * 4300, b'9' * 4301, b'-' + b'1' * 4301, b'0' * 5000, b'x=' + b'7' * 4400, b'length=' + b'3' * 4310]
MODELLED_CANON = {'ascii', 'iso8859-1', 'utf-8', 'utf-8-sig', 'utf-16', 'utf-16-le', 'utf-16-be', 'utf-32', 'utf-32-le',
                  'utf-32-be'}
_ENC_RE = _re.compile(rb'encoding=([^\s,]+)')


_CATALOGUE = None


def catalogue_spellings():
    global _CATALOGUE
    if _CATALOGUE is None:
        import sys
        sys.path.insert(0, lib.VERIF + '/gen')
        import gen_codecs
        _CATALOGUE = {r['spelling'] for r in gen_codecs.catalogue()}
    return _CATALOGUE


def in_modelled_universe(data):
    """False if the bytes mention a codec CPython can use and the model does not execute, or a spelling CPython
    resolves (it normalises case/punctuation, e.g. 'utf-') that is not in the generated catalogue: such cases are
    discarded (counted in the evidence); the error-contract oracle still runs on the implementation."""
    import codecs
    for m in _ENC_RE.finditer(data):
        try:
            name = m.group(1).decode('ascii')
            info = codecs.lookup(name)
        except (LookupError, UnicodeDecodeError, ValueError):
            continue
        if info.name not in MODELLED_CANON or name not in catalogue_spellings():
            return False
    return True


def dom_load(data):
    """(kind, detail, closed) for DiffX.from_stream on a fresh BytesIO."""
    import io
    from pydiffx.dom import DiffX
    from pydiffx.errors import BaseDiffXError
    st = io.BytesIO(data)
    try:
        DiffX.from_stream(st)
        r = ('ok', None)
    except BaseDiffXError as e:
        r = ('lib', type(e).__name__)
    except Exception as e:
        r = ('other', type(e).__name__ + ': ' + str(e)[:120])
    return r + (st.closed,)


def spec_bomfree(t, enc):
    import spec
    return spec.bomfree(t, enc)


class Fuzz(Family):
    name = 'fuzz'
    rule = ('random short byte strings, and byte-/token-/line-level corruptions (1-3 per input) of writer-produced and '
            'foreign well-formed files biased towards option values and header/content boundaries; option and content '
            'grids (ill-typed values on every header; degenerate contents x indent x line_endings x encoding); observation = '
            'number of records and termination class; non-trivial = the input contains at least one well-formed header '
            'line; distinct by input bytes')

    def cases(self, tier, rng, prop_id):
        n = 2500 if tier == 'quick' else 60000
        bases = []
        for i in range(40 if tier == 'quick' else 400):
            if i % 2:
                main, calls = gc.gen_wellformed_calls(rng, max_changes=2, max_files=2)
                wobs, data, per = sl.run_writer(sl.S(main), sl.S('1.0'), calls)
            else:
                data = gf.render(gf.gen_file(rng))
            if data:
                bases.append(data)
        for i in range(n):
            if rng.random() < 0.1:
                d = bytes(rng.choice(b'#.:=, \n\r\tdifxmetachngl019{}\x00\xff') for _ in range(rng.randint(0, 40)))
                yield dict(kind='random', data=hx(d))
                continue
            d = bytearray(rng.choice(bases))
            for _ in range(rng.randint(1, 3)):
                k = rng.random()
                p = rng.randrange(len(d) + 1)
                if k < 0.3:
                    d[p:p] = rng.choice(FUZZ_TOKENS)
                elif k < 0.5:
                    q = min(len(d), p + rng.randint(1, 6))
                    d[p:q] = rng.choice(FUZZ_TOKENS)
                elif k < 0.65:
                    del d[p:p + rng.randint(1, 10)]
                elif k < 0.75:
                    d = d[:p]
                elif k < 0.85:
                    # corrupt an option value
                    ms = list(_re.finditer(rb'(length|indent|encoding|line_endings|format|version|type|mimetype)=([^\s,]+)', bytes(d)))
                    if ms:
                        m = rng.choice(ms)
                        d[m.start(2):m.end(2)] = rng.choice(FUZZ_TOKENS)
                elif p < len(d):
                    d[p] = rng.randrange(256)
            yield dict(kind='mutated', data=hx(bytes(d)))
        # sections under codecs CPython knows and the model does not execute (the model discards them; the error
        # contract is still checked on the implementation)
        for codec in ['punycode', 'idna', 'utf-7', 'cp037', 'undefined', 'rot13', 'hex', 'base64', 'unicode_escape',
                      'iso2022_jp', 'hz', 'cp1252', 'shift_jis', 'utf-16-be', 'mbcs', 'oem', 'string_escape']:
            for body in [b'Fix the bug.\n', b'xn--a.example.com\n', b'\xff\xfe\n', b'+AOk-\n', b'a\n', b'{"a": 1}\n', b'~{\n',
                         b'ab~\n', b'~\n', b'\x1b$B\n', b'a\\\n']:
                for sec in ('.preamble', '.meta'):
                    yield dict(kind='exotic-codec', data=hx(b'#diffx: version=1.0, encoding=utf-8\n#%s: encoding=%s, length=%d\n'
                                                            % (sec.encode(), codec.encode(), len(body)) + body))
                yield dict(kind='exotic-codec', data=hx(b'#diffx: version=1.0, encoding=%s\n#.preamble: length=%d\n'
                                                        % (codec.encode(), len(body)) + body))
        # every header of a small file x every option key x ill-typed / out-of-range / unknown values: a value the
        # header grammar accepts can still be unusable where it is consumed (also when it is INHERITED by a child)
        grid_base = [('diffx', [('version', '1.0'), ('encoding', 'utf-8')], None),
                     ('.preamble', [], b'hello\n'), ('.meta', [('format', 'json')], b'{"a": 1}\n'),
                     ('.change', [], None), ('..preamble', [], b'hi\n'), ('..meta', [], b'{}\n'),
                     ('..file', [], None), ('...meta', [], b'{}\n'), ('...diff', [], b'x\n')]
        grid_keys = ['encoding', 'length', 'indent', 'line_endings', 'format', 'version', 'type', 'mimetype', 'x', 'x%y', '%s', 'k{0}']
        grid_vals = ['5', '0', '-1', '007', 'abc', '1_0', 'True', 'None', 'x/y', 'utf-16', 'dos', '9' * 4301,
                     # every punctuation character of the value grammar as a separator: none, one, two, leading, trailing, alone
                     'a/b/c', 'a//b', '/a', 'a/', '/', '1.2.3', '1..2', '.5', '5.', '.', 'a-b-c', '--', 'a_b_c', '_', 'text/x/markdown',
                     'a%b', '%s', '100%', '%(x)s', 'a b', 'a\\b', 'a{0}b']
        for hi in range(len(grid_base)):
            for key in grid_keys:
                for val in grid_vals:
                    out = []
                    for j, (sid, opts, body) in enumerate(grid_base):
                        opts = list(opts)
                        if body is not None:
                            opts.append(('length', str(len(body))))
                        if j == hi:
                            opts = [(k, v) for k, v in opts if k != key] + [(key, val)]
                        out.append(gf.render_header(sid, opts, False) + (body or b''))
                    yield dict(kind='option-grid', data=hx(b''.join(out)))
        # degenerate contents (empty, a newline and nothing else, spaces only, no final newline, a byte order mark only)
        # x indent x line_endings x encoding, for every content section kind: the smallest inputs every length-, indent-
        # and newline-dependent computation has to survive
        for sid, pre in (('.preamble', b''), ('.meta', b''), ('...diff', b'#.change:\n#..file:\n#...meta: length=3\n{}\n')):
            for enc in (None, 'utf-16', 'utf-32-be', 'utf-8-sig'):
                e = enc or 'utf-8'
                bom = ''.encode(e) if enc in ('utf-16', 'utf-8-sig') else b''
                mid = lambda t: spec_bomfree(t, e)
                for t in ('', '\n', '\r\n', ' \n', '    \n', 'x', 'x\n', '\n\n', ' ', '\r', '\n\r', '{}\n'):
                    for body in {mid(t), bom + mid(t)}:
                        for ind in (None, '0', '1', '4', '100'):
                            for le in (None, 'unix', 'dos'):
                                opts = [('length', str(len(body)))]
                                if enc:
                                    opts.append(('encoding', enc))
                                if ind is not None:
                                    opts.append(('indent', ind))
                                if le:
                                    opts.append(('line_endings', le))
                                yield dict(kind='content-grid', data=hx(b'#diffx: version=1.0, encoding=utf-8\n' + pre +
                                                                       gf.render_header(sid, opts, False) + body))
        # bytes that END with the encoded newline while the DECODED text does not end with the newline: a byte order mark
        # that announces the other byte order, and variants
        for enc, body in [(b'utf-16', b'\xfe\xff\x00a\x0a\x00'), (b'utf-16', b'\xfe\xff\x00a\x00\x0a\x0a\x00'),
                          (b'utf-32', b'\x00\x00\xfe\xff\x00\x00\x00a\x0a\x00\x00\x00'),
                          (b'utf-16', b'\xff\xfea\x00\x0a\x00'), (b'utf-8-sig', b'\xef\xbb\xbf\n')]:
            for sec in (b'.preamble', b'.meta'):
                yield dict(kind='bom-order', data=hx(b'#diffx: version=1.0, encoding=utf-8\n#%s: encoding=%s, length=%d\n'
                                                    % (sec, enc, len(body)) + body))
            yield dict(kind='bom-order', data=hx(b'#diffx: version=1.0, encoding=%s\n#.preamble: length=%d\n' % (enc, len(body)) + body))
        # valid JSON with a repeated key whose values cannot be compared with each other, and other JSON oddities
        for body in [b'{"a":1,"a":"s"}\n', b'{"a":{},"a":{"b":1}}\n', b'{"a":null,"a":1}\n', b'{"a":[1],"a":[2]}\n',
                     b'{"a":1,"a":2}\n', b'{"":0,"":{}}\n', b'{"a":NaN}\n', b'{"a":Infinity,"a":-Infinity}\n', b'{"a":1e999}\n',
                     b'[{"a":1,"a":"s"}]\n', b'{"k":{"a":true,"a":"x"}}\n', b'\xef\xbb\xbf{"a":1}\n']:
            for sec in (b'.meta', b'..meta', b'...meta'):
                pre = b'#diffx: version=1.0, encoding=utf-8\n' + (b'' if sec == b'.meta' else b'#.change:\n') + \
                    (b'#..file:\n' if sec == b'...meta' else b'')
                yield dict(kind='json-oddity', data=hx(pre + b'#%s: format=json, length=%d\n' % (sec, len(body)) + body))
        # deep JSON
        deep = b'[' * 100000 + b']' * 100000 + b'\n'
        yield dict(kind='deep-json', data=hx(b'#diffx: version=1.0, encoding=utf-8\n#.meta: length=%d\n' % len(deep) + deep))

    def cases_filter(self, c):
        return in_modelled_universe(unhx(c['data']))

    def _impl(self, c):
        if '_impl' not in c:
            data = unhx(c['data'])
            robs, records, term, orc = sl.run_reader(data)
            c['_impl'] = (data, len(records), term, orc, dom_load(data))
        return c['_impl']

    def model_line(self, c):
        data, n, term, orc, dom = self._impl(c)
        if not in_modelled_universe(data) or 'UNENCODABLE' in orc:
            return None
        return sl.read_model_line(data, orc)

    def impl_obs(self, c):
        data, n, term, orc, dom = self._impl(c)
        return '%d %s' % (n, term[0])

    def normalize_model(self, line):
        # "((records...) term)" -> "<n> <class>"
        try:
            p = lib.parse_sx(line)
            t = p[1]
            cls = t if isinstance(t, str) else t[0]
            return '%d %s' % (len(p[0]), cls)
        except Exception:
            return line[:200]

    def nontrivial(self, c):
        return _re.search(rb'^#\.{0,3}[a-z]+:', unhx(c['data']), _re.M) is not None

    def bucket(self, c):
        data, n, term, orc, dom = self._impl(c)
        return '%s/%s/dom-%s' % (c['kind'], term[0], dom[0])

    def oracle(self, c, obs):
        data, n, term, orc, dom = self._impl(c)
        out = []
        if term[0] == 'exc':
            out.append(('C08', 'reader-other-exception', 'iterating the reader raised %s: %s' % (term[1], term[2])))
        elif term[0] == 'parse':
            nlines = data.count(b'\n') + 1
            if not (isinstance(term[1], int) and 0 <= term[1] < nlines):
                out.append(('C08', 'linenum-outside-input', 'linenum %r for an input of %d lines' % (term[1], nlines)))
            want = 'Error on line %d' % (term[1] + 1) if isinstance(term[1], int) else None
            if term[2] is not None:
                want = '%s, column %d' % (want, term[2] + 1)
            if want is None or not term[3].startswith(want + ': '):
                out.append(('C08', 'message-attributes-disagree', 'message %r vs linenum=%r column=%r' % (term[3][:60], term[1], term[2])))
        if dom[0] == 'other':
            out.append(('C08', 'dom-other-exception', 'DiffX.from_stream raised %s' % dom[1]))
        if not dom[2]:
            out.append(('C08', 'stream-not-closed', 'the stream handed to from_stream was left open'))
        return out
