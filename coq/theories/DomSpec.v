(* DomSpec.v — specification-side definitions for C05 / C06 (object model written then parsed; parsed then
   re-serialised).  Definitions only; proofs are in DomSpecFacts.v.

   Decomposition of C05:
     (1) the DOM writer is the streaming writer run on the call list [tree_calls t]        (C05_write_is_calls)
     (2) the streaming reader returns the records [expected_views] for that call list        (C01; hypothesis
         [reader_returns_expected], nothing else is assumed about the reader)
     (3) the DOM reader rebuilds exactly [normalise t] from those records                    (C05_records_to_tree) *)
From Coq Require Import List Arith NArith ZArith Bool Strings.Byte.
From Coq Require Strings.String.
From DX Require Import Bytes Res Codec Text Sections Header Json Reader Writer Dom.
From DXGen Require GenSections GenText.
Import ListNotations.
Import String.StringSyntax.
Local Open Scope string_scope.
Local Open Scope list_scope.

(* ------------------------------------------------------------------------------------------------ *)
(* 1. the calls the DOM writer issues, as data *)

(* every step of the DOM writer is: build the keyword arguments (may raise TypeError), then call *)
Definition thunk := res (option call).

Definition file_thunks (f : dfile) : list thunk :=
  [some_call (call_container "file" (f_opts f)); call_meta (f_meta f); call_diff (f_diff f)].
Definition change_thunks (c : dchange) : list thunk :=
  [some_call (call_container "change" (c_opts c)); call_preamble (c_pre c); call_meta (c_meta c)]
  ++ flat_map file_thunks (c_files c).
Definition tree_thunks (t : dtree) : list thunk :=
  [call_preamble (d_pre t); call_meta (d_meta t)] ++ flat_map change_thunks (d_changes t).

(* run the steps in order; the first failure (building or calling) stops everything *)
Fixpoint run_thunks (s : wstate) (l : list thunk) : wstate * res unit :=
  match l with
  | [] => (s, Ok tt)
  | th :: r => let (s1, x) := exec th s in match x with Ok _ => run_thunks s1 r | Err e => (s1, Err e) end
  end.

(* the call list: defined when every argument list could be built *)
Fixpoint collect (l : list thunk) : res (list call) :=
  match l with
  | [] => Ok []
  | Err e :: _ => Err e
  | Ok None :: r => collect r
  | Ok (Some c) :: r => do cs <- collect r; Ok (c :: cs)
  end.
Definition tree_calls (t : dtree) : res (list call) := collect (tree_thunks t).

(* the streaming writer on a call list, stopping at the first rejected call *)
Fixpoint run_all (s : wstate) (cs : list call) : wstate * res unit :=
  match cs with
  | [] => (s, Ok tt)
  | c :: r => let (s1, x) := do_call c s in match x with Ok _ => run_all s1 r | Err e => (s1, Err e) end
  end.

(* the arguments of the DiffXWriter constructor *)
Definition tree_version (t : dtree) : wv :=
  match assoc_get beq (B "version") (d_opts t) with Some v => v | None => WStr (ascii_text GenText.writer_version) end.
Definition tree_encoding (t : dtree) : wv :=
  match assoc_get beq (B "encoding") (d_opts t) with Some v => v | None => WNone end.
Definition main_keys_ok (t : dtree) : bool :=
  negb (nonempty (assoc_del beq (B "encoding") (assoc_del beq (B "version") (d_opts t)))).

(* ------------------------------------------------------------------------------------------------ *)
(* 2. the documented normalisation *)

(* an options dict in canonical form: the given keys in the given (sorted) order, absent (None) ones left out *)
Definition present (l : list (bytes * wv)) : dopts :=
  filter (fun p => match snd p with WNone => false | _ => true end) l.

(* the newline a declared line_endings value stands for *)
Definition declared_newline (le : wv) : option text :=
  match le with
  | WStr t => match c_enc ascii t with Some l => assoc_get beq l GenText.newline_formats | None => None end
  | _ => None
  end.
(* line_endings := declared or detected (from the first line of the text), and the newline it stands for *)
Definition pre_resolve (le : wv) (t : text) : wv * text :=
  match declared_newline le with
  | Some nl => (le, nl)
  | None => let (l, nl) := guess_line_endings_text t in (WStr (ascii_text l), nl)
  end.
(* final line ending appended if missing *)
Definition final_text (nl t : text) : text := if suffixb N.eqb nl t then t else t ++ nl.

Definition indent_or_default (i : option wv) : wv := match i with Some v => v | None => WInt GenText.default_indent end.
Definition format_or_default (f : option wv) : wv := match f with Some v => v | None => WStr (ascii_text GenText.meta_format_json) end.

Definition norm_psec (s : psec) : psec :=
  match p_content s with
  | None => new_psec
  | Some t =>
      if is_nil t then new_psec else
      let o := p_opts s in
      let (le, nl) := pre_resolve (kw o "line_endings") t in
      {| p_opts := present [(B "encoding", kw o "encoding"); (B "indent", indent_or_default (kw_opt o "indent"));
                            (B "line_endings", le); (B "mimetype", kw o "mimetype")];
         p_content := Some (final_text nl t) |}
  end.

(* the options are looked up the way the DOM writer passes them (dict comprehension with [format] renamed);
   for a dict with unique keys among encoding/format this is the plain lookup of [encoding] and [format]
   (DomSpecFacts.remap_kw_meta, norm_msec_plain; for diffs remap_kw_diff, norm_dsec_plain) *)
Definition norm_msec (s : msec) : msec :=
  if is_nil (m_content s) then new_msec else
  let o := remap "meta" (m_opts s) in
  {| m_opts := present [(B "encoding", kw o "encoding"); (B "format", format_or_default (kw_opt o "meta_format"))];
     m_content := m_content s |}.

(* a diff is bytes: the newline is the declared kind, or the kind detected in the bytes, encoded in the diff's own
   encoding (ascii if none), and is appended if missing.  This is the streaming writer's own preparation, which
   does not look at the writer state for diffs (no inheritance): DomSpecFacts.diff_prepare_state,
   DomSpecFacts.diff_prepare_shape. *)
Definition no_state : wstate := {| w_out := []; w_stack := []; w_prev := None |}.
Definition diff_prepare (le enc : wv) (b : bytes) : res (bytes * wv) :=
  prepare_content no_state (CBytes b) WNone le enc false.

(* if the streaming writer rejects the diff (the tree does not serialise) the content is left as it is *)
Definition diff_prepared (le enc : wv) (b : bytes) : bytes * wv :=
  match diff_prepare le enc b with Ok p => p | Err _ => (b, le) end.

Definition norm_dsec (s : dsec) : dsec :=
  match x_content s with
  | None => new_dsec
  | Some b =>
      if is_nil b then new_dsec else
      let o := remap "diff" (x_opts s) in
      let (body, le) := diff_prepared (kw o "line_endings") (kw o "encoding") b in
      {| x_opts := present [(B "encoding", kw o "encoding"); (B "line_endings", le); (B "type", kw o "diff_type")];
         x_content := Some body |}
  end.

Definition norm_copts (o : dopts) : dopts := present [(B "encoding", kw o "encoding")].

Definition norm_file (f : dfile) : dfile :=
  {| f_opts := norm_copts (f_opts f); f_meta := norm_msec (f_meta f); f_diff := norm_dsec (f_diff f) |}.
Definition norm_change (c : dchange) : dchange :=
  {| c_opts := norm_copts (c_opts c); c_pre := norm_psec (c_pre c); c_meta := norm_msec (c_meta c);
     c_files := map norm_file (c_files c) |}.
Definition norm_main_opts (t : dtree) : dopts :=
  present [(B "encoding", tree_encoding t); (B "version", tree_version t)].
Definition normalise (t : dtree) : dtree :=
  {| d_opts := norm_main_opts t; d_pre := norm_psec (d_pre t); d_meta := norm_msec (d_meta t);
     d_changes := map norm_change (d_changes t) |}.

(* ---- the typed domain: option values are str / int as the typed attributes produce them, and the strings
   are header-safe (one byte per character, and not something the header parser turns into an int) ---- *)
Definition text_bytes (t : text) : bytes := map n_byte t.
Definition str_ok (t : text) : bool := forallb (fun c => N.ltb c 256) t && negb (int_ok (text_bytes t)).
Definition hv_ok (v : wv) : bool :=
  match v with WInt _ => true | WStr t => str_ok t | _ => false end.
Definition sv_ok (v : wv) : bool :=
  match v with WStr t => str_ok t | _ => false end.
Definition typed_opts (o : dopts) : bool := forallb (fun p => hv_ok (snd p)) o.
Definition typed_copts (o : dopts) : bool := forallb (fun p => sv_ok (snd p)) o.     (* containers: encoding is a str *)
Definition typed_file (f : dfile) : bool :=
  typed_copts (f_opts f) && typed_opts (m_opts (f_meta f)) && typed_opts (x_opts (f_diff f)).
Definition typed_change (c : dchange) : bool :=
  typed_copts (c_opts c) && typed_opts (p_opts (c_pre c)) && typed_opts (m_opts (c_meta c)) && forallb typed_file (c_files c).
Definition typed_tree (t : dtree) : bool :=
  typed_opts (d_opts t) && typed_opts (p_opts (d_pre t)) && typed_opts (m_opts (d_meta t)) && forallb typed_change (d_changes t).

(* ------------------------------------------------------------------------------------------------ *)
(* 3. the records the streaming reader must return for a call list (C01's "expected"), restricted to what the DOM
      reader looks at: section id, header options, payload *)
Definition view : Type := bytes * options * payload.
Definition rec_view (r : record) : view := (r_id r, r_opts r, r_payload r).

(* a header value as the reader reports it *)
Definition hval (v : wv) : option pv :=
  match v with
  | WInt z => Some (VInt z)
  | WStr t => Some (convert_value (text_bytes t))
  | _ => None                     (* None is not written; anything else is outside the typed domain *)
  end.
Definition hopts (l : list (bytes * wv)) : options :=
  flat_map (fun p => match hval (snd p) with Some v => [(fst p, v)] | None => [] end) l.

Definition cur_dots (cur : cursor) : nat := match cur with AtMain => 1 | AtChange => 2 | AtFile => 3 end.
Definition next_cursor (cur : cursor) (c : call) : cursor :=
  match c with NewChange _ => AtChange | NewFile _ => AtFile | _ => cur end.

(* the body the streaming writer prepares for a content call in state [s] (for the [length] option) *)
Definition call_body (s : wstate) (c : call) : res (bytes * wv) :=
  match c with
  | WritePreamble (WStr t) encoding indent line_endings _ =>
      prepare_content s (CText t) (indent_or_default indent) line_endings encoding true
  | WriteMeta (WDict j) encoding _ =>
      (* write_meta hands the JSON on as text when an encoding is in force (the argument, else the innermost open
         container's), as ASCII bytes when none is (`content.encode('ascii')`, the fix of write_meta) *)
      do dumped <- json_dump j;
      let has_enc := if wv_truthy encoding then true else wv_truthy (hd WNone (w_stack s)) in
      prepare_content s (if has_enc then CText (ascii_text dumped) else CBytes dumped) WNone WNone encoding true
  | WriteDiff (WBytes b) _ encoding line_endings => prepare_content s (CBytes b) WNone line_endings encoding false
  | _ => Err EType
  end.
Definition body_length (s : wstate) (c : call) : wv :=
  match call_body s c with Ok (body, _) => content_length body | Err _ => WNone end.

Definition bad_view : view := ([], [], PNone).

Definition expected_view (s : wstate) (cur : cursor) (c : call) : view :=
  match c with
  | NewChange e => (GenSections.sec_change, hopts [(B "encoding", e)], PNone)
  | NewFile e => (GenSections.sec_file, hopts [(B "encoding", e)], PNone)
  | WritePreamble (WStr t) encoding indent line_endings mimetype =>
      let (le, nl) := pre_resolve line_endings t in
      (build_id (cur_dots cur) (B "preamble"),
       hopts [(B "encoding", encoding); (B "indent", indent_or_default indent); (B "length", body_length s c);
              (B "line_endings", le); (B "mimetype", mimetype)],
       PText (final_text nl t))
  | WriteMeta (WDict j) encoding meta_format =>
      (build_id (cur_dots cur) (B "meta"),
       hopts [(B "encoding", encoding); (B "format", format_or_default meta_format); (B "length", body_length s c)],
       PMeta j)
  | WriteDiff (WBytes b) diff_type encoding line_endings =>
      let (body, le) := diff_prepared line_endings encoding b in
      (build_id (cur_dots cur) (B "diff"),
       hopts [(B "encoding", encoding); (B "length", content_length body); (B "line_endings", le); (B "type", diff_type)],
       PBytes body)
  | _ => bad_view
  end.

Fixpoint expected_views (s : wstate) (cur : cursor) (cs : list call) : list view :=
  match cs with
  | [] => []
  | c :: r => expected_view s cur c :: expected_views (fst (do_call c s)) (next_cursor cur c) r
  end.

Definition main_view (encoding version : wv) : view :=
  (GenSections.sec_main, hopts [(B "encoding", encoding); (B "version", version)], PNone).

(* the DOM reader on views *)
Definition view_record (v : view) : record :=
  let '(id, o, p) := v in {| r_level := 0; r_line := 0; r_opts := o; r_id := id; r_type := []; r_payload := p |}.
Definition apply_views (tc : dtree * cursor) (vs : list view) : res (dtree * cursor) :=
  apply_records tc (map view_record vs).

Fixpoint last_cursor (cur : cursor) (cs : list call) : cursor :=
  match cs with [] => cur | c :: r => last_cursor (next_cursor cur c) r end.

(* C01, as far as the DOM reader is concerned: the streaming reader terminates normally on the bytes and yields
   the expected records *)
Definition reader_returns_expected (orc : oracle) (t : dtree) (b : bytes) : Prop :=
  forall s0 cs, writer_init (tree_encoding t) (tree_version t) = (s0, Ok tt) -> tree_calls t = Ok cs ->
    exists rs, read_all orc default_chunk b = (rs, TEnd) /\
               map rec_view rs = main_view (tree_encoding t) (tree_version t) :: expected_views s0 AtMain cs.

(* ------------------------------------------------------------------------------------------------ *)
(* 4. C06: calls of the normalised tree vs calls of the original tree *)
Definition opt_eqv (dflt : wv) (a b : option wv) : Prop := b = Some (match a with Some v => v | None => dflt end).

Inductive calls_equiv : call -> call -> Prop :=
| ce_change : forall e, calls_equiv (NewChange e) (NewChange e)
| ce_file : forall e, calls_equiv (NewFile e) (NewFile e)
| ce_pre : forall t enc ind le mime,
    (* same text with its final newline, line_endings and indent now explicit *)
    calls_equiv (WritePreamble (WStr t) enc ind le mime)
                (WritePreamble (WStr (final_text (snd (pre_resolve le t)) t)) enc
                               (Some (indent_or_default ind)) (fst (pre_resolve le t)) mime)
| ce_meta : forall j enc fmt,
    calls_equiv (WriteMeta (WDict j) enc fmt) (WriteMeta (WDict j) enc (Some (format_or_default fmt)))
| ce_diff : forall b ty enc le,
    (* same bytes with their final newline, line_endings now explicit *)
    calls_equiv (WriteDiff (WBytes b) ty enc le)
                (WriteDiff (WBytes (fst (diff_prepared le enc b))) ty enc (snd (diff_prepared le enc b))).

(* a diff section whose preparation is a fixed point: re-preparing the prepared bytes with the recorded
   line_endings changes nothing (C06_prepare_idem_bytes gives sufficient codec-level conditions) *)
Definition diff_stable (d : dsec) : Prop :=
  match x_content d with
  | None => True
  | Some b =>
      let o := remap "diff" (x_opts d) in
      forall body lo, diff_prepare (kw o "line_endings") (kw o "encoding") b = Ok (body, lo) ->
                      diff_prepare lo (kw o "encoding") body = Ok (body, lo)
  end.
Definition file_stable (f : dfile) : Prop := diff_stable (f_diff f).
Definition change_stable (c : dchange) : Prop := Forall file_stable (c_files c).
Definition tree_stable (t : dtree) : Prop := Forall change_stable (d_changes t).
