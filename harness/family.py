"""Base class for correspondence families. A case is a JSON-able dict (bytes stored as hex strings)."""
import json


class Family(object):
    name = '?'
    rule = ''

    def cases(self, tier, rng, prop_id):
        return []

    def model_line(self, c):
        return None

    def impl_obs(self, c):
        raise NotImplementedError

    def normalize_model(self, line):
        return line

    def discard(self, raw, c):
        """True if the model's raw answer says the case is outside what the model covers (counted, not compared)."""
        return 'UNMODELLED' in raw

    def oracle(self, c, obs):
        """Property oracles on the implementation alone: [(property_id, signature, what)]."""
        return []

    def nontrivial(self, c):
        return True

    def key(self, c):
        return json.dumps({k: v for k, v in c.items() if not k.startswith('_')}, sort_keys=True, default=repr)

    def bucket(self, c):
        return c.get('kind', 'case')

    def describe(self, c):
        return {k: v for k, v in c.items() if not k.startswith('_')}

    def undescribe(self, d):
        return dict(d)


def hx(b):
    return bytes(b).hex()


def unhx(s):
    return bytes.fromhex(s)
