(* C05 — object model written then parsed.
   "For every object-model tree that serialises without error, serialising and parsing it yields a tree with the
   same changes and files in the same order and, section by section, the same content and options as the
   original after the documented normalisation only [...]. The serialised bytes are exactly the canonical
   serialisation of the tree."

   Decomposition (definitions in DX.DomSpec, proofs in DX.DomSpecFacts):
     C05_write_is_calls   the DOM writer = the streaming writer run on the call list [tree_calls t]
                          (exact, both directions; C05_write_exact gives the failure order as well)
     reader_returns_expected   = C01 for that call list (the ONLY hypothesis about the streaming reader)
     C05_records_to_tree  the DOM reader rebuilds exactly [normalise t] from the expected records
     C05_dom_round_trip   the three together.
   [normalise] gives option dicts in canonical form (sorted keys, absent options left out), i.e. equal to the
   original ones as Python dicts plus the documented additions; the main header also gains [version] when the
   tree had none.  [typed_tree]: option values are str/int as the typed attributes produce them (container
   encodings are str) and are not digit strings (which the header parser would read back as int). *)
From Coq Require Import List NArith ZArith Bool Strings.Byte.
From Coq Require Strings.String.
From DX Require Import Bytes Res Codec Text Sections Header Json Reader Writer Dom DomSpec DomSpecFacts.
From DXGen Require GenSections GenText.
Import ListNotations.
Import String.StringSyntax.
Local Open Scope string_scope.
Local Open Scope list_scope.

Theorem C05_write_is_calls : forall t b,
  dom_write t = Ok b <->
  main_keys_ok t = true /\
  exists s0 cs s1,
    writer_init (tree_encoding t) (tree_version t) = (s0, Ok tt) /\
    tree_calls t = Ok cs /\
    run_all s0 cs = (s1, Ok tt) /\
    b = w_out s1.
Proof. exact DomSpecFacts.C05_write_is_calls. Qed.
Print Assumptions C05_write_is_calls.

Theorem C05_write_exact : forall t,
  dom_write t =
  if negb (main_keys_ok t) then Err EType else
  let (s0, r0) := writer_init (tree_encoding t) (tree_version t) in
  match r0 with
  | Err e => Err e
  | Ok _ => let (s1, r1) := run_thunks s0 (tree_thunks t) in
            match r1 with Ok _ => Ok (w_out s1) | Err e => Err e end
  end.
Proof. exact DomSpecFacts.dom_write_thunks. Qed.
Print Assumptions C05_write_exact.

Theorem C05_write_error : forall t cs s0,
  main_keys_ok t = true -> writer_init (tree_encoding t) (tree_version t) = (s0, Ok tt) -> tree_calls t = Ok cs ->
  dom_write t = let (s1, r) := run_all s0 cs in match r with Ok _ => Ok (w_out s1) | Err e => Err e end.
Proof. exact DomSpecFacts.C05_write_error. Qed.
Print Assumptions C05_write_error.

Theorem C05_records_to_tree : forall t cs s0,
  typed_tree t = true -> tree_calls t = Ok cs ->
  apply_views (new_tree, AtMain) (main_view (tree_encoding t) (tree_version t) :: expected_views s0 AtMain cs)
  = Ok (normalise t, last_cursor AtMain cs).
Proof. exact DomSpecFacts.C05_records_to_tree. Qed.
Print Assumptions C05_records_to_tree.

Theorem C05_dom_round_trip : forall orc t b,
  typed_tree t = true -> dom_write t = Ok b -> reader_returns_expected orc t b ->
  dom_read orc b = Ok (normalise t).
Proof. exact DomSpecFacts.C05_dom_round_trip. Qed.
Print Assumptions C05_dom_round_trip.

(* for well-formed sections (unique keys, the section's own option names) the normalisation reads as documented *)
Theorem C05_norm_msec_plain : forall o c, keys_unique o = true -> only_keys o ["encoding"; "format"] = true ->
  is_nil c = false ->
  norm_msec (Me o c) = Me (present [(B "encoding", kw o "encoding"); (B "format", format_or_default (kw_opt o "format"))]) c.
Proof. exact DomSpecFacts.norm_msec_plain. Qed.
Print Assumptions C05_norm_msec_plain.

Theorem C05_norm_dsec_plain : forall o b, keys_unique o = true ->
  only_keys o ["encoding"; "line_endings"; "type"] = true -> is_nil b = false ->
  norm_dsec (D o (Some b)) =
  D (present [(B "encoding", kw o "encoding");
              (B "line_endings", snd (diff_prepared (kw o "line_endings") (kw o "encoding") b));
              (B "type", kw o "type")])
    (Some (fst (diff_prepared (kw o "line_endings") (kw o "encoding") b))).
Proof. exact DomSpecFacts.norm_dsec_plain. Qed.
Print Assumptions C05_norm_dsec_plain.

(* what [diff_prepared] is: the diff with the newline (declared kind, or the kind detected in the bytes, in the
   diff's own encoding) appended if missing *)
Theorem C05_diff_prepare_shape : forall le enc b body lo, diff_prepare le enc b = Ok (body, lo) ->
  exists nlb,
    body = (if bends (strip_bom nlb (diff_en1 enc)) b then b else b ++ strip_bom nlb (diff_en1 enc)) /\
    ((exists nl, declared_newline le = Some nl /\ lo = le /\ encode_dyn nl (diff_newline_encoding enc) = Ok nlb) \/
     (exists en l, declared_newline le = None /\ enc_name (diff_newline_encoding enc) = Ok en /\
                   guess_line_endings_bytes b en = Ok (l, nlb) /\ lo = WStr (ascii_text l))).
Proof. exact DomSpecFacts.diff_prepare_shape. Qed.
Print Assumptions C05_diff_prepare_shape.

(* ---- instances ---- *)
Example C05_ex_typed : typed_tree ex_tree = true.
Proof. exact DomSpecFacts.ex_typed. Qed.
Example C05_ex_write : dom_write ex_tree = Ok ex_bytes.
Proof. exact DomSpecFacts.ex_write. Qed.
Example C05_ex_hypothesis : reader_returns_expected ex_orc ex_tree ex_bytes.
Proof. exact DomSpecFacts.ex_reader_returns_expected. Qed.
Example C05_ex_normalise : normalise ex_tree = ex_norm.
Proof. vm_compute. reflexivity. Qed.
Example C05_ex_read : dom_read ex_orc ex_bytes = Ok ex_norm.
Proof. vm_compute. reflexivity. Qed.
Example C05_ex_read_by_theorem : dom_read ex_orc ex_bytes = Ok (normalise ex_tree).
Proof.
  exact (DomSpecFacts.C05_dom_round_trip ex_orc ex_tree ex_bytes
           DomSpecFacts.ex_typed DomSpecFacts.ex_write DomSpecFacts.ex_reader_returns_expected).
Qed.
Example C05_ex2_hypothesis : typed_tree ex_tree2 = true /\ dom_write ex_tree2 = Ok ex_bytes2 /\
                             reader_returns_expected ex_orc2 ex_tree2 ex_bytes2.
Proof.
  split; [exact DomSpecFacts.ex2_typed|]. split; [exact (proj1 DomSpecFacts.ex2_write)|].
  exact DomSpecFacts.ex2_reader_returns_expected.
Qed.
Example C05_ex2_read : dom_read ex_orc2 ex_bytes2 = Ok (normalise ex_tree2).
Proof. vm_compute. reflexivity. Qed.
