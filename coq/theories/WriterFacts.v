(* WriterFacts.v — proofs about the writer model (Writer.v): property C09
   "Writer enforces section order; rejected calls are atomic; output is append-only". *)
From Coq Require Import List Arith NArith ZArith Bool Strings.Byte Lia.
From Coq Require Strings.String.
From DX Require Import Bytes Res Codec Text Sections Header Json Writer.
From DXGen Require GenSections GenText GenCodecs.
Import ListNotations.
Import String.StringSyntax.
Local Open Scope string_scope.
Local Open Scope list_scope.

(* ------------------------------------------------------------------------------------------------ *)
(* equality tests                                                                                    *)
(* ------------------------------------------------------------------------------------------------ *)
Lemma beq_true_eq : forall a b, beq a b = true -> a = b.
Proof.
  unfold beq. induction a as [|x a IH]; destruct b as [|y b]; cbn; try discriminate; auto.
  intro H. apply andb_true_iff in H as [H1 H2]. apply byte_dec_bl in H1. f_equal; auto.
Qed.

Lemma beq_refl : forall a, beq a a = true.
Proof.
  unfold beq. induction a as [|x a IH]; cbn; auto.
  rewrite IH. unfold byte_eqb. rewrite (byte_dec_lb (eq_refl x)). reflexivity.
Qed.

Lemma teq_true_eq : forall a b, teq a b = true -> a = b.
Proof.
  unfold teq. induction a as [|x a IH]; destruct b as [|y b]; cbn; try discriminate; auto.
  intro H. apply andb_true_iff in H as [H1 H2]. apply N.eqb_eq in H1. f_equal; auto.
Qed.

Lemma teq_refl : forall a, teq a a = true.
Proof. unfold teq. induction a as [|x a IH]; cbn; auto. rewrite IH, N.eqb_refl. reflexivity. Qed.

Lemma in_ids_In : forall a l, in_ids a l = true <-> In a l.
Proof.
  unfold in_ids. induction l as [|y l IH]; cbn.
  - split; [discriminate | tauto].
  - rewrite orb_true_iff, IH. split; intros [H|H]; auto.
    + left. symmetry. apply beq_true_eq; exact H.
    + left. subst. apply beq_refl.
Qed.

Lemma assoc_get_In : forall {V} k (l : list (bytes * V)) v, assoc_get beq k l = Some v -> In (k, v) l.
Proof.
  induction l as [|[k' v'] l IH]; cbn; intros v H; try discriminate.
  destruct (beq k k') eqn:E.
  - inversion H; subst. apply beq_true_eq in E; subst. auto.
  - right. auto.
Qed.

(* ------------------------------------------------------------------------------------------------ *)
(* the state monad: characterisations                                                                *)
(* ------------------------------------------------------------------------------------------------ *)
Lemma bind_get : forall {C} (f : wstate -> M C) s, bindM get_state f s = f s s.
Proof. reflexivity. Qed.

Lemma bind_lift : forall {A C} (r : res A) (f : A -> M C) s,
  bindM (lift r) f s = match r with Ok a => f a s | Err e => (s, Err e) end.
Proof. reflexivity. Qed.

Lemma wsh_eq : forall section opts s,
  write_section_header section opts s =
  match render_header section opts with
  | Err e => (s, Err e)
  | Ok h => ({| w_out := w_out s ++ h; w_stack := w_stack s; w_prev := Some section |}, Ok tt)
  end.
Proof.
  intros. unfold write_section_header. rewrite bind_lift.
  destruct (render_header section opts); reflexivity.
Qed.

Lemma repeat_pop : forall n s, n <= length (w_stack s) ->
  repeatM n pop_once s = ({| w_out := w_out s; w_stack := skipn n (w_stack s); w_prev := w_prev s |}, Ok tt).
Proof.
  induction n; intros s H; cbn [repeatM].
  - unfold ret. destruct s; reflexivity.
  - unfold bindM. unfold pop_once at 1. destruct (w_stack s) as [|e t] eqn:E; [cbn in H; lia|].
    rewrite IHn; cbn [w_stack w_out w_prev]; [reflexivity | cbn in H; lia].
Qed.

(* _new_container_section as a function of the state (needs only a non-empty stack) *)
Lemma ncs_eq : forall name level enc extra s,
  w_stack s <> [] -> 1 <= level ->
  new_container_section name level enc extra s =
  match validate_section s (build_id (level - 1) name) with
  | Err e => (s, Err e)
  | Ok _ =>
      match render_header (build_id (level - 1) name) (dict_set "encoding" enc extra) with
      | Err e => (s, Err e)
      | Ok h =>
          let st := skipn (length (w_stack s) - level) (w_stack s) in
          ({| w_out := w_out s ++ h;
              w_stack := (if wv_truthy enc then enc else hd WNone st) :: st;
              w_prev := Some (build_id (level - 1) name) |}, Ok tt)
      end
  end.
Proof.
  intros name level enc extra s Hne Hl. unfold new_container_section.
  rewrite bind_get, bind_lift.
  destruct (validate_section s _) as [[]|e]; [|reflexivity].
  unfold bindM at 1. rewrite wsh_eq.
  destruct (render_header _ _) as [h|e]; [|reflexivity].
  rewrite bind_get. unfold bindM at 1.
  assert (Hlen : 1 <= length (w_stack s)) by (destruct (w_stack s); [congruence | cbn; lia]).
  unfold cur_level. cbn [w_stack].
  replace (length (w_stack s) - 1 + 1 - level) with (length (w_stack s) - level) by lia.
  rewrite repeat_pop by (cbn [w_stack]; lia).
  cbn [w_stack w_out w_prev]. rewrite bind_get. unfold cur_encoding. cbn [w_stack].
  destruct (skipn (length (w_stack s) - level) (w_stack s)) as [|e t] eqn:E.
  - exfalso. apply (f_equal (@length _)) in E. rewrite skipn_length in E. cbn in E. lia.
  - rewrite bind_lift. reflexivity.
Qed.

(* _new_content_section as a function of the state (no hypothesis) *)
Lemma ncontent_eq : forall name content le enc ind wle inh extra s,
  new_content_section name content le enc ind wle inh extra s =
  match validate_section s (build_id (cur_level s + 1 - 1) name) with
  | Err e => (s, Err e)
  | Ok _ =>
      match prepare_content s content ind le enc inh with
      | Err e => (s, Err e)
      | Ok (body, le_out) =>
          let ho := dict_set "length" (content_length body) (dict_set "indent" ind (dict_set "encoding" enc extra)) in
          let ho := if wle then dict_set "line_endings" le_out ho else ho in
          match render_header (build_id (cur_level s + 1 - 1) name) ho with
          | Err e => (s, Err e)
          | Ok h => ({| w_out := (w_out s ++ h) ++ body; w_stack := w_stack s;
                        w_prev := Some (build_id (cur_level s + 1 - 1) name) |}, Ok tt)
          end
      end
  end.
Proof.
  intros. unfold new_content_section. rewrite bind_get, bind_lift.
  destruct (validate_section s _) as [[]|e]; [|reflexivity].
  rewrite bind_lift.
  destruct (prepare_content s content ind le enc inh) as [[body le_out]|e]; [|reflexivity].
  cbv zeta. unfold bindM. rewrite wsh_eq.
  destruct (render_header _ _) as [h|e]; reflexivity.
Qed.

(* ------------------------------------------------------------------------------------------------ *)
(* C09 (3): output is append-only — for every call, every argument, every state                      *)
(* ------------------------------------------------------------------------------------------------ *)
Definition appends {A} (m : M A) : Prop :=
  forall s s' r, m s = (s', r) -> exists suf, w_out s' = w_out s ++ suf.

Lemma appends_bind : forall {A C} (m : M A) (f : A -> M C),
  appends m -> (forall a, appends (f a)) -> appends (bindM m f).
Proof.
  intros A C m f Hm Hf s s' r. unfold bindM. destruct (m s) as [s1 r1] eqn:E.
  destruct (Hm _ _ _ E) as [u Hu]. destruct r1 as [a|e].
  - intro H. destruct (Hf _ _ _ _ H) as [v Hv]. exists (u ++ v). rewrite Hv, Hu, app_assoc. reflexivity.
  - intro H. inversion H; subst. eauto.
Qed.

Lemma appends_same : forall {A} (m : M A), (forall s, w_out (fst (m s)) = w_out s) -> appends m.
Proof.
  intros A m H s s' r E. exists []. rewrite app_nil_r. specialize (H s). rewrite E in H. exact H.
Qed.

Lemma appends_lift : forall {A} (r : res A), appends (lift r).
Proof. intros. apply appends_same. reflexivity. Qed.
Lemma appends_ret : forall {A} (a : A), appends (ret a).
Proof. intros. apply appends_same. reflexivity. Qed.
Lemma appends_get : appends get_state.
Proof. apply appends_same. reflexivity. Qed.
Lemma appends_set_prev : forall x, appends (set_prev x).
Proof. intros. apply appends_same. reflexivity. Qed.
Lemma appends_push : forall x, appends (push x).
Proof. intros. apply appends_same. reflexivity. Qed.
Lemma appends_pop : appends pop_once.
Proof. apply appends_same. intro s. unfold pop_once. destruct (w_stack s); reflexivity. Qed.
Lemma appends_emit : forall b, appends (emit b).
Proof. intros b s s' r H. unfold emit in H. inversion H; subst. cbn. eauto. Qed.
Lemma appends_repeat : forall n m, appends m -> appends (repeatM n m).
Proof.
  induction n; intros m Hm; cbn [repeatM].
  - apply appends_ret.
  - apply appends_bind; auto.
Qed.

Lemma appends_wsh : forall section opts, appends (write_section_header section opts).
Proof.
  intros. unfold write_section_header.
  apply appends_bind; [apply appends_lift|]. intro h.
  apply appends_bind; [apply appends_emit|]. intros _. apply appends_set_prev.
Qed.

Lemma appends_ncs : forall name level enc extra, appends (new_container_section name level enc extra).
Proof.
  intros. unfold new_container_section.
  apply appends_bind; [apply appends_get|]. intro s.
  apply appends_bind; [apply appends_lift|]. intros _.
  apply appends_bind; [apply appends_wsh|]. intros _.
  apply appends_bind; [apply appends_get|]. intro s1.
  apply appends_bind; [apply appends_repeat, appends_pop|]. intros _.
  apply appends_bind; [apply appends_get|]. intro s2.
  apply appends_bind; [apply appends_lift|]. intro cur.
  apply appends_push.
Qed.

Lemma appends_ncontent : forall name content le enc ind wle inh extra,
  appends (new_content_section name content le enc ind wle inh extra).
Proof.
  intros. unfold new_content_section.
  apply appends_bind; [apply appends_get|]. intro s.
  apply appends_bind; [apply appends_lift|]. intros _.
  apply appends_bind; [apply appends_lift|]. intros [body le_out].
  apply appends_bind; [apply appends_wsh|]. intros _.
  apply appends_emit.
Qed.

Lemma appends_do_call : forall c, appends (do_call c).
Proof.
  destruct c as [e|e|text enc ind le mt|md enc fmt|content dt enc le]; cbn [do_call].
  - apply appends_ncs.
  - apply appends_ncs.
  - destruct text; try apply appends_lift.
    apply appends_bind; [apply appends_lift|]. intro mok.
    destruct (negb mok); [apply appends_lift | apply appends_ncontent].
  - destruct md; try apply appends_lift.
    destruct (negb (wv_truthy (WDict j))); [apply appends_lift|].
    apply appends_bind; [apply appends_lift|]. intro fok.
    destruct (negb fok); [apply appends_lift|].
    apply appends_bind; [apply appends_lift|]. intro dumped. apply appends_ncontent.
  - destruct content; try apply appends_lift.
    apply appends_bind; [apply appends_lift|]. intro tok.
    destruct (negb tok); [apply appends_lift | apply appends_ncontent].
Qed.

Theorem C09_append : forall c s s' r, do_call c s = (s', r) -> exists suf, w_out s' = w_out s ++ suf.
Proof. intros c s s' r H. exact (appends_do_call c s s' r H). Qed.

Lemma run_calls_cons : forall s c t,
  run_calls s (c :: t) =
  ((snd (do_call c s), length (w_out (fst (do_call c s)))) :: fst (run_calls (fst (do_call c s)) t),
   snd (run_calls (fst (do_call c s)) t)).
Proof.
  intros. cbn [run_calls]. destruct (do_call c s) as [s' r]. cbn [fst snd].
  destruct (run_calls s' t) as [rs f]. reflexivity.
Qed.

Theorem C09_append_run : forall cs s, exists suf, w_out (snd (run_calls s cs)) = w_out s ++ suf.
Proof.
  induction cs as [|c t IH]; intro s.
  - exists []. cbn. rewrite app_nil_r. reflexivity.
  - rewrite run_calls_cons. cbn [snd].
    destruct (do_call c s) as [s' r] eqn:E. cbn [fst].
    destruct (C09_append _ _ _ _ E) as [u Hu]. destruct (IH s') as [v Hv].
    exists (u ++ v). rewrite Hv, Hu, app_assoc. reflexivity.
Qed.

(* every prefix of a call sequence leaves an output that is a prefix of the final output *)
Lemma run_calls_app_snd : forall cs cs' s,
  snd (run_calls s (cs ++ cs')) = snd (run_calls (snd (run_calls s cs)) cs').
Proof.
  induction cs as [|c t IH]; intros cs' s.
  - reflexivity.
  - cbn [app]. rewrite !run_calls_cons. cbn [snd]. apply IH.
Qed.

Theorem C09_append_prefix : forall cs cs' s,
  exists suf, w_out (snd (run_calls s (cs ++ cs'))) = w_out (snd (run_calls s cs)) ++ suf.
Proof. intros. rewrite run_calls_app_snd. apply C09_append_run. Qed.

(* ------------------------------------------------------------------------------------------------ *)
(* C09 (2): atomicity of rejected calls                                                              *)
(* ------------------------------------------------------------------------------------------------ *)
Lemma ncs_atomic : forall name level enc extra s s' e,
  w_stack s <> [] -> 1 <= level ->
  new_container_section name level enc extra s = (s', Err e) -> s' = s.
Proof.
  intros name level enc extra s s' e Hne Hl H. rewrite ncs_eq in H by assumption.
  destruct (validate_section s _) as [[]|e1]; [|inversion H; reflexivity].
  destruct (render_header _ _) as [h|e1]; [|inversion H; reflexivity].
  cbv zeta in H. inversion H.
Qed.

Lemma ncontent_atomic : forall name content le enc ind wle inh extra s s' e,
  new_content_section name content le enc ind wle inh extra s = (s', Err e) -> s' = s.
Proof.
  intros name content le enc ind wle inh extra s s' e H. rewrite ncontent_eq in H.
  destruct (validate_section s _) as [[]|e1]; [|inversion H; reflexivity].
  destruct (prepare_content _ _ _ _ _ _) as [[body le_out]|e1]; [|inversion H; reflexivity].
  cbv zeta in H.
  destruct (render_header _ _) as [h|e1]; inversion H; reflexivity.
Qed.

Lemma lift_err_same : forall {A} (r : res A) s s' e, lift r s = (s', Err e) -> s' = s.
Proof. intros A r s s' e H. unfold lift in H. inversion H; reflexivity. Qed.

(* the only hypothesis atomicity needs is a non-empty encoding stack *)
Lemma do_call_atomic : forall c s s' e,
  w_stack s <> [] -> do_call c s = (s', Err e) -> s' = s.
Proof.
  intros c s s' e Hne H.
  destruct c as [en|en|text enc ind le mt|md enc fmt|content dt enc le]; cbn [do_call] in H.
  - eapply ncs_atomic; [exact Hne | | exact H]. unfold GenText.writer_level_change. lia.
  - eapply ncs_atomic; [exact Hne | | exact H]. unfold GenText.writer_level_file. lia.
  - destruct text; try (eapply lift_err_same; eassumption).
    rewrite bind_lift in H.
    destruct (match mt with WNone => Ok true | _ => _ end) as [mok|e1]; [|inversion H; reflexivity].
    destruct (negb mok); [eapply lift_err_same; eassumption|].
    eapply ncontent_atomic; eassumption.
  - destruct md; try (eapply lift_err_same; eassumption).
    destruct (negb (wv_truthy (WDict j))); [eapply lift_err_same; eassumption|].
    rewrite bind_lift in H.
    destruct (in_strset _ _) as [fok|e1]; [|inversion H; reflexivity].
    destruct (negb fok); [eapply lift_err_same; eassumption|].
    rewrite bind_lift in H.
    destruct (json_dump j) as [d|e1]; [|inversion H; reflexivity].
    eapply ncontent_atomic; eassumption.
  - destruct content; try (eapply lift_err_same; eassumption).
    rewrite bind_lift in H.
    destruct (match dt with WNone => Ok true | _ => _ end) as [tok|e1]; [|inversion H; reflexivity].
    destruct (negb tok); [eapply lift_err_same; eassumption|].
    eapply ncontent_atomic; eassumption.
Qed.

(* ------------------------------------------------------------------------------------------------ *)
(* the invariant of reachable states                                                                 *)
(* ------------------------------------------------------------------------------------------------ *)
(* the nine section ids = the keys of the generated table *)
Definition ids : list bytes := map fst GenSections.valid_states.

(* container level of a section id (the number of open containers when it is the last written section) *)
Definition level_of (p : bytes) : nat :=
  if in_ids p [GenSections.sec_main; GenSections.sec_main_preamble; GenSections.sec_main_meta] then 1
  else if in_ids p [GenSections.sec_change; GenSections.sec_change_preamble; GenSections.sec_change_meta] then 2
  else if in_ids p [GenSections.sec_file; GenSections.sec_file_meta; GenSections.sec_file_diff] then 3
  else 0.

(* the generated row of a section id: what may follow it *)
Definition table (p : bytes) : list bytes := match table_get p with Some v => v | None => [] end.

Definition Inv (s : wstate) : Prop :=
  exists p, w_prev s = Some p /\ In p ids /\ length (w_stack s) = 1 + level_of p.

Definition content_names : list bytes := [B "preamble"; B "meta"; B "diff"].
Definition change_id : bytes := build_id (GenText.writer_level_change - 1) (B "change").
Definition file_id : bytes := build_id (GenText.writer_level_file - 1) (B "file").
Definition main_id : bytes := build_id (GenText.writer_level_main - 1) (B "diffx").

(* finite facts about the generated table, checked by computation *)
Definition id_ok (p : bytes) : bool :=
  match table_get p with
  | None => false
  | Some row =>
      implb (in_ids change_id row) (Nat.leb GenText.writer_level_change (1 + level_of p))
      && implb (in_ids file_id row) (Nat.leb GenText.writer_level_file (1 + level_of p))
      && forallb (fun name => let t := build_id (level_of p) name in
                              implb (in_ids t row) (in_ids t ids && Nat.eqb (level_of t) (level_of p)))
                 content_names
      && forallb (fun m => in_ids m ids) row
  end.

Lemma ids_ok : forallb id_ok ids = true.
Proof. vm_compute. reflexivity. Qed.

Lemma containers_ok :
  in_ids main_id ids = true /\ level_of main_id = GenText.writer_level_main /\
  in_ids change_id ids = true /\ level_of change_id = GenText.writer_level_change /\
  in_ids file_id ids = true /\ level_of file_id = GenText.writer_level_file.
Proof. vm_compute. repeat split; reflexivity. Qed.

Lemma validate_ok : forall s sec p,
  w_prev s = Some p -> validate_section s sec = Ok tt ->
  exists row, table_get p = Some row /\ in_ids sec row = true.
Proof.
  intros s sec p Hp H. unfold validate_section in H. rewrite Hp in H.
  destruct (table_get p) as [row|]; [|discriminate].
  exists row. split; auto. destruct (in_ids sec row); [reflexivity | discriminate].
Qed.

Lemma validate_ok_table : forall s sec p,
  w_prev s = Some p -> (validate_section s sec = Ok tt <-> In sec (table p)).
Proof.
  intros s sec p Hp. unfold validate_section, table. rewrite Hp.
  destruct (table_get p) as [row|].
  - rewrite <- in_ids_In. destruct (in_ids sec row); split; intro H; auto; discriminate.
  - split; [discriminate | intros []].
Qed.

Lemma Inv_stack : forall s, Inv s -> w_stack s <> [].
Proof. intros s (p & _ & _ & Hl) E. rewrite E in Hl. cbn in Hl. lia. Qed.

Lemma id_ok_of : forall p, In p ids -> id_ok p = true.
Proof. intros p H. exact (proj1 (forallb_forall id_ok ids) ids_ok p H). Qed.

Lemma ncs_inv_gen : forall name level enc extra s s' r,
  Inv s -> 1 <= level ->
  in_ids (build_id (level - 1) name) ids = true -> level_of (build_id (level - 1) name) = level ->
  (forall p row, w_prev s = Some p -> table_get p = Some row ->
                 in_ids (build_id (level - 1) name) row = true -> level <= length (w_stack s)) ->
  new_container_section name level enc extra s = (s', r) -> Inv s'.
Proof.
  intros name level enc extra s s' r HI Hl Hin Hlev Hrow H.
  rewrite ncs_eq in H by (auto using Inv_stack).
  destruct (validate_section s _) as [[]|e1] eqn:EV; [|inversion H; subst; exact HI].
  destruct (render_header _ _) as [h|e1]; [|inversion H; subst; exact HI].
  cbv zeta in H. inversion H; subst; clear H.
  destruct HI as (p & Hp & Hpid & Hlen).
  destruct (validate_ok _ _ _ Hp EV) as (row & Hrw & Hmem).
  specialize (Hrow p row Hp Hrw Hmem).
  exists (build_id (level - 1) name). cbn [w_prev w_stack]. split; [reflexivity|]. split.
  - apply in_ids_In; exact Hin.
  - rewrite Hlev. cbn [length]. rewrite skipn_length. lia.
Qed.

Lemma cur_level_Inv : forall s p, w_prev s = Some p -> Inv s -> cur_level s = level_of p.
Proof.
  intros s p Hp (p' & Hp' & _ & Hl). rewrite Hp in Hp'. inversion Hp'; subst.
  unfold cur_level. lia.
Qed.

Lemma ncontent_inv : forall name content le enc ind wle inh extra s s' r,
  In name content_names -> Inv s ->
  new_content_section name content le enc ind wle inh extra s = (s', r) -> Inv s'.
Proof.
  intros name content le enc ind wle inh extra s s' r Hname HI H.
  rewrite ncontent_eq in H.
  destruct (validate_section s _) as [[]|e1] eqn:EV; [|inversion H; subst; exact HI].
  destruct (prepare_content _ _ _ _ _ _) as [[body le_out]|e1]; [|inversion H; subst; exact HI].
  cbv zeta in H.
  destruct (render_header _ _) as [h|e1]; [|inversion H; subst; exact HI].
  inversion H; subst; clear H.
  pose proof HI as (p & Hp & Hpid & Hlen).
  destruct (validate_ok _ _ _ Hp EV) as (row & Hrw & Hmem).
  pose proof (id_ok_of p Hpid) as Hok. unfold id_ok in Hok. rewrite Hrw in Hok.
  apply andb_true_iff in Hok as [Hok _]. apply andb_true_iff in Hok as [_ Hok].
  rewrite forallb_forall in Hok. specialize (Hok name Hname). cbv zeta in Hok.
  replace (cur_level s + 1 - 1) with (level_of p) in *
    by (rewrite (cur_level_Inv s p Hp HI); lia).
  rewrite Hmem in Hok. cbn [implb] in Hok. apply andb_true_iff in Hok as [Hin Hlv].
  apply Nat.eqb_eq in Hlv.
  exists (build_id (level_of p) name). cbn [w_prev w_stack].
  split; [reflexivity|]. split; [apply in_ids_In; exact Hin | lia].
Qed.

Lemma do_call_inv : forall c s s' r, Inv s -> do_call c s = (s', r) -> Inv s'.
Proof.
  intros c s s' r HI H.
  assert (Hkeep : forall (x : res unit), lift x s = (s', r) -> Inv s').
  { intros x Hx. unfold lift in Hx. inversion Hx; subst; exact HI. }
  destruct containers_ok as (_ & _ & Hc1 & Hc2 & Hf1 & Hf2).
  destruct c as [en|en|text enc ind le mt|md enc fmt|content dt enc le]; cbn [do_call] in H.
  - eapply ncs_inv_gen; [exact HI | | exact Hc1 | exact Hc2 | | exact H].
    + unfold GenText.writer_level_change; lia.
    + intros p row Hp Hrw Hmem. destruct HI as (p' & Hp' & Hpid & Hlen).
      rewrite Hp in Hp'. inversion Hp'; subst p'.
      pose proof (id_ok_of p Hpid) as Hok. unfold id_ok in Hok. rewrite Hrw in Hok.
      apply andb_true_iff in Hok as [Hok _]. apply andb_true_iff in Hok as [Hok _].
      apply andb_true_iff in Hok as [Hok _].
      fold change_id in Hmem. rewrite Hmem in Hok. cbn [implb] in Hok.
      apply Nat.leb_le in Hok. lia.
  - eapply ncs_inv_gen; [exact HI | | exact Hf1 | exact Hf2 | | exact H].
    + unfold GenText.writer_level_file; lia.
    + intros p row Hp Hrw Hmem. destruct HI as (p' & Hp' & Hpid & Hlen).
      rewrite Hp in Hp'. inversion Hp'; subst p'.
      pose proof (id_ok_of p Hpid) as Hok. unfold id_ok in Hok. rewrite Hrw in Hok.
      apply andb_true_iff in Hok as [Hok _]. apply andb_true_iff in Hok as [Hok _].
      apply andb_true_iff in Hok as [_ Hok].
      fold file_id in Hmem. rewrite Hmem in Hok. cbn [implb] in Hok.
      apply Nat.leb_le in Hok. lia.
  - destruct text; try (eapply Hkeep; eassumption).
    rewrite bind_lift in H.
    destruct (match mt with WNone => Ok true | _ => _ end) as [mok|e1]; [|inversion H; subst; exact HI].
    destruct (negb mok); [eapply Hkeep; eassumption|].
    eapply ncontent_inv; [| exact HI | exact H]. cbn; auto.
  - destruct md; try (eapply Hkeep; eassumption).
    destruct (negb (wv_truthy (WDict j))); [eapply Hkeep; eassumption|].
    rewrite bind_lift in H.
    destruct (in_strset _ _) as [fok|e1]; [|inversion H; subst; exact HI].
    destruct (negb fok); [eapply Hkeep; eassumption|].
    rewrite bind_lift in H.
    destruct (json_dump j) as [d|e1]; [|inversion H; subst; exact HI].
    eapply ncontent_inv; [| exact HI | exact H]. cbn; auto.
  - destruct content; try (eapply Hkeep; eassumption).
    rewrite bind_lift in H.
    destruct (match dt with WNone => Ok true | _ => _ end) as [tok|e1]; [|inversion H; subst; exact HI].
    destruct (negb tok); [eapply Hkeep; eassumption|].
    eapply ncontent_inv; [| exact HI | exact H]. cbn; auto.
Qed.

Lemma run_calls_inv : forall cs s, Inv s -> Inv (snd (run_calls s cs)).
Proof.
  induction cs as [|c t IH]; intros s HI; [exact HI|].
  rewrite run_calls_cons. cbn [snd]. apply IH.
  destruct (do_call c s) as [s' r] eqn:E. cbn [fst]. eapply do_call_inv; eauto.
Qed.

Lemma init_inv : forall enc ver s0, writer_init enc ver = (s0, Ok tt) -> Inv s0.
Proof.
  intros enc ver s0 H. unfold writer_init in H.
  destruct (in_strset ver GenText.versions) as [[|]|e]; try (inversion H; fail).
  rewrite ncs_eq in H; [| cbn; discriminate | unfold GenText.writer_level_main; lia].
  unfold validate_section in H. cbn [w_prev w_stack w_out] in H.
  destruct (render_header _ _) as [h|e]; [|inversion H].
  cbv zeta in H. inversion H; subst; clear H.
  destruct containers_ok as (Hm1 & Hm2 & _).
  exists main_id. cbn [w_prev w_stack]. split; [reflexivity|]. split.
  - apply in_ids_In; exact Hm1.
  - rewrite Hm2. reflexivity.
Qed.

(* reachable: the state of a successfully constructed writer after any sequence of calls (whatever their results) *)
Definition reachable (s : wstate) : Prop :=
  exists enc ver s0 cs, writer_init enc ver = (s0, Ok tt) /\ snd (run_calls s0 cs) = s.

Lemma reachable_inv : forall s, reachable s -> Inv s.
Proof.
  intros s (enc & ver & s0 & cs & Hi & Hr). subst s. apply run_calls_inv. eapply init_inv; eauto.
Qed.

Lemma reachable_init : forall enc ver s0, writer_init enc ver = (s0, Ok tt) -> reachable s0.
Proof. intros enc ver s0 H. exists enc, ver, s0, []. auto. Qed.

Lemma reachable_step : forall c s s' r, reachable s -> do_call c s = (s', r) -> reachable s'.
Proof.
  intros c s s' r (enc & ver & s0 & cs & Hi & Hr) H.
  exists enc, ver, s0, (cs ++ [c]). split; auto.
  rewrite run_calls_app_snd, Hr, run_calls_cons. cbn [snd run_calls]. rewrite H. reflexivity.
Qed.

Lemma reachable_run : forall cs s, reachable s -> reachable (snd (run_calls s cs)).
Proof.
  induction cs as [|c t IH]; intros s Hs; [exact Hs|].
  rewrite run_calls_cons. cbn [snd]. apply IH.
  destruct (do_call c s) as [s' r] eqn:E. cbn [fst]. eapply reachable_step; eauto.
Qed.

(* the shape of reachable states: the last written section is one of the nine ids and the depth of the
   encoding stack is determined by it *)
Theorem C09_state_shape : forall s, reachable s ->
  exists p, w_prev s = Some p /\ In p ids /\ length (w_stack s) = 1 + level_of p /\ cur_level s = level_of p.
Proof.
  intros s Hs. pose proof (reachable_inv s Hs) as HI. pose proof HI as (p & Hp & Hid & Hl).
  exists p. repeat split; auto. apply cur_level_Inv; auto.
Qed.

(* ------------------------------------------------------------------------------------------------ *)
(* C09 (2) and (5)                                                                                   *)
(* ------------------------------------------------------------------------------------------------ *)
Theorem C09_atomic : forall s, reachable s -> forall c s' e, do_call c s = (s', Err e) -> s' = s.
Proof. intros s Hs c s' e H. eapply do_call_atomic; eauto. apply Inv_stack, reachable_inv, Hs. Qed.

Theorem C09_no_byte_written : forall s, reachable s -> forall c s' e,
  do_call c s = (s', Err e) -> w_out s' = w_out s /\ w_stack s' = w_stack s /\ w_prev s' = w_prev s.
Proof. intros s Hs c s' e H. rewrite (C09_atomic s Hs c s' e H). auto. Qed.

Theorem C09_continue : forall s, reachable s -> forall c s' e cs,
  do_call c s = (s', Err e) -> run_calls s' cs = run_calls s cs.
Proof. intros s Hs c s' e cs H. rewrite (C09_atomic s Hs c s' e H). reflexivity. Qed.

(* a rejected call inside a sequence can be deleted without changing the final state or the later results *)
Theorem C09_continue_run : forall s, reachable s -> forall c s' e cs,
  do_call c s = (s', Err e) ->
  run_calls s (c :: cs) = ((Err e, length (w_out s)) :: fst (run_calls s cs), snd (run_calls s cs)).
Proof.
  intros s Hs c s' e cs H. rewrite run_calls_cons, H. cbn [fst snd].
  rewrite (C09_atomic s Hs c s' e H). reflexivity.
Qed.

(* ------------------------------------------------------------------------------------------------ *)
(* C09 (4), direction "accepted => order respected"                                                  *)
(* ------------------------------------------------------------------------------------------------ *)
(* the section id a call writes *)
Definition target (s : wstate) (c : call) : bytes :=
  match c with
  | NewChange _ => build_id (GenText.writer_level_change - 1) (B "change")
  | NewFile _ => build_id (GenText.writer_level_file - 1) (B "file")
  | WritePreamble _ _ _ _ _ => build_id (cur_level s + 1 - 1) (B "preamble")
  | WriteMeta _ _ _ => build_id (cur_level s + 1 - 1) (B "meta")
  | WriteDiff _ _ _ _ => build_id (cur_level s + 1 - 1) (B "diff")
  end.

Lemma do_call_ok_validate : forall c s s',
  w_stack s <> [] -> do_call c s = (s', Ok tt) -> validate_section s (target s c) = Ok tt.
Proof.
  intros c s s' Hne H.
  assert (Hno : forall (e : exn), @lift unit (Err e) s = (s', Ok tt) -> False).
  { intros e Hx. unfold lift in Hx. inversion Hx. }
  destruct c as [en|en|text enc ind le mt|md enc fmt|content dt enc le]; cbn [do_call target] in *.
  - rewrite ncs_eq in H; [| exact Hne | unfold GenText.writer_level_change; lia].
    destruct (validate_section s _) as [[]|e1]; [reflexivity | inversion H].
  - rewrite ncs_eq in H; [| exact Hne | unfold GenText.writer_level_file; lia].
    destruct (validate_section s _) as [[]|e1]; [reflexivity | inversion H].
  - destruct text; try (exfalso; eapply Hno; eassumption).
    rewrite bind_lift in H.
    destruct (match mt with WNone => Ok true | _ => _ end) as [mok|e1]; [|inversion H].
    destruct (negb mok); [exfalso; eapply Hno; eassumption|].
    rewrite ncontent_eq in H.
    destruct (validate_section s _) as [[]|e1]; [reflexivity | inversion H].
  - destruct md; try (exfalso; eapply Hno; eassumption).
    destruct (negb (wv_truthy (WDict j))); [exfalso; eapply Hno; eassumption|].
    rewrite bind_lift in H.
    destruct (in_strset _ _) as [fok|e1]; [|inversion H].
    destruct (negb fok); [exfalso; eapply Hno; eassumption|].
    rewrite bind_lift in H.
    destruct (json_dump j) as [d|e1]; [|inversion H].
    rewrite ncontent_eq in H.
    destruct (validate_section s _) as [[]|e1]; [reflexivity | inversion H].
  - destruct content; try (exfalso; eapply Hno; eassumption).
    rewrite bind_lift in H.
    destruct (match dt with WNone => Ok true | _ => _ end) as [tok|e1]; [|inversion H].
    destruct (negb tok); [exfalso; eapply Hno; eassumption|].
    rewrite ncontent_eq in H.
    destruct (validate_section s _) as [[]|e1]; [reflexivity | inversion H].
Qed.

Theorem C09_accept_order : forall s c s', reachable s -> do_call c s = (s', Ok tt) ->
  exists p, w_prev s = Some p /\ In (target s c) (table p).
Proof.
  intros s c s' Hs H. pose proof (reachable_inv s Hs) as HI.
  pose proof HI as (p & Hp & _ & _). exists p. split; [exact Hp|].
  apply (validate_ok_table s _ p Hp).
  eapply do_call_ok_validate; eauto using Inv_stack.
Qed.

(* an accepted call makes its target the new "previous section" *)
Theorem C09_accept_prev : forall s c s', reachable s -> do_call c s = (s', Ok tt) -> w_prev s' = Some (target s c).
Proof.
  intros s c s' Hs H. pose proof (Inv_stack s (reachable_inv s Hs)) as Hne.
  assert (Hno : forall (e : exn), @lift unit (Err e) s = (s', Ok tt) -> False).
  { intros e Hx. unfold lift in Hx. inversion Hx. }
  assert (Hcont : forall name content le enc ind wle inh extra,
            new_content_section name content le enc ind wle inh extra s = (s', Ok tt) ->
            w_prev s' = Some (build_id (cur_level s + 1 - 1) name)).
  { intros name content le enc ind wle inh extra Hx. rewrite ncontent_eq in Hx.
    destruct (validate_section s _) as [[]|e1]; [|inversion Hx].
    destruct (prepare_content _ _ _ _ _ _) as [[body le_out]|e1]; [|inversion Hx].
    cbv zeta in Hx. destruct (render_header _ _) as [h|e1]; inversion Hx; reflexivity. }
  assert (Hcon : forall name level enc extra, 1 <= level ->
            new_container_section name level enc extra s = (s', Ok tt) ->
            w_prev s' = Some (build_id (level - 1) name)).
  { intros name level enc extra Hl Hx. rewrite ncs_eq in Hx by assumption.
    destruct (validate_section s _) as [[]|e1]; [|inversion Hx].
    destruct (render_header _ _) as [h|e1]; [|inversion Hx].
    cbv zeta in Hx. inversion Hx; reflexivity. }
  destruct c as [en|en|text enc ind le mt|md enc fmt|content dt enc le]; cbn [do_call target] in *.
  - eapply Hcon; [|exact H]. unfold GenText.writer_level_change; lia.
  - eapply Hcon; [|exact H]. unfold GenText.writer_level_file; lia.
  - destruct text; try (exfalso; eapply Hno; eassumption).
    rewrite bind_lift in H.
    destruct (match mt with WNone => Ok true | _ => _ end) as [mok|e1]; [|inversion H].
    destruct (negb mok); [exfalso; eapply Hno; eassumption|]. eapply Hcont; eassumption.
  - destruct md; try (exfalso; eapply Hno; eassumption).
    destruct (negb (wv_truthy (WDict j))); [exfalso; eapply Hno; eassumption|].
    rewrite bind_lift in H.
    destruct (in_strset _ _) as [fok|e1]; [|inversion H].
    destruct (negb fok); [exfalso; eapply Hno; eassumption|].
    rewrite bind_lift in H.
    destruct (json_dump j) as [d|e1]; [|inversion H]. eapply Hcont; eassumption.
  - destruct content; try (exfalso; eapply Hno; eassumption).
    rewrite bind_lift in H.
    destruct (match dt with WNone => Ok true | _ => _ end) as [tok|e1]; [|inversion H].
    destruct (negb tok); [exfalso; eapply Hno; eassumption|]. eapply Hcont; eassumption.
Qed.

(* ------------------------------------------------------------------------------------------------ *)
(* rendering of headers never fails on ASCII-renderable option values                                *)
(* ------------------------------------------------------------------------------------------------ *)
Definition is_ascii (t : text) : bool := forallb (fun c => N.ltb c 128) t.
Definition bytes_ascii (b : bytes) : bool := is_ascii (ascii_text b).

(* option values the header renderer accepts: None (omitted), int, bool, ASCII str *)
Definition rv (v : wv) : bool :=
  match v with
  | WNone | WInt _ | WBool _ => true
  | WStr t => is_ascii t
  | _ => false
  end.

Lemma is_ascii_app : forall a b, is_ascii (a ++ b) = is_ascii a && is_ascii b.
Proof. intros. unfold is_ascii. apply forallb_app. Qed.

Lemma bytes_ascii_app : forall a b, bytes_ascii (a ++ b) = bytes_ascii a && bytes_ascii b.
Proof. intros. unfold bytes_ascii, ascii_text. rewrite map_app. apply is_ascii_app. Qed.

Lemma enc_ascii_some : forall t, is_ascii t = true -> exists b, c_enc ascii t = Some b.
Proof.
  cbn [c_enc ascii]. induction t as [|c t IH]; intro H.
  - exists []. reflexivity.
  - cbn [is_ascii forallb] in H. apply andb_true_iff in H as [H1 H2].
    destruct (IH H2) as [b Hb]. cbn [enc_all]. unfold enc1 at 1. rewrite H1, Hb. eauto.
Qed.

Lemma enc_ascii_is_ascii : forall t b, c_enc ascii t = Some b -> is_ascii t = true.
Proof.
  cbn [c_enc ascii]. induction t as [|c t IH]; intros b H; [reflexivity|].
  cbn [enc_all] in H. unfold enc1 at 1 in H. cbn [is_ascii forallb].
  destruct (N.ltb c 128); [|discriminate]. cbn [andb].
  destruct (enc_all (enc1 128) t) as [b'|] eqn:E; [|discriminate]. eapply IH. reflexivity.
Qed.

Lemma encode_ascii_ok : forall t, is_ascii t = true -> exists b, encode_ascii t = Ok b.
Proof. intros t H. unfold encode_ascii. destruct (enc_ascii_some t H) as [b ->]. eauto. Qed.

Lemma digit_ascii : forall m, (m < 10)%N -> N.ltb (byte_n (n_byte (48 + m))) 128 = true.
Proof.
  intros m H. rewrite <- (N2Nat.id m). assert (Hn : N.to_nat m < 10) by lia.
  remember (N.to_nat m) as n. clear Heqn H m.
  do 10 (destruct n as [|n]; [vm_compute; reflexivity|]). lia.
Qed.

Lemma digits_fuel_ascii : forall fuel n acc,
  bytes_ascii acc = true -> bytes_ascii (N_digits_fuel fuel n acc) = true.
Proof.
  induction fuel as [|f IH]; intros n acc H; cbn [N_digits_fuel]; [exact H|].
  cbv zeta.
  assert (Hd : bytes_ascii (n_byte (48 + N.modulo n 10) :: acc) = true).
  { unfold bytes_ascii, ascii_text. cbn [map is_ascii forallb]. apply andb_true_iff. split.
    - apply digit_ascii. apply N.mod_lt. discriminate.
    - exact H. }
  destruct (N.eqb (N.div n 10) 0); [exact Hd | apply IH; exact Hd].
Qed.

Lemma Z_to_dec_ascii : forall z, bytes_ascii (Z_to_dec z) = true.
Proof.
  destruct z as [|p|p]; unfold Z_to_dec.
  - vm_compute. reflexivity.
  - unfold N_to_dec. apply digits_fuel_ascii. reflexivity.
  - rewrite bytes_ascii_app. apply andb_true_iff. split; [vm_compute; reflexivity|].
    unfold N_to_dec. apply digits_fuel_ascii. reflexivity.
Qed.

Lemma fmt_value_rv : forall v, rv v = true -> exists f, fmt_value v = Ok f /\ is_ascii f = true.
Proof.
  destruct v as [|b|z|t|b|j|]; cbn [rv fmt_value]; intro H; try discriminate.
  - eexists; split; [reflexivity | vm_compute; reflexivity].
  - destruct b; eexists; (split; [reflexivity | vm_compute; reflexivity]).
  - eexists; split; [reflexivity | apply Z_to_dec_ascii].
  - eauto.
Qed.

Definition kv_ok (kv : bytes * wv) : Prop := bytes_ascii (fst kv) = true /\ rv (snd kv) = true.

Lemma render_pairs_ok : forall o, Forall kv_ok o ->
  exists ps, render_pairs o = Ok ps /\ Forall (fun p => is_ascii p = true) ps.
Proof.
  induction o as [|[k v] t IH]; intro H.
  - exists []. split; [reflexivity | constructor].
  - inversion H as [|x l [Hk Hv] Ht]; subst. cbn [fst snd] in *.
    destruct (IH Ht) as (ps & Hps & Hall).
    assert (Hgen : forall f, fmt_value v = Ok f -> is_ascii f = true ->
              exists ps', (do f <- fmt_value v; do r <- render_pairs t; Ok ((ascii_text k ++ [61%N] ++ f) :: r)) = Ok ps'
                          /\ Forall (fun p => is_ascii p = true) ps').
    { intros f Hf Ha. rewrite Hf, Hps. cbn [bind]. eexists; split; [reflexivity|].
      constructor; [|exact Hall]. rewrite !is_ascii_app. fold (bytes_ascii k). rewrite Hk, Ha. reflexivity. }
    destruct (fmt_value_rv v Hv) as (f & Hf & Ha).
    destruct v; cbn [render_pairs]; try (eapply Hgen; eassumption); try discriminate.
    eauto.
Qed.

Lemma insert_sorted_Forall : forall {A} (leb : A -> A -> bool) (P : A -> Prop) x l,
  P x -> Forall P l -> Forall P (insert_sorted leb x l).
Proof.
  induction l as [|y l IH]; intros Hx Hl; cbn [insert_sorted].
  - constructor; auto.
  - inversion Hl; subst. destruct (leb x y); constructor; auto.
Qed.

Lemma isort_Forall : forall {A} (leb : A -> A -> bool) (P : A -> Prop) l,
  Forall P l -> Forall P (isort leb l).
Proof.
  unfold isort. induction l as [|x l IH]; intro H; cbn [fold_right]; [constructor|].
  inversion H; subst. apply insert_sorted_Forall; auto.
Qed.

Lemma join_ascii : forall sep ps, is_ascii sep = true -> Forall (fun p => is_ascii p = true) ps ->
  is_ascii (join sep ps) = true.
Proof.
  intros sep ps Hs. induction ps as [|p ps IH]; intro H; [reflexivity|].
  inversion H as [|x l Hp Hps]; subst. cbn [join]. destruct ps as [|q ps]; [exact Hp|].
  rewrite !is_ascii_app, Hp, Hs, (IH Hps). reflexivity.
Qed.

Lemma render_header_ok : forall section opts, Forall kv_ok opts -> exists h, render_header section opts = Ok h.
Proof.
  intros section opts H. unfold render_header.
  destruct (render_pairs_ok (sort_opts opts)) as (ps & Hps & Hall).
  { unfold sort_opts. apply isort_Forall. exact H. }
  rewrite Hps. cbn [bind].
  destruct (nonempty _); [|eauto].
  destruct (encode_ascii_ok (join (ascii_text (B ", ")) ps)) as [ob Hob].
  { apply join_ascii; [vm_compute; reflexivity | exact Hall]. }
  rewrite Hob. cbn [bind]. eauto.
Qed.

Lemma dict_set_ok : forall k v o, bytes_ascii (B k) = true -> rv v = true ->
  Forall kv_ok o -> Forall kv_ok (dict_set k v o).
Proof.
  intros k v o Hk Hv. unfold dict_set. induction o as [|[k' v'] o IH]; intro H; cbn [assoc_set].
  - constructor; [split; assumption | constructor].
  - inversion H as [|x l [Hk' Hv'] Ho]; subst. destruct (beq (B k) k').
    + constructor; [split; assumption | exact Ho].
    + constructor; [split; assumption | auto].
Qed.

(* ------------------------------------------------------------------------------------------------ *)
(* C09 (4), converse for the container calls                                                         *)
(* ------------------------------------------------------------------------------------------------ *)
Lemma ncs_accept : forall name level enc extra s,
  w_stack s <> [] -> 1 <= level ->
  validate_section s (build_id (level - 1) name) = Ok tt ->
  Forall kv_ok extra -> rv enc = true ->
  exists s', new_container_section name level enc extra s = (s', Ok tt).
Proof.
  intros name level enc extra s Hne Hl Hv Hex Henc.
  rewrite ncs_eq by assumption. rewrite Hv.
  destruct (render_header_ok (build_id (level - 1) name) (dict_set "encoding" enc extra)) as [h Hh].
  { apply dict_set_ok; [vm_compute; reflexivity | exact Henc | exact Hex]. }
  rewrite Hh. cbv zeta. eauto.
Qed.
