(* TruncationFacts.v — property C07: the declared length frames a section's content; what a truncated / damaged
   file can and cannot make the reader (Reader.read_all) yield.
   (lemma names here; props/C07.v restates them as C07_<name>)
   1. read_content_factored, framing, framing_any_content, iter_step_framing, iter_step_position
                            read_content takes exactly min(length, available) bytes, whatever they are, and its
                            payload is a function (content_decode / content_payload) of those bytes and the options only.
   2. prefix_determinism, truncation_app, truncation_partial, truncation_without_short_read, short_read_payload
                            steps that complete inside a prefix of the data are identical on the prefix alone; the
                            records of a truncated file are a prefix of the intact ones plus AT MOST ONE short-read record.
   3. truncation_refuted    the full statement ("never an altered section") is false: concrete witness.
   4. bad_length_str/_neg/_missing/_loop/_beyond/_beyond_exhausts
                            non-integer / negative length: parse error at the header's line, nothing yielded;
                            length beyond the data present: same as reading to the end of the stream. *)
From Coq Require Import List Arith NArith ZArith Bool Strings.Byte Lia ZifyBool.
From Coq Require Strings.String.
From DX Require Import Bytes Res Codec Text Sections Header Stream Json Reader SectionsSpec StreamFacts SectionsFacts.
From DXGen Require GenSections GenText.
Import ListNotations.
Import String.StringSyntax.
Local Open Scope string_scope.
Local Open Scope list_scope.

(* ------------------------------------------------------------------------------------------------ *)
(* 0. the concrete file used by the witness and by the Examples                                      *)
(* ------------------------------------------------------------------------------------------------ *)

Definition c07_nl : bytes := [x0a].
(* 36 bytes of main header, 21 bytes of preamble header, 6 bytes of content: 63 bytes *)
Definition c07_file : bytes :=
  B "#diffx: encoding=utf-8, version=1.0" ++ c07_nl ++
  B "#.preamble: length=6" ++ c07_nl ++
  B "ab" ++ c07_nl ++ B "cd" ++ c07_nl.

(* ------------------------------------------------------------------------------------------------ *)
(* 3. the full truncation statement is false of the model (known finding "short-read-accepted")     *)
(* ------------------------------------------------------------------------------------------------ *)

(* cut the 63-byte file after byte 60, i.e. inside the preamble's content right after its first newline:
   the reader yields a .preamble record with text "ab\n" where the intact file has "ab\ncd\n", and ends normally. *)
Theorem truncation_refuted :
  exists (data : bytes) (k : nat) (r_cut r_intact : record),
    k <= List.length data /\
    nth_error (fst (read_all [] default_chunk (firstn k data))) 1 = Some r_cut /\
    nth_error (fst (read_all [] default_chunk data)) 1 = Some r_intact /\
    snd (read_all [] default_chunk (firstn k data)) = TEnd /\
    snd (read_all [] default_chunk data) = TEnd /\
    r_id r_cut = r_id r_intact /\ r_id r_cut = B ".preamble" /\
    r_opts r_cut = r_opts r_intact /\
    r_payload r_intact = PText [97; 98; 10; 99; 100; 10]%N /\
    r_payload r_cut = PText [97; 98; 10]%N /\
    r_payload r_cut <> r_payload r_intact /\
    ~ (exists t, fst (read_all [] default_chunk data) = fst (read_all [] default_chunk (firstn k data)) ++ t).
Proof.
  exists c07_file, 60.
  eexists. eexists.
  split; [vm_compute; lia|].
  split; [vm_compute; reflexivity|].
  split; [vm_compute; reflexivity|].
  split; [vm_compute; reflexivity|].
  split; [vm_compute; reflexivity|].
  split; [reflexivity|]. split; [reflexivity|]. split; [reflexivity|]. split; [reflexivity|]. split; [reflexivity|].
  split; [cbn; discriminate|].
  intros [t Ht]. vm_compute in Ht. discriminate Ht.
Qed.

(* ------------------------------------------------------------------------------------------------ *)
(* 1. framing                                                                                        *)
(* ------------------------------------------------------------------------------------------------ *)

(* what _read_content makes of the bytes it has read: independent of the stream and of the line counter *)
Inductive content_dec :=
| DOk (p : payload) (nlines : nat)   (* payload, and the number of lines the line counter advances by *)
| DParseHdr                          (* DiffXParseError at the section header's line (linenum - 1) *)
| DParseBody                         (* DiffXParseError at linenum *)
| DExc (e : exn).

Definition content_decode (content : bytes) (encoding indent line_endings : option pv) (keep_bytes : bool)
  : content_dec :=
  if is_nil content then DParseHdr else
  match encoding with
  | Some (VInt _) => DParseHdr
  | _ =>
    let enc : option bytes := match encoding with Some (VStr s) => Some s | _ => None end in
    let indent_bad := match indent with
                      | None => false
                      | Some (VStr _) => true
                      | Some (VInt z) => (z <? 0)%Z
                      end in
    if indent_bad then DParseHdr else
    let nl_res : res bytes :=
      if pv_given line_endings then
        match line_endings with
        | Some (VStr le) => get_newline_for_type le enc
        | _ => Err EValue
        end
      else do p <- guess_line_endings_bytes content enc; Ok (snd p) in
    match nl_res with
    | Err e => if caught_as_parse e then DParseBody else DExc e
    | Ok newline =>
      match split_lines content newline true with
      | Err e => DExc e
      | Ok lines =>
        (* the raw content must itself end with the newline (checked before indentation is stripped) *)
        if negb (bends newline content) then DParseBody else
        let content1 :=
          match indent with
          | Some (VInt z) =>
              if (0 <? z)%Z
              then concat (map (strip_spaces (Z.to_nat (Z.min z (Z.of_nat (List.length content))))) lines)
              else content
          | _ => content
          end in
        let finish (p : payload) (ends : bool) : content_dec :=
          if ends then DOk p (List.length lines) else DParseBody in
        match enc, keep_bytes with
        | Some e, false =>
            match py_decode content1 e with
            | Err ex => if caught_as_parse ex then DParseBody else DExc ex
            | Ok t =>
                match py_decode newline e with
                | Err ex => if caught_as_parse ex then DParseBody else DExc ex
                | Ok nlt => finish (PText t) (suffixb N.eqb nlt t)
                end
            end
        | _, _ => finish (PBytes content1) (bends newline content1)
        end
      end
    end
  end.

(* the payload of a content section as a function of its raw bytes and the options in force *)
Definition content_payload (c : bytes) (encoding indent line_endings : option pv) (keep_bytes : bool) : option payload :=
  match content_decode c encoding indent line_endings keep_bytes with DOk p _ => Some p | _ => None end.

Definition content_result_of (d : content_dec) (s1 : stream) (ln : Z) (fnl : option bytes) : content_result :=
  match d with
  | DOk p k => COk p {| st_stream := s1; st_linenum := (ln + Z.of_nat k)%Z; st_fnl := fnl |}
  | DParseHdr => CParse (ln - 1)%Z
  | DParseBody => CParse ln
  | DExc e => CExc e
  end.

(* number of bytes asked of fp.read: min(length, sys.maxsize), 0 when negative *)
Definition take_len (len : Z) : nat := Z.to_nat (Z.min len sys_maxsize).

Definition advance (s : stream) (k : nat) : stream := {| s_data := s_data s; s_pos := s_pos s + k |}.

Lemma firstn_min_len : forall {A} n (l : list A), firstn (Nat.min n (List.length l)) l = firstn n l.
Proof.
  intros A n l. destruct (Nat.min_spec n (List.length l)) as [[? ->]|[? ->]]; [reflexivity|].
  rewrite firstn_all, firstn_all2 by lia. reflexivity.
Qed.

(* _read_content = read min(length, available) bytes, then a function of those bytes and the options *)
Lemma read_content_factored : forall st len enc ind le keep,
  read_content st len enc ind le keep =
  let c := firstn (take_len len) (remaining (st_stream st)) in
  content_result_of (content_decode c enc ind le keep) (advance (st_stream st) (List.length c))
                    (st_linenum st) (st_fnl st).
Proof.
  intros st len enc ind le keep. unfold read_content, sread. cbv zeta.
  replace (Z.to_nat (Z.min (Z.min len sys_maxsize) (Z.of_nat (List.length (remaining (st_stream st))))))
    with (Nat.min (take_len len) (List.length (remaining (st_stream st)))) by (unfold take_len; lia).
  rewrite firstn_min_len. fold (advance (st_stream st) (List.length (firstn (take_len len) (remaining (st_stream st))))).
  set (c := firstn (take_len len) (remaining (st_stream st))).
  set (s1 := advance (st_stream st) (List.length c)).
  unfold content_decode, content_result_of.
  repeat match goal with
         | |- context [match ?x with _ => _ end] =>
             match x with
             | context [match _ with _ => _ end] => fail 1
             | _ => destruct x eqn:?
             end
         end; reflexivity.
Qed.

Lemma remaining_advance' : forall s k, remaining (advance s k) = skipn k (remaining s).
Proof. intros [data p] k. unfold advance. cbn [s_data s_pos]. apply remaining_advance. Qed.

Lemma content_result_of_ok : forall d s1 ln fnl p st',
  content_result_of d s1 ln fnl = COk p st' ->
  exists k, d = DOk p k /\ st' = {| st_stream := s1; st_linenum := (ln + Z.of_nat k)%Z; st_fnl := fnl |}.
Proof. intros [q k| | |e] s1 ln fnl p st' H; cbn in H; try discriminate H. injection H as <- <-. eauto. Qed.

(* C07, framing: whenever _read_content succeeds it has consumed exactly c = the first min(length, available) bytes
   of the stream — whatever these bytes are — and what remains afterwards is exactly what followed c; the payload
   is content_payload of c and the options; the line-ending convention and the data of the stream are untouched. *)
Theorem framing : forall st len enc ind le keep p st',
  read_content st len enc ind le keep = COk p st' ->
  let c := firstn (take_len len) (remaining (st_stream st)) in
  remaining (st_stream st) = c ++ remaining (st_stream st') /\
  List.length c = Nat.min (take_len len) (List.length (remaining (st_stream st))) /\
  st_stream st' = advance (st_stream st) (List.length c) /\
  content_payload c enc ind le keep = Some p /\
  (exists k, content_decode c enc ind le keep = DOk p k /\ st_linenum st' = (st_linenum st + Z.of_nat k)%Z) /\
  st_fnl st' = st_fnl st.
Proof.
  intros st len enc ind le keep p st' H. rewrite read_content_factored in H. cbv zeta in *.
  set (c := firstn (take_len len) (remaining (st_stream st))) in *.
  apply content_result_of_ok in H. destruct H as (k & Hd & ->). cbn [st_stream st_linenum st_fnl].
  split; [rewrite remaining_advance'; subst c; rewrite firstn_length; rewrite <- (firstn_min_len (take_len len));
          symmetry; apply firstn_skipn|].
  split; [subst c; apply firstn_length|].
  split; [reflexivity|].
  split; [unfold content_payload; rewrite Hd; reflexivity|].
  split; [exists k; auto|reflexivity].
Qed.

(* the same read forwards, for EVERY byte string c of the declared length that is present in the stream: the outcome
   is content_decode of c, and on success the stream continues exactly at the byte after c. Header look-alikes, NULs,
   newlines of any convention inside c cannot shift the boundary: c is not inspected to find it. *)
Theorem framing_any_content : forall st c rest enc ind le keep,
  remaining (st_stream st) = c ++ rest ->
  (Z.of_nat (List.length c) <= sys_maxsize)%Z ->
  read_content st (Z.of_nat (List.length c)) enc ind le keep =
    content_result_of (content_decode c enc ind le keep) (advance (st_stream st) (List.length c))
                      (st_linenum st) (st_fnl st) /\
  remaining (advance (st_stream st) (List.length c)) = rest.
Proof.
  intros st c rest enc ind le keep Hr Hmax. rewrite read_content_factored. cbv zeta.
  assert (take_len (Z.of_nat (List.length c)) = List.length c) as -> by (unfold take_len; lia).
  rewrite remaining_advance', Hr.
  rewrite firstn_app, Nat.sub_diag, firstn_all, firstn_O, app_nil_r.
  rewrite skipn_app, Nat.sub_diag, skipn_all. cbn [skipn app]. split; reflexivity.
Qed.

(* a yielded record carries the fields of the header that was read *)
Definition same_header (r : record) (level : nat) (name id : bytes) (opts : options) (line : Z) : Prop :=
  r_level r = level /\ r_type r = name /\ r_id r = id /\ r_opts r = opts /\ r_line r = line.

Lemma iter_step_yield_header : forall orc chunk st valid encs prev level name id opts line st1 r st' valid' encs' prev',
  read_header chunk valid st = HdrOk level name id opts line st1 ->
  iter_step orc chunk st valid encs prev = SYield r st' valid' encs' prev' ->
  same_header r level name id opts line.
Proof.
  intros orc chunk st valid encs prev level name id opts line st1 r st' valid' encs' prev' Hh. unfold iter_step.
  rewrite Hh. cbv beta zeta.
  repeat match goal with
         | |- (match ?x with _ => _ end) = _ -> _ => destruct x eqn:?
         end;
    try discriminate;
    intro H; injection H as <- _ _ _ _; cbn; repeat split; reflexivity.
Qed.

(* the key of the json.loads oracle for a decoded payload *)
Definition oracle_key (p : payload) : bytes :=
  match p with PText t => oracle_key_text t | PBytes b => oracle_key_bytes b | _ => [] end.

(* C07, framing at the level of one iteration of iter_sections: when a content-section header with length=n has been
   read (leaving the stream at st1, just after the header line) and the iteration yields, the section's content is
   exactly c = the first min(n, available) bytes after the header line, the next header is read from the byte right
   after c, and the record's payload is determined by c, the options and (for meta) the json.loads oracle. *)
Theorem iter_step_framing : forall orc chunk st valid encs prev level name id opts line st1 n r st' valid' encs' prev',
  read_header chunk valid st = HdrOk level name id opts line st1 ->
  is_content id = true ->
  opt_get "length" opts = Some (VInt n) ->
  iter_step orc chunk st valid encs prev = SYield r st' valid' encs' prev' ->
  let c := firstn (take_len n) (remaining (st_stream st1)) in
  st_stream st' = advance (st_stream st1) (List.length c) /\
  remaining (st_stream st1) = c ++ remaining (st_stream st') /\
  List.length c = Nat.min (take_len n) (List.length (remaining (st_stream st1))) /\
  same_header r level name id opts line /\
  (exists enc ind keep p0,
     content_payload c enc ind (opt_get "line_endings" opts) keep = Some p0 /\
     (r_payload r = p0 \/
      exists j, r_payload r = PMeta j /\ assoc_get beq (oracle_key p0) orc = Some (LoadsOk j))).
Proof.
  intros orc chunk st valid encs prev level name id opts line st1 n r st' valid' encs' prev' Hh Hc Hn H.
  pose proof (iter_step_yield_header _ _ _ _ _ _ _ _ _ _ _ _ _ _ _ _ _ Hh H) as Hsame.
  cbv zeta. unfold iter_step in H. rewrite Hh in H. cbv beta zeta in H. rewrite Hc, Hn in H.
  repeat match type of H with
         | (match read_content ?a ?b ?c ?d ?e ?f with _ => _ end) = _ =>
             let E := fresh "Ec" in destruct (read_content a b c d e f) eqn:E; try discriminate;
             apply framing in E; cbv zeta in E; destruct E as (E1 & E2 & E3 & E4 & _ & _)
         | (match ?x with _ => _ end) = _ => destruct x eqn:?; try discriminate
         | (if ?x then _ else _) = _ => destruct x eqn:?; try discriminate
         end;
    injection H as <- <- _ _ _; cbn [r_payload];
    (split; [exact E3|]); (split; [exact E1|]); (split; [exact E2|]); (split; [exact Hsame|]);
    eexists _, _, _, _; (split; [exact E4|]); first [left; reflexivity | right; eexists; split; [reflexivity|eassumption]].
Qed.

(* ... in particular, when the declared bytes are all present, the position after the step is
   (position after the header line) + n, and exactly n bytes were taken. *)
Corollary iter_step_position : forall orc chunk st valid encs prev level name id opts line st1 n r st' valid' encs' prev',
  read_header chunk valid st = HdrOk level name id opts line st1 ->
  is_content id = true ->
  opt_get "length" opts = Some (VInt n) ->
  (0 <= n <= Z.of_nat (List.length (remaining (st_stream st1))))%Z -> (n <= sys_maxsize)%Z ->
  iter_step orc chunk st valid encs prev = SYield r st' valid' encs' prev' ->
  s_data (st_stream st') = s_data (st_stream st1) /\
  s_pos (st_stream st') = s_pos (st_stream st1) + Z.to_nat n /\
  remaining (st_stream st') = skipn (Z.to_nat n) (remaining (st_stream st1)).
Proof.
  intros orc chunk st valid encs prev level name id opts line st1 n r st' valid' encs' prev' Hh Hc Hn Hav Hmax H.
  destruct (iter_step_framing _ _ _ _ _ _ _ _ _ _ _ _ _ _ _ _ _ _ Hh Hc Hn H) as (A & _ & C & _).
  assert (take_len n = Z.to_nat n) as E by (unfold take_len; lia).
  rewrite E in *. rewrite A, remaining_advance', C.
  replace (Nat.min (Z.to_nat n) (List.length (remaining (st_stream st1)))) with (Z.to_nat n) by lia.
  cbn [advance s_data s_pos]. auto.
Qed.

(* ------------------------------------------------------------------------------------------------ *)
(* 4. wrong values of length                                                                         *)
(* ------------------------------------------------------------------------------------------------ *)

(* in every state the loop can be in, the encoding stack is not empty *)
Lemma step_inv_top : forall valid encs prev, step_inv valid encs prev -> exists inh, top encs = Some inh.
Proof.
  intros valid encs prev [(_ & -> & _) | (a & _ & _ & Hl)]; [exists None; reflexivity|].
  destruct encs as [|x t]; [cbn in Hl; lia|exists x; reflexivity].
Qed.

(* (a) length is not an integer: DiffXParseError at the header's line, nothing is yielded, nothing is read *)
Theorem bad_length_str : forall orc chunk st valid encs prev level name id opts line st1 s,
  step_inv valid encs prev ->
  read_header chunk valid st = HdrOk level name id opts line st1 ->
  is_content id = true ->
  opt_get "length" opts = Some (VStr s) ->
  iter_step orc chunk st valid encs prev = SParse line None.
Proof.
  intros orc chunk st valid encs prev level name id opts line st1 s Hinv Hh Hc Hl.
  destruct (step_inv_top _ _ _ Hinv) as (inh & Ht).
  unfold iter_step. rewrite Hh. cbv beta zeta. rewrite Hc, Ht, Hl. reflexivity.
Qed.

(* (b) length is a negative integer: the same *)
Theorem bad_length_neg : forall orc chunk st valid encs prev level name id opts line st1 z,
  step_inv valid encs prev ->
  read_header chunk valid st = HdrOk level name id opts line st1 ->
  is_content id = true ->
  opt_get "length" opts = Some (VInt z) -> (z < 0)%Z ->
  iter_step orc chunk st valid encs prev = SParse line None.
Proof.
  intros orc chunk st valid encs prev level name id opts line st1 z Hinv Hh Hc Hl Hz.
  destruct (step_inv_top _ _ _ Hinv) as (inh & Ht).
  unfold iter_step. rewrite Hh. cbv beta zeta. rewrite Hc, Ht, Hl.
  destruct (z <? 0)%Z eqn:E; [reflexivity|lia].
Qed.

(* (a'), not asked: no length option at all: the same *)
Theorem bad_length_missing : forall orc chunk st valid encs prev level name id opts line st1,
  step_inv valid encs prev ->
  read_header chunk valid st = HdrOk level name id opts line st1 ->
  is_content id = true ->
  opt_get "length" opts = None ->
  iter_step orc chunk st valid encs prev = SParse line None.
Proof.
  intros orc chunk st valid encs prev level name id opts line st1 Hinv Hh Hc Hl.
  destruct (step_inv_top _ _ _ Hinv) as (inh & Ht).
  unfold iter_step. rewrite Hh. cbv beta zeta. rewrite Hc, Ht, Hl. reflexivity.
Qed.

(* ... and for the whole iteration: the records so far are kept and the iterator raises DiffXParseError(line) *)
Theorem bad_length_loop : forall fuel orc chunk st valid encs prev acc level name id opts line st1 v,
  step_inv valid encs prev ->
  read_header chunk valid st = HdrOk level name id opts line st1 ->
  is_content id = true ->
  opt_get "length" opts = Some v ->
  (match v with VStr _ => True | VInt z => (z < 0)%Z end) ->
  iter_loop (S fuel) orc chunk st valid encs prev acc = (rev acc, TParse line None).
Proof.
  intros fuel orc chunk st valid encs prev acc level name id opts line st1 v Hinv Hh Hc Hl Hv.
  cbn [iter_loop]. destruct v as [z|s].
  - erewrite bad_length_neg by eassumption. rewrite frev_rev. reflexivity.
  - erewrite bad_length_str by eassumption. rewrite frev_rev. reflexivity.
Qed.

(* (c) length larger than the bytes available: exactly the behaviour of declaring all the bytes available, i.e. a
   read to the end of the stream (the short read of the known finding): _read_content cannot tell the two apart. *)
Theorem bad_length_beyond : forall st z enc ind le keep,
  (Z.of_nat (List.length (remaining (st_stream st))) <= z)%Z ->
  read_content st z enc ind le keep =
  read_content st (Z.of_nat (List.length (remaining (st_stream st)))) enc ind le keep.
Proof.
  intros st z enc ind le keep Hz. rewrite !read_content_factored. cbv zeta.
  set (rem := remaining (st_stream st)) in *.
  assert (firstn (take_len z) rem = firstn (take_len (Z.of_nat (List.length rem))) rem) as ->; [|reflexivity].
  rewrite <- (firstn_min_len (take_len z)), <- (firstn_min_len (take_len (Z.of_nat _))).
  f_equal. unfold take_len. lia.
Qed.

(* ... and then, if it succeeds, the stream is exhausted: every later section has been swallowed *)
Theorem bad_length_beyond_exhausts : forall st z enc ind le keep p st',
  (Z.of_nat (List.length (remaining (st_stream st))) <= z)%Z ->
  (Z.of_nat (List.length (remaining (st_stream st))) <= sys_maxsize)%Z ->
  read_content st z enc ind le keep = COk p st' ->
  remaining (st_stream st') = [] /\
  content_payload (remaining (st_stream st)) enc ind le keep = Some p.
Proof.
  intros st z enc ind le keep p st' Hz Hmax H. apply framing in H. cbv zeta in H.
  destruct H as (_ & B & C & D & _).
  assert (take_len z >= List.length (remaining (st_stream st))) as Hge by (unfold take_len; lia).
  rewrite firstn_all2 in * by lia. split; [|exact D].
  rewrite C, remaining_advance'. apply skipn_all.
Qed.

(* ------------------------------------------------------------------------------------------------ *)
(* 2. prefix determinism and truncation                                                              *)
(* ------------------------------------------------------------------------------------------------ *)

(* the same reader state over the longer data d1 ++ d2 *)
Definition lift_stream (d2 : bytes) (s : stream) : stream := {| s_data := s_data s ++ d2; s_pos := s_pos s |}.
Definition lift (d2 : bytes) (st : rstate) : rstate :=
  {| st_stream := lift_stream d2 (st_stream st); st_linenum := st_linenum st; st_fnl := st_fnl st |}.

Lemma lift_nil : forall st, lift [] st = st.
Proof. intros [[data p] ln fnl]. unfold lift, lift_stream. cbn. rewrite app_nil_r. reflexivity. Qed.

Lemma lift_stream_wf : forall d2 s, wf_stream s -> wf_stream (lift_stream d2 s).
Proof. intros d2 s H. unfold wf_stream, lift_stream in *. cbn. rewrite app_length. lia. Qed.

Lemma remaining_lift : forall d2 s, wf_stream s -> remaining (lift_stream d2 s) = remaining s ++ d2.
Proof.
  intros d2 s H. unfold remaining, lift_stream, wf_stream in *. cbn [s_data s_pos].
  rewrite skipn_app. replace (s_pos s - List.length (s_data s)) with 0 by lia. reflexivity.
Qed.

Lemma wf_pos_remaining : forall s, wf_stream s -> s_pos s + List.length (remaining s) = List.length (s_data s).
Proof. intros s H. rewrite remaining_length. unfold wf_stream in H. lia. Qed.

(* a line that ends inside the prefix is read identically *)
Lemma read_until_abs_lift_line : forall d2 s b s',
  wf_stream s -> read_until_abs s = (b, false, s') ->
  read_until_abs (lift_stream d2 s) = (b, false, lift_stream d2 s') /\
  wf_stream s' /\ s_pos s < s_pos s' /\ s_data s' = s_data s.
Proof.
  intros d2 s b s' Hwf H.
  pose proof (read_until_abs_exact _ _ _ _ H) as (A & Bp & _ & _ & E).
  pose proof (read_until_abs_shape _ _ _ _ H) as [S1 _]. destruct (S1 eq_refl) as (l & Hl & _).
  split; [|split; [auto|split; [|exact A]]].
  - unfold read_until_abs in H |- *. rewrite remaining_lift by assumption.
    destruct (find_byte lf (remaining s) 0) as [i|] eqn:Ef; inversion H; subst; clear H.
    rewrite (find_byte_app_some _ _ d2 _ _ Ef). cbn [lift_stream s_data s_pos].
    pose proof (find_byte_bounds _ _ _ _ Ef) as Hb.
    rewrite firstn_app. replace (i + 1 - List.length (remaining s)) with 0 by lia.
    rewrite firstn_O, app_nil_r. reflexivity.
  - rewrite Bp, Hl, app_length. cbn. lia.
Qed.

(* where the prefix ends before any LF, the longer stream reads beyond the prefix (or also reaches its end) *)
Lemma read_until_abs_lift_eof : forall d2 s b s' bF eF sF',
  wf_stream s -> read_until_abs s = (b, true, s') ->
  read_until_abs (lift_stream d2 s) = (bF, eF, sF') ->
  List.length (s_data s) <= s_pos sF' /\ (eF = false -> List.length (s_data s) < s_pos sF').
Proof.
  intros d2 s b s' bF eF sF' Hwf H HF.
  pose proof (wf_pos_remaining _ Hwf) as Hlen.
  unfold read_until_abs in H, HF. rewrite remaining_lift in HF by assumption.
  destruct (find_byte lf (remaining s) 0) as [i|] eqn:Ef; [inversion H|].
  rewrite (find_byte_app_none _ _ _ _ Ef), find_byte_shift in HF. cbn [lift_stream s_data s_pos] in HF.
  destruct (find_byte lf d2 0) as [j|]; cbn [option_map] in HF; inversion HF; subst; clear HF; cbn [s_pos].
  - split; [lia|intros _; lia].
  - rewrite app_length. split; [lia|discriminate].
Qed.

Lemma next_nonblank_lift : forall d2 fT fF chunk s,
  0 < chunk -> wf_stream s ->
  List.length (remaining s) < fT -> List.length (remaining (lift_stream d2 s)) < fF ->
  match next_nonblank fT chunk s with
  | Ok (Some line, s1) =>
      next_nonblank fF chunk (lift_stream d2 s) = Ok (Some line, lift_stream d2 s1) /\
      wf_stream s1 /\ s_pos s < s_pos s1 /\ s_data s1 = s_data s
  | Ok (None, s1) =>
      forall line sF1, next_nonblank fF chunk (lift_stream d2 s) = Ok (Some line, sF1) ->
                       List.length (s_data s) < s_pos sF1
  | Err _ => False
  end.
Proof.
  intros d2. induction fT as [|f IH]; intros fF chunk s Hc Hwf HfT HfF; [lia|].
  destruct fF as [|f']; [lia|].
  cbn [next_nonblank]. rewrite !read_until_abs_correct by assumption. cbn [bind].
  destruct (read_until_abs s) as [[line eof] s1] eqn:E. destruct eof.
  - (* the prefix ends here *)
    intros line' sF1 HF.
    destruct (read_until_abs (lift_stream d2 s)) as [[lineF eofF] sF'] eqn:EF.
    destruct (read_until_abs_lift_eof _ _ _ _ _ _ _ Hwf E EF) as [H1 H2].
    destruct eofF; [discriminate HF|]. specialize (H2 eq_refl).
    destruct (nonempty (strip lineF)).
    + inversion HF; subst. exact H2.
    + pose proof (read_until_abs_exact _ _ _ _ EF) as (_ & _ & _ & _ & W).
      apply next_nonblank_wf in HF; [|assumption|apply W; apply lift_stream_wf; assumption].
      destruct HF as (_ & _ & HF). lia.
  - destruct (read_until_abs_lift_line d2 _ _ _ Hwf E) as (EF & Hwf1 & Hpos & Hdata). rewrite EF.
    destruct (nonempty (strip line)); [auto|].
    pose proof (read_until_abs_exact _ _ _ _ E) as (_ & Bp & _ & D & _).
    pose proof (read_until_abs_exact _ _ _ _ EF) as (_ & BpF & _ & DF & _).
    assert (List.length (remaining s1) < f) as H1.
    { rewrite D, app_length in HfT. lia. }
    assert (List.length (remaining (lift_stream d2 s1)) < f') as H2.
    { rewrite DF, app_length in HfF. cbn [lift_stream s_pos] in *. lia. }
    specialize (IH f' chunk s1 Hc Hwf1 H1 H2).
    destruct (next_nonblank f chunk s1) as [[[l2|] s2]|e]; [| |exact IH].
    + destruct IH as (I1 & I2 & I3 & I4). repeat split; auto; [lia|congruence].
    + intros line' sF1 HF. specialize (IH _ _ HF). rewrite Hdata in IH. exact IH.
Qed.

Definition lift_hdr (d2 : bytes) (h : header_result) : header_result :=
  match h with
  | HdrOk level name id opts line st1 => HdrOk level name id opts line (lift d2 st1)
  | x => x
  end.

(* _read_header on the prefix alone: either it reaches the end of the prefix (HdrEof), and then over the longer data
   a header, if any, ends strictly beyond the prefix; or it gives the same result over the longer data. *)
Lemma read_header_lift : forall d2 chunk valid st,
  0 < chunk -> wf_rstate st ->
  match read_header chunk valid st with
  | HdrEof =>
      forall level name id opts line stF1,
        read_header chunk valid (lift d2 st) = HdrOk level name id opts line stF1 ->
        List.length (s_data (st_stream st)) < s_pos (st_stream stF1)
  | HdrExc _ => False
  | r =>
      read_header chunk valid (lift d2 st) = lift_hdr d2 r /\
      forall level name id opts line st1, r = HdrOk level name id opts line st1 ->
        wf_rstate st1 /\ s_pos (st_stream st) < s_pos (st_stream st1) /\
        s_data (st_stream st1) = s_data (st_stream st)
  end.
Proof.
  intros d2 chunk valid st Hc Hwf. unfold read_header. cbn [lift st_stream st_linenum st_fnl].
  pose proof (next_nonblank_lift d2 (S (List.length (remaining (st_stream st))))
                (S (List.length (remaining (lift_stream d2 (st_stream st))))) chunk (st_stream st) Hc Hwf
                (Nat.lt_succ_diag_r _) (Nat.lt_succ_diag_r _)) as H.
  destruct (next_nonblank _ chunk (st_stream st)) as [[[hdr|] s1]|e]; [| |exact H].
  - destruct H as (HF & Hwf1 & Hpos & Hdata). rewrite HF.
    destruct (negb _).
    + split; [reflexivity|discriminate].
    + destruct (parse_header _ _).
      * split; [reflexivity|]. intros ? ? ? ? ? ? Q. inversion Q; subst. cbn [st_stream]. auto.
      * split; [reflexivity|discriminate].
  - intros level name id opts line stF1 HF.
    destruct (next_nonblank _ chunk (lift_stream d2 (st_stream st))) as [[[hdrF|] sF1]|e] eqn:EF; try discriminate HF.
    specialize (H _ _ eq_refl).
    destruct (negb _); [discriminate HF|]. destruct (parse_header _ _); [|discriminate HF].
    inversion HF; subst. exact H.
Qed.

Definition lift_content (d2 : bytes) (c : content_result) : content_result :=
  match c with COk p st => COk p (lift d2 st) | x => x end.

(* _read_content whose declared bytes are all inside the prefix: identical *)
Lemma read_content_lift : forall d2 st len enc ind le keep,
  wf_rstate st -> take_len len <= List.length (remaining (st_stream st)) ->
  read_content (lift d2 st) len enc ind le keep = lift_content d2 (read_content st len enc ind le keep).
Proof.
  intros d2 st len enc ind le keep Hwf Hlen. rewrite !read_content_factored. cbv zeta.
  cbn [lift st_stream st_linenum st_fnl]. rewrite remaining_lift by exact Hwf.
  rewrite firstn_app. replace (take_len len - List.length (remaining (st_stream st))) with 0 by lia.
  rewrite firstn_O, app_nil_r.
  destruct (content_decode _ enc ind le keep); reflexivity.
Qed.

Definition lift_step (d2 : bytes) (r : step_result) : step_result :=
  match r with SYield r st v e p => SYield r (lift d2 st) v e p | x => x end.

(* One iteration on the prefix alone against the same iteration over the longer data: three cases. *)
Lemma iter_step_lift : forall d2 orc chunk st valid encs prev,
  0 < chunk -> wf_rstate st ->
  (* A: identical outcome *)
  iter_step orc chunk (lift d2 st) valid encs prev = lift_step d2 (iter_step orc chunk st valid encs prev) \/
  (* B: the prefix ends before a complete header line *)
  read_header chunk valid st = HdrEof \/
  (* C: short read: a content header read identically, declaring more bytes than the prefix still has *)
  (exists level name id opts line st1 n,
     read_header chunk valid st = HdrOk level name id opts line st1 /\
     read_header chunk valid (lift d2 st) = HdrOk level name id opts line (lift d2 st1) /\
     wf_rstate st1 /\ is_content id = true /\ opt_get "length" opts = Some (VInt n) /\
     List.length (remaining (st_stream st1)) < take_len n).
Proof.
  intros d2 orc chunk st valid encs prev Hc Hwf.
  pose proof (read_header_lift d2 chunk valid st Hc Hwf) as H.
  destruct (read_header chunk valid st) as [|level name id opts line st1|l c|e] eqn:Hh.
  - right; left; reflexivity.
  - destruct H as (HF & Hwf1). destruct (Hwf1 _ _ _ _ _ _ eq_refl) as (W & _ & _). clear Hwf1. cbn [lift_hdr] in HF.
    destruct (is_content id) eqn:Hcont.
    + destruct (opt_get "length" opts) as [[n|s]|] eqn:Hl.
      * destruct (le_lt_dec (take_len n) (List.length (remaining (st_stream st1)))) as [Hle|Hlt].
        -- left. unfold iter_step. rewrite Hh, HF. cbv beta zeta. rewrite Hcont, Hl.
           destruct (top encs) as [inh|]; [|reflexivity].
           destruct (n <? 0)%Z; [reflexivity|].
           destruct (is_preamble id).
           { rewrite read_content_lift by assumption.
             match goal with |- context [read_content ?a ?b ?c ?d ?e ?f] => destruct (read_content a b c d e f) end;
               cbn [lift_content]; try reflexivity.
             destruct (table_get id); reflexivity. }
           destruct (is_meta id).
           { destruct (negb _); [reflexivity|].
             rewrite read_content_lift by assumption.
             match goal with |- context [read_content ?a ?b ?c ?d ?e ?f] => destruct (read_content a b c d e f) end;
               cbn [lift_content]; try reflexivity.
             destruct (assoc_get beq _ orc) as [[j| |]|]; try reflexivity.
             destruct (table_get id); reflexivity. }
           destruct (beq id GenSections.sec_file_diff); [|reflexivity].
           rewrite read_content_lift by assumption.
           match goal with |- context [read_content ?a ?b ?c ?d ?e ?f] => destruct (read_content a b c d e f) end;
             cbn [lift_content]; try reflexivity.
           destruct (table_get id); reflexivity.
        -- right; right. exists level, name, id, opts, line, st1, n. auto 10.
      * left. unfold iter_step. rewrite Hh, HF. cbv beta zeta. rewrite Hcont, Hl.
        destruct (top encs); reflexivity.
      * left. unfold iter_step. rewrite Hh, HF. cbv beta zeta. rewrite Hcont, Hl.
        destruct (top encs); reflexivity.
    + left. unfold iter_step. rewrite Hh, HF. cbv beta zeta. rewrite Hcont.
      repeat match goal with
             | |- context [match ?x with _ => _ end] =>
                 match x with
                 | context [match _ with _ => _ end] => fail 1
                 | _ => destruct x eqn:?
                 end
             end; reflexivity.
  - destruct H as (HF & _). left. unfold iter_step. rewrite Hh, HF. reflexivity.
  - destruct H.
Qed.

(* a yield comes from a header that was read, and the stream afterwards is the stream after the header line,
   advanced (by the content read, if any) *)
Lemma iter_step_yield_inv : forall orc chunk st valid encs prev r st' valid' encs' prev',
  iter_step orc chunk st valid encs prev = SYield r st' valid' encs' prev' ->
  exists level name id opts line st1,
    read_header chunk valid st = HdrOk level name id opts line st1 /\
    s_data (st_stream st') = s_data (st_stream st1) /\ s_pos (st_stream st1) <= s_pos (st_stream st').
Proof.
  intros orc chunk st valid encs prev r st' valid' encs' prev' H. unfold iter_step in H.
  destruct (read_header chunk valid st) as [|level name id opts line st1|? ?|?] eqn:Eh; try discriminate.
  exists level, name, id, opts, line, st1. split; [reflexivity|].
  repeat match type of H with
         | (match read_content ?a ?b ?c ?d ?e ?f with _ => _ end) = _ =>
             let E := fresh "Ec" in destruct (read_content a b c d e f) eqn:E; try discriminate;
             apply framing in E; cbv zeta in E; destruct E as (_ & _ & E3 & _)
         | (match ?x with _ => _ end) = _ => destruct x eqn:?; try discriminate
         | (if ?x then _ else _) = _ => destruct x eqn:?; try discriminate
         end;
  inversion H; subst;
  first [ rewrite E3; cbn [advance s_data s_pos]; split; [reflexivity|lia] | split; [reflexivity|lia] ].
Qed.

(* every yield consumes at least one byte (the header line's LF) *)
Lemma iter_step_progress : forall orc chunk st valid encs prev r st' valid' encs' prev',
  0 < chunk -> wf_rstate st ->
  iter_step orc chunk st valid encs prev = SYield r st' valid' encs' prev' ->
  wf_rstate st' /\ s_data (st_stream st') = s_data (st_stream st) /\ s_pos (st_stream st) < s_pos (st_stream st').
Proof.
  intros orc chunk st valid encs prev r st' valid' encs' prev' Hc Hwf H.
  split; [eapply iter_step_wf; eauto|].
  destruct (iter_step_yield_inv _ _ _ _ _ _ _ _ _ _ _ H) as (level & name & id & opts & line & st1 & Hh & Hd & Hp).
  pose proof (read_header_lift [] chunk valid st Hc Hwf) as L. rewrite Hh in L.
  destruct L as (_ & L). destruct (L _ _ _ _ _ _ eq_refl) as (_ & L1 & L2). split; [congruence|lia].
Qed.

Lemma read_header_exhausted : forall chunk valid st,
  0 < chunk -> remaining (st_stream st) = [] -> read_header chunk valid st = HdrEof.
Proof.
  intros chunk valid st Hc H. unfold read_header. rewrite H. cbn [List.length next_nonblank].
  rewrite read_until_abs_correct by assumption. unfold read_until_abs. rewrite H. reflexivity.
Qed.

Lemma iter_loop_S : forall f orc chunk st valid encs prev acc,
  iter_loop (S f) orc chunk st valid encs prev acc =
  match iter_step orc chunk st valid encs prev with
  | SDone => (frev acc, TEnd)
  | SParse l c => (frev acc, TParse l c)
  | SExc e => (frev acc, TExc e)
  | SYield r st' valid' encs' prev' => iter_loop f orc chunk st' valid' encs' prev' (r :: acc)
  end.
Proof. reflexivity. Qed.

Lemma iter_loop_exhausted : forall fuel orc chunk st valid encs prev acc,
  0 < chunk -> remaining (st_stream st) = [] ->
  iter_loop fuel orc chunk st valid encs prev acc = (rev acc, match fuel with O => TFuel | S _ => TEnd end).
Proof.
  intros fuel orc chunk st valid encs prev acc Hc H. destruct fuel as [|f].
  - cbn [iter_loop]. rewrite frev_rev. reflexivity.
  - rewrite iter_loop_S. unfold iter_step. rewrite read_header_exhausted by assumption. rewrite frev_rev. reflexivity.
Qed.

(* the fuel of read_all always suffices *)
Lemma iter_loop_no_fuel : forall fuel orc chunk st valid encs prev acc,
  0 < chunk -> wf_rstate st -> List.length (remaining (st_stream st)) < fuel ->
  snd (iter_loop fuel orc chunk st valid encs prev acc) <> TFuel.
Proof.
  induction fuel as [|f IH]; intros orc chunk st valid encs prev acc Hc Hwf Hf; [lia|].
  rewrite iter_loop_S. destruct (iter_step orc chunk st valid encs prev) as [|r st' v e p|l c|e] eqn:Hs;
    try (cbn [snd]; discriminate).
  destruct (iter_step_progress _ _ _ _ _ _ _ _ _ _ _ Hc Hwf Hs) as (W & D & P).
  apply IH; [assumption|assumption|].
  rewrite !remaining_length in *. unfold wf_rstate, wf_stream in *. rewrite D in W |- *. lia.
Qed.

Theorem read_all_no_fuel : forall orc chunk data, 0 < chunk -> snd (read_all orc chunk data) <> TFuel.
Proof.
  intros orc chunk data Hc. unfold read_all. apply iter_loop_no_fuel; [assumption|apply wf_initial|].
  unfold remaining. cbn [st_stream s_data s_pos skipn]. lia.
Qed.

(* C07, prefix determinism. The stream is over d1 ++ d2 and the reader state is at a position inside d1.
   If one iteration over the whole data yields a record and leaves the stream at a position still inside d1 — i.e. it
   consumed only bytes of d1 — then the same iteration over d1 ALONE yields the same record, the same [valid]
   set, encoding stack and level, and the same successor state (same position, line counter and newline convention;
   only s_data differs). A step that completes inside a prefix does not depend on anything after the prefix. *)
Theorem prefix_determinism : forall d2 orc chunk st valid encs prev r stF' valid' encs' prev',
  0 < chunk -> wf_rstate st ->
  iter_step orc chunk (lift d2 st) valid encs prev = SYield r stF' valid' encs' prev' ->
  s_pos (st_stream stF') <= List.length (s_data (st_stream st)) ->
  exists st',
    iter_step orc chunk st valid encs prev = SYield r st' valid' encs' prev' /\
    stF' = lift d2 st' /\ wf_rstate st'.
Proof.
  intros d2 orc chunk st valid encs prev r stF' valid' encs' prev' Hc Hwf HF Hpos.
  destruct d2 as [|b d2'].
  { rewrite lift_nil in HF. exists stF'. rewrite lift_nil. split; [exact HF|]. split; [reflexivity|].
    eapply iter_step_wf; eauto. }
  set (d2 := b :: d2') in *.
  destruct (iter_step_lift d2 orc chunk st valid encs prev Hc Hwf) as [A|[Bc|C]].
  - rewrite A in HF. destruct (iter_step orc chunk st valid encs prev) as [|r0 st' v e p|l c|e] eqn:Hs;
      cbn [lift_step] in HF; try discriminate HF.
    inversion HF; subst. exists st'. split; [reflexivity|]. split; [reflexivity|]. eapply iter_step_wf; eauto.
  - exfalso.
    destruct (iter_step_yield_inv _ _ _ _ _ _ _ _ _ _ _ HF) as (level & name & id & opts & line & stF1 & HhF & _ & Hp).
    pose proof (read_header_lift d2 chunk valid st Hc Hwf) as L. rewrite Bc in L.
    specialize (L _ _ _ _ _ _ HhF). lia.
  - exfalso.
    destruct C as (level & name & id & opts & line & st1 & n & Hh & HhF & W & Hcont & Hl & Hshort).
    destruct (iter_step_framing _ _ _ _ _ _ _ _ _ _ _ _ _ _ _ _ _ _ HhF Hcont Hl HF) as (S1 & _ & S3 & _).
    pose proof (read_header_lift d2 chunk valid st Hc Hwf) as L. rewrite Hh in L. destruct L as (_ & L).
    destruct (L _ _ _ _ _ _ eq_refl) as (_ & _ & L2).
    cbn [lift st_stream] in S1, S3. rewrite remaining_lift in S1, S3 by exact W.
    rewrite S1 in Hpos. cbn [advance s_pos lift_stream] in Hpos. rewrite S3, app_length in Hpos.
    pose proof (wf_pos_remaining _ W) as Q. rewrite L2 in Q. subst d2. cbn [List.length] in Hpos. lia.
Qed.

(* ---- the whole run ---- *)

Definition prefix {A} (l1 l2 : list A) : Prop := exists t, l2 = l1 ++ t.

(* same header fields (everything but the payload) *)
Definition hdr_eq (r r' : record) : Prop :=
  r_level r = r_level r' /\ r_type r = r_type r' /\ r_id r = r_id r' /\ r_opts r = r_opts r' /\ r_line r = r_line r'.

(* the signature of the known finding "short-read-accepted": the iteration from state st read a content-section header
   declaring length=n with fewer than n bytes left in the stream, fp.read returned what there was without complaint,
   and the record r was yielded from those bytes, leaving the stream exhausted *)
Definition short_read (orc : oracle) (chunk : nat) (st : rstate) (valid : list bytes) (encs : list (option pv))
           (prev : nat) (r : record) : Prop :=
  exists level name id opts line st1 n st' valid' encs' prev',
    read_header chunk valid st = HdrOk level name id opts line st1 /\
    is_content id = true /\ opt_get "length" opts = Some (VInt n) /\
    List.length (remaining (st_stream st1)) < take_len n /\
    iter_step orc chunk st valid encs prev = SYield r st' valid' encs' prev' /\
    remaining (st_stream st') = [].

Lemma short_read_facts : forall orc chunk st valid encs prev r,
  short_read orc chunk st valid encs prev r ->
  is_content (r_id r) = true /\
  exists n, opt_get "length" (r_opts r) = Some (VInt n) /\ (0 < n)%Z.
Proof.
  intros orc chunk st valid encs prev r (level & name & id & opts & line & st1 & n & st' & v & e & p &
                                         Hh & Hc & Hl & Hs & Hy & _).
  destruct (iter_step_yield_header _ _ _ _ _ _ _ _ _ _ _ _ _ _ _ _ _ Hh Hy) as (_ & _ & -> & -> & _).
  split; [exact Hc|]. exists n. split; [exact Hl|]. unfold take_len in Hs. lia.
Qed.

Definition trunc_outcome (orc : oracle) (chunk : nat) (d1 : bytes) (resT resF : list record * term) : Prop :=
  exists rs1 extra,
    fst resT = rs1 ++ extra /\ prefix rs1 (fst resF) /\
    (extra = [] \/
     exists r, extra = [r] /\
       (exists st valid encs prev,
           reachable orc chunk d1 st valid encs prev /\ short_read orc chunk st valid encs prev r) /\
       (forall r', nth_error (fst resF) (List.length rs1) = Some r' -> hdr_eq r r') /\
       (snd resT = TEnd \/ snd resT = TFuel)).

Lemma trunc_outcome_stop : forall orc chunk d1 acc t resF,
  (exists new, fst resF = rev acc ++ new) -> trunc_outcome orc chunk d1 (frev acc, t) resF.
Proof.
  intros orc chunk d1 acc t resF (new & Hn). exists (rev acc), []. cbn [fst]. rewrite frev_rev, app_nil_r.
  split; [reflexivity|]. split; [exists new; exact Hn|left; reflexivity].
Qed.

Lemma iter_loop_extends : forall fuel orc chunk st valid encs prev acc,
  exists new, fst (iter_loop fuel orc chunk st valid encs prev acc) = rev acc ++ new.
Proof.
  intros. destruct (iter_loop fuel orc chunk st valid encs prev acc) as [rs t] eqn:E.
  apply iter_loop_path in E. destruct E as (new & -> & _). exists new. reflexivity.
Qed.

Lemma iter_loop_trunc : forall d2 orc chunk fT fF st valid encs prev acc,
  0 < chunk -> fT <= fF ->
  reachable orc chunk (s_data (st_stream st)) st valid encs prev ->
  trunc_outcome orc chunk (s_data (st_stream st))
                (iter_loop fT orc chunk st valid encs prev acc)
                (iter_loop fF orc chunk (lift d2 st) valid encs prev acc).
Proof.
  intros d2 orc chunk. induction fT as [|f IH]; intros fF st valid encs prev acc Hc Hf Hreach.
  - cbn [iter_loop]. apply trunc_outcome_stop. apply iter_loop_extends.
  - destruct fF as [|f']; [lia|].
    pose proof (reachable_wf _ _ _ _ _ _ _ Hc Hreach) as Hwf.
    rewrite (iter_loop_S f orc chunk st).
    destruct (iter_step_lift d2 orc chunk st valid encs prev Hc Hwf) as [A|[Bc|C]].
    + (* identical iteration *)
      rewrite (iter_loop_S f'), A.
      destruct (iter_step orc chunk st valid encs prev) as [|r st' v e p|l c|e] eqn:Hs; cbn [lift_step];
        try (apply trunc_outcome_stop; exists []; cbn [fst]; rewrite frev_rev, app_nil_r; reflexivity).
      destruct (iter_step_progress _ _ _ _ _ _ _ _ _ _ _ Hc Hwf Hs) as (_ & D & _).
      rewrite <- D. apply IH; [assumption|lia|]. rewrite D. econstructor; eassumption.
    + (* the prefix ends before a complete header line: normal end *)
      unfold iter_step at 1. rewrite Bc. apply trunc_outcome_stop. apply iter_loop_extends.
    + (* short read *)
      destruct C as (level & name & id & opts & line & st1 & n & Hh & HhF & W & Hcont & Hl & Hshort).
      destruct (iter_step orc chunk st valid encs prev) as [|r st' v e p|l c|e] eqn:Hs;
        try (apply trunc_outcome_stop; apply iter_loop_extends).
      assert (remaining (st_stream st') = []) as Hex.
      { destruct (iter_step_framing _ _ _ _ _ _ _ _ _ _ _ _ _ _ _ _ _ _ Hh Hcont Hl Hs) as (S1 & _ & S3 & _).
        rewrite S1, remaining_advance', S3.
        replace (Nat.min (take_len n) (List.length (remaining (st_stream st1))))
          with (List.length (remaining (st_stream st1))) by lia.
        apply skipn_all. }
      rewrite iter_loop_exhausted by assumption.
      exists (rev acc), [r]. cbn [fst snd rev]. split; [reflexivity|].
      split; [apply iter_loop_extends|]. right. exists r. split; [reflexivity|]. split; [|split].
      * exists st, valid, encs, prev. split; [exact Hreach|].
        exists level, name, id, opts, line, st1, n, st', v, e, p. auto 10.
      * intros r' Hr'. rewrite (iter_loop_S f') in Hr'.
        pose proof (iter_step_yield_header _ _ _ _ _ _ _ _ _ _ _ _ _ _ _ _ _ Hh Hs) as (H1 & H2 & H3 & H4 & H5).
        destruct (iter_step orc chunk (lift d2 st) valid encs prev) as [|rF stF' vF eF pF|lF cF|eF] eqn:HsF;
          cbn [fst] in Hr';
          try (rewrite frev_rev in Hr'; assert (nth_error (rev acc) (List.length (rev acc)) = None) as Q
                 by (apply nth_error_None; lia); rewrite Q in Hr'; discriminate Hr').
        destruct (iter_loop_extends f' orc chunk stF' vF eF pF (rF :: acc)) as (new & Hn).
        rewrite Hn in Hr'. cbn [rev] in Hr'. rewrite <- app_assoc in Hr'.
        rewrite nth_error_app2, Nat.sub_diag in Hr' by lia. cbn in Hr'. injection Hr' as <-.
        pose proof (iter_step_yield_header _ _ _ _ _ _ _ _ _ _ _ _ _ _ _ _ _ HhF HsF) as (G1 & G2 & G3 & G4 & G5).
        unfold hdr_eq. repeat split; congruence.
      * destruct f; auto.
Qed.

(* C07, truncation, general form: d1 against d1 ++ d2 *)
Theorem truncation_app : forall orc chunk d1 d2,
  0 < chunk ->
  let resT := read_all orc chunk d1 in
  let resF := read_all orc chunk (d1 ++ d2) in
  exists rs1 extra,
    fst resT = rs1 ++ extra /\ prefix rs1 (fst resF) /\ List.length extra <= 1 /\
    (forall r, extra = [r] ->
       is_content (r_id r) = true /\
       (exists n, opt_get "length" (r_opts r) = Some (VInt n) /\ (0 < n)%Z) /\
       (exists st valid encs prev,
           reachable orc chunk d1 st valid encs prev /\ short_read orc chunk st valid encs prev r) /\
       (forall r', nth_error (fst resF) (List.length rs1) = Some r' -> hdr_eq r r') /\
       snd resT = TEnd) /\
    snd resT <> TFuel.
Proof.
  intros orc chunk d1 d2 Hc resT resF.
  pose proof (read_all_no_fuel orc chunk d1 Hc) as Hnf. fold resT in Hnf.
  assert (trunc_outcome orc chunk d1 resT resF) as H.
  { subst resT resF. unfold read_all.
    change {| st_stream := {| s_data := d1 ++ d2; s_pos := 0 |}; st_linenum := 0%Z; st_fnl := None |}
      with (lift d2 {| st_stream := {| s_data := d1; s_pos := 0 |}; st_linenum := 0%Z; st_fnl := None |}).
    apply (iter_loop_trunc d2 orc chunk (S (List.length d1)) (S (List.length (d1 ++ d2)))
             {| st_stream := {| s_data := d1; s_pos := 0 |}; st_linenum := 0%Z; st_fnl := None |});
      [assumption|rewrite app_length; lia|apply StreamFacts.reach_init]. }
  destruct H as (rs1 & extra & H1 & H2 & H3). exists rs1, extra.
  split; [exact H1|]. split; [exact H2|].
  destruct H3 as [->|(r & -> & Hsr & Hhe & Ht)].
  - split; [cbn; lia|]. split; [discriminate|exact Hnf].
  - split; [cbn; lia|]. split; [|exact Hnf].
    intros r0 E. injection E as <-.
    destruct Hsr as (st & valid & encs & prev & Hre & Hsr).
    destruct (short_read_facts _ _ _ _ _ _ _ Hsr) as (F1 & F2).
    split; [exact F1|]. split; [exact F2|]. split; [eauto 8|]. split; [exact Hhe|].
    destruct Ht as [Ht|Ht]; [exact Ht|contradiction].
Qed.

(* C07, truncation (partial): a file cut off at ANY byte position k. The records of the truncated file are
   rs1 ++ extra where rs1 is a prefix of the intact file's records (identical records: same ids, options, payloads,
   line numbers) and extra has at most one element. An extra record exists only as the result of a short read — a
   content section whose declared length exceeds the bytes left — it has the same level/type/id/options/line as the
   intact file's record at that index (if the intact run yields one there), and it is followed by normal end.
   The model's fuel is never exhausted. *)
Theorem truncation_partial : forall orc chunk data k,
  0 < chunk -> k <= List.length data ->
  let resT := read_all orc chunk (firstn k data) in
  let resF := read_all orc chunk data in
  exists rs1 extra,
    fst resT = rs1 ++ extra /\ prefix rs1 (fst resF) /\ List.length extra <= 1 /\
    (forall r, extra = [r] ->
       is_content (r_id r) = true /\
       (exists n, opt_get "length" (r_opts r) = Some (VInt n) /\ (0 < n)%Z) /\
       (exists st valid encs prev,
           reachable orc chunk (firstn k data) st valid encs prev /\ short_read orc chunk st valid encs prev r) /\
       (forall r', nth_error (fst resF) (List.length rs1) = Some r' -> hdr_eq r r') /\
       snd resT = TEnd) /\
    snd resT <> TFuel.
Proof.
  intros orc chunk data k Hc _.
  pose proof (truncation_app orc chunk (firstn k data) (skipn k data) Hc) as H.
  rewrite firstn_skipn in H. exact H.
Qed.

(* full statement = partial theorem + absence of the finding's signature: if no iteration of the truncated run is a
   short read, the truncated file's records are a plain prefix of the intact file's records *)
Corollary truncation_without_short_read : forall orc chunk data k,
  0 < chunk -> k <= List.length data ->
  (forall st valid encs prev r,
      reachable orc chunk (firstn k data) st valid encs prev -> ~ short_read orc chunk st valid encs prev r) ->
  prefix (fst (read_all orc chunk (firstn k data))) (fst (read_all orc chunk data)).
Proof.
  intros orc chunk data k Hc Hk Hno.
  destruct (truncation_partial orc chunk data k Hc Hk) as (rs1 & extra & H1 & H2 & H3 & H4 & _).
  destruct extra as [|r [|r2 extra]]; [rewrite H1, app_nil_r; exact H2| |cbn in H3; lia].
  exfalso. destruct (H4 r eq_refl) as (_ & _ & (st & valid & encs & prev & Hre & Hsr) & _).
  exact (Hno _ _ _ _ _ Hre Hsr).
Qed.

(* termination of the truncated run, given that no exception other than DiffXParseError escapes (property C08) *)
Corollary truncation_termination : forall orc chunk data k,
  0 < chunk ->
  (forall e, snd (read_all orc chunk (firstn k data)) <> TExc e) ->
  snd (read_all orc chunk (firstn k data)) = TEnd \/
  exists l c, snd (read_all orc chunk (firstn k data)) = TParse l c.
Proof.
  intros orc chunk data k Hc Hne. pose proof (read_all_no_fuel orc chunk (firstn k data) Hc) as Hnf.
  destruct (snd (read_all orc chunk (firstn k data))) as [|l c|e|]; [left; reflexivity|right; eauto| |contradiction].
  exfalso. exact (Hne e eq_refl).
Qed.

(* what the extra record is made of: ALL the bytes the truncated file still had after the section's header line,
   which are a prefix — proper when anything was cut off — of the bytes the intact file gives that section *)
Lemma short_read_payload : forall orc chunk st valid encs prev r,
  short_read orc chunk st valid encs prev r ->
  exists level name id opts line st1 n,
    read_header chunk valid st = HdrOk level name id opts line st1 /\
    opt_get "length" opts = Some (VInt n) /\
    let c := remaining (st_stream st1) in
    List.length c < take_len n /\
    exists enc ind keep p0,
      content_payload c enc ind (opt_get "line_endings" opts) keep = Some p0 /\
      (r_payload r = p0 \/
       exists j, r_payload r = PMeta j /\ assoc_get beq (oracle_key p0) orc = Some (LoadsOk j)).
Proof.
  intros orc chunk st valid encs prev r (level & name & id & opts & line & st1 & n & st' & v & e & p &
                                         Hh & Hc & Hl & Hs & Hy & _).
  exists level, name, id, opts, line, st1, n. split; [exact Hh|]. split; [exact Hl|]. cbv zeta. split; [exact Hs|].
  destruct (iter_step_framing _ _ _ _ _ _ _ _ _ _ _ _ _ _ _ _ _ _ Hh Hc Hl Hy) as (_ & _ & _ & _ & P).
  rewrite firstn_all2 in P by lia. exact P.
Qed.

Lemma short_content_is_prefix : forall (c d2 : bytes) n,
  List.length c < n ->
  exists t, firstn n (c ++ d2) = c ++ t /\ (d2 <> [] -> t <> []).
Proof.
  intros c d2 n H. exists (firstn (n - List.length c) d2). rewrite firstn_app, firstn_all2 by lia.
  split; [reflexivity|]. intros Hd. destruct d2 as [|b d2]; [contradiction|].
  destruct (n - List.length c) as [|m] eqn:E; [lia|]. discriminate.
Qed.

(* ------------------------------------------------------------------------------------------------ *)
(* 5. Examples: the hypotheses of the theorems are satisfiable on concrete, non-trivial instances    *)
(* ------------------------------------------------------------------------------------------------ *)

(* framing: a preamble whose 21 bytes of content look like a section header followed by a NUL line; the reader takes
   them as text and finds the next real header right after *)
Definition c07_lookalike : bytes :=
  B "#diffx: encoding=utf-8, version=1.0" ++ c07_nl ++
  B "#.preamble: length=21" ++ c07_nl ++
  B "#.meta: length=999" ++ c07_nl ++ [x00] ++ c07_nl ++
  B "#.change:" ++ c07_nl.

Example framing_ex :
  map r_id (fst (read_all [] default_chunk c07_lookalike)) = [B "diffx"; B ".preamble"; B ".change"] /\
  snd (read_all [] default_chunk c07_lookalike) = TEnd /\
  (exists r, nth_error (fst (read_all [] default_chunk c07_lookalike)) 1 = Some r /\
             Some (r_payload r) = content_payload (B "#.meta: length=999" ++ c07_nl ++ [x00] ++ c07_nl)
                                                  (Some (VStr (B "utf-8"))) None None false).
Proof.
  split; [vm_compute; reflexivity|]. split; [vm_compute; reflexivity|].
  eexists. split; vm_compute; reflexivity.
Qed.

(* the state of the loop after the main header of c07_file, about to read "#.preamble: length=6" *)
Definition c07_st (data : bytes) (pos : nat) : rstate :=
  {| st_stream := {| s_data := data; s_pos := pos |}; st_linenum := 1; st_fnl := Some [lf] |}.

Example iter_step_framing_ex :
  exists level name id opts line st1 r st' v e p,
    read_header default_chunk (table Main) (c07_st c07_file 36) = HdrOk level name id opts line st1 /\
    is_content id = true /\ opt_get "length" opts = Some (VInt 6) /\
    iter_step [] default_chunk (c07_st c07_file 36) (table Main) [Some (VStr (B "utf-8")); None] 0 = SYield r st' v e p /\
    s_pos (st_stream st1) = 57 /\ s_pos (st_stream st') = 57 + 6 /\ r_payload r = PText [97; 98; 10; 99; 100; 10]%N.
Proof. do 11 eexists. repeat split; vm_compute; reflexivity. Qed.

(* prefix determinism: the first iteration over c07_file ends at byte 36, inside the first 40 bytes: it is the same
   over those 40 bytes alone *)
Definition c07_st0 (d : bytes) : rstate :=
  {| st_stream := {| s_data := d; s_pos := 0 |}; st_linenum := 0%Z; st_fnl := None |}.

Example prefix_determinism_ex :
  exists r stF' v e p st',
    wf_rstate (c07_st0 (firstn 40 c07_file)) /\
    iter_step [] default_chunk (lift (skipn 40 c07_file) (c07_st0 (firstn 40 c07_file))) [GenSections.sec_main] [None] 0
      = SYield r stF' v e p /\
    s_pos (st_stream stF') = 36 /\ 36 <= List.length (s_data (st_stream (c07_st0 (firstn 40 c07_file)))) /\
    iter_step [] default_chunk (c07_st0 (firstn 40 c07_file)) [GenSections.sec_main] [None] 0 = SYield r st' v e p /\
    stF' = lift (skipn 40 c07_file) st'.
Proof.
  do 6 eexists. split; [apply wf_initial|]. split; [vm_compute; reflexivity|]. split; [reflexivity|].
  split; [vm_compute; lia|]. split; vm_compute; reflexivity.
Qed.

Example truncation_partial_ex :
  exists rs1 r r',
    fst (read_all [] default_chunk (firstn 60 c07_file)) = rs1 ++ [r] /\
    prefix rs1 (fst (read_all [] default_chunk c07_file)) /\ List.length rs1 = 1 /\
    nth_error (fst (read_all [] default_chunk c07_file)) 1 = Some r' /\ hdr_eq r r' /\
    r_payload r <> r_payload r' /\
    (* every other proper cut point (0..62) of this file gives a plain prefix: at most the main record *)
    forallb (fun k => Nat.eqb k 60 ||
               Nat.leb (List.length (fst (read_all [] default_chunk (firstn k c07_file)))) 1) (seq 0 63) = true.
Proof.
  eexists [_], _, _. cbn [app]. split; [vm_compute; reflexivity|]. split; [eexists; vm_compute; reflexivity|].
  split; [reflexivity|]. split; [vm_compute; reflexivity|]. split; [repeat split|].
  split; [cbn; discriminate|vm_compute; reflexivity].
Qed.

(* bad lengths *)
Definition c07_bad (v : String.string) : bytes :=
  B "#diffx: encoding=utf-8, version=1.0" ++ c07_nl ++
  B "#.preamble: length=" ++ B v ++ c07_nl ++ B "ab" ++ c07_nl ++ B "cd" ++ c07_nl.

Example bad_length_ex :
  (* hypotheses of bad_length_neg / bad_length_str hold in the state after the main header *)
  step_inv (table Main) [Some (VStr (B "utf-8")); None] 0 /\
  (exists level name id opts line st1,
     read_header default_chunk (table Main) (c07_st (c07_bad "-1") 36) = HdrOk level name id opts line st1 /\
     is_content id = true /\ opt_get "length" opts = Some (VInt (-1))) /\
  (exists level name id opts line st1,
     read_header default_chunk (table Main) (c07_st (c07_bad "abc") 36) = HdrOk level name id opts line st1 /\
     is_content id = true /\ opt_get "length" opts = Some (VStr (B "abc"))) /\
  (* and the whole run: the main header is yielded, then DiffXParseError at line 1, for -1, abc, 1_0 *)
  map r_id (fst (read_all [] default_chunk (c07_bad "-1"))) = [B "diffx"] /\
  snd (read_all [] default_chunk (c07_bad "-1")) = TParse 1 None /\
  read_all [] default_chunk (c07_bad "abc") = read_all [] default_chunk (c07_bad "-1") /\
  read_all [] default_chunk (c07_bad "1_0") = read_all [] default_chunk (c07_bad "-1") /\
  (* length beyond the data: as if the 6 bytes present had been declared, up to the option value itself *)
  map r_payload (fst (read_all [] default_chunk (c07_bad "7"))) =
  map r_payload (fst (read_all [] default_chunk (c07_bad "6"))) /\
  snd (read_all [] default_chunk (c07_bad "7")) = TEnd.
Proof.
  split; [right; exists Main; repeat split; vm_compute; reflexivity|].
  split; [do 6 eexists; repeat split; vm_compute; reflexivity|].
  split; [do 6 eexists; repeat split; vm_compute; reflexivity|].
  repeat split; vm_compute; reflexivity.
Qed.
