(* C10, seen from the writer — the section ids of what ANY accepted call list denotes (main record followed by the
   expected records, as in C01_round_trip) form a legal path of the specification's hierarchy: the writer's acceptance
   table and the reader's order table agree on every accepted history of any length.
   Proof: theories/WriterPath.v (C01_round_trip_noguess composed with C10_reader_sound). *)
From Coq Require Import List Arith NArith ZArith Bool Strings.Byte.
From DX Require Import Bytes Res Codec Text Sections Header Stream Json Reader Writer SectionsSpec.
From DX Require Import RoundTripCodec RoundTripContent RoundTripBase RoundTripSim RoundTripStep RoundTrip RoundTripCor.
From DX Require Import GuessFacts SectionsFacts WriterPath.
Import ListNotations.
Local Open Scope list_scope.

Theorem C10_writer_ids_legal : forall (enc0 ver : wv) (s0 : wstate) (cs : list call) (orc : oracle),
  writer_init enc0 ver = (s0, Ok tt) -> enc_ok enc0 -> Forall call_good cs -> accepted s0 cs ->
  metas_oracle_ok orc s0 cs -> oracle_ok orc cs ->
  (Z.of_nat (length (w_out (snd (run_calls s0 cs)))) <= sys_maxsize)%Z ->
  exists w : list sid,
    map r_id (main_record enc0 ver :: expected_records s0 1 cs) = map sid_bytes w /\ spec_path w.
Proof. exact writer_ids_legal. Qed.
Print Assumptions C10_writer_ids_legal.
