(* SpecReaderExamples.v — concrete files of the spec AST used by the Examples of props/C03_spec.v and
   props/C12_file.v (definitions only; the facts about them are proved in the props files by computation or by
   applying the theorems). *)
From Coq Require Import List Arith NArith ZArith Bool Strings.Byte.
From Coq Require Strings.String.
From DX Require Import Bytes Res Codec Text Sections Header Stream Json Reader SectionsSpec SpecReader.
Import ListNotations.
Import String.StringSyntax.
Local Open Scope string_scope.
Local Open Scope list_scope.

Definition asc (s : String.string) : text := map byte_n (B s).
Definition dq : N := 34%N.

(* ---- a file from another producer: CRLF header lines; options not in alphabetical order; an unknown option;
        blank and whitespace-only lines between sections and at the end; a preamble in utf-8-sig with its byte
        order mark, indented, with DOS line endings that are NOT declared (detected on the first line), one of
        its lines starting with a space of its own; compact JSON; a ..file that switches to latin-1; a diff with
        declared line endings ---- *)
Definition sx_foreign : ffile :=
  {| ff_crlf := true;
     ff_sections :=
       [ {| fs_id := Main; fs_opts := [(B "version", B "1.0"); (B "encoding", B "utf-8")];
            fs_blank := []; fs_content := None |};
         {| fs_id := MainPreamble;
            fs_opts := [(B "length", B "20"); (B "x-producer", B "other/1.0"); (B "indent", B "2");
                        (B "encoding", B "utf-8-sig")];
            fs_blank := [[]; B "  "];
            fs_content := Some (FText {| tc_lines := [asc "hello"; asc " w" ++ [233%N]]; tc_kind := LDos; tc_bom := true |}) |};
         {| fs_id := MainMeta; fs_opts := [(B "length", B "8")]; fs_blank := [];
            fs_content := Some (FMeta {| tc_lines := [[123%N; dq; 97%N; dq] ++ asc ":1}"]; tc_kind := LUnix; tc_bom := false |}
                                      (JObj [])) |};
         {| fs_id := Change; fs_opts := []; fs_blank := [B " "]; fs_content := None |};
         {| fs_id := File; fs_opts := [(B "encoding", B "latin-1")]; fs_blank := []; fs_content := None |};
         {| fs_id := FileMeta; fs_opts := [(B "format", B "json"); (B "length", B "3")]; fs_blank := [];
            fs_content := Some (FMeta {| tc_lines := [asc "{}"]; tc_kind := LUnix; tc_bom := false |} (JObj [])) |};
         {| fs_id := FileDiff; fs_opts := [(B "length", B "6"); (B "line_endings", B "unix")]; fs_blank := [[]];
            fs_content := Some (FDiff (B "-a" ++ [x0a] ++ B "+b" ++ [x0a]) LUnix) |} ];
     ff_trailing := [[]; B " "] |}.

(* json.loads on the two metadata texts (the values are placeholders of the oracle) *)
Definition sx_foreign_orc : oracle :=
  [ (oracle_key_text ([123%N; dq; 97%N; dq] ++ asc ":1}" ++ [10%N]), LoadsOk (JObj []));
    (oracle_key_text (asc "{}" ++ [10%N]), LoadsOk (JObj [])) ].

Definition cr : bytes := [x0d].
Definition nl : bytes := [x0a].
Definition sx_foreign_bytes : bytes :=
  B "#diffx: version=1.0, encoding=utf-8" ++ cr ++ nl ++
  nl ++
  B "  " ++ nl ++
  B "#.preamble: length=20, x-producer=other/1.0, indent=2, encoding=utf-8-sig" ++ cr ++ nl ++
  B "  " ++ [xef; xbb; xbf] ++ B "hello" ++ cr ++ nl ++
  B "   w" ++ [xc3; xa9] ++ cr ++ nl ++
  B "#.meta: length=8" ++ cr ++ nl ++
  B "{" ++ [x22] ++ B "a" ++ [x22] ++ B ":1}" ++ nl ++
  B " " ++ nl ++
  B "#.change:" ++ cr ++ nl ++
  B "#..file: encoding=latin-1" ++ cr ++ nl ++
  B "#...meta: format=json, length=3" ++ cr ++ nl ++
  B "{}" ++ nl ++
  nl ++
  B "#...diff: length=6, line_endings=unix" ++ cr ++ nl ++
  B "-a" ++ nl ++ B "+b" ++ nl ++
  nl ++
  B " " ++ nl.

(* ---- LF header lines; no encoding on the main header: the .preamble is read as bytes; a .change in utf-16
        whose preamble is written WITHOUT a byte order mark (declared dos line endings) and whose ...meta,
        inheriting utf-16, is written WITH one (line endings detected); a diff with its own encoding ---- *)
Definition sx_mixed : ffile :=
  {| ff_crlf := false;
     ff_sections :=
       [ {| fs_id := Main; fs_opts := [(B "version", B "1.0")]; fs_blank := []; fs_content := None |};
         {| fs_id := MainPreamble; fs_opts := [(B "indent", B "1"); (B "length", B "8")]; fs_blank := [];
            fs_content := Some (FRawText [B "ab"; B "cd"] LUnix) |};
         {| fs_id := Change; fs_opts := [(B "encoding", B "utf-16")]; fs_blank := []; fs_content := None |};
         {| fs_id := ChangePreamble; fs_opts := [(B "line_endings", B "dos"); (B "length", B "8")]; fs_blank := [];
            fs_content := Some (FText {| tc_lines := [asc "hi"]; tc_kind := LDos; tc_bom := false |}) |};
         {| fs_id := File; fs_opts := []; fs_blank := []; fs_content := None |};
         {| fs_id := FileMeta; fs_opts := [(B "length", B "8")]; fs_blank := [];
            fs_content := Some (FMeta {| tc_lines := [asc "{}"]; tc_kind := LUnix; tc_bom := true |} (JObj [])) |};
         {| fs_id := FileDiff; fs_opts := [(B "length", B "4"); (B "encoding", B "utf-16-le")]; fs_blank := [];
            fs_content := Some (FDiff [x61; x00; x0a; x00] LUnix) |} ];
     ff_trailing := [] |}.

Definition sx_mixed_orc : oracle := [ (oracle_key_text (asc "{}" ++ [10%N]), LoadsOk (JObj [])) ].

Definition sx_mixed_bytes : bytes :=
  B "#diffx: version=1.0" ++ nl ++
  B "#.preamble: indent=1, length=8" ++ nl ++ B " ab" ++ nl ++ B " cd" ++ nl ++
  B "#.change: encoding=utf-16" ++ nl ++
  B "#..preamble: line_endings=dos, length=8" ++ nl ++ [x68; x00; x69; x00; x0d; x00; x0a; x00] ++
  B "#..file:" ++ nl ++
  B "#...meta: length=8" ++ nl ++ [xff; xfe; x7b; x00; x7d; x00; x0a; x00] ++
  B "#...diff: length=4, encoding=utf-16-le" ++ nl ++ [x61; x00; x0a; x00].

(* ---- files that are NOT well-formed, each for one reason ---- *)
Definition one_preamble (opts : list (bytes * bytes)) (t : tcontent) : ffile :=
  {| ff_crlf := false;
     ff_sections :=
       [ {| fs_id := Main; fs_opts := [(B "version", B "1.0"); (B "encoding", B "utf-8")]; fs_blank := []; fs_content := None |};
         {| fs_id := MainPreamble; fs_opts := opts; fs_blank := []; fs_content := Some (FText t) |} ];
     ff_trailing := [] |}.
(* a unix-kind text whose first line ends in a carriage return: detection says dos *)
Definition sx_bad_detect : ffile :=
  one_preamble [(B "length", B "6")] {| tc_lines := [asc "a" ++ [13%N]; asc "bc"]; tc_kind := LUnix; tc_bom := false |}.
(* the same with the line endings declared: well-formed *)
Definition sx_good_declared : ffile :=
  one_preamble [(B "length", B "6"); (B "line_endings", B "unix")]
               {| tc_lines := [asc "a" ++ [13%N]; asc "bc"]; tc_kind := LUnix; tc_bom := false |}.
(* a line that contains the newline *)
Definition sx_bad_clean : ffile :=
  one_preamble [(B "length", B "4"); (B "line_endings", B "unix")]
               {| tc_lines := [asc "a" ++ [10%N] ++ asc "b"]; tc_kind := LUnix; tc_bom := false |}.
(* a wrong length *)
Definition sx_bad_length : ffile :=
  one_preamble [(B "length", B "5"); (B "line_endings", B "unix")]
               {| tc_lines := [asc "ab"]; tc_kind := LUnix; tc_bom := false |}.

(* ---- C12: sx_foreign with unknown options added: one in front of the main header's options, two inside and
        at the end of the preamble's ---- *)
Definition sx_extras : list (list (bytes * bytes)) :=
  [ [(B "zz", B "1")]; [(B "my-opt", B "-7"); (B "Tag", B "a/b")]; []; []; []; []; [] ].

Definition sx_foreign_ext : ffile :=
  {| ff_crlf := true;
     ff_sections :=
       [ {| fs_id := Main; fs_opts := [(B "zz", B "1"); (B "version", B "1.0"); (B "encoding", B "utf-8")];
            fs_blank := []; fs_content := None |};
         {| fs_id := MainPreamble;
            fs_opts := [(B "length", B "20"); (B "my-opt", B "-7"); (B "x-producer", B "other/1.0"); (B "indent", B "2");
                        (B "encoding", B "utf-8-sig"); (B "Tag", B "a/b")];
            fs_blank := [[]; B "  "];
            fs_content := Some (FText {| tc_lines := [asc "hello"; asc " w" ++ [233%N]]; tc_kind := LDos; tc_bom := true |}) |} ]
       ++ skipn 2 (ff_sections sx_foreign);
     ff_trailing := [[]; B " "] |}.
