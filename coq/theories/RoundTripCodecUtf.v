(* RoundTripCodecUtf.v — [codec_laws] for the UTF codecs of Codec.v (utf-8, utf-8-sig, utf-16[-le/-be],
   utf-32[-le/-be]), for EVERY spelling of the catalogue that resolves to them.  Same method as
   RoundTripCodecInst.v: quantified laws by proof over the Gallina definitions, closed facts by computation. *)
From Coq Require Import List Arith NArith ZArith Bool Lia ZifyBool Strings.Byte.
From Coq Require Strings.String.
From DX Require Import Bytes Res Codec Text TextFacts RoundTripCodec RoundTripCodecInst.
From DXGen Require GenText GenCodecs.
Import ListNotations.
Import String.StringSyntax.
Local Open Scope string_scope.
Local Open Scope list_scope.
Local Open Scope N_scope.

Ltac Zify.zify_post_hook ::= Z.to_euclidean_division_equations.

(* ------------------------------------------------------------------------------------------------ *)
(* small list facts *)

Lemma app_tail_eq {A} : forall (a q b y : list A), a ++ b = q ++ y -> length b = length y -> b = y.
Proof.
  induction a as [|h a IH]; intros q b y H Hl.
  - destruct q as [|h' q]; [exact H|]. cbn [app] in H.
    assert (E : length b = length (h' :: q ++ y)) by (rewrite H; reflexivity).
    cbn [length] in E. rewrite app_length in E. lia.
  - destruct q as [|h' q].
    + cbn [app] in H. assert (E : length (h :: a ++ b) = length y) by (rewrite H; reflexivity).
      cbn [length] in E. rewrite app_length in E. lia.
    + cbn [app] in H. injection H as _ H. eapply IH; eassumption.
Qed.

Lemma some_inj {A} : forall a b : A, Some a = Some b -> a = b.
Proof. intros a b H. congruence. Qed.

(* [canon_is] of RoundTripCodecInst normalises the codec record with vm_compute, which takes minutes for the
   UTF decoders (normal form of [byte_n x] under a binder); plain conversion is instantaneous. *)
Ltac canon_is' name cdc H :=
  let E := fresh "E" in
  assert (E : assoc_get beq (B name) modelled = Some cdc) by reflexivity;
  apply lookup_modelled in H; rewrite E in H; apply some_inj in H; subst.

Lemma bends_last : forall z x, bends [z] x = true -> last x x00 = z.
Proof. intros z x H. apply bends_iff in H. destruct H as [q ->]. apply last_last. Qed.

(* ------------------------------------------------------------------------------------------------ *)
(* utf-8: the decoder by byte shape *)

Lemma u8_dec_1 : forall b0 r, byte_n b0 < 0x80 ->
  u8_dec (b0 :: r) = option_map (cons (byte_n b0)) (u8_dec r).
Proof.
  intros b0 r H. cbn [u8_dec]. destruct (byte_n b0 <? 0x80) eqn:E; [reflexivity | lia].
Qed.

Lemma u8_dec_2 : forall b0 b1 r, rng 0xC2 0xDF (byte_n b0) = true -> cont (byte_n b1) = true ->
  u8_dec (b0 :: b1 :: r) = option_map (cons ((byte_n b0 - 0xC0) * 64 + (byte_n b1 - 0x80))) (u8_dec r).
Proof.
  intros b0 b1 r H0 H1. cbn [u8_dec]. rewrite H0, H1.
  destruct (byte_n b0 <? 0x80) eqn:E; [unfold rng in H0; lia | reflexivity].
Qed.

Lemma u8_dec_3 : forall b0 b1 b2 r, rng 0xE0 0xEF (byte_n b0) = true ->
  (if byte_n b0 =? 0xE0 then rng 0xA0 0xBF (byte_n b1)
   else if byte_n b0 =? 0xED then rng 0x80 0x9F (byte_n b1) else cont (byte_n b1)) = true ->
  cont (byte_n b2) = true ->
  u8_dec (b0 :: b1 :: b2 :: r) =
  option_map (cons ((byte_n b0 - 0xE0) * 4096 + (byte_n b1 - 0x80) * 64 + (byte_n b2 - 0x80))) (u8_dec r).
Proof.
  intros b0 b1 b2 r H0 H1 H2. cbn [u8_dec]. rewrite H0, H1, H2.
  destruct (byte_n b0 <? 0x80) eqn:E; [unfold rng in H0; lia|].
  destruct (rng 0xC2 0xDF (byte_n b0)) eqn:E2; [unfold rng in *; lia|]. reflexivity.
Qed.

Lemma u8_dec_4 : forall b0 b1 b2 b3 r, rng 0xF0 0xF4 (byte_n b0) = true ->
  (if byte_n b0 =? 0xF0 then rng 0x90 0xBF (byte_n b1)
   else if byte_n b0 =? 0xF4 then rng 0x80 0x8F (byte_n b1) else cont (byte_n b1)) = true ->
  cont (byte_n b2) = true -> cont (byte_n b3) = true ->
  u8_dec (b0 :: b1 :: b2 :: b3 :: r) =
  option_map (cons ((byte_n b0 - 0xF0) * 262144 + (byte_n b1 - 0x80) * 4096 + (byte_n b2 - 0x80) * 64
                    + (byte_n b3 - 0x80))) (u8_dec r).
Proof.
  intros b0 b1 b2 b3 r H0 H1 H2 H3. cbn [u8_dec]. rewrite H0, H1, H2, H3.
  destruct (byte_n b0 <? 0x80) eqn:E; [unfold rng in H0; lia|].
  destruct (rng 0xC2 0xDF (byte_n b0)) eqn:E2; [unfold rng in *; lia|].
  destruct (rng 0xE0 0xEF (byte_n b0)) eqn:E3; [unfold rng in *; lia|]. reflexivity.
Qed.

Lemma u8_step : forall c x r, u8_enc_cp c = Some x -> u8_dec (x ++ r) = option_map (cons c) (u8_dec r).
Proof.
  intros c x r H. unfold u8_enc_cp in H.
  destruct (c <? 0x80) eqn:E1.
  { apply some_inj in H; subst x. cbn [app]. rewrite u8_dec_1; rewrite byte_n_n_byte by lia; [reflexivity | lia]. }
  destruct (c <? 0x800) eqn:E2.
  { apply some_inj in H; subst x. cbn [app].
    rewrite u8_dec_2; rewrite ?byte_n_n_byte by lia; [| unfold rng; lia | unfold cont; lia].
    f_equal. f_equal. lia. }
  destruct (c <? 0x10000) eqn:E3.
  { destruct (is_surrogate c) eqn:Es; [discriminate|]. unfold is_surrogate in Es.
    apply some_inj in H; subst x. cbn [app].
    rewrite u8_dec_3; rewrite ?byte_n_n_byte by lia.
    - f_equal. f_equal. lia.
    - unfold rng; lia.
    - destruct (0xE0 + c / 4096 =? 0xE0) eqn:Ea; [unfold rng; lia|].
      destruct (0xE0 + c / 4096 =? 0xED) eqn:Eb; [unfold rng; lia | unfold cont; lia].
    - unfold cont; lia. }
  destruct (c <=? 0x10FFFF) eqn:E4; [|discriminate].
  apply some_inj in H; subst x. cbn [app].
  rewrite u8_dec_4; rewrite ?byte_n_n_byte by lia.
  - f_equal. f_equal. lia.
  - unfold rng; lia.
  - destruct (0xF0 + c / 262144 =? 0xF0) eqn:Ea; [unfold rng; lia|].
    destruct (0xF0 + c / 262144 =? 0xF4) eqn:Eb; [unfold rng; lia | unfold cont; lia].
  - unfold cont; lia.
  - unfold cont; lia.
Qed.

Lemma u8_nl_ok : forall n, nl_char n -> nl_cp_ok u8_enc_cp n.
Proof.
  intros n Hn. destruct (nl_char_small n Hn) as [Hs _]. intros c x y Hc Hy.
  unfold u8_enc_cp in Hy. destruct (n <? 0x80) eqn:En; [|lia]. apply some_inj in Hy; subst y.
  unfold u8_enc_cp in Hc.
  destruct (c <? 0x80) eqn:E1.
  { apply some_inj in Hc; subst x. split; [cbn [length]; lia|]. intros Hb. apply bends_last in Hb.
    cbn [last] in Hb. apply (f_equal byte_n) in Hb. rewrite !byte_n_n_byte in Hb by lia. exact Hb. }
  destruct (c <? 0x800) eqn:E2.
  { apply some_inj in Hc; subst x. split; [cbn [length]; lia|]. intros Hb. apply bends_last in Hb.
    cbn [last] in Hb. apply (f_equal byte_n) in Hb. rewrite !byte_n_n_byte in Hb by lia. lia. }
  destruct (c <? 0x10000) eqn:E3.
  { destruct (is_surrogate c); [discriminate|].
    apply some_inj in Hc; subst x. split; [cbn [length]; lia|]. intros Hb. apply bends_last in Hb.
    cbn [last] in Hb. apply (f_equal byte_n) in Hb. rewrite !byte_n_n_byte in Hb by lia. lia. }
  destruct (c <=? 0x10FFFF) eqn:E4; [|discriminate].
  apply some_inj in Hc; subst x. split; [cbn [length]; lia|]. intros Hb. apply bends_last in Hb.
  cbn [last] in Hb. apply (f_equal byte_n) in Hb. rewrite !byte_n_n_byte in Hb by lia. lia.
Qed.

Theorem codec_ok_utf8 : forall enc c, lookup_codec enc = LOk (B "utf-8") c -> codec_ok enc.
Proof.
  intros enc c H. pose proof H as H0. canon_is' "utf-8" utf8 H0.
  exists utf8, [], (enc_all u8_enc_cp).
  apply (codec_laws_of_cp enc (B "utf-8") utf8 [] u8_enc_cp u8_dec).
  - exact H.
  - intros t. rewrite option_map_app_nil. reflexivity.
  - intros b. reflexivity.
  - reflexivity.
  - exact u8_step.
  - exact u8_nl_ok.
  - vm_compute. reflexivity.
Qed.

Theorem codec_ok_utf8sig : forall enc c, lookup_codec enc = LOk (B "utf-8-sig") c -> codec_ok enc.
Proof.
  intros enc c H. pose proof H as H0. canon_is' "utf-8-sig" utf8sig H0.
  exists utf8sig, bom8, (enc_all u8_enc_cp).
  apply (codec_laws_of_cp enc (B "utf-8-sig") utf8sig bom8 u8_enc_cp u8_dec).
  - exact H.
  - intros t. reflexivity.
  - intros b. reflexivity.
  - reflexivity.
  - exact u8_step.
  - exact u8_nl_ok.
  - vm_compute. reflexivity.
Qed.

(* ------------------------------------------------------------------------------------------------ *)
(* utf-16 *)

Lemma pair16_shape : forall le u, u < 65536 -> exists a b, pair16 le u = [a; b] /\ unit16 le a b = u.
Proof.
  intros le u Hu. unfold pair16, unit16. destruct le.
  - exists (n_byte (u mod 256)), (n_byte (u / 256)). split; [reflexivity|].
    rewrite !byte_n_n_byte by lia. lia.
  - exists (n_byte (u / 256)), (n_byte (u mod 256)). split; [reflexivity|].
    rewrite !byte_n_n_byte by lia. lia.
Qed.

Lemma pair16_inj : forall le u v, u < 65536 -> v < 65536 -> pair16 le u = pair16 le v -> u = v.
Proof.
  intros le u v Hu Hv H.
  destruct (pair16_shape le u Hu) as [a [b [E1 E2]]]. destruct (pair16_shape le v Hv) as [a' [b' [E3 E4]]].
  rewrite E1, E3 in H. congruence.
Qed.

Lemma u16_dec_bmp : forall le a b r,
  rng 0xD800 0xDBFF (unit16 le a b) = false -> rng 0xDC00 0xDFFF (unit16 le a b) = false ->
  u16_dec le (a :: b :: r) = option_map (cons (unit16 le a b)) (u16_dec le r).
Proof. intros le a b r H1 H2. cbn [u16_dec]. rewrite H1, H2. reflexivity. Qed.

Lemma u16_dec_sur : forall le a b c d r,
  rng 0xD800 0xDBFF (unit16 le a b) = true -> rng 0xDC00 0xDFFF (unit16 le c d) = true ->
  u16_dec le (a :: b :: c :: d :: r) =
  option_map (cons (0x10000 + (unit16 le a b - 0xD800) * 1024 + (unit16 le c d - 0xDC00))) (u16_dec le r).
Proof. intros le a b c d r H1 H2. cbn [u16_dec]. rewrite H1, H2. reflexivity. Qed.

Lemma u16_step : forall le c x r, u16_enc_cp le c = Some x ->
  u16_dec le (x ++ r) = option_map (cons c) (u16_dec le r).
Proof.
  intros le c x r H. unfold u16_enc_cp in H.
  destruct (c <? 0x10000) eqn:E1.
  { destruct (is_surrogate c) eqn:Es; [discriminate|]. unfold is_surrogate in Es.
    apply some_inj in H; subst x.
    destruct (pair16_shape le c ltac:(lia)) as [a [b [-> Eu]]]. cbn [app].
    rewrite u16_dec_bmp; rewrite Eu; [reflexivity | unfold rng; lia | unfold rng; lia]. }
  destruct (c <=? 0x10FFFF) eqn:E2; [|discriminate].
  cbv zeta in H. apply some_inj in H; subst x.
  destruct (pair16_shape le (0xD800 + (c - 0x10000) / 1024) ltac:(lia)) as [a [b [-> Ea]]].
  destruct (pair16_shape le (0xDC00 + (c - 0x10000) mod 1024) ltac:(lia)) as [a' [b' [-> Eb]]].
  cbn [app]. rewrite u16_dec_sur; rewrite ?Ea, ?Eb; [| unfold rng; lia | unfold rng; lia].
  f_equal. f_equal. lia.
Qed.

Lemma pair16_len : forall le u, length (pair16 le u) = 2%nat.
Proof. intros [|] u; reflexivity. Qed.

Lemma u16_nl_ok : forall le n, nl_char n -> nl_cp_ok (u16_enc_cp le) n.
Proof.
  intros le n Hn. destruct (nl_char_small n Hn) as [Hs _]. intros c x y Hc Hy.
  pose proof Hy as Hy0. unfold u16_enc_cp in Hy. destruct (n <? 0x10000) eqn:En; [|lia].
  destruct (is_surrogate n); [discriminate|]. apply some_inj in Hy; subst y.
  pose proof Hc as Hc0. unfold u16_enc_cp in Hc.
  destruct (c <? 0x10000) eqn:E1.
  { destruct (is_surrogate c); [discriminate|]. apply some_inj in Hc; subst x.
    rewrite !pair16_len. split; [lia|]. intros Hb. apply bends_iff in Hb. destruct Hb as [q Hq].
    apply (app_tail_eq [] q) in Hq; [|rewrite !pair16_len; reflexivity].
    apply (pair16_inj le c n) in Hq; [exact Hq | lia | lia]. }
  destruct (c <=? 0x10FFFF) eqn:E2; [|discriminate].
  cbv zeta in Hc. apply some_inj in Hc; subst x.
  rewrite app_length, !pair16_len. split; [lia|]. intros Hb. apply bends_iff in Hb. destruct Hb as [q Hq].
  apply app_tail_eq in Hq; [|rewrite !pair16_len; reflexivity].
  apply pair16_inj in Hq; lia.
Qed.

Theorem codec_ok_utf16le : forall enc c, lookup_codec enc = LOk (B "utf-16-le") c -> codec_ok enc.
Proof.
  intros enc c H. pose proof H as H0. canon_is' "utf-16-le" utf16le H0.
  exists utf16le, [], (enc_all (u16_enc_cp true)).
  apply (codec_laws_of_cp enc (B "utf-16-le") utf16le [] (u16_enc_cp true) (u16_dec true)).
  - exact H.
  - intros t. rewrite option_map_app_nil. reflexivity.
  - intros b. reflexivity.
  - reflexivity.
  - exact (u16_step true).
  - exact (u16_nl_ok true).
  - vm_compute. reflexivity.
Qed.

Theorem codec_ok_utf16be : forall enc c, lookup_codec enc = LOk (B "utf-16-be") c -> codec_ok enc.
Proof.
  intros enc c H. pose proof H as H0. canon_is' "utf-16-be" utf16be H0.
  exists utf16be, [], (enc_all (u16_enc_cp false)).
  apply (codec_laws_of_cp enc (B "utf-16-be") utf16be [] (u16_enc_cp false) (u16_dec false)).
  - exact H.
  - intros t. rewrite option_map_app_nil. reflexivity.
  - intros b. reflexivity.
  - reflexivity.
  - exact (u16_step false).
  - exact (u16_nl_ok false).
  - vm_compute. reflexivity.
Qed.

Theorem codec_ok_utf16 : forall enc c, lookup_codec enc = LOk (B "utf-16") c -> codec_ok enc.
Proof.
  intros enc c H. pose proof H as H0. canon_is' "utf-16" utf16 H0.
  exists utf16, bom16le, (enc_all (u16_enc_cp true)).
  apply (codec_laws_of_cp enc (B "utf-16") utf16 bom16le (u16_enc_cp true) (u16_dec true)).
  - exact H.
  - intros t. reflexivity.
  - intros b. reflexivity.
  - reflexivity.
  - exact (u16_step true).
  - exact (u16_nl_ok true).
  - vm_compute. reflexivity.
Qed.

(* ------------------------------------------------------------------------------------------------ *)
(* utf-32 *)

Lemma u32_dec_4 : forall (le : bool) a0 a1 a2 a3 r c,
  (if le then byte_n a0 + 256 * (byte_n a1 + 256 * (byte_n a2 + 256 * byte_n a3))
   else byte_n a3 + 256 * (byte_n a2 + 256 * (byte_n a1 + 256 * byte_n a0))) = c ->
  valid_cp c = true ->
  u32_dec le (a0 :: a1 :: a2 :: a3 :: r) = option_map (cons c) (u32_dec le r).
Proof. intros le a0 a1 a2 a3 r c E V. cbn [u32_dec]. rewrite E, V. reflexivity. Qed.

Lemma u32_step : forall le c x r, u32_enc_cp le c = Some x ->
  u32_dec le (x ++ r) = option_map (cons c) (u32_dec le r).
Proof.
  intros le c x r H. unfold u32_enc_cp in H. destruct (valid_cp c) eqn:V; [|discriminate].
  apply some_inj in H; subst x.
  assert (Hc : c <= 0x10FFFF) by (unfold valid_cp in V; lia).
  unfold quad32. destruct le; cbn [app]; apply u32_dec_4; try exact V;
    rewrite !byte_n_n_byte by (apply N.mod_lt; discriminate); lia.
Qed.

Lemma u32_len : forall le c x, u32_enc_cp le c = Some x -> length x = 4%nat.
Proof.
  intros le c x H. unfold u32_enc_cp in H. destruct (valid_cp c); [|discriminate].
  apply some_inj in H; subst x. destruct le; reflexivity.
Qed.

Lemma u32_nl_ok : forall le n, nl_char n -> nl_cp_ok (u32_enc_cp le) n.
Proof.
  intros le n _. apply (nl_cp_ok_same_len _ (u32_dec le)); [reflexivity | apply u32_step |].
  intros c x y Hx Hy. rewrite (u32_len _ _ _ Hx), (u32_len _ _ _ Hy). reflexivity.
Qed.

Theorem codec_ok_utf32le : forall enc c, lookup_codec enc = LOk (B "utf-32-le") c -> codec_ok enc.
Proof.
  intros enc c H. pose proof H as H0. canon_is' "utf-32-le" utf32le H0.
  exists utf32le, [], (enc_all (u32_enc_cp true)).
  apply (codec_laws_of_cp enc (B "utf-32-le") utf32le [] (u32_enc_cp true) (u32_dec true)).
  - exact H.
  - intros t. rewrite option_map_app_nil. reflexivity.
  - intros b. reflexivity.
  - reflexivity.
  - exact (u32_step true).
  - exact (u32_nl_ok true).
  - vm_compute. reflexivity.
Qed.

Theorem codec_ok_utf32be : forall enc c, lookup_codec enc = LOk (B "utf-32-be") c -> codec_ok enc.
Proof.
  intros enc c H. pose proof H as H0. canon_is' "utf-32-be" utf32be H0.
  exists utf32be, [], (enc_all (u32_enc_cp false)).
  apply (codec_laws_of_cp enc (B "utf-32-be") utf32be [] (u32_enc_cp false) (u32_dec false)).
  - exact H.
  - intros t. rewrite option_map_app_nil. reflexivity.
  - intros b. reflexivity.
  - reflexivity.
  - exact (u32_step false).
  - exact (u32_nl_ok false).
  - vm_compute. reflexivity.
Qed.

Theorem codec_ok_utf32 : forall enc c, lookup_codec enc = LOk (B "utf-32") c -> codec_ok enc.
Proof.
  intros enc c H. pose proof H as H0. canon_is' "utf-32" utf32 H0.
  exists utf32, bom32le, (enc_all (u32_enc_cp true)).
  apply (codec_laws_of_cp enc (B "utf-32") utf32 bom32le (u32_enc_cp true) (u32_dec true)).
  - exact H.
  - intros t. reflexivity.
  - intros b. reflexivity.
  - reflexivity.
  - exact (u32_step true).
  - exact (u32_nl_ok true).
  - vm_compute. reflexivity.
Qed.

(* ------------------------------------------------------------------------------------------------ *)
(* the hypotheses are satisfiable (also by non-canonical spellings), and a round trip on a concrete text *)

Example lookup_utf8_ex : lookup_codec (B "UTF8") = LOk (B "utf-8") utf8.
Proof. reflexivity. Qed.
Example lookup_utf8sig_ex : lookup_codec (B "utf_8_sig") = LOk (B "utf-8-sig") utf8sig.
Proof. reflexivity. Qed.
Example lookup_utf16le_ex : lookup_codec (B "UTF-16LE") = LOk (B "utf-16-le") utf16le.
Proof. reflexivity. Qed.
Example lookup_utf16be_ex : lookup_codec (B "utf_16_be") = LOk (B "utf-16-be") utf16be.
Proof. reflexivity. Qed.
Example lookup_utf16_ex : lookup_codec (B "U16") = LOk (B "utf-16") utf16.
Proof. reflexivity. Qed.
Example lookup_utf32le_ex : lookup_codec (B "utf_32_le") = LOk (B "utf-32-le") utf32le.
Proof. reflexivity. Qed.
Example lookup_utf32be_ex : lookup_codec (B "UTF-32BE") = LOk (B "utf-32-be") utf32be.
Proof. reflexivity. Qed.
Example lookup_utf32_ex : lookup_codec (B "U32") = LOk (B "utf-32") utf32.
Proof. reflexivity. Qed.

Example codec_ok_utf_ex :
  codec_ok (B "UTF8") /\ codec_ok (B "utf_8_sig") /\ codec_ok (B "UTF-16LE") /\ codec_ok (B "utf_16_be") /\
  codec_ok (B "U16") /\ codec_ok (B "utf_32_le") /\ codec_ok (B "UTF-32BE") /\ codec_ok (B "U32").
Proof.
  repeat split.
  - exact (codec_ok_utf8 _ _ lookup_utf8_ex).
  - exact (codec_ok_utf8sig _ _ lookup_utf8sig_ex).
  - exact (codec_ok_utf16le _ _ lookup_utf16le_ex).
  - exact (codec_ok_utf16be _ _ lookup_utf16be_ex).
  - exact (codec_ok_utf16 _ _ lookup_utf16_ex).
  - exact (codec_ok_utf32le _ _ lookup_utf32le_ex).
  - exact (codec_ok_utf32be _ _ lookup_utf32be_ex).
  - exact (codec_ok_utf32 _ _ lookup_utf32_ex).
Qed.

(* one code point of each UTF-8 length / a surrogate pair in UTF-16, through each decode step *)
Example step_ex :
  u8_dec [x41; xc3; xa9; xe2; x82; xac; xf0; x9f; x98; x80] = Some [0x41; 0xE9; 0x20AC; 0x1F600] /\
  u8_enc_cp 0x1F600 = Some [xf0; x9f; x98; x80] /\
  u16_enc_cp true 0x1F600 = Some [x3d; xd8; x00; xde] /\ u16_dec true [x3d; xd8; x00; xde] = Some [0x1F600] /\
  u32_enc_cp false 0x1F600 = Some [x00; x01; xf6; x00] /\ u32_dec false [x00; x01; xf6; x00] = Some [0x1F600].
Proof. vm_compute. repeat split. Qed.

Print Assumptions codec_ok_utf8.
Print Assumptions codec_ok_utf8sig.
Print Assumptions codec_ok_utf16le.
Print Assumptions codec_ok_utf16be.
Print Assumptions codec_ok_utf16.
Print Assumptions codec_ok_utf32le.
Print Assumptions codec_ok_utf32be.
Print Assumptions codec_ok_utf32.
