(* SpecReaderC12.v — the file-level part of property C12 (unknown options are carried through):
   inserting syntactically valid options with fresh keys that no part of the format interprets, at any positions
   of any headers of a well-formed file, gives a well-formed file whose specified records are the same except
   that each options dict has gained exactly those keys (integers converted); hence, by C03_reads_spec, the
   reader's output changes only by those keys.  The option dicts are related through HeaderFacts.C12_header. *)
From Coq Require Import List Arith NArith ZArith Bool Strings.Byte Lia.
From Coq Require Strings.String.
From DX Require Import Bytes Res Codec Text Sections Header Stream Json Reader SectionsSpec
                       SpecReader SpecReaderBase SpecReaderFacts.
From DX Require HeaderFacts.
Import ListNotations.
Import String.StringSyntax.
Local Open Scope string_scope.
Local Open Scope list_scope.

(* the option keys the format gives a meaning to when reading *)
Definition known_keys : list bytes :=
  [B "encoding"; B "version"; B "length"; B "line_endings"; B "indent"; B "format"].

(* s' is s with the options [extra] inserted into its header *)
Record sec_ext (s s' : fsection) (extra : list (bytes * bytes)) : Prop := {
  se_id : fs_id s' = fs_id s;
  se_blank : fs_blank s' = fs_blank s;
  se_content : fs_content s' = fs_content s;
  se_opts : HeaderFacts.interleave (fs_opts s) extra (fs_opts s');
  se_pairs : forallb pair_ok extra = true;
  se_nodup : NoDup (map fst extra);
  se_fresh : forall k, In k (map fst extra) -> ~ In k (map fst (fs_opts s));
  se_unknown : forall k, In k (map fst extra) -> ~ In k known_keys }.

Inductive secs_ext : list fsection -> list fsection -> list (list (bytes * bytes)) -> Prop :=
| sx_nil : secs_ext [] [] []
| sx_cons : forall s s' e ss ss' es, sec_ext s s' e -> secs_ext ss ss' es -> secs_ext (s :: ss) (s' :: ss') (e :: es).

Definition file_ext (f f' : ffile) (extras : list (list (bytes * bytes))) : Prop :=
  ff_crlf f' = ff_crlf f /\ ff_trailing f' = ff_trailing f /\ secs_ext (ff_sections f) (ff_sections f') extras.

(* r' is r with the keys of [extra] added to its options *)
Definition rec_ext (r r' : record) (extra : list (bytes * bytes)) : Prop :=
  r_level r' = r_level r /\ r_line r' = r_line r /\ r_id r' = r_id r /\ r_type r' = r_type r /\
  r_payload r' = r_payload r /\
  (forall k, ~ In k (map fst extra) -> assoc_get beq k (r_opts r') = assoc_get beq k (r_opts r)) /\
  (forall k v, In (k, v) extra -> assoc_get beq k (r_opts r') = Some (spec_conv v) /\ assoc_get beq k (r_opts r) = None).

Inductive recs_ext : list record -> list record -> list (list (bytes * bytes)) -> Prop :=
| rx_nil : recs_ext [] [] []
| rx_cons : forall r r' e rs rs' es, rec_ext r r' e -> recs_ext rs rs' es -> recs_ext (r :: rs) (r' :: rs') (e :: es).

(* ------------------------------------------------------------------------------------------------ *)
(* the interpreted options are unchanged *)

Lemma ext_opt : forall s s' e k, sec_ext s s' e -> In (B k) known_keys -> opt k (fs_opts s') = opt k (fs_opts s).
Proof.
  intros s s' e k H Hk. unfold opt. apply (HeaderFacts.last_val_interleave _ _ e _ (se_opts _ _ _ H)).
  intros Hin. exact (se_unknown _ _ _ H _ Hin Hk).
Qed.

Ltac known_opts H :=
  pose proof (ext_opt _ _ _ "encoding" H ltac:(cbn; auto 10)) as Kenc;
  pose proof (ext_opt _ _ _ "version" H ltac:(cbn; auto 10)) as Kver;
  pose proof (ext_opt _ _ _ "length" H ltac:(cbn; auto 10)) as Klen;
  pose proof (ext_opt _ _ _ "line_endings" H ltac:(cbn; auto 10)) as Kle;
  pose proof (ext_opt _ _ _ "indent" H ltac:(cbn; auto 10)) as Kind;
  pose proof (ext_opt _ _ _ "format" H ltac:(cbn; auto 10)) as Kfmt;
  pose proof (se_id _ _ _ H) as Kid; pose proof (se_content _ _ _ H) as Kcont.

Lemma ext_ectx_next : forall s s' e x, sec_ext s s' e -> ectx_next x s' = ectx_next x s.
Proof. intros s s' e x H. known_opts H. unfold ectx_next. rewrite Kid, Kenc. reflexivity. Qed.

Lemma ext_eff_enc : forall s s' e x, sec_ext s s' e -> eff_enc x s' = eff_enc x s.
Proof. intros s s' e x H. known_opts H. unfold eff_enc. rewrite Kid, Kenc. reflexivity. Qed.

Lemma ext_indent_of : forall s s' e, sec_ext s s' e -> indent_of s' = indent_of s.
Proof. intros s s' e H. known_opts H. unfold indent_of, int_opt. rewrite Kid, Kind. reflexivity. Qed.

Lemma ext_text_codec : forall s s' e x, sec_ext s s' e -> text_codec x s' = text_codec x s.
Proof. intros s s' e x H. unfold text_codec. rewrite (ext_eff_enc _ _ _ x H). reflexivity. Qed.

Lemma ext_diff_codec : forall s s' e, sec_ext s s' e -> diff_codec s' = diff_codec s.
Proof. intros s s' e H. known_opts H. unfold diff_codec, diff_spelling. rewrite Kenc. reflexivity. Qed.

Lemma ext_content_body : forall s s' e x, sec_ext s s' e -> content_body x s' = content_body x s.
Proof.
  intros s s' e x H. known_opts H. unfold content_body.
  rewrite Kcont, (ext_text_codec _ _ _ x H), (ext_indent_of _ _ _ H). reflexivity.
Qed.

Lemma ext_payload : forall s s' e, sec_ext s s' e -> sec_payload s' = sec_payload s.
Proof. intros s s' e H. known_opts H. unfold sec_payload. rewrite Kcont. reflexivity. Qed.

Lemma ext_nlines : forall s s' e, sec_ext s s' e -> content_nlines s' = content_nlines s.
Proof. intros s s' e H. known_opts H. unfold content_nlines. rewrite Kcont, (ext_diff_codec _ _ _ H). reflexivity. Qed.

Lemma ext_length_ok : forall s s' e body, sec_ext s s' e -> length_ok (fs_opts s') body = length_ok (fs_opts s) body.
Proof. intros s s' e body H. known_opts H. unfold length_ok, int_opt. rewrite Klen. reflexivity. Qed.

Lemma ext_le_ok : forall s s' e c k body, sec_ext s s' e -> le_ok (fs_opts s') c k body = le_ok (fs_opts s) c k body.
Proof. intros s s' e c k body H. known_opts H. unfold le_ok. rewrite Kle. reflexivity. Qed.

Lemma ext_text_ok : forall s s' e x t, sec_ext s s' e -> text_ok x s' t = text_ok x s t.
Proof.
  intros s s' e x t H. unfold text_ok.
  rewrite (ext_text_codec _ _ _ x H), (ext_content_body _ _ _ x H).
  destruct (text_codec x s); [|reflexivity]. cbv zeta.
  rewrite (ext_le_ok _ _ _ _ _ _ H), (ext_length_ok _ _ _ _ H). reflexivity.
Qed.

Lemma ext_raw_ok : forall s s' e x ls k, sec_ext s s' e -> raw_ok x s' ls k = raw_ok x s ls k.
Proof.
  intros s s' e x ls k H. unfold raw_ok.
  rewrite (ext_eff_enc _ _ _ x H), (ext_content_body _ _ _ x H).
  destruct (eff_enc x s); [reflexivity|].
  rewrite (ext_le_ok _ _ _ _ _ _ H), (ext_length_ok _ _ _ _ H). reflexivity.
Qed.

Lemma ext_diff_ok : forall s s' e raw k, sec_ext s s' e -> diff_ok s' raw k = diff_ok s raw k.
Proof.
  intros s s' e raw k H. unfold diff_ok.
  rewrite (ext_diff_codec _ _ _ H). destruct (diff_codec s); [|reflexivity].
  rewrite (ext_le_ok _ _ _ _ _ _ H), (ext_length_ok _ _ _ _ H). reflexivity.
Qed.

Lemma forallb_interleave : forall {A} (f : A -> bool) a b c, HeaderFacts.interleave a b c ->
  forallb f a = true -> forallb f b = true -> forallb f c = true.
Proof.
  intros A f a b c H. induction H; intros Ha Hb; cbn [forallb] in *.
  - reflexivity.
  - apply andb_true_iff in Ha. destruct Ha as [Hx Ha]. rewrite Hx, (IHinterleave Ha Hb). reflexivity.
  - apply andb_true_iff in Hb. destruct Hb as [Hx Hb]. rewrite Hx, (IHinterleave Ha Hb). reflexivity.
Qed.

Lemma ext_wf_section : forall s s' e prev x, sec_ext s s' e -> wf_section prev x s = true -> wf_section prev x s' = true.
Proof.
  intros s s' e prev x H Hwf. known_opts H. unfold wf_section in *.
  repeat (apply andb_true_iff in Hwf; destruct Hwf as [Hwf ?]).
  rename H0 into Hkind, H1 into Henc, H2 into Hpairs, H3 into Hblank.
  rewrite Kid, (se_blank _ _ _ H), Kcont.
  rewrite Hwf, Hblank. rewrite (forallb_interleave pair_ok _ _ _ (se_opts _ _ _ H) Hpairs (se_pairs _ _ _ H)).
  unfold enc_opt_ok in *. rewrite Kenc, Henc. cbn [andb].
  unfold version_ok, indent_ok, format_ok in *. rewrite Kver, Kind, Kfmt.
  destruct (sid_kind (fs_id s)); destruct (fs_content s) as [[t|t j|ls k|ls k j|raw k]|]; try exact Hkind;
    rewrite ?(ext_text_ok _ _ _ x _ H), ?(ext_raw_ok _ _ _ x _ _ H), ?(ext_diff_ok _ _ _ _ _ H); exact Hkind.
Qed.

Lemma ext_wf_secs : forall ss ss' es, secs_ext ss ss' es -> forall prev x, wf_secs prev x ss = true -> wf_secs prev x ss' = true.
Proof.
  intros ss ss' es H. induction H as [|s s' e ss ss' es Hs _ IH]; intros prev x Hwf; [reflexivity|].
  cbn [wf_secs] in *. apply andb_true_iff in Hwf. destruct Hwf as [H1 H2].
  rewrite (ext_wf_section _ _ _ _ _ Hs H1). cbn [andb].
  rewrite (se_id _ _ _ Hs), (ext_ectx_next _ _ _ x Hs). apply IH. exact H2.
Qed.

Theorem C12_wf : forall f f' extras, file_ext f f' extras -> wf_file f = true -> wf_file f' = true.
Proof.
  intros f f' extras (Hc & Ht & Hs) Hwf. unfold wf_file in *. apply andb_true_iff in Hwf. destruct Hwf as [H1 H2].
  rewrite (ext_wf_secs _ _ _ Hs _ _ H1), Ht, H2. reflexivity.
Qed.

Lemma ext_oracle : forall orc ss ss' es, secs_ext ss ss' es ->
  Forall (oracle_ok_section orc) ss -> Forall (oracle_ok_section orc) ss'.
Proof.
  intros orc ss ss' es H. induction H as [|s s' e ss ss' es Hs _ IH]; intros Ho; [constructor|].
  inversion Ho; subst. constructor; [|apply IH; assumption].
  unfold oracle_ok_section in *. rewrite (se_content _ _ _ Hs). assumption.
Qed.

(* ------------------------------------------------------------------------------------------------ *)
(* the options dicts, through C12 at header level *)

Lemma ext_opts : forall s s' e, sec_ext s s' e -> forallb pair_ok (fs_opts s) = true ->
  (forall k, ~ In k (map fst e) ->
     assoc_get beq k (HeaderFacts.opts_of spec_conv (fs_opts s')) = assoc_get beq k (HeaderFacts.opts_of spec_conv (fs_opts s))) /\
  (forall k v, In (k, v) e ->
     assoc_get beq k (HeaderFacts.opts_of spec_conv (fs_opts s')) = Some (spec_conv v) /\
     assoc_get beq k (HeaderFacts.opts_of spec_conv (fs_opts s)) = None).
Proof.
  intros s s' e H Hp.
  pose proof (sec_spec_header s Hp) as Hs.
  set (valid := [repeat_b "."%byte (fs_dots s) ++ fs_name s]).
  assert (Hin : In (repeat_b "."%byte (fs_dots s) ++ fs_name s) valid) by (left; reflexivity).
  destruct (HeaderFacts.C12_header valid _ _ (fs_dots s) (fs_name s) (fs_opts s) e (fs_opts s') Hs Hin
              (se_opts _ _ _ H) (pairs_ok_sound _ (se_pairs _ _ _ H)) (se_nodup _ _ _ H) (se_fresh _ _ _ H) eq_refl)
    as (o & o' & Hpo & Hpo' & Hsame & Hnew).
  assert (Hs' : HeaderFacts.spec_header (HeaderFacts.render_header (fs_dots s) (fs_name s) (fs_opts s'))
                  (fs_dots s) (fs_name s) (fs_opts s')).
  { destruct Hs as (Hd & Hn & _ & _). repeat split; try assumption.
    apply pairs_ok_sound. exact (forallb_interleave pair_ok _ _ _ (se_opts _ _ _ H) Hp (se_pairs _ _ _ H)). }
  rewrite (HeaderFacts.C11_complete valid _ _ _ _ Hs Hin) in Hpo. injection Hpo as <-.
  rewrite (HeaderFacts.C11_complete valid _ _ _ _ Hs' Hin) in Hpo'. injection Hpo' as <-.
  rewrite !opts_of_spec_model. split; [exact Hsame|].
  intros k v Hkv. rewrite spec_conv_model. apply Hnew. exact Hkv.
Qed.

Lemma ext_record : forall s s' e line, sec_ext s s' e -> forallb pair_ok (fs_opts s) = true ->
  rec_ext (sec_record line s) (sec_record line s') e.
Proof.
  intros s s' e line H Hp. destruct (ext_opts s s' e H Hp) as [H1 H2].
  unfold rec_ext, sec_record, fs_dots, fs_name. cbn [r_level r_line r_id r_type r_payload r_opts].
  rewrite (se_id _ _ _ H), (ext_payload _ _ _ H).
  split; [reflexivity|]. split; [reflexivity|]. split; [reflexivity|]. split; [reflexivity|]. split; [reflexivity|].
  split; [exact H1 | exact H2].
Qed.

Lemma ext_records : forall ss ss' es, secs_ext ss ss' es ->
  forall prev x line, wf_secs prev x ss = true -> recs_ext (records_secs line ss) (records_secs line ss') es.
Proof.
  intros ss ss' es H. induction H as [|s s' e ss ss' es Hs _ IH]; intros prev x line Hwf; [constructor|].
  cbn [wf_secs] in Hwf. apply andb_true_iff in Hwf. destruct Hwf as [H1 H2].
  destruct (wf_section_inv _ _ _ H1) as (_ & _ & Hp & _).
  cbn [records_secs]. constructor; [apply ext_record; assumption|].
  rewrite (ext_nlines _ _ _ Hs). eapply IH. exact H2.
Qed.

Theorem C12_records : forall f f' extras, file_ext f f' extras -> wf_file f = true ->
  recs_ext (spec_records f) (spec_records f') extras.
Proof.
  intros f f' extras (_ & _ & Hs) Hwf. unfold wf_file in Hwf. apply andb_true_iff in Hwf. destruct Hwf as [H1 _].
  unfold spec_records. eapply ext_records; eassumption.
Qed.

(* ------------------------------------------------------------------------------------------------ *)
(* C12, file level *)

Theorem C12_file : forall f f' extras orc chunk,
  wf_file f = true -> oracle_ok_file orc f -> file_ext f f' extras -> 0 < chunk ->
  (Z.of_nat (length (render_file f')) <= sys_maxsize)%Z ->
  wf_file f' = true /\
  read_all orc chunk (render_file f') = (spec_records f', TEnd) /\
  recs_ext (spec_records f) (spec_records f') extras.
Proof.
  intros f f' extras orc chunk Hwf Horc Hext Hc Hmax.
  pose proof (C12_wf f f' extras Hext Hwf) as Hwf'.
  split; [exact Hwf'|]. split; [|exact (C12_records f f' extras Hext Hwf)].
  apply C03_reads_spec; try assumption.
  destruct Hext as (_ & _ & Hs). exact (ext_oracle orc _ _ _ Hs Horc).
Qed.

(* the same with both readings side by side *)
Theorem C12_file_reader : forall f f' extras orc chunk,
  wf_file f = true -> oracle_ok_file orc f -> file_ext f f' extras -> 0 < chunk ->
  (Z.of_nat (length (render_file f)) <= sys_maxsize)%Z ->
  (Z.of_nat (length (render_file f')) <= sys_maxsize)%Z ->
  exists rs rs',
    read_all orc chunk (render_file f) = (rs, TEnd) /\
    read_all orc chunk (render_file f') = (rs', TEnd) /\
    recs_ext rs rs' extras.
Proof.
  intros f f' extras orc chunk Hwf Horc Hext Hc Hm Hm'.
  destruct (C12_file f f' extras orc chunk Hwf Horc Hext Hc Hm') as (_ & Hr' & Hrel).
  exists (spec_records f), (spec_records f'). split; [apply C03_reads_spec; assumption|]. split; assumption.
Qed.

(* helpers for concrete instances *)
Lemma interleave_nil_r : forall {A} (a : list A), HeaderFacts.interleave a [] a.
Proof. induction a; constructor; assumption. Qed.

Lemma sec_ext_refl : forall s, sec_ext s s [].
Proof.
  intros s. constructor; try reflexivity.
  - apply interleave_nil_r.
  - constructor.
  - intros k [].
  - intros k [].
Qed.

Lemma sec_ext_intro : forall s s' e,
  fs_id s' = fs_id s -> fs_blank s' = fs_blank s -> fs_content s' = fs_content s ->
  HeaderFacts.interleave (fs_opts s) e (fs_opts s') ->
  forallb pair_ok e = true -> HeaderFacts.nodup_b (map fst e) = true ->
  all_b (fun k => negb (mem beq k (map fst (fs_opts s)))) (map fst e) = true ->
  all_b (fun k => negb (mem beq k known_keys)) (map fst e) = true ->
  sec_ext s s' e.
Proof.
  intros s s' e H1 H2 H3 H4 H5 H6 H7 H8. constructor; try assumption.
  - apply HeaderFacts.nodup_b_sound. exact H6.
  - apply HeaderFacts.disjoint_b_sound. exact H7.
  - apply HeaderFacts.disjoint_b_sound. exact H8.
Qed.
