(* LexerFacts.v — facts about the lexer model (C20).
   * [Match]: a declarative "some match" relation for the regex syntax; [rm_sound]: whatever the executable
     backtracking matcher returns is a [Match].
   * [nullable] / [nonnull_sound], [covering] / [covering_sound]: the two syntactic checks and their meaning.
   * [rules_ok]: the boolean check run on the generated rule table (props/C20.v, C20_rules).
   * [lex_good] / [C20_lossless]: for every rule table accepted by [rules_ok], a lossless sub-lexer oracle, every text
     and every fuel >= S (length text), the engine does not run out of fuel, raises none of the modelled errors, and
     the concatenation of the token values is the text. *)
From Coq Require Import List Arith NArith Bool Lia.
From Coq Require Strings.String.
From DX Require Import Bytes Lexer.
Import ListNotations.
Import String.StringSyntax.
Local Open Scope string_scope.
Local Open Scope list_scope.

(* ------------------------------------------------------------------ the declarative relation *)
Inductive Match : regex -> mstate -> caps -> mstate -> caps -> Prop :=
| MEmpty st c : Match REmpty st c st c
| MLit x st c t : m_rest st = x :: t -> Match (RLit x) st c (step st x t) c
| MClass neg rs st c ch t :
    m_rest st = ch :: t -> xorb neg (in_class rs ch) = true -> Match (RClass neg rs) st c (step st ch t) c
| MAny st c ch t : m_rest st = ch :: t -> Match RAny st c (step st ch t) c
| MSeq a b st c st1 c1 st2 c2 :
    Match a st c st1 c1 -> Match b st1 c1 st2 c2 -> Match (RSeq a b) st c st2 c2
| MAltL a b st c st1 c1 : Match a st c st1 c1 -> Match (RAlt a b) st c st1 c1
| MAltR a b st c st1 c1 : Match b st c st1 c1 -> Match (RAlt a b) st c st1 c1
| MRepStop g hi a st c : Match (RRepeat g 0 hi a) st c st c
| MRepIter g lo hi a st c st1 c1 st2 c2 :
    hi <> Some 0 -> Match a st c st1 c1 -> (m_pos st < m_pos st1)%N ->
    Match (RRepeat g (Nat.pred lo) (opt_pred hi) a) st1 c1 st2 c2 ->
    Match (RRepeat g lo hi a) st c st2 c2
| MGroup n a st c st1 c1 :
    Match a st c st1 c1 ->
    Match (RGroup n a) st c st1 ((n, Build_cap (m_pos st) (m_pos st1 - m_pos st)%N (m_rest st)) :: c1)
| MLook a st c st1 c1 : Match a st c st1 c1 -> Match (RLook a) st c st c1
| MBol st c : (m_prev st = None \/ m_prev st = Some 10%N) -> Match RBol st c st c
| MEndZ st c : m_rest st = [] -> Match REndZ st c st c.

(* ------------------------------------------------------------------ soundness of the executable matcher *)
Definition body_sound (a : regex) (body : mstate -> caps -> cont -> mres) : Prop :=
  forall st c k res, body st c k = Some res -> exists st1 c1, Match a st c st1 c1 /\ k st1 c1 = Some res.

Lemma rep_loop_sound a body g :
  body_sound a body ->
  forall n lo hi st c k res,
    rep_loop body g n lo hi st c k = Some res ->
    exists st1 c1, Match (RRepeat g lo hi a) st c st1 c1 /\ k st1 c1 = Some res.
Proof.
  intros Hb. induction n as [|n IH]; intros lo hi st c k res H; [discriminate|].
  cbn [rep_loop] in H.
  set (iter := match hi with
               | Some 0 => None
               | _ => body st c (fun st1 c1 =>
                        if (m_pos st <? m_pos st1)%N then rep_loop body g n (Nat.pred lo) (opt_pred hi) st1 c1 k else None)
               end) in H.
  set (stop := match lo with 0 => k st c | S _ => None end) in H.
  assert (Hiter : iter = Some res ->
                  exists st1 c1, Match (RRepeat g lo hi a) st c st1 c1 /\ k st1 c1 = Some res).
  { unfold iter. intros E.
    assert (Hhi : hi <> Some 0) by (intro; subst hi; discriminate).
    assert (E' : body st c (fun st1 c1 =>
                   if (m_pos st <? m_pos st1)%N then rep_loop body g n (Nat.pred lo) (opt_pred hi) st1 c1 k else None)
                 = Some res).
    { destruct hi as [[|h]|]; [congruence| exact E | exact E]. }
    apply Hb in E'. destruct E' as (st1 & c1 & M1 & K1).
    destruct (m_pos st <? m_pos st1)%N eqn:Lt; [|discriminate].
    apply N.ltb_lt in Lt. apply IH in K1. destruct K1 as (st2 & c2 & M2 & K2).
    exists st2, c2. split; [|exact K2]. eapply MRepIter; eauto. }
  assert (Hstop : stop = Some res ->
                  exists st1 c1, Match (RRepeat g lo hi a) st c st1 c1 /\ k st1 c1 = Some res).
  { unfold stop. intros E. destruct lo; [|discriminate]. exists st, c. split; [constructor | exact E]. }
  destruct g.
  - destruct iter as [r|] eqn:E.
    + inversion H; subst. apply Hiter; reflexivity.
    + apply Hstop; exact H.
  - destruct stop as [r|] eqn:E.
    + inversion H; subst. apply Hstop; reflexivity.
    + apply Hiter; exact H.
Qed.

Lemma rm_sound : forall r, body_sound r (rm r).
Proof.
  unfold body_sound.
  induction r as [ | x | neg rs | | a IHa b IHb | a IHa b IHb | g lo hi a IHa | n a IHa | a IHa | | ];
    intros st c k res H; cbn [rm] in H.
  - exists st, c. split; [constructor | exact H].
  - destruct (m_rest st) as [|ch t] eqn:E; [discriminate|].
    destruct (N.eqb ch x) eqn:Q; [|discriminate]. apply N.eqb_eq in Q; subst ch.
    exists (step st x t), c. split; [constructor; exact E | exact H].
  - destruct (m_rest st) as [|ch t] eqn:E; [discriminate|].
    destruct (xorb neg (in_class rs ch)) eqn:Q; [|discriminate].
    exists (step st ch t), c. split; [econstructor; eauto | exact H].
  - destruct (m_rest st) as [|ch t] eqn:E; [discriminate|].
    exists (step st ch t), c. split; [econstructor; eauto | exact H].
  - apply IHa in H. destruct H as (st1 & c1 & M1 & K1). apply IHb in K1. destruct K1 as (st2 & c2 & M2 & K2).
    exists st2, c2. split; [econstructor; eauto | exact K2].
  - destruct (rm a st c k) as [r|] eqn:E.
    + inversion H; subst. apply IHa in E. destruct E as (st1 & c1 & M1 & K1).
      exists st1, c1. split; [apply MAltL; exact M1 | exact K1].
    + apply IHb in H. destruct H as (st1 & c1 & M1 & K1).
      exists st1, c1. split; [apply MAltR; exact M1 | exact K1].
  - eapply rep_loop_sound; [|exact H]. exact IHa.
  - apply IHa in H. destruct H as (st1 & c1 & M1 & K1).
    eexists. eexists. split; [apply MGroup; exact M1 | exact K1].
  - destruct (rm a st c (fun st1 c1 => Some (st1, c1))) as [[st1 c1]|] eqn:E; [|discriminate].
    apply IHa in E. destruct E as (st1' & c1' & M1 & K1). inversion K1; subst.
    exists st, c1. split; [econstructor; eauto | exact H].
  - destruct (m_prev st) as [p|] eqn:E.
    + destruct (N.eqb p 10) eqn:Q; [|discriminate]. apply N.eqb_eq in Q; subst.
      exists st, c. split; [constructor; right; exact E | exact H].
    + exists st, c. split; [constructor; left; exact E | exact H].
  - destruct (m_rest st) eqn:E; [|discriminate].
    exists st, c. split; [constructor; exact E | exact H].
Qed.

Lemma rmatch_sound r st st1 c : rmatch r st = Some (st1, c) -> Match r st [] st1 c.
Proof.
  unfold rmatch. intros H. apply rm_sound in H. destruct H as (st' & c' & M & K). inversion K; subst. exact M.
Qed.

(* ------------------------------------------------------------------ consumed text *)
Definition adv (st : mstate) (txt : text) (st1 : mstate) : Prop :=
  m_rest st = txt ++ m_rest st1 /\ m_pos st1 = (m_pos st + N.of_nat (length txt))%N.

Lemma adv_refl st : adv st [] st.
Proof. split; [reflexivity | simpl; lia]. Qed.

Lemma adv_step st ch t : m_rest st = ch :: t -> adv st [ch] (step st ch t).
Proof. intros E. split; [exact E | simpl; lia]. Qed.

Lemma adv_trans st t1 st1 t2 st2 : adv st t1 st1 -> adv st1 t2 st2 -> adv st (t1 ++ t2) st2.
Proof.
  intros [R1 P1] [R2 P2]. split.
  - rewrite R1, R2, app_assoc. reflexivity.
  - rewrite P2, P1, app_length. lia.
Qed.

Lemma adv_unique st t1 t2 st1 : adv st t1 st1 -> adv st t2 st1 -> t1 = t2.
Proof.
  intros [R1 P1] [R2 P2].
  assert (L : length t1 = length t2) by lia.
  rewrite R1 in R2. clear - R2 L.
  revert t2 R2 L. induction t1 as [|x t1 IH]; intros [|y t2] R L; try discriminate; [reflexivity|].
  simpl in R. inversion R; subst. f_equal. apply IH; [assumption | simpl in L; lia].
Qed.

Lemma firstn_exact {A} (l1 l2 : list A) : firstn (length l1) (l1 ++ l2) = l1.
Proof. induction l1; simpl; [destruct l2; reflexivity | f_equal; assumption]. Qed.

Lemma adv_matched st txt st1 : adv st txt st1 -> matched st st1 = txt.
Proof.
  intros [R P]. unfold matched. rewrite P, R.
  replace (N.to_nat (m_pos st + N.of_nat (length txt) - m_pos st)) with (length txt) by lia.
  apply firstn_exact.
Qed.

Lemma adv_len st txt st1 : adv st txt st1 -> length (m_rest st) = length txt + length (m_rest st1).
Proof. intros [R _]. rewrite R, app_length. reflexivity. Qed.

Lemma match_adv r st c st1 c1 : Match r st c st1 c1 -> exists txt, adv st txt st1.
Proof.
  induction 1.
  - exists []. apply adv_refl.
  - exists [x]. apply adv_step; assumption.
  - exists [ch]. apply adv_step; assumption.
  - exists [ch]. apply adv_step; assumption.
  - destruct IHMatch1 as [t1 A1]. destruct IHMatch2 as [t2 A2]. exists (t1 ++ t2). eapply adv_trans; eauto.
  - assumption.
  - assumption.
  - exists []. apply adv_refl.
  - destruct IHMatch1 as [t1 A1]. destruct IHMatch2 as [t2 A2]. exists (t1 ++ t2). eapply adv_trans; eauto.
  - assumption.
  - exists []. apply adv_refl.
  - exists []. apply adv_refl.
  - exists []. apply adv_refl.
Qed.

Lemma match_pos_le r st c st1 c1 : Match r st c st1 c1 -> (m_pos st <= m_pos st1)%N.
Proof. intros M. apply match_adv in M. destruct M as [t [_ P]]. lia. Qed.

(* ------------------------------------------------------------------ nullable *)
Fixpoint nullable (r : regex) : bool :=
  match r with
  | REmpty | RLook _ | RBol | REndZ => true
  | RLit _ | RClass _ _ | RAny => false
  | RSeq a b => nullable a && nullable b
  | RAlt a b => nullable a || nullable b
  | RRepeat _ lo _ a => Nat.eqb lo 0 || nullable a
  | RGroup _ a => nullable a
  end.

Lemma nonnull_pos r st c st1 c1 : Match r st c st1 c1 -> nullable r = false -> (m_pos st < m_pos st1)%N.
Proof.
  induction 1; cbn [nullable]; intros Hn; try discriminate.
  - simpl. lia.
  - simpl. lia.
  - simpl. lia.
  - apply andb_false_iff in Hn. destruct Hn as [Hn|Hn].
    + specialize (IHMatch1 Hn). apply match_pos_le in H0. lia.
    + specialize (IHMatch2 Hn). apply match_pos_le in H. lia.
  - apply orb_false_iff in Hn. destruct Hn. auto.
  - apply orb_false_iff in Hn. destruct Hn. auto.
  - apply match_pos_le in H2. lia.
  - auto.
Qed.

(* every match of a non-nullable regex is non-empty *)
Lemma nonnull_sound r st c st1 c1 txt :
  nullable r = false -> Match r st c st1 c1 -> adv st txt st1 -> txt <> [].
Proof.
  intros Hn M [_ P] E. subst txt. apply nonnull_pos in M; [|assumption]. simpl in P. lia.
Qed.

(* ------------------------------------------------------------------ groups *)
Definition gtext (c : caps) (n : nat) : text :=
  match getcap n c with Some cp => cap_text cp | None => [] end.

Lemma getcap_app n x y :
  getcap n (x ++ y) = match getcap n x with Some cp => Some cp | None => getcap n y end.
Proof.
  induction x as [|[m cp] x IH]; simpl; [reflexivity|]. destruct (Nat.eqb n m); [reflexivity | exact IH].
Qed.

Lemma getcap_notin n x : ~ In n (map fst x) -> getcap n x = None.
Proof.
  induction x as [|[m cp] x IH]; simpl; intros Hn; [reflexivity|].
  destruct (Nat.eqb n m) eqn:E.
  - apply Nat.eqb_eq in E. subst. exfalso. apply Hn. left. reflexivity.
  - apply IH. intro. apply Hn. right. assumption.
Qed.

Lemma match_caps r st c st1 c1 :
  Match r st c st1 c1 ->
  exists new, c1 = new ++ c /\ forall n, In n (map fst new) -> In n (groups_of r).
Proof.
  induction 1; cbn [groups_of]; try (exists []; split; [reflexivity | intros ? []]).
  - destruct IHMatch1 as (n1 & E1 & D1). destruct IHMatch2 as (n2 & E2 & D2).
    exists (n2 ++ n1). split; [subst; rewrite app_assoc; reflexivity|].
    intros n Hin. rewrite map_app in Hin. apply in_app_iff in Hin. apply in_app_iff. destruct Hin; auto.
  - destruct IHMatch as (n1 & E1 & D1). exists n1. split; [assumption|]. intros. apply in_app_iff. auto.
  - destruct IHMatch as (n1 & E1 & D1). exists n1. split; [assumption|]. intros. apply in_app_iff. auto.
  - destruct IHMatch1 as (n1 & E1 & D1). destruct IHMatch2 as (n2 & E2 & D2). cbn [groups_of] in D2.
    exists (n2 ++ n1). split; [subst; rewrite app_assoc; reflexivity|].
    intros n Hin. rewrite map_app in Hin. apply in_app_iff in Hin. destruct Hin; auto.
  - destruct IHMatch as (n1 & E1 & D1).
    exists ((n, Build_cap (m_pos st) (m_pos st1 - m_pos st)%N (m_rest st)) :: n1). split; [subst; reflexivity|].
    intros k [Hk|Hk]; [left; exact Hk | right; auto].
  - destruct IHMatch as (n1 & E1 & D1). exists n1. split; assumption.
Qed.

Lemma match_nogroups r st c st1 c1 : Match r st c st1 c1 -> groups_of r = [] -> c1 = c.
Proof.
  intros M G. apply match_caps in M. destruct M as (new & E & D). rewrite G in D.
  destruct new as [|[k cp] new]; [assumption|]. exfalso. apply (D k). left. reflexivity.
Qed.

(* ------------------------------------------------------------------ covering *)
(* The top level is built from numbered groups (without groups inside), sequences, alternations, the optional
   operator `?`, and zero-width items without groups.  Then every character of a match lies in exactly one group. *)
Fixpoint covering (r : regex) : bool :=
  match r with
  | REmpty | RBol | REndZ => true
  | RLook a => match groups_of a with [] => true | _ => false end
  | RGroup _ a => match groups_of a with [] => true | _ => false end
  | RSeq a b | RAlt a b => covering a && covering b
  | RRepeat _ 0 (Some 1) a => covering a
  | _ => false
  end.

(* groups that take part in every match with a non-empty text *)
Fixpoint mand (r : regex) : list nat :=
  match r with
  | RGroup n a => if nullable a then [] else [n]
  | RSeq a b => mand a ++ mand b
  | _ => []
  end.

Lemma mand_groups r n : In n (mand r) -> In n (groups_of r).
Proof.
  induction r; simpl; intros H; try contradiction.
  - apply in_app_iff in H. apply in_app_iff. destruct H; auto.
  - destruct (nullable r); [contradiction|]. destruct H as [H|[]]. left. exact H.
Qed.

Lemma concat_nil_map {A B} (f : A -> list B) l : (forall x, In x l -> f x = []) -> concat (map f l) = [].
Proof.
  induction l as [|x l IH]; simpl; intros H; [reflexivity|].
  rewrite (H x) by (left; reflexivity). simpl. apply IH. intros. apply H. right. assumption.
Qed.

Lemma gtext_notin c n : ~ In n (map fst c) -> gtext c n = [].
Proof. intros H. unfold gtext. rewrite getcap_notin; [reflexivity | exact H]. Qed.

Lemma gtext_app_l x y n : ~ In n (map fst x) -> gtext (x ++ y) n = gtext y n.
Proof. intros H. unfold gtext. rewrite getcap_app, getcap_notin; [reflexivity | exact H]. Qed.

Lemma gtext_app_r x y n : ~ In n (map fst y) -> gtext (x ++ y) n = gtext x n.
Proof.
  intros H. unfold gtext. rewrite getcap_app. destruct (getcap n x); [reflexivity|].
  rewrite getcap_notin; [reflexivity | exact H].
Qed.

Lemma NoDup_app_disj {A} (l1 l2 : list A) : NoDup (l1 ++ l2) -> NoDup l1 /\ NoDup l2 /\ forall x, In x l1 -> ~ In x l2.
Proof.
  induction l1 as [|a l1 IH]; simpl; intros H.
  - split; [constructor|]. split; [assumption|]. intros ? [].
  - inversion H; subst. destruct (IH H3) as (N1 & N2 & D). split; [|split].
    + constructor; [|assumption]. intro. apply H2. apply in_app_iff. auto.
    + assumption.
    + intros x [E|I]; [subst; intro; apply H2; apply in_app_iff; auto | auto].
Qed.

Ltac triv_cover :=
  exists [], []; split; [reflexivity|]; split; [apply adv_refl|]; split; [intros ? []|];
  split; [reflexivity | intros ? []].

Lemma covering_match r st c st1 c1 :
  Match r st c st1 c1 -> covering r = true -> NoDup (groups_of r) ->
  exists new txt,
    c1 = new ++ c /\ adv st txt st1 /\
    (forall n, In n (map fst new) -> In n (groups_of r)) /\
    concat (map (gtext new) (groups_of r)) = txt /\
    (forall j, In j (mand r) -> gtext new j <> []).
Proof.
  induction 1; cbn [covering groups_of mand]; intros Hc Hnd; try discriminate.
  - (* empty *) triv_cover.
  - (* seq *)
    apply andb_true_iff in Hc. destruct Hc as [Ca Cb].
    apply NoDup_app_disj in Hnd. destruct Hnd as (Na & Nb & Dj).
    destruct (IHMatch1 Ca Na) as (n1 & t1 & E1 & A1 & D1 & K1 & M1).
    destruct (IHMatch2 Cb Nb) as (n2 & t2 & E2 & A2 & D2 & K2 & M2).
    assert (Ga : forall n, In n (groups_of a) -> gtext (n2 ++ n1) n = gtext n1 n).
    { intros n Hn. apply gtext_app_l. intro I. apply D2 in I. exact (Dj n Hn I). }
    assert (Gb : forall n, In n (groups_of b) -> gtext (n2 ++ n1) n = gtext n2 n).
    { intros n Hn. apply gtext_app_r. intro I. apply D1 in I. exact (Dj n I Hn). }
    exists (n2 ++ n1), (t1 ++ t2). split; [subst; rewrite app_assoc; reflexivity|].
    split; [eapply adv_trans; eauto|]. split; [|split].
    + intros n I. rewrite map_app in I. apply in_app_iff in I. apply in_app_iff. destruct I; auto.
    + rewrite map_app, concat_app.
      rewrite (map_ext_in _ _ _ Ga), (map_ext_in _ _ _ Gb). congruence.
    + intros j I. apply in_app_iff in I. destruct I as [I|I].
      * rewrite Ga by (apply mand_groups; exact I). auto.
      * rewrite Gb by (apply mand_groups; exact I). auto.
  - (* alt, left *)
    apply andb_true_iff in Hc. destruct Hc as [Ca Cb].
    apply NoDup_app_disj in Hnd. destruct Hnd as (Na & Nb & Dj).
    destruct (IHMatch Ca Na) as (n1 & t1 & E1 & A1 & D1 & K1 & M1).
    exists n1, t1. split; [assumption|]. split; [assumption|]. split; [|split].
    + intros. apply in_app_iff. auto.
    + rewrite map_app, concat_app, K1.
      rewrite (concat_nil_map (gtext n1) (groups_of b)); [apply app_nil_r|].
      intros n Hn. apply gtext_notin. intro I. apply D1 in I. exact (Dj n I Hn).
    + intros ? [].
  - (* alt, right *)
    apply andb_true_iff in Hc. destruct Hc as [Ca Cb].
    apply NoDup_app_disj in Hnd. destruct Hnd as (Na & Nb & Dj).
    destruct (IHMatch Cb Nb) as (n1 & t1 & E1 & A1 & D1 & K1 & M1).
    exists n1, t1. split; [assumption|]. split; [assumption|]. split; [|split].
    + intros. apply in_app_iff. auto.
    + rewrite map_app, concat_app, K1.
      rewrite (concat_nil_map (gtext n1) (groups_of a)); [reflexivity|].
      intros n Hn. apply gtext_notin. intro I. apply D1 in I. exact (Dj n Hn I).
    + intros ? [].
  - (* optional, skipped *)
    exists [], []. split; [reflexivity|]. split; [apply adv_refl|]. split; [intros ? []|]. split; [|intros ? []].
    apply concat_nil_map. intros. reflexivity.
  - (* optional, taken once *)
    destruct lo; [|discriminate]. destruct hi as [[|[|h]]|]; try discriminate.
    simpl in H2. inversion H2; subst; [|congruence].
    destruct (IHMatch1 Hc Hnd) as (n1 & t1 & E1 & A1 & D1 & K1 & M1).
    exists n1, t1. split; [assumption|]. split; [assumption|]. split; [assumption|].
    split; [assumption | intros ? []].
  - (* group *)
    destruct (groups_of a) eqn:G; [|discriminate].
    pose proof (match_nogroups _ _ _ _ _ H G) as Ec. subst c1.
    destruct (match_adv _ _ _ _ _ H) as [txt A].
    exists [(n, Build_cap (m_pos st) (m_pos st1 - m_pos st)%N (m_rest st))], txt.
    assert (T : gtext [(n, Build_cap (m_pos st) (m_pos st1 - m_pos st)%N (m_rest st))] n = txt).
    { unfold gtext. simpl. rewrite Nat.eqb_refl. unfold cap_text. simpl. apply (adv_matched _ _ _ A). }
    split; [reflexivity|]. split; [assumption|]. split; [|split].
    + intros k [Hk|[]]. left. exact Hk.
    + simpl. rewrite T. apply app_nil_r.
    + intros j I. destruct (nullable a) eqn:Nu; [contradiction|]. destruct I as [I|[]]. subst j.
      rewrite T. eapply nonnull_sound; eauto.
  - (* lookahead *)
    destruct (groups_of a) eqn:G; [|discriminate].
    pose proof (match_nogroups _ _ _ _ _ H G) as Ec. subst c1.
    triv_cover.
  - triv_cover.
  - triv_cover.
Qed.

(* In any match of a covering regex with distinct group numbers, the texts of the groups, in the order of the
   group numbers' occurrence, concatenate to the matched text (a group that did not take part counts as empty). *)
Lemma covering_sound r st st1 c txt :
  covering r = true -> NoDup (groups_of r) -> Match r st [] st1 c -> adv st txt st1 ->
  concat (map (gtext c) (groups_of r)) = txt.
Proof.
  intros Hc Hn M A. destruct (covering_match _ _ _ _ _ M Hc Hn) as (new & t & E & A' & _ & K & _).
  rewrite app_nil_r in E. subst new. rewrite K. eapply adv_unique; eauto.
Qed.

(* ------------------------------------------------------------------ the check on rule tables *)
Definition defined (tbl : rule_table) (s : bytes) : bool :=
  match assoc_get beq s tbl with Some _ => true | None => false end.

Definition stack_okb (tbl : rule_table) (s : list bytes) : bool :=
  match s with [] => false | _ => forallb (defined tbl) s end.

(* repetition bodies cannot match the empty string (model fidelity; also enforced by gen_lexer.py) *)
Fixpoint repeats_ok (r : regex) : bool :=
  match r with
  | RSeq a b | RAlt a b => repeats_ok a && repeats_ok b
  | RRepeat _ _ _ a => negb (nullable a) && repeats_ok a
  | RGroup _ a | RLook a => repeats_ok a
  | _ => true
  end.

Definition gaction_ok (tbl : rule_table) (re : regex) (i : nat) (a : gaction) : bool :=
  match a with
  | GTok _ => true
  | GNone => false                                   (* pygments drops that group's text *)
  | GUsing (UOther _) => true
  | GUsing (UThis stk) =>                            (* the nested run must be on a strictly shorter text *)
      stack_okb tbl stk && existsb (fun j => negb (Nat.eqb j i)) (mand re)
  end.

Fixpoint gactions_ok (tbl : rule_table) (re : regex) (i : nat) (args : list gaction) : bool :=
  match args with
  | [] => true
  | a :: t => gaction_ok tbl re i a && gactions_ok tbl re (S i) t
  end.

Definition newstate_ok (tbl : rule_table) (ns : newstate) : bool :=
  match ns with
  | NsStates l => forallb (fun x => beq x (B "#pop") || beq x (B "#push") || defined tbl x) l
  | _ => true
  end.

Definition action_ok (tbl : rule_table) (re : regex) (a : action) : bool :=
  match a with
  | ATok _ => true                                   (* emits m.group(): lossless by construction *)
  | AUsing (UOther _) => true                        (* idem, through the oracle *)
  | AUsing (UThis _) => false                        (* would re-lex the whole match: no termination argument *)
  | AByGroups args =>
      list_eqb Nat.eqb (groups_of re) (seq 1 (length args)) && covering re && gactions_ok tbl re 1 args
  end.

Definition rule_ok (tbl : rule_table) (r : rule) : bool :=
  negb (nullable (r_re r)) && repeats_ok (r_re r) && newstate_ok tbl (r_new r) && action_ok tbl (r_re r) (r_act r).

Definition rules_ok (tbl : rule_table) : bool :=
  defined tbl st_root && forallb (fun p => forallb (rule_ok tbl) (snd p)) tbl.

(* ------------------------------------------------------------------ small list facts *)
Lemma list_eqb_nat_eq (a b : list nat) : list_eqb Nat.eqb a b = true -> a = b.
Proof.
  revert b. induction a as [|x a IH]; intros [|y b]; simpl; intros H; try discriminate; [reflexivity|].
  apply andb_true_iff in H. destruct H as [E H]. apply Nat.eqb_eq in E. subst. f_equal. auto.
Qed.

Lemma assoc_get_in {V} k (tbl : list (bytes * V)) v : assoc_get beq k tbl = Some v -> exists k', In (k', v) tbl.
Proof.
  induction tbl as [|[k' v'] tbl IH]; simpl; [discriminate|].
  destruct (beq k k').
  - intros E. inversion E; subst. exists k'. left. reflexivity.
  - intros E. destruct (IH E) as [k2 I]. exists k2. right. exact I.
Qed.

Lemma In_concat_len {A B} (f : A -> list B) l x : In x l -> length (f x) <= length (concat (map f l)).
Proof.
  induction l as [|y l IH]; simpl; intros []; rewrite app_length.
  - subst. lia.
  - specialize (IH H). lia.
Qed.

Lemma two_concat_len {A B} (f : A -> list B) l i j :
  NoDup l -> In i l -> In j l -> i <> j -> length (f i) + length (f j) <= length (concat (map f l)).
Proof.
  induction l as [|y l IH]; simpl; intros Hn Hi Hj Hne; [contradiction|].
  inversion Hn; subst. rewrite app_length. destruct Hi as [Hi|Hi]; destruct Hj as [Hj|Hj]; subst.
  - congruence.
  - pose proof (In_concat_len f l j Hj). lia.
  - pose proof (In_concat_len f l i Hi). lia.
  - specialize (IH H2 Hi Hj Hne). lia.
Qed.

Lemma shift_vals s toks : map tok_val (shift s toks) = map tok_val toks.
Proof.
  unfold shift. rewrite map_map. apply map_ext. intros [[i ty] v]. reflexivity.
Qed.

(* ------------------------------------------------------------------ the engine *)
Section Lossless.
  Variable oracle : bytes -> text -> option (list token).
  Variable tbl : rule_table.

  Definition oracle_lossless : Prop :=
    forall name txt toks, oracle name txt = Some toks -> concat (map tok_val toks) = txt.

  (* the oracle has no answer for some call *)
  Definition oracle_partial : Prop := exists name txt, oracle name txt = None.

  (* [res] is a good outcome for the text [txt]: the tokens concatenate to it; an oracle miss is only possible
     when the oracle is partial; fuel exhaustion and the modelled exceptions are excluded *)
  Definition good (res : lexres) (txt : text) : Prop :=
    match res with
    | LOk toks => concat (map tok_val toks) = txt
    | LOracleMiss => oracle_partial
    | _ => False
    end.

  Lemma good_app r1 t1 r2 t2 :
    good r1 t1 -> good r2 t2 -> good (lbind r1 (fun a => lbind r2 (fun b => LOk (a ++ b)))) (t1 ++ t2).
  Proof.
    destruct r1; simpl; try contradiction; [|auto].
    destruct r2; simpl; try contradiction; [|auto].
    intros. rewrite map_app, concat_app. congruence.
  Qed.

  Lemma good_cons r t tok :
    good r t -> good (lbind r (fun more => LOk (tok :: more))) (tok_val tok ++ t).
  Proof. destruct r; simpl; try contradiction; [|auto]. intros. congruence. Qed.

  Definition stack_ok (s : stack) : Prop := s <> [] /\ Forall (fun x => defined tbl x = true) s.

  Lemma stack_okb_frev s : stack_okb tbl s = true -> stack_ok (frev s).
  Proof.
    unfold stack_okb, stack_ok, frev. rewrite <- rev_alt. destruct s as [|x s]; [discriminate|].
    intros H. split.
    - simpl. intro E. apply app_eq_nil in E. destruct E. discriminate.
    - apply Forall_forall. intros y Hy. apply in_rev in Hy. rewrite forallb_forall in H. auto.
  Qed.

  Lemma apply_states_ok l : forall s,
    forallb (fun x => beq x (B "#pop") || beq x (B "#push") || defined tbl x) l = true ->
    stack_ok s -> stack_ok (apply_states l s).
  Proof.
    induction l as [|x l IH]; simpl; intros s H Hs; [assumption|].
    apply andb_true_iff in H. destruct H as [Hx Hl]. apply IH; [assumption|].
    destruct Hs as [Hne Hall].
    destruct (beq x (B "#pop")).
    - destruct s as [|a [|b s']]; try (split; assumption).
      inversion Hall; subst. split; [discriminate | assumption].
    - destruct (beq x (B "#push")).
      + destruct s as [|a s']; [split; assumption|]. inversion Hall; subst.
        split; [discriminate|]. constructor; assumption.
      + simpl in Hx. split; [discriminate|]. constructor; assumption.
  Qed.

  Lemma Forall_skipn {A} (P : A -> Prop) n l : Forall P l -> Forall P (skipn n l).
  Proof.
    revert l. induction n; intros l H; simpl; [assumption|]. destruct l; [constructor|]. inversion H; auto.
  Qed.

  Lemma apply_new_ok ns s : newstate_ok tbl ns = true -> stack_ok s -> stack_ok (apply_new ns s).
  Proof.
    destruct ns as [|n| |l]; simpl; intros H Hs.
    - assumption.
    - destruct Hs as [Hne Hall]. destruct (Nat.leb (length s) n) eqn:E.
      + unfold frev. rewrite <- rev_alt. destruct (rev s) as [|b r] eqn:R.
        * exfalso. apply Hne. apply (f_equal (@rev _)) in R. rewrite rev_involutive in R. exact R.
        * split; [discriminate|]. constructor; [|constructor].
          rewrite Forall_forall in Hall. apply Hall. apply in_rev. rewrite R. left. reflexivity.
      + apply Nat.leb_gt in E. split.
        * intro Z. apply (f_equal (@length _)) in Z. rewrite skipn_length in Z. simpl in Z. lia.
        * apply Forall_skipn. assumption.
    - destruct s as [|a s']; [assumption|]. destruct Hs as [_ Hall]. inversion Hall; subst.
      split; [discriminate|]. constructor; assumption.
    - apply apply_states_ok; assumption.
  Qed.

  Lemma first_match_spec rules st r st1 c :
    first_match rules st = Some (r, st1, c) -> In r rules /\ rmatch (r_re r) st = Some (st1, c).
  Proof.
    induction rules as [|r0 rules IH]; simpl; [discriminate|].
    destruct (rmatch (r_re r0) st) as [[s1 c1]|] eqn:E.
    - intros H. inversion H; subst. split; [left; reflexivity | exact E].
    - intros H. destruct (IH H). split; [right|]; assumption.
  Qed.

  Hypothesis Hok : rules_ok tbl = true.
  Hypothesis Horacle : oracle_lossless.

  Lemma root_ok : stack_ok [st_root].
  Proof.
    unfold rules_ok in Hok. apply andb_true_iff in Hok. destruct Hok as [R _].
    split; [discriminate|]. constructor; [assumption | constructor].
  Qed.

  Lemma rules_of_state top rules r :
    assoc_get beq top tbl = Some rules -> In r rules -> rule_ok tbl r = true.
  Proof.
    intros E I. apply assoc_get_in in E. destruct E as [k' Hin].
    unfold rules_ok in Hok. apply andb_true_iff in Hok. destruct Hok as [_ F].
    rewrite forallb_forall in F. specialize (F _ Hin). simpl in F. rewrite forallb_forall in F. auto.
  Qed.

  Section Level.
    (* the engine one level down, already known to be good on every text shorter than [bound] *)
    Variable self : stack -> mstate -> lexres.
    Variable bound : nat.
    Hypothesis Hself : forall stk txt, stack_ok stk -> length txt < bound -> good (self stk (init_state txt)) txt.

    Lemma run_using_good u start txt :
      match u with UThis stk => stack_okb tbl stk = true /\ length txt < bound | UOther _ => True end ->
      good (run_using oracle self u start txt) txt.
    Proof.
      destruct u as [stk|name]; simpl.
      - intros [Hs Hl]. pose proof (Hself (frev stk) txt (stack_okb_frev _ Hs) Hl) as G.
        destruct (self (frev stk) (init_state txt)); simpl in *; try contradiction; [|assumption].
        rewrite shift_vals. assumption.
      - intros _. destruct (oracle name txt) as [toks|] eqn:E; simpl.
        + rewrite shift_vals. eapply Horacle; eauto.
        + exists name, txt. assumption.
    Qed.

    Lemma run_groups_good re c ng args : forall i,
      gactions_ok tbl re i args = true ->
      i + length args <= S ng ->
      (forall k, i <= k -> (exists j, In j (mand re) /\ j <> k) -> length (gtext c k) < bound) ->
      good (run_groups oracle self args i ng c) (concat (map (gtext c) (seq i (length args)))).
    Proof.
      induction args as [|a args IH]; intros i Hg Hle Hlen; [reflexivity|].
      cbn [gactions_ok] in Hg. apply andb_true_iff in Hg. destruct Hg as [Ha Hg].
      cbn [length] in Hle.
      assert (IH' := IH (S i) Hg ltac:(lia) ltac:(intros k Hk; apply Hlen; lia)).
      cbn [length seq map concat run_groups].
      assert (Lt : Nat.ltb ng i = false) by (apply Nat.ltb_ge; lia).
      destruct a as [t| |u]; [| discriminate |].
      - rewrite Lt. unfold gtext at 1.
        destruct (run_groups oracle self args (S i) ng c) as [rest| | | |]; simpl in *; try contradiction; [|assumption].
        destruct (getcap i c) as [cp|]; [|assumption].
        destruct (cap_text cp) as [|x data] eqn:E; simpl; [assumption|]. rewrite IH'. reflexivity.
      - rewrite Lt. unfold gtext at 1. destruct (getcap i c) as [cp|] eqn:Gc; [|exact IH'].
        apply good_app; [|exact IH'].
        apply run_using_good. destruct u as [stk|name]; [|exact I].
        simpl in Ha. apply andb_true_iff in Ha. destruct Ha as [Hs Hex]. split; [assumption|].
        apply existsb_exists in Hex. destruct Hex as (j & Hj & Hne).
        apply negb_true_iff in Hne. apply Nat.eqb_neq in Hne.
        specialize (Hlen i (le_n i) (ex_intro _ j (conj Hj Hne))). unfold gtext in Hlen. rewrite Gc in Hlen. exact Hlen.
    Qed.

    Lemma run_action_good r st st1 c txt :
      rule_ok tbl r = true -> Match (r_re r) st [] st1 c -> adv st txt st1 -> length txt <= bound ->
      good (run_action oracle self r st st1 c) txt.
    Proof.
      intros Hr M A Hb. unfold rule_ok in Hr.
      apply andb_true_iff in Hr. destruct Hr as [Hr Hact].
      unfold run_action. rewrite (adv_matched _ _ _ A).
      destruct (r_act r) as [t|args|u]; simpl in Hact.
      - simpl. apply app_nil_r.
      - apply andb_true_iff in Hact. destruct Hact as [Hact Hga].
        apply andb_true_iff in Hact. destruct Hact as [Hseq Hcov].
        apply list_eqb_nat_eq in Hseq.
        assert (Hnd : NoDup (groups_of (r_re r))) by (rewrite Hseq; apply seq_NoDup).
        destruct (covering_match _ _ _ _ _ M Hcov Hnd) as (new & t' & E & A' & D & K & Mand).
        rewrite app_nil_r in E. subst new.
        assert (Et : t' = txt) by (eapply adv_unique; eauto). rewrite Et in K. clear Et A'.
        rewrite <- K, Hseq, seq_length.
        apply run_groups_good with (re := r_re r); [assumption | lia |].
        intros k Hk (j & Hj & Hne).
        destruct (in_dec Nat.eq_dec k (groups_of (r_re r))) as [Ik|Nk].
        + pose proof (two_concat_len (gtext c) (groups_of (r_re r)) k j Hnd Ik (mand_groups _ _ Hj)
                                      ltac:(congruence)) as L.
          rewrite K in L. specialize (Mand j Hj).
          destruct (gtext c j); [congruence|]. simpl in L. lia.
        + pose proof (In_concat_len (gtext c) (groups_of (r_re r)) j (mand_groups _ _ Hj)) as L.
          rewrite K in L. specialize (Mand j Hj).
          assert (Z : gtext c k = []).
          { apply gtext_notin. intro I. apply Nk. auto. }
          rewrite Z. destruct (gtext c j); [congruence|]. simpl in L. simpl. lia.
      - destruct u as [stk|name]; [discriminate|]. apply run_using_good. exact I.
    Qed.
  End Level.

  Theorem lex_good : forall fuel stk st,
    stack_ok stk -> length (m_rest st) < fuel -> good (lex oracle tbl fuel stk st) (m_rest st).
  Proof.
    induction fuel as [|f IH]; intros stk st Hs Hf; [lia|].
    cbn [lex]. destruct stk as [|top stk']; [destruct Hs; congruence|].
    assert (Hd : defined tbl top = true) by (destruct Hs as [_ F]; inversion F; assumption).
    unfold defined in Hd. destruct (assoc_get beq top tbl) as [rules|] eqn:Er; [|discriminate].
    assert (Hself : forall s txt, stack_ok s -> length txt < f -> good (lex oracle tbl f s (init_state txt)) txt).
    { intros s txt H1 H2. apply (IH s (init_state txt)); assumption. }
    destruct (first_match rules st) as [[[r st1] c]|] eqn:Ef.
    - apply first_match_spec in Ef. destruct Ef as [Hin Hm].
      pose proof (rules_of_state _ _ _ Er Hin) as Hr.
      apply rmatch_sound in Hm. destruct (match_adv _ _ _ _ _ Hm) as [txt A].
      assert (Hne : txt <> []).
      { eapply nonnull_sound; eauto. unfold rule_ok in Hr.
        repeat (apply andb_true_iff in Hr; destruct Hr as [Hr _]). apply negb_true_iff. exact Hr. }
      pose proof (adv_len _ _ _ A) as L.
      assert (0 < length txt) by (destruct txt; [congruence | simpl; lia]).
      destruct A as [R P]. rewrite R. apply good_app.
      + apply run_action_good with (bound := f); auto; [split; assumption | lia].
      + apply IH; [|lia]. apply apply_new_ok; [|assumption].
        unfold rule_ok in Hr. apply andb_true_iff in Hr. destruct Hr as [Hr _].
        apply andb_true_iff in Hr. destruct Hr as [_ Hr]. exact Hr.
    - destruct (m_rest st) as [|ch t] eqn:Er'; [reflexivity|].
      simpl in Hf. destruct (N.eqb ch 10).
      + apply (good_cons _ t (m_pos st, tok_whitespace, [ch])). apply (IH [st_root] (step st ch t)); [apply root_ok | simpl; lia].
      + apply (good_cons _ t (m_pos st, tok_error, [ch])). apply (IH (top :: stk') (step st ch t)); [assumption | simpl; lia].
  Qed.
End Lossless.

(* C20, first half: for every accepted rule table, lossless oracle, text and fuel >= S (length text):
   no fuel exhaustion, no modelled exception, and the token values concatenate to the text; an oracle miss can only
   be reported when the oracle really lacks an entry. *)
Theorem C20_lossless_thm :
  forall oracle tbl,
    rules_ok tbl = true -> oracle_lossless oracle ->
    forall (t : text) (fuel : nat), S (length t) <= fuel ->
      match lex_text oracle tbl fuel [st_root] t with
      | LOk toks => concat (map tok_val toks) = t
      | LOracleMiss => exists name txt, oracle name txt = None
      | LFuel | LBadState | LBadGroup => False
      end.
Proof.
  intros oracle tbl Hok Hor t fuel Hf.
  pose proof (lex_good oracle tbl Hok Hor fuel [st_root] (init_state t) (root_ok tbl Hok)) as G.
  simpl in G. specialize (G ltac:(lia)).
  unfold lex_text. change (frev [st_root]) with [st_root].
  destruct (lex oracle tbl fuel [st_root] (init_state t)); simpl in G; auto.
Qed.

(* with a total oracle the engine always returns tokens *)
Corollary C20_lossless_total_thm :
  forall oracle tbl,
    rules_ok tbl = true -> oracle_lossless oracle -> (forall name txt, oracle name txt <> None) ->
    forall (t : text) (fuel : nat), S (length t) <= fuel ->
      exists toks, lex_text oracle tbl fuel [st_root] t = LOk toks /\ concat (map tok_val toks) = t.
Proof.
  intros oracle tbl Hok Hor Htot t fuel Hf.
  pose proof (C20_lossless_thm oracle tbl Hok Hor t fuel Hf) as G.
  destruct (lex_text oracle tbl fuel [st_root] t) as [toks| | | |]; try contradiction.
  - exists toks. auto.
  - destruct G as (n & x & E). exfalso. exact (Htot n x E).
Qed.

(* ------------------------------------------------------------------ a trivial total, lossless oracle (for examples) *)
Definition ascii_text (s : String.string) : text := map byte_n (B s).

Definition one_token_oracle (name : bytes) (t : text) : option (list token) :=
  match t with [] => Some [] | _ => Some [(0%N, B "Token.Other", t)] end.

Lemma one_token_oracle_lossless : oracle_lossless one_token_oracle.
Proof.
  intros name txt toks. unfold one_token_oracle. destruct txt; intros E; inversion E; subst; simpl.
  - reflexivity.
  - rewrite app_nil_r. reflexivity.
Qed.

Lemma one_token_oracle_total : forall name txt, one_token_oracle name txt <> None.
Proof. intros name [|x t]; discriminate. Qed.

(* the theorem at the default fuel of [lex_default] *)
Corollary lex_default_lossless oracle tbl :
  rules_ok tbl = true -> oracle_lossless oracle -> (forall name txt, oracle name txt <> None) ->
  forall t, exists toks, lex_default oracle tbl t = LOk toks /\ concat (map tok_val toks) = t.
Proof.
  intros Hok Hor Htot t. unfold lex_default. apply C20_lossless_total_thm; auto.
Qed.
