(* Sections.v — lookups over the generated section tables (opaque data: total for any table the translator can emit). *)
From Coq Require Import List Arith NArith ZArith Bool Strings.Byte.
From Coq Require Strings.String.
From DX Require Import Bytes Res.
From DXGen Require GenSections.
Import ListNotations.
Import String.StringSyntax.
Local Open Scope string_scope.
Local Open Scope list_scope.

Definition in_ids (id : bytes) (s : list bytes) : bool := mem beq id s.
Definition table_get (id : bytes) : option (list bytes) := assoc_get beq id GenSections.valid_states.
Definition is_content (id : bytes) : bool := in_ids id GenSections.content_sections.
Definition is_preamble (id : bytes) : bool := in_ids id GenSections.preamble_sections.
Definition is_meta (id : bytes) : bool := in_ids id GenSections.meta_sections.

(* '%s%s' % ('.' * level, name) *)
Definition build_id (dots : nat) (name : bytes) : bytes := repeat_b "."%byte dots ++ name.

(* the section names the header regex knows, in the regex's order *)
Definition header_names : list bytes :=
  [B "diffx"; B "preamble"; B "meta"; B "change"; B "file"; B "diff"].
