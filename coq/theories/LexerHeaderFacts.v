(* LexerHeaderFacts.v — second half of C20 for the lexer model, over an abstract grammar of DiffX documents:
   a document is a list of sections (header, optional option text without LF, body); container sections
   (#diffx: #.change: #..file:) have no body, content sections (#[.]{1,3}meta: #[.]{1,2}preamble: #...diff:) have a
   non-empty body without the two-character sequence "#."; only the first section may be "#diffx:".
   [headers_thm]: on the rendering of such a document the engine, run on the generated rule table with a sub-lexer
   oracle whose tokens are neither Name.Tag nor Error (i.e. looking at the tokens of the DiffX-level rules only),
   produces no Error token and its Name.Tag tokens are exactly the section headers in order.
   The proof runs the executable matcher: it needs the priority order (lazy `.+?` up to the first lookahead hit). *)
From Coq Require Import List Arith NArith Bool Lia.
From Coq Require Strings.String.
From DX Require Import Bytes Lexer LexerFacts.
From DXGen Require GenLexer.
Import ListNotations.
Import String.StringSyntax.
Local Open Scope string_scope.
Local Open Scope list_scope.

Definition K0 : cont := fun st c => Some (st, c).

(* ------------------------------------------------------------------ advancing a state *)
Fixpoint advn (st : mstate) (k : nat) : mstate :=
  match k with
  | 0 => st
  | S k' => match m_rest st with ch :: t => advn (step st ch t) k' | [] => st end
  end.

Lemma advn_rest : forall pre st rest', m_rest st = pre ++ rest' -> m_rest (advn st (length pre)) = rest'.
Proof.
  induction pre as [|x pre IH]; intros st rest' H; simpl; [assumption|].
  rewrite H. simpl. apply IH. reflexivity.
Qed.

Lemma advn_pos : forall pre st rest',
  m_rest st = pre ++ rest' -> m_pos (advn st (length pre)) = (m_pos st + N.of_nat (length pre))%N.
Proof.
  induction pre as [|x pre IH]; intros st rest' H; cbn [length advn]; [lia|].
  rewrite H. cbn [app]. rewrite (IH (step st x (pre ++ rest')) rest' eq_refl). simpl. lia.
Qed.

Lemma advn_add : forall a b st, advn st (a + b) = advn (advn st a) b.
Proof.
  induction a as [|a IH]; intros b st; simpl; [reflexivity|].
  destruct (m_rest st) as [|ch t] eqn:E; [|apply IH].
  destruct b; simpl; [reflexivity|]. rewrite E. reflexivity.
Qed.

Lemma advn_S st ch t k : m_rest st = ch :: t -> advn st (S k) = advn (step st ch t) k.
Proof. intros H. cbn [advn]. rewrite H. reflexivity. Qed.

Lemma ltb_succ p : N.ltb p (N.succ p) = true.
Proof. apply N.ltb_lt. lia. Qed.

(* ------------------------------------------------------------------ single-character repetition bodies *)
Definition char_body (p : N -> bool) (body : mstate -> caps -> cont -> mres) : Prop :=
  forall st c k, body st c k =
                 match m_rest st with ch :: t => if p ch then k (step st ch t) c else None | [] => None end.

Lemma greedy_full p body : char_body p body ->
  forall pre st rest' c k res n lo,
    m_rest st = pre ++ rest' -> forallb p pre = true ->
    match rest' with [] => True | y :: _ => p y = false end ->
    lo <= length pre -> length (m_rest st) < n ->
    k (advn st (length pre)) c = Some res ->
    rep_loop body true n lo None st c k = Some res.
Proof.
  intros Hb. induction pre as [|x pre IH]; intros st rest' c k res n lo Hr Hp Hn Hlo Hlen Hk.
  - destruct n; [lia|]. cbn [rep_loop opt_pred option_map]. rewrite Hb. simpl in Hr. rewrite Hr.
    simpl in Hlo. assert (lo = 0) by lia. subst lo. simpl in Hk.
    destruct rest' as [|y r]; [exact Hk|]. rewrite Hn. exact Hk.
  - destruct n; [lia|]. cbn [rep_loop opt_pred option_map]. rewrite Hb. rewrite Hr. cbn [app].
    simpl in Hp. apply andb_true_iff in Hp. destruct Hp as [Hx Hp]. rewrite Hx.
    cbn [m_pos step]. rewrite ltb_succ.
    rewrite (IH (step st x (pre ++ rest')) rest' c k res n (Nat.pred lo)); try reflexivity; try assumption.
    + simpl in Hlo. lia.
    + rewrite Hr in Hlen. simpl in *. lia.
    + cbn [length advn] in Hk. rewrite Hr in Hk. exact Hk.
Qed.

Lemma lazy_scan body : char_body (fun _ => true) body ->
  forall pre st rest' c k res n,
    m_rest st = pre ++ rest' -> length (m_rest st) < n ->
    (forall j, j < length pre -> k (advn st j) c = None) ->
    k (advn st (length pre)) c = Some res ->
    rep_loop body false n 0 None st c k = Some res.
Proof.
  intros Hb. induction pre as [|x pre IH]; intros st rest' c k res n Hr Hlen Hf Hk.
  - destruct n; [lia|]. cbn [rep_loop opt_pred option_map]. simpl in Hk. rewrite Hk. reflexivity.
  - destruct n; [lia|]. cbn [rep_loop opt_pred option_map]. pose proof (Hf 0 ltac:(simpl; lia)) as H0. simpl in H0. rewrite H0.
    rewrite Hb, Hr. cbn [app m_pos step]. rewrite ltb_succ.
    apply (IH (step st x (pre ++ rest')) rest'); try reflexivity.
    + rewrite Hr in Hlen. simpl in *. lia.
    + intros j Hj. specialize (Hf (S j)). cbn [advn] in Hf. rewrite Hr in Hf. apply Hf. simpl. lia.
    + cbn [length advn] in Hk. rewrite Hr in Hk. exact Hk.
Qed.

Lemma lazy_scan1 body : char_body (fun _ => true) body ->
  forall x pre st rest' c k res n,
    m_rest st = (x :: pre) ++ rest' -> length (m_rest st) < n ->
    (forall j, 1 <= j -> j < length (x :: pre) -> k (advn st j) c = None) ->
    k (advn st (length (x :: pre))) c = Some res ->
    rep_loop body false n 1 None st c k = Some res.
Proof.
  intros Hb x pre st rest' c k res n Hr Hlen Hf Hk.
  destruct n; [lia|]. cbn [rep_loop opt_pred option_map]. rewrite Hb, Hr. cbn [app m_pos step]. rewrite ltb_succ.
  apply (lazy_scan body Hb pre (step st x (pre ++ rest')) rest'); try reflexivity.
  - rewrite Hr in Hlen. simpl in *. lia.
  - intros j Hj. specialize (Hf (S j)). cbn [advn] in Hf. rewrite Hr in Hf. apply Hf; simpl; lia.
  - cbn [length advn] in Hk. rewrite Hr in Hk. exact Hk.
Qed.

Lemma opt_unfold body n st c k :
  2 <= n ->
  rep_loop body true n 0 (Some 1) st c k =
  match body st c (fun st1 c1 => if N.ltb (m_pos st) (m_pos st1) then k st1 c1 else None) with
  | Some r => Some r
  | None => k st c
  end.
Proof. intros H. destruct n as [|[|n]]; try lia. reflexivity. Qed.

(* ------------------------------------------------------------------ the rules this proof is about *)
Fixpoint sq (l : list regex) : regex := match l with [] => REmpty | [x] => x | x :: t => RSeq x (sq t) end.
Definition Ls (s : String.string) : list regex := map RLit (ascii_text s).
Definition DOTS lo hi := RRepeat true lo (Some hi) (RLit 46).

Definition NOTLF := RClass true [(10%N, 10%N)].
Definition OPT := RRepeat true 0 (Some 1) (RSeq (RGroup 2 (RLit 32)) (RGroup 3 (RRepeat true 0 None NOTLF))).
Definition G4 := RGroup 4 (RLit 10).
Definition G5 := RGroup 5 (RAlt (RRepeat false 1 None RAny) REndZ).
Definition LOOKB := RAlt (RSeq (RLit 35) (RSeq (RRepeat true 1 (Some 3) (RLit 46)) (RClass false [(97%N, 122%N)]))) REndZ.
Definition CONTENT_REST := RSeq OPT (RSeq G4 (RSeq G5 (RLook LOOKB))).
Definition CONTAINER_REST := RSeq OPT G4.
Definition G1c := Eval vm_compute in
  sq [RLit 35; RAlt (sq (Ls "diffx")) (RAlt (sq (Ls ".change")) (sq (Ls "..file"))); RLit 58].
Definition G1m := Eval vm_compute in sq ([RLit 35; DOTS 1 3] ++ Ls "meta:").
Definition G1p := Eval vm_compute in sq ([RLit 35; DOTS 1 3] ++ Ls "preamble:").
Definition G1d := Eval vm_compute in sq ([RLit 35; DOTS 3 3] ++ Ls "diff:").
Definition R1 := Eval vm_compute in sq (Ls "..." ++ [RLit 10]).

Definition t_tag : bytes := B "Token.Name.Tag".
Definition t_text : bytes := B "Token.Text".
Definition args4 : list gaction := [GTok t_tag; GTok t_text; GTok (B "Token.Name.Attribute"); GTok t_text].
Definition st_diff : bytes := B "diff".
Definition mkrule re act := {| r_re := re; r_act := act; r_new := NsNone |}.

Definition rule_container := mkrule (RSeq (RGroup 1 G1c) CONTAINER_REST) (AByGroups args4).
Definition rule_meta := mkrule (RSeq (RGroup 1 G1m) CONTENT_REST) (AByGroups (args4 ++ [GUsing (UOther (B "JsonLexer"))])).
Definition rule_preamble := mkrule (RSeq (RGroup 1 G1p) CONTENT_REST) (AByGroups (args4 ++ [GTok t_text])).
Definition rule_diff := mkrule (RSeq (RGroup 1 G1d) CONTENT_REST) (AByGroups (args4 ++ [GUsing (UThis [st_root; st_diff])])).
Definition root_rules : list rule :=
  [ mkrule R1 (ATok (B "Token.Comment.Single")); rule_container; rule_meta; rule_preamble; rule_diff;
    mkrule (RSeq (RRepeat true 0 None RAny) (RLit 10)) (ATok t_text) ].

(* the generated table is the one above (re-checked whenever GenLexer.v is regenerated) *)
Lemma root_lookup : assoc_get beq st_root GenLexer.rules = Some root_rules.
Proof. vm_compute. reflexivity. Qed.

Definition diff_rules : list rule :=
  Eval vm_compute in match assoc_get beq st_diff GenLexer.rules with Some r => r | None => [] end.
Lemma diff_lookup : assoc_get beq st_diff GenLexer.rules = Some diff_rules.
Proof. vm_compute. reflexivity. Qed.

(* ------------------------------------------------------------------ headers *)
Definition h_diffx : text := Eval vm_compute in ascii_text "#diffx:".
Definition h_change : text := Eval vm_compute in ascii_text "#.change:".
Definition h_file : text := Eval vm_compute in ascii_text "#..file:".
Definition h_meta1 : text := Eval vm_compute in ascii_text "#.meta:".
Definition h_meta2 : text := Eval vm_compute in ascii_text "#..meta:".
Definition h_meta3 : text := Eval vm_compute in ascii_text "#...meta:".
Definition h_pre1 : text := Eval vm_compute in ascii_text "#.preamble:".
Definition h_pre2 : text := Eval vm_compute in ascii_text "#..preamble:".
Definition h_diff : text := Eval vm_compute in ascii_text "#...diff:".

Definition mk0 (p : option N) (t : text) (pos : N) : mstate := {| m_prev := p; m_rest := t; m_pos := pos |}.

Ltac crunch := repeat (cbn -[N.ltb N.sub N.succ]; rewrite ?ltb_succ).
Ltac crunch_in H := repeat (cbn -[N.ltb N.sub N.succ] in H; rewrite ?ltb_succ in H).

(* group 1 of a rule on its own header: the rest of the regex continues right after the header *)
Definition hdr_ok (G1 : regex) (h : text) : Prop :=
  forall R p sym pos c k res,
    rm R (advn (mk0 p (h ++ sym) pos) (length h))
       ((1, Build_cap pos (m_pos (advn (mk0 p (h ++ sym) pos) (length h)) - pos)%N (h ++ sym)) :: c) k = Some res ->
    rm (RSeq (RGroup 1 G1) R) (mk0 p (h ++ sym) pos) c k = Some res.

Ltac solve_ok := unfold hdr_ok, mk0; intros R p sym pos c k res H; crunch; crunch_in H; rewrite H; reflexivity.

Lemma ok_diffx : hdr_ok G1c h_diffx. Proof. solve_ok. Qed.
Lemma ok_change : hdr_ok G1c h_change. Proof. solve_ok. Qed.
Lemma ok_file : hdr_ok G1c h_file. Proof. solve_ok. Qed.
Lemma ok_meta1 : hdr_ok G1m h_meta1. Proof. solve_ok. Qed.
Lemma ok_meta2 : hdr_ok G1m h_meta2. Proof. solve_ok. Qed.
Lemma ok_meta3 : hdr_ok G1m h_meta3. Proof. solve_ok. Qed.
Lemma ok_pre1 : hdr_ok G1p h_pre1. Proof. solve_ok. Qed.
Lemma ok_pre2 : hdr_ok G1p h_pre2. Proof. solve_ok. Qed.
Lemma ok_diff : hdr_ok G1d h_diff. Proof. solve_ok. Qed.

(* group 1 of an earlier rule on another header fails *)
Definition hdr_fail (G1 : regex) (h : text) : Prop :=
  forall R p sym pos c k, rm (RSeq (RGroup 1 G1) R) (mk0 p (h ++ sym) pos) c k = None.

Ltac solve_fail := unfold hdr_fail, mk0; intros R p sym pos c k; crunch; reflexivity.

Lemma fail_c_meta1 : hdr_fail G1c h_meta1. Proof. solve_fail. Qed.
Lemma fail_c_meta2 : hdr_fail G1c h_meta2. Proof. solve_fail. Qed.
Lemma fail_c_meta3 : hdr_fail G1c h_meta3. Proof. solve_fail. Qed.
Lemma fail_c_pre1 : hdr_fail G1c h_pre1. Proof. solve_fail. Qed.
Lemma fail_c_pre2 : hdr_fail G1c h_pre2. Proof. solve_fail. Qed.
Lemma fail_c_diff : hdr_fail G1c h_diff. Proof. solve_fail. Qed.
Lemma fail_m_pre1 : hdr_fail G1m h_pre1. Proof. solve_fail. Qed.
Lemma fail_m_pre2 : hdr_fail G1m h_pre2. Proof. solve_fail. Qed.
Lemma fail_m_diff : hdr_fail G1m h_diff. Proof. solve_fail. Qed.
Lemma fail_p_diff : hdr_fail G1p h_diff. Proof. solve_fail. Qed.

Lemma r1_fail p t pos c k : rm R1 (mk0 p (35%N :: t) pos) c k = None.
Proof. reflexivity. Qed.

(* ------------------------------------------------------------------ the lookahead *)
Definition bad_look (t : text) : Prop :=
  match t with [] => False | [x] => True | x :: y :: _ => N.eqb x 35 && N.eqb y 46 = false end.

Definition dotted : list text := [h_change; h_file; h_meta1; h_meta2; h_meta3; h_pre1; h_pre2; h_diff].
Definition good_tail (t : text) : Prop := t = [] \/ exists h r, In h dotted /\ t = h ++ r.

Lemma look_fail st c : bad_look (m_rest st) -> rm LOOKB st c K0 = None.
Proof.
  destruct st as [p t pos]. cbn [m_rest]. destruct t as [|x [|y r]]; cbn [bad_look]; intros H; try contradiction.
  - unfold LOOKB. crunch. destruct (N.eqb x 35); crunch; reflexivity.
  - unfold LOOKB. crunch. destruct (N.eqb x 35); [|crunch; reflexivity].
    cbn [andb] in H. rewrite H. crunch. reflexivity.
Qed.

Lemma look_succ st c : good_tail (m_rest st) -> exists st', rm LOOKB st c K0 = Some (st', c).
Proof.
  destruct st as [p t pos]. cbn [m_rest]. intros [E | (h & r & Hin & E)]; subst t.
  - eexists. reflexivity.
  - unfold dotted in Hin. cbn [In] in Hin.
    repeat (destruct Hin as [<-|Hin]; [eexists; unfold LOOKB, K0; crunch; reflexivity|]). contradiction.
Qed.

Lemma advn_skipn : forall j st, m_rest (advn st j) = skipn j (m_rest st).
Proof.
  induction j as [|j IH]; intros st; [reflexivity|]. cbn [advn].
  destruct (m_rest st) as [|ch t] eqn:E; [rewrite E; reflexivity|]. rewrite IH. reflexivity.
Qed.

(* ------------------------------------------------------------------ the parts of a rule after group 1 *)
Definition keys_ge2 (new : caps) : Prop := forall i, In i (map fst new) -> 2 <= i.

Lemma rm_g5look x body' tail st c k (Q : mstate * caps -> Prop) :
  m_rest st = (x :: body') ++ tail ->
  (forall j, 1 <= j -> j < length (x :: body') -> bad_look (skipn j (x :: body') ++ tail)) ->
  good_tail tail ->
  (forall cp, exists res, k (advn st (length (x :: body'))) ((5, cp) :: c) = Some res /\ Q res) ->
  exists res, rm (RSeq G5 (RLook LOOKB)) st c k = Some res /\ Q res.
Proof.
  intros Hr Hbad Hgood Hk.
  set (K5 := fun st1 c1 =>
               match rm LOOKB st1 ((5, Build_cap (m_pos st) (m_pos st1 - m_pos st)%N (m_rest st)) :: c1) K0 with
               | Some (_, c2) => k st1 c2
               | None => None
               end).
  assert (E : rm (RSeq G5 (RLook LOOKB)) st c k =
              match rep_loop (rm RAny) false (S (length (m_rest st))) 1 None st c K5 with
              | Some r => Some r
              | None => rm REndZ st c K5
              end) by reflexivity.
  rewrite E. clear E.
  destruct (Hk (Build_cap (m_pos st) (m_pos (advn st (length (x :: body'))) - m_pos st)%N (m_rest st)))
    as (res & Kres & Qres).
  exists res. split; [|exact Qres].
  rewrite (lazy_scan1 (rm RAny) ltac:(intros s c0 k0; reflexivity) x body' st tail c K5 res); try reflexivity.
  - assumption.
  - lia.
  - intros j H1 H2. unfold K5. rewrite look_fail; [reflexivity|].
    rewrite advn_skipn, Hr, skipn_app.
    replace (j - length (x :: body')) with 0 by lia. cbn [skipn]. apply Hbad; assumption.
  - unfold K5.
    destruct (look_succ (advn st (length (x :: body')))
                ((5, Build_cap (m_pos st) (m_pos (advn st (length (x :: body'))) - m_pos st)%N (m_rest st)) :: c))
      as [st' Es].
    + rewrite (advn_rest _ _ _ Hr). exact Hgood.
    + rewrite Es. exact Kres.
Qed.

Definition notlf (ch : N) : bool := xorb true (in_class [(10%N, 10%N)] ch).
Definition optline (o : option text) : text := match o with None => [] | Some opts => 32%N :: opts end.
Definition nolf (o : option text) : Prop := match o with None => True | Some opts => forallb notlf opts = true end.

Lemma notlf_spec ch : notlf ch = true <-> ch <> 10%N.
Proof.
  unfold notlf, in_class. cbn [existsb fst snd]. rewrite orb_false_r.
  destruct (N.leb 10 ch) eqn:A; destruct (N.leb ch 10) eqn:C; cbn;
    try apply N.leb_le in A; try apply N.leb_le in C; try apply N.leb_gt in A; try apply N.leb_gt in C;
    split; intros; try discriminate; try lia; try reflexivity.
Qed.

Lemma rm_opt o sym st c k R' (Q : mstate * caps -> Prop) :
  m_rest st = optline o ++ 10%N :: sym -> nolf o ->
  (forall new, keys_ge2 new ->
     exists res, rm R' (advn st (length (optline o))) (new ++ c) k = Some res /\ Q res) ->
  exists res, rm (RSeq OPT R') st c k = Some res /\ Q res.
Proof.
  intros Hr Hn Hk.
  assert (E : rm (RSeq OPT R') st c k =
              rep_loop (rm (RSeq (RGroup 2 (RLit 32)) (RGroup 3 (RRepeat true 0 None NOTLF)))) true
                       (S (length (m_rest st))) 0 (Some 1) st c (fun st1 c1 => rm R' st1 c1 k)) by reflexivity.
  rewrite E. clear E. rewrite opt_unfold by (rewrite Hr, app_length; simpl; lia).
  destruct o as [opts|]; cbn [optline] in *.
  - (* options present *)
    set (st1 := step st 32 (opts ++ 10%N :: sym)).
    set (c1 := (2, Build_cap (m_pos st) (m_pos st1 - m_pos st)%N (m_rest st)) :: c).
    set (KK := fun st2 c2 => if N.ltb (m_pos st) (m_pos st2) then rm R' st2 c2 k else None).
    set (K3 := fun st2 c2 => KK st2 ((3, Build_cap (m_pos st1) (m_pos st2 - m_pos st1)%N (m_rest st1)) :: c2)).
    assert (E : rm (RSeq (RGroup 2 (RLit 32)) (RGroup 3 (RRepeat true 0 None NOTLF))) st c KK =
                rep_loop (rm NOTLF) true (S (length (m_rest st1))) 0 None st1 c1 K3).
    { unfold c1, K3. cbn [rm]. rewrite Hr. cbn [app]. rewrite N.eqb_refl. reflexivity. }
    fold KK. rewrite E. clear E.
    destruct (Hk [(3, Build_cap (m_pos st1) (m_pos (advn st1 (length opts)) - m_pos st1)%N (m_rest st1));
                  (2, Build_cap (m_pos st) (m_pos st1 - m_pos st)%N (m_rest st))]) as (res & Kres & Qres).
    { intros i Hi. simpl in Hi. destruct Hi as [<-|[<-|[]]]; lia. }
    exists res. split; [|exact Qres].
    rewrite (greedy_full notlf (rm NOTLF) ltac:(intros s c0 k0; reflexivity) opts st1 (10%N :: sym) c1 K3 res);
      try reflexivity; try assumption; try lia.
    unfold K3, KK.
    assert (P : (m_pos st <? m_pos (advn st1 (length opts)))%N = true).
    { apply N.ltb_lt. rewrite (advn_pos opts st1 (10%N :: sym) eq_refl). unfold st1. simpl. lia. }
    rewrite P. cbn [length] in Kres. rewrite (advn_S st 32%N (opts ++ 10%N :: sym) (length opts) Hr) in Kres.
    exact Kres.
  - (* no options *)
    assert (E : rm (RSeq (RGroup 2 (RLit 32)) (RGroup 3 (RRepeat true 0 None NOTLF))) st c
                   (fun st1 c1 => if N.ltb (m_pos st) (m_pos st1) then rm R' st1 c1 k else None) = None).
    { cbn [rm]. rewrite Hr. reflexivity. }
    rewrite E. clear E. destruct (Hk []) as (res & Kres & Qres); [intros i []|].
    exists res. split; [exact Kres | exact Qres].
Qed.

Lemma rm_g4_seq sym st c k R' :
  m_rest st = 10%N :: sym ->
  rm (RSeq G4 R') st c k =
  rm R' (advn st 1) ((4, Build_cap (m_pos st) (m_pos (advn st 1) - m_pos st)%N (m_rest st)) :: c) k.
Proof. intros Hr. cbn [rm G4 advn]. rewrite Hr. reflexivity. Qed.

Lemma rm_g4 sym st c k :
  m_rest st = 10%N :: sym ->
  rm G4 st c k = k (advn st 1) ((4, Build_cap (m_pos st) (m_pos (advn st 1) - m_pos st)%N (m_rest st)) :: c).
Proof. intros Hr. cbn [rm G4 advn]. rewrite Hr. reflexivity. Qed.

(* what the engine needs to know about a successful rule match *)
Definition ends_at (tail : text) (c : caps) (res : mstate * caps) : Prop :=
  m_rest (fst res) = tail /\ exists new, snd res = new ++ c /\ keys_ge2 new.

Lemma keys_cons i cp new : 2 <= i -> keys_ge2 new -> keys_ge2 ((i, cp) :: new).
Proof. intros H1 H2 j [<-|I]; [assumption | auto]. Qed.

Lemma container_rest o tail st c :
  m_rest st = optline o ++ 10%N :: tail -> nolf o ->
  exists res, rm CONTAINER_REST st c K0 = Some res /\ ends_at tail c res.
Proof.
  intros Hr Hn. unfold CONTAINER_REST. apply (rm_opt o tail); try assumption.
  intros new Hnew. pose proof (advn_rest _ _ _ Hr) as R1.
  rewrite (rm_g4 tail) by assumption. eexists. split; [reflexivity|]. split; cbn [fst snd].
  - apply (advn_rest [10%N]). exact R1.
  - eexists ((4, _) :: new). split; [reflexivity|]. apply keys_cons; [lia | assumption].
Qed.

Lemma content_rest o x body' tail st c :
  m_rest st = optline o ++ 10%N :: (x :: body') ++ tail -> nolf o ->
  (forall j, 1 <= j -> j < length (x :: body') -> bad_look (skipn j (x :: body') ++ tail)) ->
  good_tail tail ->
  exists res, rm CONTENT_REST st c K0 = Some res /\ ends_at tail c res.
Proof.
  intros Hr Hn Hbad Hgood. unfold CONTENT_REST. apply (rm_opt o ((x :: body') ++ tail)); try assumption.
  intros new Hnew. pose proof (advn_rest _ _ _ Hr) as R1.
  rewrite (rm_g4_seq ((x :: body') ++ tail)) by assumption.
  pose proof (advn_rest [10%N] _ _ R1) as R2. cbn [length] in R2.
  apply (rm_g5look x body' tail); try assumption.
  intros cp. eexists. split; [reflexivity|]. split; cbn [fst snd].
  - apply (advn_rest (x :: body')). exact R2.
  - eexists ((5, cp) :: (4, _) :: new). split; [reflexivity|].
    apply keys_cons; [lia|]. apply keys_cons; [lia | assumption].
Qed.

(* ------------------------------------------------------------------ token classes *)
Definition tok_type (t : token) : bytes := snd (fst t).
Definition is_tag (t : token) : bool := beq (tok_type t) t_tag.
Definition is_err (t : token) : bool := beq (tok_type t) tok_error.
Definition quiet (t : token) : Prop := is_tag t = false /\ is_err t = false.
Definition tagvals (toks : list token) : list text := map tok_val (filter is_tag toks).
Definition errors (toks : list token) : list token := filter is_err toks.
Definition oracle_quiet (o : bytes -> text -> option (list token)) : Prop :=
  forall name txt toks, o name txt = Some toks -> Forall quiet toks.

Lemma quiet_none toks : Forall quiet toks -> tagvals toks = [] /\ errors toks = [].
Proof.
  unfold tagvals, errors. induction 1 as [|t toks [H1 H2] _ [IH1 IH2]]; [split; reflexivity|].
  simpl. rewrite H1, H2. split; assumption.
Qed.

Lemma tagvals_app a b : tagvals (a ++ b) = tagvals a ++ tagvals b.
Proof. unfold tagvals. rewrite filter_app, map_app. reflexivity. Qed.
Lemma errors_app a b : errors (a ++ b) = errors a ++ errors b.
Proof. unfold errors. apply filter_app. Qed.

Lemma shift_quiet s toks : Forall quiet toks -> Forall quiet (shift s toks).
Proof.
  unfold shift. induction 1 as [|[[i ty] v] toks H _ IH]; simpl; constructor; assumption.
Qed.

Definition qtypeb (t : bytes) : bool := negb (beq t t_tag) && negb (beq t tok_error).
Definition qargb (a : gaction) : bool :=
  match a with
  | GTok t => qtypeb t
  | GNone => true
  | GUsing (UOther _) => true
  | GUsing (UThis stk) => list_eqb beq (frev stk) [st_diff; st_root]
  end.
Definition qactionb (a : action) : bool :=
  match a with
  | ATok t => qtypeb t
  | AByGroups args => forallb qargb args
  | AUsing (UOther _) => true
  | AUsing (UThis _) => false
  end.

Lemma qtypeb_quiet i t v : qtypeb t = true -> quiet (i, t, v).
Proof.
  unfold qtypeb, quiet, is_tag, is_err, tok_type. cbn [fst snd]. intros H. apply andb_true_iff in H.
  destruct H as [A C]. apply negb_true_iff in A. apply negb_true_iff in C. split; assumption.
Qed.

Lemma beq_eq (a b : bytes) : beq a b = true -> a = b.
Proof.
  unfold beq. revert b. induction a as [|x a IH]; intros [|y b]; simpl; intros H; try discriminate; [reflexivity|].
  apply andb_true_iff in H. destruct H as [E H]. apply Byte.byte_dec_bl in E. subst. f_equal. auto.
Qed.

Lemma stack_eq (a b : list bytes) : list_eqb beq a b = true -> a = b.
Proof.
  revert b. induction a as [|x a IH]; intros [|y b]; simpl; intros H; try discriminate; [reflexivity|].
  apply andb_true_iff in H. destruct H as [E H]. apply beq_eq in E. subst. f_equal. auto.
Qed.

Section Quiet.
  Variable oracle : bytes -> text -> option (list token).
  Hypothesis Hq : oracle_quiet oracle.
  Variable self : stack -> mstate -> lexres.
  Hypothesis Hself : forall st toks, self [st_diff; st_root] st = LOk toks -> Forall quiet toks.

  Lemma run_using_quiet u start txt toks :
    match u with UThis stk => frev stk = [st_diff; st_root] | UOther _ => True end ->
    run_using oracle self u start txt = LOk toks -> Forall quiet toks.
  Proof.
    destruct u as [stk|name]; simpl.
    - intros E. rewrite E. destruct (self [st_diff; st_root] (init_state txt)) eqn:S; simpl; try discriminate.
      intros H. inversion H; subst. apply shift_quiet. eapply Hself; eauto.
    - intros _. destruct (oracle name txt) eqn:O; try discriminate. intros H. inversion H; subst.
      apply shift_quiet. eapply Hq; eauto.
  Qed.

  Lemma run_groups_quiet ng c : forall args i toks,
    forallb qargb args = true -> run_groups oracle self args i ng c = LOk toks -> Forall quiet toks.
  Proof.
    induction args as [|a args IH]; intros i toks Ha H.
    - inversion H. constructor.
    - cbn [forallb] in Ha. apply andb_true_iff in Ha. destruct Ha as [Ha Hr]. cbn [run_groups] in H.
      destruct a as [t| |u].
      + destruct (Nat.ltb ng i); [discriminate|].
        destruct (run_groups oracle self args (S i) ng c) as [rest| | | |] eqn:E; simpl in H; try discriminate.
        specialize (IH _ _ Hr E).
        destruct (getcap i c) as [cp|]; [|inversion H; subst; assumption].
        destruct (cap_text cp); inversion H; subst; [assumption|].
        constructor; [apply qtypeb_quiet; exact Ha | assumption].
      + eauto.
      + destruct (Nat.ltb ng i); [discriminate|].
        destruct (getcap i c) as [cp|]; [|eauto].
        destruct (run_using oracle self u (c_start cp) (cap_text cp)) as [t1| | | |] eqn:E1; simpl in H; try discriminate.
        destruct (run_groups oracle self args (S i) ng c) as [rest| | | |] eqn:E; simpl in H; try discriminate.
        inversion H; subst. apply Forall_app. split; [|eauto].
        eapply run_using_quiet; [|exact E1]. destruct u as [stk|name]; [|exact I].
        simpl in Ha. apply stack_eq. exact Ha.
  Qed.

  Lemma run_action_quiet r st st1 c toks :
    qactionb (r_act r) = true -> run_action oracle self r st st1 c = LOk toks -> Forall quiet toks.
  Proof.
    unfold run_action. destruct (r_act r) as [t|args|u]; simpl; intros Ha H.
    - inversion H; subst. constructor; [apply qtypeb_quiet; exact Ha | constructor].
    - eapply run_groups_quiet; eauto.
    - destruct u as [stk|name]; [discriminate|]. eapply run_using_quiet; [|exact H]. exact I.
  Qed.

  (* a bygroups action whose first group is the header tag *)
  Lemma bygroups_tag args ng new cp x h toks :
    forallb qargb args = true -> 1 <= ng -> keys_ge2 new -> cap_text cp = x :: h ->
    run_groups oracle self (GTok t_tag :: args) 1 ng (new ++ [(1, cp)]) = LOk toks ->
    tagvals toks = [x :: h] /\ errors toks = [].
  Proof.
    intros Ha Hng Hnew Hcp H. cbn [run_groups] in H.
    assert (L : Nat.ltb ng 1 = false) by (apply Nat.ltb_ge; lia). rewrite L in H.
    destruct (run_groups oracle self args 2 ng (new ++ [(1, cp)])) as [rest| | | |] eqn:E; simpl in H; try discriminate.
    assert (G : getcap 1 (new ++ [(1, cp)]) = Some cp).
    { rewrite getcap_app, getcap_notin; [reflexivity|]. intro I. apply Hnew in I. lia. }
    rewrite G, Hcp in H. inversion H; subst.
    destruct (quiet_none rest (run_groups_quiet _ _ _ _ _ Ha E)) as [T1 T2].
    unfold tagvals, errors in *. cbn [filter]. change (is_tag (c_start cp, t_tag, x :: h)) with true.
    change (is_err (c_start cp, t_tag, x :: h)) with false. cbn [map]. rewrite T1, T2. split; reflexivity.
  Qed.
End Quiet.

(* ------------------------------------------------------------------ the diff state never falls through *)
Lemma first_match_none rules st : first_match rules st = None -> forall r, In r rules -> rmatch (r_re r) st = None.
Proof.
  induction rules as [|r0 rules IH]; simpl; intros H r []; subst.
  - destruct (rmatch (r_re r) st) as [[? ?]|]; [discriminate | reflexivity].
  - destruct (rmatch (r_re r0) st) as [[? ?]|]; [discriminate | auto].
Qed.

Lemma any_plus st ch t : m_rest st = ch :: t -> rmatch (RRepeat true 1 None RAny) st <> None.
Proof.
  intros Hr. unfold rmatch. cbn [rm].
  rewrite (greedy_full (fun _ => true) (rm RAny) ltac:(intros s c0 k0; reflexivity) (m_rest st) st [] []
                       (fun st1 c1 => Some (st1, c1)) (advn st (length (m_rest st)), [])); try reflexivity.
  - discriminate.
  - rewrite app_nil_r. reflexivity.
  - apply forallb_forall. reflexivity.
  - rewrite Hr. simpl. lia.
  - lia.
Qed.

Lemma diff_rules_quiet :
  forallb (fun r => match r_new r with NsNone => qactionb (r_act r) | _ => false end) diff_rules = true.
Proof. vm_compute. reflexivity. Qed.

Lemma diff_rules_last :
  match nth_error diff_rules 2 with Some r => r_re r | None => REmpty end = RRepeat true 1 None RAny.
Proof. vm_compute. reflexivity. Qed.

Lemma diff_quiet oracle : oracle_quiet oracle ->
  forall fuel st toks, lex oracle GenLexer.rules fuel [st_diff; st_root] st = LOk toks -> Forall quiet toks.
Proof.
  intros Hq. induction fuel as [|f IH]; intros st toks H; [discriminate|].
  cbn [lex] in H. rewrite diff_lookup in H.
  destruct (first_match diff_rules st) as [[[r st1] c]|] eqn:Ef.
  - apply first_match_spec in Ef. destruct Ef as [Hin _].
    pose proof diff_rules_quiet as Q. rewrite forallb_forall in Q. specialize (Q r Hin).
    destruct (r_new r); try discriminate. cbn [apply_new] in H.
    destruct (run_action oracle (lex oracle GenLexer.rules f) r st st1 c) as [t1| | | |] eqn:E1; simpl in H; try discriminate.
    destruct (lex oracle GenLexer.rules f [st_diff; st_root] st1) as [t2| | | |] eqn:E2; simpl in H; try discriminate.
    inversion H; subst. apply Forall_app. split; [|eauto].
    eapply run_action_quiet; eauto.
  - destruct (m_rest st) as [|ch t] eqn:Er; [inversion H; constructor|].
    exfalso. pose proof diff_rules_last as L.
    destruct (nth_error diff_rules 2) as [r|] eqn:N; [|discriminate].
    apply nth_error_In in N. pose proof (first_match_none _ _ Ef r N) as M. rewrite L in M.
    exact (any_plus st ch t Er M).
Qed.

(* ------------------------------------------------------------------ documents *)
Record section := { s_hdr : text; s_opts : option text; s_body : text }.
Definition render (s : section) : text := s_hdr s ++ optline (s_opts s) ++ 10%N :: s_body s.
Definition render_doc (d : list section) : text := concat (map render d).

(* the two-character sequence "#." *)
Fixpoint has_marker (t : text) : bool :=
  match t with
  | x :: ((y :: _) as t') => (N.eqb x 35 && N.eqb y 46) || has_marker t'
  | _ => false
  end.

Definition containers : list text := [h_diffx; h_change; h_file].
Definition json_headers : list text := [h_meta1; h_meta2; h_meta3].
Definition text_headers : list text := [h_pre1; h_pre2].

Definition wf_sec (s : section) : Prop :=
  nolf (s_opts s) /\
  ((In (s_hdr s) containers /\ s_body s = []) \/
   (In (s_hdr s) (json_headers ++ text_headers ++ [h_diff]) /\ s_body s <> [] /\ has_marker (s_body s) = false)).

Definition wf_later (s : section) : Prop := wf_sec s /\ In (s_hdr s) dotted.

Definition wf_doc (d : list section) : Prop :=
  match d with [] => True | s :: rest => wf_sec s /\ Forall wf_later rest end.

Lemma has_marker_skipn j : forall b, has_marker b = false -> has_marker (skipn j b) = false.
Proof.
  induction j as [|j IH]; intros b H; [assumption|]. destruct b as [|x b]; [reflexivity|]. cbn [skipn].
  apply IH. destruct b as [|y b]; [reflexivity|]. cbn [has_marker] in H. apply orb_false_iff in H. apply H.
Qed.

Lemma body_bad body tail :
  has_marker body = false -> good_tail tail ->
  forall j, 1 <= j -> j < length body -> bad_look (skipn j body ++ tail).
Proof.
  intros Hm Hg j H1 H2. pose proof (has_marker_skipn j body Hm) as Hs.
  assert (L : length (skipn j body) = length body - j) by apply skipn_length.
  destruct (skipn j body) as [|x [|y r]] eqn:E; [simpl in L; lia | |].
  - cbn [app]. destruct Hg as [->|(h & r & Hin & ->)]; [exact I|].
    unfold dotted in Hin. cbn [In] in Hin.
    repeat (destruct Hin as [<-|Hin]; [cbn; apply andb_false_r|]). contradiction.
  - cbn [app bad_look]. cbn [has_marker] in Hs. apply orb_false_iff in Hs. apply Hs.
Qed.

Lemma cap_text_hdr p h sym pos :
  cap_text (Build_cap pos (m_pos (advn (mk0 p (h ++ sym) pos) (length h)) - pos)%N (h ++ sym)) = h.
Proof.
  unfold cap_text. cbn [c_len c_rest]. rewrite (advn_pos h (mk0 p (h ++ sym) pos) sym eq_refl). cbn [mk0 m_pos].
  replace (N.to_nat (pos + N.of_nat (length h) - pos)) with (length h) by lia. apply firstn_exact.
Qed.

(* a rule = group 1 on its header, then the rest *)
Lemma rule_match G1 REST h sym p pos tail :
  hdr_ok G1 h ->
  (forall st c, m_rest st = sym -> exists res, rm REST st c K0 = Some res /\ ends_at tail c res) ->
  exists st1 new cp,
    rmatch (RSeq (RGroup 1 G1) REST) (mk0 p (h ++ sym) pos) = Some (st1, new ++ [(1, cp)]) /\
    m_rest st1 = tail /\ keys_ge2 new /\ cap_text cp = h.
Proof.
  intros Hok Hrest.
  set (st := mk0 p (h ++ sym) pos).
  set (cp := Build_cap pos (m_pos (advn st (length h)) - pos)%N (h ++ sym)).
  destruct (Hrest (advn st (length h)) [(1, cp)]) as ([st1 caps] & E & Hend & new & Ec & Hk).
  { apply (advn_rest h). reflexivity. }
  cbn [fst snd] in *. subst caps. exists st1, new, cp. split; [|split; [assumption|split; [assumption|]]].
  - unfold rmatch. apply (Hok REST p sym pos [] (fun st1 c1 => Some (st1, c1))). exact E.
  - apply cap_text_hdr.
Qed.

Lemma r1_fail' h sym p pos c k :
  In h (containers ++ json_headers ++ text_headers ++ [h_diff]) -> rm R1 (mk0 p (h ++ sym) pos) c k = None.
Proof.
  intros Hin. cbn [containers json_headers text_headers app In] in Hin.
  repeat (destruct Hin as [<-|Hin]; [reflexivity|]). contradiction.
Qed.

Lemma in_all_l h : In h containers -> In h (containers ++ json_headers ++ text_headers ++ [h_diff]).
Proof. intros. apply in_app_iff. auto. Qed.
Lemma in_all_r h : In h (json_headers ++ text_headers ++ [h_diff]) -> In h (containers ++ json_headers ++ text_headers ++ [h_diff]).
Proof. intros. apply in_app_iff. auto. Qed.

(* which rule fires at the start of a section, and what it leaves *)
Definition fires (r : rule) (h sym tail : text) : Prop :=
  forall p pos, exists st1 new cp,
    first_match root_rules (mk0 p (h ++ sym) pos) = Some (r, st1, new ++ [(1, cp)]) /\
    m_rest st1 = tail /\ keys_ge2 new /\ cap_text cp = h.

Ltac fm_start :=
  intros p pos; unfold root_rules; cbn [first_match]; unfold rmatch at 1; cbn [r_re mkrule];
  rewrite r1_fail' by (cbn; tauto).

Ltac fm_skip F :=
  unfold rmatch at 1; cbn [r_re mkrule rule_container rule_meta rule_preamble rule_diff]; rewrite (F _).

Ltac fm_hit OK Hrest :=
  match goal with
  | |- context [rmatch _ (mk0 ?p (?h ++ ?sym) ?pos)] =>
      let H := fresh in
      destruct (rule_match _ _ h sym p pos _ OK Hrest) as (st1 & new & cp & H & R & Kn & Ct);
      cbn [r_re mkrule rule_container rule_meta rule_preamble rule_diff];
      rewrite H; exists st1, new, cp; repeat split; assumption
  end.

Lemma fires_container h o tail :
  In h containers -> nolf o -> fires rule_container h (optline o ++ 10%N :: tail) tail.
Proof.
  intros Hin Hn.
  assert (Hrest : forall st c, m_rest st = optline o ++ 10%N :: tail ->
                   exists res, rm CONTAINER_REST st c K0 = Some res /\ ends_at tail c res).
  { intros st c Hr. apply (container_rest o); assumption. }
  cbn [containers In] in Hin. destruct Hin as [<-|[<-|[<-|[]]]]; fm_start.
  - fm_hit ok_diffx Hrest.
  - fm_hit ok_change Hrest.
  - fm_hit ok_file Hrest.
Qed.

Section Content.
  Variables (o : option text) (x : N) (body' tail : text).
  Hypothesis Hn : nolf o.
  Hypothesis Hm : has_marker (x :: body') = false.
  Hypothesis Hg : good_tail tail.

  Lemma content_rest' st c :
    m_rest st = optline o ++ 10%N :: (x :: body') ++ tail ->
    exists res, rm CONTENT_REST st c K0 = Some res /\ ends_at tail c res.
  Proof. intros Hr. apply (content_rest o x body'); auto. apply body_bad; assumption. Qed.

  Lemma fires_meta h : In h json_headers -> fires rule_meta h (optline o ++ 10%N :: (x :: body') ++ tail) tail.
  Proof.
    intros Hin. cbn [json_headers In] in Hin. destruct Hin as [<-|[<-|[<-|[]]]]; fm_start.
    - fm_skip (fail_c_meta1 CONTAINER_REST). fm_hit ok_meta1 content_rest'.
    - fm_skip (fail_c_meta2 CONTAINER_REST). fm_hit ok_meta2 content_rest'.
    - fm_skip (fail_c_meta3 CONTAINER_REST). fm_hit ok_meta3 content_rest'.
  Qed.

  Lemma fires_pre h : In h text_headers -> fires rule_preamble h (optline o ++ 10%N :: (x :: body') ++ tail) tail.
  Proof.
    intros Hin. cbn [text_headers In] in Hin. destruct Hin as [<-|[<-|[]]]; fm_start.
    - fm_skip (fail_c_pre1 CONTAINER_REST). fm_skip (fail_m_pre1 CONTENT_REST). fm_hit ok_pre1 content_rest'.
    - fm_skip (fail_c_pre2 CONTAINER_REST). fm_skip (fail_m_pre2 CONTENT_REST). fm_hit ok_pre2 content_rest'.
  Qed.

  Lemma fires_diff : fires rule_diff h_diff (optline o ++ 10%N :: (x :: body') ++ tail) tail.
  Proof.
    fm_start. fm_skip (fail_c_diff CONTAINER_REST). fm_skip (fail_m_diff CONTENT_REST).
    fm_skip (fail_p_diff CONTENT_REST). fm_hit ok_diff content_rest'.
  Qed.
End Content.

(* ------------------------------------------------------------------ the engine on a document *)
Section Doc.
  Variable oracle : bytes -> text -> option (list token).
  Hypothesis Hq : oracle_quiet oracle.
  Notation LEX := (lex oracle GenLexer.rules).

  Lemma fire_step r h sym tail args f p pos toks :
    fires r h sym tail -> h <> [] ->
    r_act r = AByGroups (GTok t_tag :: args) -> forallb qargb args = true -> r_new r = NsNone ->
    1 <= length (groups_of (r_re r)) ->
    LEX (S f) [st_root] (mk0 p (h ++ sym) pos) = LOk toks ->
    exists st1 acttoks more,
      m_rest st1 = tail /\ LEX f [st_root] st1 = LOk more /\ toks = acttoks ++ more /\
      tagvals acttoks = [h] /\ errors acttoks = [].
  Proof.
    intros Hf Hne Hact Hargs Hnew Hng H. cbn [lex] in H. rewrite root_lookup in H.
    destruct (Hf p pos) as (st1 & new & cp & Efm & Hr & Hk & Hc). rewrite Efm in H.
    rewrite Hnew in H. cbn [apply_new] in H. unfold run_action in H. rewrite Hact in H.
    destruct (run_groups oracle (LEX f) (GTok t_tag :: args) 1 (length (groups_of (r_re r))) (new ++ [(1, cp)]))
      as [t1| | | |] eqn:E1; simpl in H; try discriminate.
    destruct (LEX f [st_root] st1) as [t2| | | |] eqn:E2; simpl in H; try discriminate.
    inversion H; subst toks. exists st1, t1, t2. split; [assumption|]. split; [exact E2|]. split; [reflexivity|].
    destruct h as [|x h]; [congruence|].
    eapply (bygroups_tag oracle Hq (LEX f) (diff_quiet oracle Hq f)); eauto.
  Qed.

  Lemma sec_step f st s tail toks :
    wf_sec s -> good_tail tail -> m_rest st = render s ++ tail ->
    LEX (S f) [st_root] st = LOk toks ->
    exists st1 acttoks more,
      m_rest st1 = tail /\ LEX f [st_root] st1 = LOk more /\ toks = acttoks ++ more /\
      tagvals acttoks = [s_hdr s] /\ errors acttoks = [].
  Proof.
    intros [Hn Hk] Hg Hr H. destruct s as [h o body]. cbn [s_hdr s_opts s_body] in *. unfold render in Hr.
    cbn [s_hdr s_opts s_body] in Hr. destruct st as [p t pos]. cbn [m_rest] in Hr.
    destruct Hk as [[Hin Hb] | (Hin & Hb & Hm)].
    - subst body. assert (Et : t = h ++ (optline o ++ 10%N :: tail)).
      { rewrite Hr, <- !app_assoc. reflexivity. }
      clear Hr. subst t. change {| m_prev := p; m_rest := h ++ optline o ++ 10%N :: tail; m_pos := pos |}
                 with (mk0 p (h ++ optline o ++ 10%N :: tail) pos) in H.
      eapply (fire_step rule_container); try exact H; try reflexivity.
      + apply fires_container; assumption.
      + cbn [containers In] in Hin. destruct Hin as [<-|[<-|[<-|[]]]]; discriminate.
      + cbn. lia.
    - destruct body as [|x body']; [congruence|].
      assert (Et : t = h ++ (optline o ++ 10%N :: (x :: body') ++ tail)).
      { rewrite Hr, <- !app_assoc. reflexivity. }
      clear Hr. subst t. change {| m_prev := p; m_rest := h ++ optline o ++ 10%N :: (x :: body') ++ tail; m_pos := pos |}
                 with (mk0 p (h ++ optline o ++ 10%N :: (x :: body') ++ tail) pos) in H.
      apply in_app_or in Hin. destruct Hin as [Hin|Hin]; [|apply in_app_or in Hin; destruct Hin as [Hin|Hin]].
      + eapply (fire_step rule_meta); try exact H; try reflexivity.
        * apply fires_meta; assumption.
        * cbn [json_headers In] in Hin. destruct Hin as [<-|[<-|[<-|[]]]]; discriminate.
        * cbn. lia.
      + eapply (fire_step rule_preamble); try exact H; try reflexivity.
        * apply fires_pre; assumption.
        * cbn [text_headers In] in Hin. destruct Hin as [<-|[<-|[]]]; discriminate.
        * cbn. lia.
      + destruct Hin as [<-|[]]. eapply (fire_step rule_diff); try exact H; try reflexivity.
        * apply fires_diff; assumption.
        * discriminate.
        * cbn. lia.
  Qed.

  Lemma later_tail d : Forall wf_later d -> good_tail (render_doc d).
  Proof.
    destruct 1 as [|s d [_ Hd] _]; [left; reflexivity|]. right.
    exists (s_hdr s), (optline (s_opts s) ++ 10%N :: s_body s ++ render_doc d). split; [assumption|].
    unfold render_doc. cbn [map concat]. unfold render. rewrite <- !app_assoc. reflexivity.
  Qed.

  Lemma lex_end f st toks : m_rest st = [] -> LEX f [st_root] st = LOk toks -> toks = [].
  Proof.
    destruct st as [p t pos]. cbn [m_rest]. intros -> H. destruct f; [discriminate|].
    cbn [lex] in H. rewrite root_lookup in H.
    change (first_match root_rules {| m_prev := p; m_rest := []; m_pos := pos |}) with (@None (rule * mstate * caps)) in H.
    cbn in H. inversion H. reflexivity.
  Qed.

  Lemma headers_later : forall d, Forall wf_later d ->
    forall f st toks, m_rest st = render_doc d -> LEX f [st_root] st = LOk toks ->
    tagvals toks = map s_hdr d /\ errors toks = [].
  Proof.
    induction d as [|s d IH]; intros Hd f st toks Hr H.
    - rewrite (lex_end f st toks Hr H). split; reflexivity.
    - inversion Hd as [|? ? [Hs _] Hd']; subst. destruct f; [discriminate|].
      destruct (sec_step f st s (render_doc d) toks Hs (later_tail d Hd') Hr H)
        as (st1 & a & more & R1 & L1 & -> & T & E).
      destruct (IH Hd' f st1 more R1 L1) as [T2 E2].
      rewrite tagvals_app, errors_app, T, E, T2, E2. split; reflexivity.
  Qed.

  Lemma headers_doc d f st toks :
    wf_doc d -> m_rest st = render_doc d -> LEX f [st_root] st = LOk toks ->
    tagvals toks = map s_hdr d /\ errors toks = [].
  Proof.
    destruct d as [|s d]; intros Hw Hr H.
    - rewrite (lex_end f st toks Hr H). split; reflexivity.
    - destruct Hw as [Hs Hd]. destruct f; [discriminate|].
      destruct (sec_step f st s (render_doc d) toks Hs (later_tail d Hd) Hr H)
        as (st1 & a & more & R1 & L1 & -> & T & E).
      destruct (headers_later d Hd f st1 more R1 L1) as [T2 E2].
      rewrite tagvals_app, errors_app, T, E, T2, E2. split; reflexivity.
  Qed.
End Doc.

Lemma gen_rules_ok : rules_ok GenLexer.rules = true.
Proof. vm_compute. reflexivity. Qed.

(* C20, second half, for the model and the DiffX-level rules: on a well-formed document whose contents contain no
   "#.", no Error token is produced and the Name.Tag tokens are exactly the section headers, in order. *)
Theorem headers_thm :
  forall oracle,
    oracle_lossless oracle -> (forall name txt, oracle name txt <> None) -> oracle_quiet oracle ->
    forall d, wf_doc d ->
    exists toks,
      lex_default oracle GenLexer.rules (render_doc d) = LOk toks /\
      tagvals toks = map s_hdr d /\ errors toks = [].
Proof.
  intros oracle Hl Ht Hq d Hw.
  destruct (lex_default_lossless oracle GenLexer.rules gen_rules_ok Hl Ht (render_doc d)) as (toks & E & _).
  exists toks. split; [exact E|].
  unfold lex_default, lex_text in E. change (frev [st_root]) with [st_root] in E.
  eapply (headers_doc oracle Hq d _ (init_state (render_doc d))); eauto.
Qed.

(* the sub-lexer oracle with its token types hidden: what remains visible are the tokens of the DiffX-level rules *)
Definition hide (o : bytes -> text -> option (list token)) : bytes -> text -> option (list token) :=
  fun name t => option_map (map (fun tok => (fst (fst tok), B "sub", snd tok))) (o name t).

Lemma hide_quiet o : oracle_quiet (hide o).
Proof.
  intros name txt toks. unfold hide. destruct (o name txt) as [l|]; simpl; [|discriminate].
  intros E. inversion E; subst. clear E. induction l; simpl; constructor; [|assumption]. split; reflexivity.
Qed.

Lemma hide_lossless o : oracle_lossless o -> oracle_lossless (hide o).
Proof.
  intros H name txt toks. unfold hide. destruct (o name txt) as [l|] eqn:E; simpl; [|discriminate].
  intros E'. inversion E'; subst. rewrite map_map. cbn [tok_val snd]. apply (H name txt l E).
Qed.

Lemma hide_total o : (forall name txt, o name txt <> None) -> forall name txt, hide o name txt <> None.
Proof. intros H name txt. unfold hide. specialize (H name txt). destruct (o name txt); [discriminate | congruence]. Qed.

(* ------------------------------------------------------------------ a concrete well-formed document *)
Definition ex_doc : list section :=
  [ {| s_hdr := h_diffx; s_opts := Some (ascii_text "version=1.0"); s_body := [] |};
    {| s_hdr := h_change; s_opts := None; s_body := [] |};
    {| s_hdr := h_file; s_opts := None; s_body := [] |};
    {| s_hdr := h_meta3; s_opts := Some (ascii_text "format=json, length=3"); s_body := ascii_text "{}" ++ [10%N] |};
    {| s_hdr := h_diff; s_opts := Some (ascii_text "length=12"); s_body := ascii_text "delta 3" ++ 10%N :: ascii_text "abc#" ++ [10%N] |} ].

Lemma ex_doc_wf : wf_doc ex_doc.
Proof.
  unfold ex_doc, wf_doc, wf_later, wf_sec, dotted, containers, json_headers, text_headers.
  repeat match goal with
         | |- _ /\ _ => split
         | |- Forall _ (_ :: _) => constructor
         | |- Forall _ [] => constructor
         end; cbn; try reflexivity; try tauto; try (right; split; [tauto | split; [discriminate | reflexivity]]).
Qed.
