(* DomWire.v — S-expression encodings of DOM trees and the DOM entry points. Glue only. *)
From Coq Require Import List Arith NArith ZArith Bool Strings.Byte.
From Coq Require Strings.String.
From DX Require Import Bytes Sx Res Json Header Reader Writer Wire Dom.
Import ListNotations.
Import String.StringSyntax.
Local Open Scope string_scope.
Local Open Scope list_scope.

Definition sx_of_wv (v : wv) : sx :=
  match v with
  | WNone => sym "none"
  | WBool b => sx_of_bool b
  | WInt z => tagged "i" [sx_of_Z z]
  | WStr t => sx_of_text t
  | WBytes b => Hex b
  | WDict j => tagged "d" [sx_of_json j]
  | WOther => sym "other"
  end.
Definition sx_of_dopts (o : dopts) : sx :=
  Li (map (fun p => Li [Hex (fst p); sx_of_wv (snd p)]) (sort_opts o)).
Definition sx_of_psec (s : psec) : sx := Li [sx_of_dopts (p_opts s); sx_of_option sx_of_text (p_content s)].
Definition sx_of_msec (s : msec) : sx := Li [sx_of_dopts (m_opts s); sx_of_json (JObj (m_content s))].
Definition sx_of_dsec (s : dsec) : sx := Li [sx_of_dopts (x_opts s); sx_of_option sx_of_bytes (x_content s)].
Definition sx_of_file (f : dfile) : sx := Li [sx_of_dopts (f_opts f); sx_of_msec (f_meta f); sx_of_dsec (f_diff f)].
Definition sx_of_change (c : dchange) : sx :=
  Li [sx_of_dopts (c_opts c); sx_of_psec (c_pre c); sx_of_msec (c_meta c); sx_of_list sx_of_file (c_files c)].
Definition sx_of_tree (t : dtree) : sx :=
  Li [sx_of_dopts (d_opts t); sx_of_psec (d_pre t); sx_of_msec (d_meta t); sx_of_list sx_of_change (d_changes t)].

Definition sx_dopts (s : sx) : option dopts :=
  sx_list (fun e => match e with
                    | Li [Hex k; v] => option_map (fun v => (k, v)) (sx_wv v)
                    | _ => None
                    end) s.
Definition sx_obj (s : sx) : option (list (text * json)) :=
  match sx_json s with Some (JObj kv) => Some kv | _ => None end.
Definition sx_psec (s : sx) : option psec :=
  match s with
  | Li [o; c] => match sx_dopts o, sx_option sx_text c with
                 | Some o, Some c => Some {| p_opts := o; p_content := c |} | _, _ => None end
  | _ => None
  end.
Definition sx_msec (s : sx) : option msec :=
  match s with
  | Li [o; c] => match sx_dopts o, sx_obj c with
                 | Some o, Some c => Some {| m_opts := o; m_content := c |} | _, _ => None end
  | _ => None
  end.
Definition sx_dsec (s : sx) : option dsec :=
  match s with
  | Li [o; c] => match sx_dopts o, sx_option sx_bytes c with
                 | Some o, Some c => Some {| x_opts := o; x_content := c |} | _, _ => None end
  | _ => None
  end.
Definition sx_file (s : sx) : option dfile :=
  match s with
  | Li [o; m; d] => match sx_dopts o, sx_msec m, sx_dsec d with
                    | Some o, Some m, Some d => Some {| f_opts := o; f_meta := m; f_diff := d |} | _, _, _ => None end
  | _ => None
  end.
Definition sx_change (s : sx) : option dchange :=
  match s with
  | Li [o; p; m; fs] => match sx_dopts o, sx_psec p, sx_msec m, sx_list sx_file fs with
                        | Some o, Some p, Some m, Some fs => Some {| c_opts := o; c_pre := p; c_meta := m; c_files := fs |}
                        | _, _, _, _ => None end
  | _ => None
  end.
Definition sx_tree (s : sx) : option dtree :=
  match s with
  | Li [o; p; m; cs] => match sx_dopts o, sx_psec p, sx_msec m, sx_list sx_change cs with
                        | Some o, Some p, Some m, Some cs => Some {| d_opts := o; d_pre := p; d_meta := m; d_changes := cs |}
                        | _, _, _, _ => None end
  | _ => None
  end.
