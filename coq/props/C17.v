(* C17 — Reader output does not depend on stream chunking or header alignment. *)
From Coq Require Import List Arith ZArith Strings.Byte.
From DX Require Import Bytes Res Stream Reader StreamFacts.
Import ListNotations.

(* For every read-ahead block size > 0 and every stream (well-formed or not), _read_until as coded returns exactly the
   abstract reading "bytes up to and including the first LF, else everything left with eof": same bytes, same eof
   flag, same stream (data and position) afterwards; never an error, the fuel always suffices. *)
Theorem C17_read_until : forall chunk s,
  0 < chunk -> read_until chunk s = Ok (read_until_abs s).
Proof. exact read_until_abs_correct. Qed.
Print Assumptions C17_read_until.

(* On a well-formed stream the stream after _read_until is again well-formed, has the same data, and its position is
   exactly the old position plus the number of bytes returned; the bytes returned are exactly the next bytes of the
   stream and what remains afterwards is exactly the rest: no byte lost, duplicated or re-read. *)
Theorem C17_position_exact : forall chunk s b e s',
  0 < chunk -> wf_stream s ->
  read_until chunk s = Ok (b, e, s') ->
  wf_stream s' /\
  s_data s' = s_data s /\
  s_pos s' = s_pos s + List.length b /\
  b = firstn (List.length b) (remaining s) /\
  remaining s = b ++ remaining s'.
Proof. exact read_until_position_exact. Qed.
Print Assumptions C17_position_exact.

(* The records (and the way the iteration terminates) are the same for any two block sizes > 0, for every input. *)
Theorem C17_reader : forall orc c1 c2 data,
  0 < c1 -> 0 < c2 -> read_all orc c1 data = read_all orc c2 data.
Proof. exact read_all_chunk_indep. Qed.
Print Assumptions C17_reader.

(* Every reader state reachable in a run has a well-formed stream, so C17_position_exact applies at every header. *)
Theorem C17_reachable_wf : forall orc chunk data st valid encs prev,
  0 < chunk -> reachable orc chunk data st valid encs prev -> wf_rstate st.
Proof. exact reachable_wf. Qed.
Print Assumptions C17_reachable_wf.

(* Non-vacuity: a 10-byte stream with an LF at index 4 (and another at 7), block sizes 1, 3 and 96. *)
Example C17_example :
  let s := {| s_data := ["a"; "b"; "c"; "d"; x0a; "e"; "f"; x0a; "g"; "h"]%byte; s_pos := 0 |} in
  let expected := Ok (["a"; "b"; "c"; "d"; x0a]%byte, false, {| s_data := s_data s; s_pos := 5 |}) in
  wf_stream s /\
  read_until 1 s = expected /\ read_until 3 s = expected /\ read_until 96 s = expected /\
  Ok (read_until_abs s) = expected /\
  (* second line, starting in the middle of what a larger block had read ahead *)
  read_until 3 {| s_data := s_data s; s_pos := 5 |} = Ok (["e"; "f"; x0a]%byte, false, {| s_data := s_data s; s_pos := 8 |}) /\
  (* last line: no LF, end of file *)
  read_until 3 {| s_data := s_data s; s_pos := 8 |} = Ok (["g"; "h"]%byte, true, {| s_data := s_data s; s_pos := 10 |}).
Proof. cbv zeta. split; [unfold wf_stream; cbn; auto with arith|]. repeat split; vm_compute; reflexivity. Qed.

(* The hypothesis 0 < chunk is necessary: with block size 0 the reader sees end-of-file immediately. *)
Example C17_chunk0_differs :
  (forall orc data, read_all orc 0 data = ([], TEnd)) /\
  read_all ex_orc 0 ex_file <> read_all ex_orc 96 ex_file /\
  read_until 0 ex_stream <> Ok (read_until_abs ex_stream).
Proof.
  split; [exact read_all_chunk0|]. split; [exact (proj2 read_all_chunk0_differs)|exact (proj1 read_until_chunk0_differs)].
Qed.
