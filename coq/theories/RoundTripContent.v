(* RoundTripContent.v — the content round trip at the heart of property C01: what Writer.prepare_content
   writes, Reader.read_content reads back.  Uses the abstract codec laws of RoundTripCodec.v.
   Proof file: nothing of the model is changed here. *)
From Coq Require Import List Arith NArith ZArith Bool Lia ZifyBool Strings.Byte.
From Coq Require Strings.String.
From DX Require Import Bytes Res Codec Text Sections Header Stream Json Reader Writer TextFacts RoundTripCodec.
From DXGen Require GenText GenCodecs.
Import ListNotations.
Import String.StringSyntax.
Local Open Scope string_scope.
Local Open Scope list_scope.

(* ------------------------------------------------------------------------------------------------ *)
(* split: the decomposition into lines determines the result *)

Section SplitUnique.
  Context {A : Type} (eqb : A -> A -> bool).
  Hypothesis eqb_spec : forall a b, eqb a b = true <-> a = b.
  Local Notation addnl nl := (fun l : list A => l ++ nl).

  Lemma prefixb_app_long : forall p l r : list A, length p <= length l -> prefixb eqb p (l ++ r) = prefixb eqb p l.
  Proof.
    induction p as [|a p IH]; intros l r H; [reflexivity|].
    destruct l as [|b l]; [cbn in H; lia|]. cbn [app prefixb]. rewrite IH by (cbn in H; lia). reflexivity.
  Qed.

  Lemma split_aux_line : forall nl : list A, nl <> [] -> forall p cur rest,
    (forall i, i < length p -> prefixb eqb nl (skipn i (p ++ nl)) = false) ->
    split_aux eqb nl cur (p ++ nl ++ rest) 0 = (rev cur ++ p) :: split_aux eqb nl [] rest 0.
  Proof.
    intros nl Hnl. induction p as [|x p IH]; intros cur rest H.
    - cbn [app]. rewrite (split_aux_match eqb eqb_spec) by assumption. rewrite frev_rev, app_nil_r. reflexivity.
    - cbn [app]. rewrite split_aux_nomatch.
      + rewrite IH.
        * cbn [rev]. rewrite <- app_assoc. reflexivity.
        * intros i Hi. apply (H (S i)). cbn. lia.
      + specialize (H 0 ltac:(cbn; lia)). cbn [skipn] in H.
        change (x :: p ++ nl ++ rest) with ((x :: p) ++ nl ++ rest). rewrite app_assoc.
        rewrite prefixb_app_long; [exact H|]. rewrite app_length. lia.
  Qed.

  Lemma split_aux_noocc : forall (nl lst cur : list A), occurrences eqb nl lst = 0 ->
    split_aux eqb nl cur lst 0 = [rev cur ++ lst].
  Proof.
    intros nl. induction lst as [|x t IH]; intros cur H.
    - rewrite split_aux_nil, frev_rev, app_nil_r. reflexivity.
    - cbn [occurrences] in H. destruct (prefixb eqb nl (x :: t)) eqn:Hp; [lia|].
      rewrite split_aux_nomatch by exact Hp. rewrite IH by lia. cbn [rev]. rewrite <- app_assoc. reflexivity.
  Qed.

  Lemma split_unique : forall nl : list A, nl <> [] -> forall init lst,
    Forall (fun p => occurrences eqb nl (p ++ nl) = 1) init -> occurrences eqb nl lst = 0 ->
    split eqb nl (concat (map (addnl nl) init) ++ lst) = init ++ [lst].
  Proof.
    intros nl Hnl init lst Hf H0. unfold split. induction init as [|p init IH].
    - cbn. apply (split_aux_noocc nl lst [] H0).
    - inversion Hf as [|? ? Hp Hf']; subst. cbn [map concat]. rewrite <- !app_assoc.
      rewrite split_aux_line; [|assumption|].
      + cbn [rev app]. rewrite IH by assumption. reflexivity.
      + apply (occurrences_one_iff eqb eqb_spec nl p Hnl). exact Hp.
  Qed.

  Lemma occ_in_disjoint : forall (nl sp l : list A), nl <> [] -> (forall x, In x sp -> ~ In x nl) ->
    occ_in eqb nl sp l = 0.
  Proof.
    intros nl sp l Hnl. induction sp as [|s sp IH]; intros Hd; [reflexivity|].
    cbn [occ_in]. rewrite IH by (intros x Hx; apply Hd; right; exact Hx).
    destruct nl as [|n0 nl']; [congruence|]. cbn [app prefixb].
    destruct (eqb n0 s) eqn:E; [|reflexivity].
    apply eqb_spec in E. subst s. exfalso. apply (Hd n0); left; reflexivity.
  Qed.

  (* key lemma (a): prefixing every kept-ends line of a newline-terminated text with [sp] (which shares no
     element with the unbordered newline) and splitting again gives back exactly the prefixed lines *)
  Lemma split_lines_indented : forall (nl d sp : list A) lines,
    nl <> [] -> unbordered nl -> d <> [] -> suffixb eqb nl d = true ->
    (forall x, In x sp -> ~ In x nl) ->
    split_lines_g eqb d nl true = Ok lines ->
    split_lines_g eqb (concat (map (app sp) lines)) nl true = Ok (map (app sp) lines) /\
    lines <> [] /\ concat lines = d /\ suffixb eqb nl (concat (map (app sp) lines)) = true.
  Proof.
    intros nl d sp lines Hnl Hu Hd Hs Hsp Hl.
    destruct (split_spec eqb eqb_spec nl d Hnl) as [init [lst [E [Hc [Hf [H0 [_ [Hsuf _]]]]]]]].
    specialize (Hsuf Hu Hs). subst lst.
    rewrite (split_lines_keep eqb d nl init [] Hd Hnl E), Hs in Hl. injection Hl as <-.
    rewrite app_nil_r in Hc.
    assert (Hi : init <> []) by (intros ->; cbn in Hc; congruence).
    set (init' := map (app sp) init).
    assert (Hmm : map (app sp) (map (addnl nl) init) = map (addnl nl) init').
    { unfold init'. rewrite !map_map. apply map_ext. intros p. apply app_assoc. }
    rewrite Hmm.
    assert (Hf' : Forall (fun p => occurrences eqb nl (p ++ nl) = 1) init').
    { unfold init'. apply Forall_map. eapply Forall_impl; [|exact Hf]. intros p Hp. cbn beta.
      rewrite <- app_assoc, occurrences_app, occ_in_disjoint by assumption. exact Hp. }
    pose proof (split_unique nl Hnl init' [] Hf' eq_refl) as E'. rewrite app_nil_r in E'.
    assert (Hs' : suffixb eqb nl (concat (map (addnl nl) init')) = true).
    { assert (Hi' : init' <> []) by (unfold init'; destruct init; [congruence | discriminate]).
      destruct (exists_last Hi') as [i0 [p ->]]. rewrite map_app, concat_app. cbn [map concat].
      rewrite app_nil_r, app_assoc. apply (suffixb_app eqb eqb_spec). }
    assert (Hb : concat (map (addnl nl) init') <> []).
    { intros Hn. rewrite Hn in Hs'. apply (suffixb_spec eqb eqb_spec) in Hs'. destruct Hs' as [q Hq].
      destruct q; destruct nl; cbn in Hq; congruence. }
    rewrite (split_lines_keep eqb _ nl init' [] Hb Hnl E'), Hs'.
    split; [reflexivity|]. split; [|split; [exact Hc | reflexivity]].
    destruct init; [congruence | discriminate].
  Qed.
End SplitUnique.

(* ------------------------------------------------------------------------------------------------ *)
(* key lemma (b): the reader's strip removes exactly the indentation that was added, even when the line
   itself starts with more spaces (the budget k is used up by the added ones) *)

Lemma strip_spaces_indent : forall k l, strip_spaces k (repeat_b x20 k ++ l) = l.
Proof.
  induction k as [|k IH]; intros l.
  - destruct l; reflexivity.
  - cbn [repeat_b app strip_spaces]. change (byte_eqb x20 x20) with true. cbn iota. apply IH.
Qed.

Lemma concat_strip_indent : forall k lines,
  concat (map (strip_spaces k) (map (app (repeat_b x20 k)) lines)) = concat lines.
Proof.
  intros k lines. rewrite map_map. f_equal. rewrite <- (map_id lines) at 2. apply map_ext.
  intros l. apply strip_spaces_indent.
Qed.

Lemma repeat_b_length : forall b k, length (repeat_b b k) = k.
Proof. induction k; cbn; congruence. Qed.

Lemma in_repeat_b : forall b k x, In x (repeat_b b k) -> x = b.
Proof. induction k; cbn; intros x H; [contradiction | destruct H; auto]. Qed.

(* ------------------------------------------------------------------------------------------------ *)
(* the stream: reading exactly the body *)

Lemma skipn_add {A} : forall a b (l : list A), skipn (a + b) l = skipn b (skipn a l).
Proof.
  induction a as [|a IH]; intros b l; [reflexivity|]. destruct l as [|x l]; [destruct b; reflexivity|].
  cbn [Nat.add skipn]. apply IH.
Qed.

Lemma sread_exact : forall s body rest, remaining s = body ++ rest ->
  sread (length body) s = (body, {| s_data := s_data s; s_pos := s_pos s + length body |}) /\
  remaining {| s_data := s_data s; s_pos := s_pos s + length body |} = rest.
Proof.
  intros s body rest H. unfold sread. rewrite H.
  assert (E : firstn (length body) (body ++ rest) = body).
  { rewrite firstn_app, Nat.sub_diag, firstn_all. cbn. apply app_nil_r. }
  rewrite E. split; [reflexivity|].
  unfold remaining in *. cbn [s_data s_pos]. rewrite skipn_add, H.
  rewrite skipn_app, Nat.sub_diag, skipn_all. reflexivity.
Qed.

(* key lemma (d) *)
Lemma read_size : forall (body rest : bytes), (Z.of_nat (length body) <= sys_maxsize)%Z ->
  Z.to_nat (Z.min (Z.min (Z.of_nat (length body)) sys_maxsize) (Z.of_nat (length (body ++ rest)))) = length body.
Proof. intros body rest H. rewrite app_length. lia. Qed.

(* ------------------------------------------------------------------------------------------------ *)
(* the arguments of the theorem *)

Definition indent_pv (indent : wv) : option pv := match indent with WInt k => Some (VInt k) | _ => None end.

Inductive indent_arg : wv -> Prop :=
| ia_none : indent_arg WNone
| ia_int : forall k, (0 <= k)%Z -> indent_arg (WInt k).

Inductive le_arg : wv -> Prop :=
| la_none : le_arg WNone
| la_decl : forall le, In le GenText.line_endings_values -> le_arg (WStr (ascii_text le)).

(* the line_endings value the writer puts in the header and the newline text it stands for *)
Definition resolve_le (lev : wv) (t : text) : bytes * text :=
  match lev with
  | WStr l => match c_enc ascii l with Some le => (le, nl_text le) | None => ([], []) end
  | _ => guess_line_endings_text t
  end.

Definition final_text (nl t : text) : text := if suffixb N.eqb nl t then t else t ++ nl.

Lemma le_values_facts : forall le, In le GenText.line_endings_values ->
  c_enc ascii (ascii_text le) = Some le /\ nonempty le = true /\
  assoc_get beq le GenText.newline_formats = Some (nl_text le) /\
  existsb (fun x => teq (ascii_text le) (ascii_text x)) GenText.line_endings_values = true.
Proof.
  intros le H.
  assert (F : forallb (fun le => match c_enc ascii (ascii_text le) with Some x => beq x le | None => false end
                                 && nonempty le
                                 && match assoc_get beq le GenText.newline_formats with
                                    | Some x => teq x (nl_text le) | None => false end
                                 && existsb (fun x => teq (ascii_text le) (ascii_text x)) GenText.line_endings_values)
                     GenText.line_endings_values = true) by (vm_compute; reflexivity).
  rewrite forallb_forall in F. specialize (F le H). rewrite !andb_true_iff in F.
  destruct F as [[[F1 F2] F3] F4].
  destruct (c_enc ascii (ascii_text le)) as [x|]; [|discriminate]. apply beq_eq in F1. subst x.
  destruct (assoc_get beq le GenText.newline_formats) as [x|]; [|discriminate]. apply teq_eq in F3. subst x.
  auto.
Qed.

Lemma assoc_get_In {V} : forall k (d : list (bytes * V)) v, assoc_get beq k d = Some v -> In (k, v) d.
Proof.
  intros k d v. induction d as [|[k' v'] d IH]; cbn [assoc_get]; [discriminate|].
  destruct (beq k k') eqn:E.
  - intros H. injection H as ->. apply beq_eq in E. subst. left. reflexivity.
  - intros H. right. apply IH. exact H.
Qed.

Lemma guess_text_in : forall t, In (fst (guess_line_endings_text t)) GenText.line_endings_values /\
                                snd (guess_line_endings_text t) = nl_text (fst (guess_line_endings_text t)).
Proof.
  intros t. unfold guess_line_endings_text.
  assert (In GenText.le_dos GenText.line_endings_values /\ In GenText.le_unix GenText.line_endings_values) as [Hd Hx]
    by (cbv; auto).
  destruct (find N.eqb (nl_text GenText.le_unix) t); [destruct (suffixb N.eqb _ _)|]; cbn [fst snd]; auto.
Qed.

Lemma resolve_le_ok : forall lev t le nl, le_arg lev -> resolve_le lev t = (le, nl) ->
  In le GenText.line_endings_values /\ assoc_get beq le GenText.newline_formats = Some nl /\
  In (le, nl) GenText.newline_formats.
Proof.
  intros lev t le nl Ha H.
  assert (G : In le GenText.line_endings_values /\ nl = nl_text le).
  { destruct Ha as [|le0 Hin]; cbn [resolve_le] in H.
    - destruct (guess_text_in t) as [G1 G2]. rewrite H in G1, G2. cbn [fst snd] in *. auto.
    - destruct (le_values_facts le0 Hin) as [E _]. rewrite E in H. injection H as <- <-. auto. }
  destruct G as [G1 ->]. destruct (le_values_facts le G1) as [_ [_ [E _]]].
  split; [exact G1|]. split; [exact E | apply assoc_get_In; exact E].
Qed.

Lemma lookup_nonempty : forall enc canon c, lookup_codec enc = LOk canon c -> enc <> [].
Proof.
  intros enc canon c H ->. assert (E : find_row [] GenCodecs.rows = None) by (vm_compute; reflexivity).
  unfold lookup_codec in H. rewrite E in H. discriminate.
Qed.

Lemma encode_ascii_nonempty : forall e enc, c_enc ascii e = Some enc -> enc <> [] -> nonempty e = true.
Proof. intros e enc H Hn. destruct e; [cbn in H; congruence | reflexivity]. Qed.

Section WithCodec.
  Variables (enc : bytes) (c : codec) (bom : bytes) (enc0 : text -> option bytes).
  Hypothesis laws : codec_laws enc c bom enc0.

  Lemma py_encode_laws : forall t b, enc0 t = Some b -> py_encode t enc = Ok (bom ++ b).
  Proof.
    intros t b H. unfold py_encode. destruct (cl_lookup _ _ _ _ laws) as [canon ->].
    rewrite (cl_enc _ _ _ _ laws), H. reflexivity.
  Qed.

  Lemma py_decode_laws : forall t b, enc0 t = Some b -> bom ++ b <> [] -> py_decode (bom ++ b) enc = Ok t.
  Proof.
    intros t b H Hne. unfold py_decode. rewrite (is_nil_false _ Hne).
    destruct (cl_lookup _ _ _ _ laws) as [canon ->].
    rewrite (cl_dec _ _ _ _ laws t b H). reflexivity.
  Qed.

  (* the writer's byte-level test for a final newline agrees with the text-level one *)
  Lemma bends_final : forall le nl nlb t b, In (le, nl) GenText.newline_formats -> enc0 nl = Some nlb ->
    t <> [] -> enc0 t = Some b -> bends nlb (bom ++ b) = suffixb N.eqb nl t.
  Proof.
    intros le nl nlb t b Hin Hnl Ht Hb.
    destruct (suffixb N.eqb nl t) eqn:E.
    - apply (suffixb_spec N.eqb N_eqb_spec) in E. destruct E as [q ->].
      rewrite (cl_hom _ _ _ _ laws), Hnl in Hb. destruct (enc0 q) as [bq|]; [|discriminate].
      cbn in Hb. injection Hb as <-. apply bends_iff. exists (bom ++ bq). rewrite app_assoc. reflexivity.
    - destruct (bends nlb (bom ++ b)) eqn:E2; [|reflexivity].
      rewrite (cl_suffix _ _ _ _ laws le nl nlb t b Hin Hnl Ht Hb E2) in E. discriminate.
  Qed.

  Variables (s : wstate) (e t : text) (b : bytes).
  Hypothesis He : c_enc ascii e = Some enc.
  Hypothesis Ht : t <> [].
  Hypothesis Hb : enc0 t = Some b.

  Lemma prepare_text_eval : forall lev indent le nl nlb,
    le_arg lev -> indent_arg indent -> resolve_le lev t = (le, nl) -> enc0 nl = Some nlb ->
    let d := if suffixb N.eqb nl t then bom ++ b else (bom ++ b) ++ nlb in
    prepare_content s (CText t) indent lev (WStr e) true =
      match indent with
      | WInt k => if (0 <? k)%Z
                  then do lines <- split_lines d nlb true;
                       Ok (concat (map (app (repeat_b x20 (Z.to_nat k))) lines), WStr (ascii_text le))
                  else Ok (d, WStr (ascii_text le))
      | _ => Ok (d, WStr (ascii_text le))
      end.
  Proof.
    intros lev indent le nl nlb Hle Hind Hres Hnl d.
    destruct (resolve_le_ok lev t le nl Hle Hres) as [Hv [Hassoc Hin]].
    destruct (cl_lookup _ _ _ _ laws) as [canon Hlk].
    pose proof (encode_ascii_nonempty e enc He (lookup_nonempty enc canon c Hlk)) as Hne.
    unfold prepare_content. rewrite (is_nil_false t Ht). cbv beta iota zeta.
    assert (E1 : (match lev with WNone => Ok true | _ => in_strset lev GenText.line_endings_values end) = Ok true).
    { destruct Hle as [|le0 H0]; [reflexivity|]. cbn [in_strset].
      destruct (le_values_facts le0 H0) as [_ [_ [_ ->]]]. reflexivity. }
    rewrite E1. cbn [bind negb].
    change (wv_truthy (WStr e)) with (nonempty e). rewrite Hne. cbn [negb andb bind].
    destruct (cl_nl _ _ _ _ laws le nl Hin) as [nlb' [Hn1 [Hn2 [Hn3 [Hn4 [Hn5 [Hn6 Hn7]]]]]]].
    rewrite Hnl in Hn1. injection Hn1 as <-.
    destruct Hle as [|le0 H0]; cbn [resolve_le] in Hres;
      [ rewrite Hres
      | destruct (le_values_facts le0 H0) as [F1 [_ [F3 _]]]; rewrite F1 in Hres |- *; rewrite F3;
        injection Hres as Hr1 Hr2; subst le0; rewrite Hr2 ];
      cbn [bind]; unfold encode_dyn; rewrite He;
      rewrite (py_encode_laws nl nlb Hnl), (py_encode_laws t b Hb); cbn [bind];
      rewrite Hn6, (bends_final _ nl nlb t b Hin Hnl Ht Hb); fold d.
    all: destruct Hind as [|k Hk]; cbn [wv_truthy]; [reflexivity|].
    all: destruct (0 <? k)%Z eqn:Ek;
      [ replace (negb (k =? 0)%Z) with true by lia | replace (negb (k =? 0)%Z) with false by lia ];
      reflexivity.
  Qed.

  Lemma final_bytes : forall nl nlb t' b', suffixb N.eqb nl t' = true -> enc0 t' = Some b' -> enc0 nl = Some nlb ->
    exists q, bom ++ b' = q ++ nlb.
  Proof.
    intros nl nlb t' b' E Hb' Hnl. apply (suffixb_spec N.eqb N_eqb_spec) in E. destruct E as [q ->].
    rewrite (cl_hom _ _ _ _ laws), Hnl in Hb'. destruct (enc0 q) as [bq|]; [|discriminate].
    cbn in Hb'. injection Hb' as <-. exists (bom ++ bq). rewrite app_assoc. reflexivity.
  Qed.

  Definition indent_body (indent : wv) (d : bytes) (lines : list bytes) : bytes :=
    match indent with
    | WInt k => if (0 <? k)%Z then concat (map (app (repeat_b x20 (Z.to_nat k))) lines) else d
    | _ => d
    end.

  (* the newline the reader works with: declared in the header, or guessed from the content *)
  Definition reader_newline (le_pv : option pv) (content : bytes) : res bytes :=
    if pv_given le_pv
    then match le_pv with Some (VStr le) => get_newline_for_type le (Some enc) | _ => Err EValue end
    else do p <- guess_line_endings_bytes content (Some enc); Ok (snd p).

  Lemma read_text_eval_gen : forall st rest indent le_pv le nl nlb t' b' lines,
    In (le, nl) GenText.newline_formats ->
    enc0 nl = Some nlb -> indent_arg indent ->
    enc0 t' = Some b' -> suffixb N.eqb nl t' = true ->
    split_lines (bom ++ b') nlb true = Ok lines ->
    let body := indent_body indent (bom ++ b') lines in
    reader_newline le_pv body = Ok nlb ->
    remaining (st_stream st) = body ++ rest ->
    (Z.of_nat (length body) <= sys_maxsize)%Z ->
    read_content st (Z.of_nat (length body)) (Some (VStr enc)) (indent_pv indent) le_pv false =
      COk (PText t') {| st_stream := {| s_data := s_data (st_stream st); s_pos := s_pos (st_stream st) + length body |};
                        st_linenum := (st_linenum st + Z.of_nat (length lines))%Z; st_fnl := st_fnl st |}
    /\ remaining {| s_data := s_data (st_stream st); s_pos := s_pos (st_stream st) + length body |} = rest.
  Proof.
    intros st rest indent le_pv le nl nlb t' b' lines Hin Hnl Hind Hb' Hfin Hl body Hrn Hrem Hmax.
    destruct (cl_nl _ _ _ _ laws le nl Hin) as [nlb' [Hn1 [Hn2 [Hn3 [Hn4 [Hn5 [Hn6 Hn7]]]]]]].
    rewrite Hnl in Hn1. injection Hn1 as <-.
    destruct (final_bytes nl nlb t' b' Hfin Hb' Hnl) as [q Hq].
    set (d := bom ++ b') in *.
    assert (Hd : d <> []) by (rewrite Hq; destruct q; destruct nlb; cbn; congruence).
    assert (Hsd : suffixb byte_eqb nlb d = true) by (apply (suffixb_spec byte_eqb byte_eqb_spec); exists q; exact Hq).
    assert (Hsp : forall k x, In x (repeat_b x20 k) -> ~ In x nlb).
    { intros k x Hx Hi. apply in_repeat_b in Hx. subst x. exact (Hn4 Hi). }
    pose proof (fun k => split_lines_indented byte_eqb byte_eqb_spec nlb d (repeat_b x20 k) lines
                           Hn2 Hn3 Hd Hsd (Hsp k) Hl) as Hindt.
    assert (Hcat : concat lines = d) by apply (Hindt 0%nat).
    assert (Hlne : lines <> []) by apply (Hindt 0%nat).
    (* what the reader sees of the body *)
    assert (Hbody : exists lines_r, split_lines body nlb true = Ok lines_r /\ length lines_r = length lines /\
                      body <> [] /\ bends nlb body = true /\
                      match indent_pv indent with
                      | Some (VInt z) =>
                          if (0 <? z)%Z
                          then concat (map (strip_spaces (Z.to_nat (Z.min z (Z.of_nat (length body))))) lines_r)
                          else body
                      | _ => body
                      end = d).
    { unfold body, indent_body. destruct Hind as [|k Hk]; cbn [indent_pv].
      - exists lines. unfold bends. auto.
      - destruct (0 <? k)%Z eqn:Ek.
        + destruct (Hindt (Z.to_nat k)) as [I1 [_ [_ I4]]].
          set (sp := repeat_b x20 (Z.to_nat k)) in *.
          exists (map (app sp) lines). split; [exact I1|]. split; [apply map_length|].
          assert (Hlen : Z.to_nat k <= length (concat (map (app sp) lines))).
          { destruct lines as [|l0 ls]; [congruence|]. cbn [map concat]. rewrite !app_length.
            unfold sp. rewrite repeat_b_length. lia. }
          split; [|split; [exact I4|]].
          * intros Hn. rewrite Hn in Hlen. cbn in Hlen. lia.
          * replace (Z.to_nat (Z.min k (Z.of_nat (length (concat (map (app sp) lines)))))) with (Z.to_nat k) by lia.
            unfold sp. rewrite concat_strip_indent. exact Hcat.
        + exists lines. unfold bends. auto. }
    destruct Hbody as [lines_r [Hr1 [Hr2 [Hr3 [Hrb Hr4]]]]].
    clearbody body.
    destruct (sread_exact (st_stream st) body rest Hrem) as [Hs1 Hs2].
    unfold read_content. rewrite Hrem, (read_size body rest Hmax), Hs1.
    rewrite (is_nil_false body Hr3).
    assert (Hib : match indent_pv indent with
                  | Some (VInt z) => (z <? 0)%Z | Some (VStr _) => true | None => false end = false).
    { destruct Hind as [|k Hk]; cbn [indent_pv]; [reflexivity | lia]. }
    rewrite Hib. unfold reader_newline in Hrn. rewrite Hrn.
    rewrite Hr1, Hrb, Hr4. cbn [negb]. unfold d. rewrite (py_decode_laws t' b' Hb' Hd).
    assert (Hdn : py_decode nlb enc = Ok nl).
    { unfold py_decode. rewrite (is_nil_false nlb Hn2). destruct (cl_lookup _ _ _ _ laws) as [canon ->].
      rewrite Hn5. reflexivity. }
    rewrite Hdn, Hfin, Hr2. split; [reflexivity | exact Hs2].
  Qed.

  Lemma reader_newline_declared : forall le nl nlb content, In le GenText.line_endings_values ->
    assoc_get beq le GenText.newline_formats = Some nl -> enc0 nl = Some nlb ->
    reader_newline (Some (VStr le)) content = Ok nlb.
  Proof.
    intros le nl nlb content Hv Hassoc Hnl. unfold reader_newline. cbn [pv_given].
    destruct (cl_nl _ _ _ _ laws le nl (assoc_get_In _ _ _ Hassoc)) as [nlb' [Hn1 [_ [_ [_ [_ [Hn6 _]]]]]]].
    rewrite Hnl in Hn1. injection Hn1 as <-.
    unfold get_newline_for_type. cbn [enc_or_ascii]. rewrite Hassoc, (py_encode_laws nl nlb Hnl). cbn [bind].
    rewrite Hn6. reflexivity.
  Qed.

  Lemma read_text_eval : forall st rest indent le nl nlb t' b' lines,
    In le GenText.line_endings_values -> assoc_get beq le GenText.newline_formats = Some nl ->
    enc0 nl = Some nlb -> indent_arg indent ->
    enc0 t' = Some b' -> suffixb N.eqb nl t' = true ->
    split_lines (bom ++ b') nlb true = Ok lines ->
    let body := indent_body indent (bom ++ b') lines in
    remaining (st_stream st) = body ++ rest ->
    (Z.of_nat (length body) <= sys_maxsize)%Z ->
    read_content st (Z.of_nat (length body)) (Some (VStr enc)) (indent_pv indent) (Some (VStr le)) false =
      COk (PText t') {| st_stream := {| s_data := s_data (st_stream st); s_pos := s_pos (st_stream st) + length body |};
                        st_linenum := (st_linenum st + Z.of_nat (length lines))%Z; st_fnl := st_fnl st |}
    /\ remaining {| s_data := s_data (st_stream st); s_pos := s_pos (st_stream st) + length body |} = rest.
  Proof.
    intros st rest indent le nl nlb t' b' lines Hv Hassoc Hnl Hind Hb' Hfin Hl body Hrem Hmax.
    apply (read_text_eval_gen st rest indent (Some (VStr le)) le nl nlb t' b' lines); auto.
    - apply assoc_get_In. exact Hassoc.
    - apply (reader_newline_declared le nl nlb _ Hv Hassoc Hnl).
  Qed.
End WithCodec.

(* ------------------------------------------------------------------------------------------------ *)
(* the content round trip for text sections *)

Lemma final_text_ends : forall nl t, suffixb N.eqb nl (final_text nl t) = true.
Proof.
  intros nl t. unfold final_text. destruct (suffixb N.eqb nl t) eqn:E; [exact E|].
  apply (suffixb_app N.eqb N_eqb_spec).
Qed.

Theorem content_round_trip_gen :
  forall enc c bom enc0, codec_laws enc c bom enc0 ->
  forall (s : wstate) (e t : text) (b : bytes) (lev indent : wv),
    c_enc ascii e = Some enc -> t <> [] -> enc0 t = Some b -> le_arg lev -> indent_arg indent ->
    exists body le nl nlb b' lines,
      resolve_le lev t = (le, nl) /\ In (le, nl) GenText.newline_formats /\
      enc0 nl = Some nlb /\ enc0 (final_text nl t) = Some b' /\
      split_lines (bom ++ b') nlb true = Ok lines /\
      body = indent_body indent (bom ++ b') lines /\
      prepare_content s (CText t) indent lev (WStr e) true = Ok (body, WStr (ascii_text le)) /\
      reader_newline enc (Some (VStr le)) body = Ok nlb /\
      forall le_pv st rest, reader_newline enc le_pv body = Ok nlb ->
        remaining (st_stream st) = body ++ rest -> (Z.of_nat (length body) <= sys_maxsize)%Z ->
        exists st',
          read_content st (Z.of_nat (length body)) (Some (VStr enc)) (indent_pv indent) le_pv false
            = COk (PText (final_text nl t)) st' /\
          remaining (st_stream st') = rest /\
          st_linenum st' = (st_linenum st + Z.of_nat (length lines))%Z /\
          st_fnl st' = st_fnl st.
Proof.
  intros enc c bom enc0 laws s e t b lev indent He Ht Hb Hle Hind.
  destruct (resolve_le lev t) as [le nl] eqn:Hres.
  destruct (resolve_le_ok lev t le nl Hle Hres) as [Hv [Hassoc Hin]].
  destruct (cl_nl _ _ _ _ laws le nl Hin) as [nlb [Hnl [Hn2 _]]].
  set (b' := if suffixb N.eqb nl t then b else b ++ nlb).
  assert (Hb' : enc0 (final_text nl t) = Some b').
  { unfold final_text, b'. destruct (suffixb N.eqb nl t); [exact Hb|].
    rewrite (cl_hom _ _ _ _ laws), Hb, Hnl. reflexivity. }
  assert (Hd : (if suffixb N.eqb nl t then bom ++ b else (bom ++ b) ++ nlb) = bom ++ b').
  { unfold b'. destruct (suffixb N.eqb nl t); [reflexivity | rewrite app_assoc; reflexivity]. }
  destruct (final_bytes enc c bom enc0 laws nl nlb _ b' (final_text_ends nl t) Hb' Hnl) as [q Hq].
  assert (Hdne : bom ++ b' <> []) by (rewrite Hq; destruct q; destruct nlb; cbn; congruence).
  destruct (C16_total_ok byte_eqb byte_eqb_spec (bom ++ b') nlb true Hdne Hn2) as [lines Hl].
  exists (indent_body indent (bom ++ b') lines), le, nl, nlb, b', lines.
  repeat (split; [first [reflexivity | assumption]|]). split; [|split].
  - rewrite (prepare_text_eval enc c bom enc0 laws s e t b He Ht Hb lev indent le nl nlb Hle Hind Hres Hnl).
    cbv zeta. rewrite Hd. unfold indent_body, split_lines in *. rewrite Hl. cbn [bind].
    destruct indent; try reflexivity. destruct (0 <? z)%Z; reflexivity.
  - apply (reader_newline_declared enc c bom enc0 laws le nl nlb _ Hv Hassoc Hnl).
  - intros le_pv st rest Hrn Hrem Hmax.
    destruct (read_text_eval_gen enc c bom enc0 laws st rest indent le_pv le nl nlb (final_text nl t) b' lines
                Hin Hnl Hind Hb' (final_text_ends nl t) Hl Hrn Hrem Hmax) as [R1 R2].
    eexists. split; [exact R1|]. cbn [st_stream st_linenum st_fnl]. auto.
Qed.

(* the form used for preambles: the writer puts line_endings=<le> in the header, the reader uses it *)
Theorem content_round_trip :
  forall enc c bom enc0, codec_laws enc c bom enc0 ->
  forall (s : wstate) (e t : text) (b : bytes) (lev indent : wv),
    c_enc ascii e = Some enc -> t <> [] -> enc0 t = Some b -> le_arg lev -> indent_arg indent ->
    exists body le nl nlb b' lines,
      resolve_le lev t = (le, nl) /\ In (le, nl) GenText.newline_formats /\
      enc0 nl = Some nlb /\ enc0 (final_text nl t) = Some b' /\
      split_lines (bom ++ b') nlb true = Ok lines /\
      body = indent_body indent (bom ++ b') lines /\
      prepare_content s (CText t) indent lev (WStr e) true = Ok (body, WStr (ascii_text le)) /\
      forall st rest, remaining (st_stream st) = body ++ rest -> (Z.of_nat (length body) <= sys_maxsize)%Z ->
        exists st',
          read_content st (Z.of_nat (length body)) (Some (VStr enc)) (indent_pv indent) (Some (VStr le)) false
            = COk (PText (final_text nl t)) st' /\
          remaining (st_stream st') = rest /\
          st_linenum st' = (st_linenum st + Z.of_nat (length lines))%Z /\
          st_fnl st' = st_fnl st.
Proof.
  intros enc c bom enc0 laws s e t b lev indent He Ht Hb Hle Hind.
  destruct (content_round_trip_gen enc c bom enc0 laws s e t b lev indent He Ht Hb Hle Hind)
    as [body [le [nl [nlb [b' [lines [H1 [H2 [H3 [H4 [H5 [H6 [H7 [H8 H9]]]]]]]]]]]]]].
  exists body, le, nl, nlb, b', lines. repeat (split; [assumption|]).
  intros st rest. apply H9. exact H8.
Qed.

(* the form used for metadata sections: no line_endings in the header, the reader guesses the newline from
   the bytes; [guess_agrees]: that guess is the newline the writer used (only the newline BYTES matter, not
   the name of the kind) *)
Definition guess_agrees (enc body nlb : bytes) : Prop :=
  exists le', guess_line_endings_bytes body (Some enc) = Ok (le', nlb).

Theorem content_round_trip_guess :
  forall enc c bom enc0, codec_laws enc c bom enc0 ->
  forall (s : wstate) (e t : text) (b : bytes) (lev indent : wv),
    c_enc ascii e = Some enc -> t <> [] -> enc0 t = Some b -> le_arg lev -> indent_arg indent ->
    exists body le nl nlb b' lines,
      resolve_le lev t = (le, nl) /\ In (le, nl) GenText.newline_formats /\
      enc0 nl = Some nlb /\ enc0 (final_text nl t) = Some b' /\
      split_lines (bom ++ b') nlb true = Ok lines /\
      body = indent_body indent (bom ++ b') lines /\
      prepare_content s (CText t) indent lev (WStr e) true = Ok (body, WStr (ascii_text le)) /\
      forall st rest, guess_agrees enc body nlb -> remaining (st_stream st) = body ++ rest -> (Z.of_nat (length body) <= sys_maxsize)%Z ->
        exists st',
          read_content st (Z.of_nat (length body)) (Some (VStr enc)) (indent_pv indent) None false
            = COk (PText (final_text nl t)) st' /\
          remaining (st_stream st') = rest /\
          st_linenum st' = (st_linenum st + Z.of_nat (length lines))%Z /\
          st_fnl st' = st_fnl st.
Proof.
  intros enc c bom enc0 laws s e t b lev indent He Ht Hb Hle Hind.
  destruct (content_round_trip_gen enc c bom enc0 laws s e t b lev indent He Ht Hb Hle Hind)
    as [body [le [nl [nlb [b' [lines [H1 [H2 [H3 [H4 [H5 [H6 [H7 [H8 H9]]]]]]]]]]]]]].
  exists body, le, nl, nlb, b', lines. repeat (split; [assumption|]).
  intros st rest [le' Hg]. apply H9. unfold reader_newline. cbn [pv_given]. rewrite Hg. reflexivity.
Qed.

(* ------------------------------------------------------------------------------------------------ *)
(* the content round trip for diffs: bytes in, bytes out (keep_bytes), no inheritance, no indentation *)

Inductive diff_enc_arg (enc bom : bytes) : wv -> Prop :=
| de_none : enc = B "ascii" -> bom = [] -> diff_enc_arg enc bom WNone
| de_str : forall e, c_enc ascii e = Some enc -> diff_enc_arg enc bom (WStr e).

Definition enc_pv (enc : bytes) (encoding : wv) : option pv :=
  match encoding with WStr _ => Some (VStr enc) | _ => None end.

Lemma ascii_name : c_enc ascii (ascii_text (B "ascii")) = Some (B "ascii").
Proof. vm_compute. reflexivity. Qed.

Lemma le_named : In GenText.le_unix GenText.line_endings_values /\ In GenText.le_dos GenText.line_endings_values.
Proof. cbv. auto. Qed.

Section DiffWithCodec.
  Variables (enc : bytes) (c : codec) (bom : bytes) (enc0 : text -> option bytes).
  Hypothesis laws : codec_laws enc c bom enc0.

  Lemma newline_bytes : forall le, In le GenText.line_endings_values ->
    exists nlb, enc0 (nl_text le) = Some nlb /\ nlb <> [] /\
                get_newline_for_type le (Some enc) = Ok nlb /\
                py_encode (nl_text le) enc = Ok (bom ++ nlb) /\
                strip_bom (bom ++ nlb) (Some enc) = nlb /\ strip_bom nlb (Some enc) = nlb.
  Proof.
    intros le Hv. destruct (le_values_facts le Hv) as [_ [_ [Hassoc _]]].
    destruct (cl_nl _ _ _ _ laws le _ (assoc_get_In _ _ _ Hassoc)) as [nlb [Hn1 [Hn2 [_ [_ [_ [Hn6 Hn7]]]]]]].
    exists nlb. repeat split; auto.
    - unfold get_newline_for_type. cbn [enc_or_ascii]. rewrite Hassoc, (py_encode_laws enc c bom enc0 laws _ _ Hn1).
      cbn [bind]. rewrite Hn6. reflexivity.
    - apply (py_encode_laws enc c bom enc0 laws). exact Hn1.
  Qed.

  Lemma guess_bytes_ok : forall b, exists le nlb,
    guess_line_endings_bytes b (Some enc) = Ok (le, nlb) /\ In le GenText.line_endings_values /\
    enc0 (nl_text le) = Some nlb.
  Proof.
    intros b. destruct le_named as [Hu Hd].
    destruct (newline_bytes _ Hu) as [nu [U1 [_ [_ [U4 [U5 _]]]]]].
    destruct (newline_bytes _ Hd) as [nd [D1 [_ [_ [D4 [D5 _]]]]]].
    unfold guess_line_endings_bytes. cbn [enc_or_ascii]. rewrite U4, D4. cbn [bind]. rewrite U5, D5.
    destruct (bfind nu b); [destruct (bends nd _)|]; eauto 6.
  Qed.
End DiffWithCodec.

Theorem diff_round_trip :
  forall enc c bom enc0, codec_laws enc c bom enc0 ->
  forall (s : wstate) (b : bytes) (lev encoding : wv),
    b <> [] -> le_arg lev -> diff_enc_arg enc bom encoding ->
    exists body le nlb lines,
      In le GenText.line_endings_values /\ enc0 (nl_text le) = Some nlb /\
      (lev = WNone -> guess_line_endings_bytes b (Some enc) = Ok (le, nlb)) /\
      (forall l, lev = WStr (ascii_text l) -> In l GenText.line_endings_values -> le = l) /\
      body = (if bends nlb b then b else b ++ nlb) /\
      split_lines body nlb true = Ok lines /\
      prepare_content s (CBytes b) WNone lev encoding false = Ok (body, WStr (ascii_text le)) /\
      forall st rest, remaining (st_stream st) = body ++ rest -> (Z.of_nat (length body) <= sys_maxsize)%Z ->
        exists st',
          read_content st (Z.of_nat (length body)) (enc_pv enc encoding) None (Some (VStr le)) true
            = COk (PBytes body) st' /\
          remaining (st_stream st') = rest /\
          st_linenum st' = (st_linenum st + Z.of_nat (length lines))%Z /\
          st_fnl st' = st_fnl st.
Proof.
  intros enc c bom enc0 laws s b lev encoding Hbne Hle Henc.
  (* the resolved line ending *)
  assert (R : exists le nlb, In le GenText.line_endings_values /\ enc0 (nl_text le) = Some nlb /\
                (lev = WNone -> guess_line_endings_bytes b (Some enc) = Ok (le, nlb)) /\
                (forall l, lev = WStr (ascii_text l) -> In l GenText.line_endings_values -> le = l)).
  { destruct Hle as [|le0 H0].
    - destruct (guess_bytes_ok enc c bom enc0 laws b) as [le [nlb [G1 [G2 G3]]]].
      exists le, nlb. repeat split; auto. intros l Hl. discriminate.
    - destruct (newline_bytes enc c bom enc0 laws le0 H0) as [nlb [N1 _]].
      exists le0, nlb. repeat split; auto; [discriminate|].
      intros l Hl Hlv. injection Hl as Hl.
      destruct (le_values_facts le0 H0) as [F1 _]. destruct (le_values_facts l Hlv) as [F2 _].
      rewrite Hl in F1. congruence. }
  destruct R as [le [nlb [Hv [Hnl [Hg Hd]]]]].
  destruct (newline_bytes enc c bom enc0 laws le Hv) as [nlb' [N1 [N2 [N3 [N4 [N5 N6]]]]]].
  rewrite Hnl in N1. injection N1 as <-.
  set (body := if bends nlb b then b else b ++ nlb).
  assert (Hbody : body <> []) by (unfold body; destruct (bends nlb b); [exact Hbne | destruct b; [congruence | discriminate]]).
  assert (Hends : bends nlb body = true).
  { unfold body. destruct (bends nlb b) eqn:E; [exact E|]. apply bends_iff. exists b. reflexivity. }
  destruct (C16_total_ok byte_eqb byte_eqb_spec body nlb true Hbody N2) as [lines Hl].
  exists body, le, nlb, lines. repeat (split; [first [reflexivity | assumption]|]). split.
  - destruct (cl_lookup _ _ _ _ laws) as [canon Hlk].
    unfold prepare_content. rewrite (is_nil_false b Hbne). cbv beta iota zeta.
    assert (E1 : (match lev with WNone => Ok true | _ => in_strset lev GenText.line_endings_values end) = Ok true).
    { destruct Hle as [|le0 H0]; [reflexivity|]. cbn [in_strset].
      destruct (le_values_facts le0 H0) as [_ [_ [_ ->]]]. reflexivity. }
    rewrite E1. cbn [bind negb]. rewrite andb_false_r. cbn [bind].
    destruct Henc as [Ha Hb0 | e He].
    + subst enc bom. cbn [wv_truthy]. cbv iota.
      destruct Hle as [|le0 H0].
      * cbn [enc_name]. rewrite ascii_name. cbn [bind]. rewrite (Hg eq_refl). cbn [bind fst snd strip_bom].
        reflexivity.
      * pose proof (Hd le0 eq_refl H0) as Hx. subst le0.
        destruct (le_values_facts le H0) as [F1 [_ [F3 _]]]. rewrite F1, F3.
        unfold encode_dyn. rewrite ascii_name, N4. cbn [bind app strip_bom]. reflexivity.
    + pose proof (encode_ascii_nonempty e enc He (lookup_nonempty enc canon c Hlk)) as Hne.
      change (wv_truthy (WStr e)) with (nonempty e). rewrite Hne. cbv iota.
      destruct Hle as [|le0 H0].
      * cbn [enc_name]. rewrite He. cbn [bind]. rewrite (Hg eq_refl). cbn [bind fst snd]. rewrite N6.
        reflexivity.
      * pose proof (Hd le0 eq_refl H0) as Hx. subst le0.
        destruct (le_values_facts le H0) as [F1 [_ [F3 _]]]. rewrite F1, F3.
        unfold encode_dyn. rewrite He, N4. cbn [bind]. rewrite N5. reflexivity.
  - intros st rest Hrem Hmax.
    destruct (sread_exact (st_stream st) body rest Hrem) as [Hs1 Hs2].
    unfold read_content. rewrite Hrem, (read_size body rest Hmax), Hs1.
    rewrite (is_nil_false body Hbody).
    cbn [pv_given].
    assert (Hnl' : get_newline_for_type le match enc_pv enc encoding with Some (VStr s0) => Some s0 | _ => None end = Ok nlb).
    { destruct Henc as [Ha Hb0 | e He]; cbn [enc_pv]; [|exact N3].
      subst enc. unfold get_newline_for_type in *. cbn [enc_or_ascii] in *. exact N3. }
    rewrite Hnl'. unfold split_lines. rewrite Hl, Hends.
    eexists. split.
    + destruct Henc; cbn [enc_pv]; reflexivity.
    + cbn [st_stream st_linenum st_fnl]. auto.
Qed.

(* ------------------------------------------------------------------------------------------------ *)
(* the same theorems with the codec abstraction hidden: everything is phrased with the model's own
   functions (py_encode, get_newline_for_type, split_lines), the only codec hypothesis is [codec_ok enc] *)

Lemma encodable_of_py_encode : forall enc c bom enc0, codec_laws enc c bom enc0 ->
  forall t x, py_encode t enc = Ok x -> exists b, enc0 t = Some b /\ x = bom ++ b.
Proof.
  intros enc c bom enc0 laws t x H. unfold py_encode in H. destruct (cl_lookup _ _ _ _ laws) as [canon Hlk].
  rewrite Hlk, (cl_enc _ _ _ _ laws) in H. destruct (enc0 t) as [b|]; [|discriminate].
  cbn in H. injection H as <-. exists b. auto.
Qed.

Theorem content_round_trip_ok :
  forall enc, codec_ok enc ->
  forall (s : wstate) (e t : text) (x : bytes) (lev indent : wv),
    c_enc ascii e = Some enc -> t <> [] -> py_encode t enc = Ok x -> le_arg lev -> indent_arg indent ->
    exists body le nl nlb y lines,
      resolve_le lev t = (le, nl) /\ In (le, nl) GenText.newline_formats /\
      get_newline_for_type le (Some enc) = Ok nlb /\
      py_encode (final_text nl t) enc = Ok y /\
      split_lines y nlb true = Ok lines /\
      body = indent_body indent y lines /\
      prepare_content s (CText t) indent lev (WStr e) true = Ok (body, WStr (ascii_text le)) /\
      forall st rest, remaining (st_stream st) = body ++ rest -> (Z.of_nat (length body) <= sys_maxsize)%Z ->
        exists st',
          read_content st (Z.of_nat (length body)) (Some (VStr enc)) (indent_pv indent) (Some (VStr le)) false
            = COk (PText (final_text nl t)) st' /\
          remaining (st_stream st') = rest /\
          st_linenum st' = (st_linenum st + Z.of_nat (length lines))%Z /\
          st_fnl st' = st_fnl st.
Proof.
  intros enc [c [bom [enc0 laws]]] s e t x lev indent He Ht Hx Hle Hind.
  destruct (encodable_of_py_encode enc c bom enc0 laws t x Hx) as [b [Hb _]].
  destruct (content_round_trip enc c bom enc0 laws s e t b lev indent He Ht Hb Hle Hind)
    as [body [le [nl [nlb [b' [lines [H1 [H2 [H3 [H4 [H5 [H6 [H7 H8]]]]]]]]]]]]].
  destruct (resolve_le_ok lev t le nl Hle H1) as [Hv [Hassoc _]].
  destruct (newline_bytes enc c bom enc0 laws le Hv) as [nlb' [N1 [_ [N3 _]]]].
  destruct (le_values_facts le Hv) as [_ [_ [Hassoc' _]]].
  assert (nl = nl_text le) by congruence. subst nl. rewrite H3 in N1. injection N1 as <-.
  exists body, le, (nl_text le), nlb, (bom ++ b'), lines.
  repeat (split; [first [assumption | apply (py_encode_laws enc c bom enc0 laws); assumption]|]).
  exact H8.
Qed.

Inductive diff_enc_ok (enc : bytes) : wv -> Prop :=
| dk_none : enc = B "ascii" -> diff_enc_ok enc WNone
| dk_str : forall e, c_enc ascii e = Some enc -> diff_enc_ok enc (WStr e).

Lemma ascii_bom_nil : forall c bom enc0, codec_laws (B "ascii") c bom enc0 -> bom = [].
Proof.
  intros c bom enc0 laws. destruct (cl_lookup _ _ _ _ laws) as [canon Hlk].
  assert (E : lookup_codec (B "ascii") = LOk (B "ascii") ascii) by (vm_compute; reflexivity).
  rewrite E in Hlk. injection Hlk as _ <-.
  pose proof (cl_enc _ _ _ _ laws []) as H. cbn [c_enc ascii enc_all] in H.
  destruct (enc0 []) as [x|]; [|discriminate]. cbn in H. injection H as H.
  symmetry in H. apply app_eq_nil in H. apply H.
Qed.

Theorem diff_round_trip_ok :
  forall enc, codec_ok enc ->
  forall (s : wstate) (b : bytes) (lev encoding : wv),
    b <> [] -> le_arg lev -> diff_enc_ok enc encoding ->
    exists body le nlb lines,
      In le GenText.line_endings_values /\
      get_newline_for_type le (Some enc) = Ok nlb /\
      (lev = WNone -> guess_line_endings_bytes b (Some enc) = Ok (le, nlb)) /\
      (forall l, lev = WStr (ascii_text l) -> In l GenText.line_endings_values -> le = l) /\
      body = (if bends nlb b then b else b ++ nlb) /\
      split_lines body nlb true = Ok lines /\
      prepare_content s (CBytes b) WNone lev encoding false = Ok (body, WStr (ascii_text le)) /\
      forall st rest, remaining (st_stream st) = body ++ rest -> (Z.of_nat (length body) <= sys_maxsize)%Z ->
        exists st',
          read_content st (Z.of_nat (length body)) (enc_pv enc encoding) None (Some (VStr le)) true
            = COk (PBytes body) st' /\
          remaining (st_stream st') = rest /\
          st_linenum st' = (st_linenum st + Z.of_nat (length lines))%Z /\
          st_fnl st' = st_fnl st.
Proof.
  intros enc [c [bom [enc0 laws]]] s b lev encoding Hb Hle Henc.
  assert (Harg : diff_enc_arg enc bom encoding).
  { destruct Henc as [Ha | e He]; [|apply de_str; exact He].
    subst enc. apply de_none; [reflexivity | apply (ascii_bom_nil c bom enc0 laws)]. }
  destruct (diff_round_trip enc c bom enc0 laws s b lev encoding Hb Hle Harg)
    as [body [le [nlb [lines [H1 [H2 [H3 [H4 [H5 [H6 [H7 H8]]]]]]]]]]].
  destruct (newline_bytes enc c bom enc0 laws le H1) as [nlb' [N1 [_ [N3 _]]]].
  rewrite H2 in N1. injection N1 as <-.
  exists body, le, nlb, lines. repeat (split; [assumption|]). exact H8.
Qed.

(* key lemma (a) at bytes, in the form quoted by props/C01.v *)
Lemma split_indent_commute :
  forall (nl d : bytes) (k : nat) (lines : list bytes),
    nl <> [] -> unbordered nl -> ~ In x20 nl -> d <> [] -> bends nl d = true ->
    split_lines d nl true = Ok lines ->
    split_lines (concat (map (app (repeat_b x20 k)) lines)) nl true = Ok (map (app (repeat_b x20 k)) lines) /\
    lines <> [] /\ concat lines = d.
Proof.
  intros nl d k lines Hn Hu Hs Hd He Hl.
  assert (Hsp : forall x, In x (repeat_b x20 k) -> ~ In x nl).
  { intros x Hx Hi. apply in_repeat_b in Hx. subst x. exact (Hs Hi). }
  destruct (split_lines_indented byte_eqb byte_eqb_spec nl d (repeat_b x20 k) lines Hn Hu Hd He Hsp Hl) as [A [B0 [C _]]].
  auto.
Qed.
