(* HeaderFacts.v — C11 (header grammar) and the header-level part of C12 (unknown options carried through)
   for the model in Header.v.  The SPEC part below is written from the property text and the format
   documentation (docs/spec/section-format.rst), not from Header.v. *)
From Coq Require Import List Arith NArith ZArith Bool Strings.Byte Lia ZifyBool.
From Coq Require Strings.String.
From DX Require Import Bytes Res Sections Header Stream Reader.
Import ListNotations.
Import String.StringSyntax.
Local Open Scope string_scope.
Local Open Scope list_scope.

(* ================================================================================================ *)
(** * Generic list lemmas: [prefixb], [split], [join], association lists *)

Lemma frev_is_rev {A} (l : list A) : frev l = rev l.
Proof. unfold frev. symmetry. apply rev_alt. Qed.

Lemma all_b_Forall {A} (f : A -> bool) (l : list A) : all_b f l = true <-> Forall (fun x => f x = true) l.
Proof.
  induction l as [|x t IH]; cbn [all_b].
  - split; auto.
  - rewrite andb_true_iff, IH. split.
    + intros [? ?]. constructor; assumption.
    + intros H. inversion H; subst. split; assumption.
Qed.

Lemma nonempty_true {A} (l : list A) : nonempty l = true <-> l <> [].
Proof. destruct l; cbn; split; intros; congruence. Qed.

Section Generic.
  Context {A : Type} (eqb : A -> A -> bool) (eqb_spec : forall a b, eqb a b = true <-> a = b).

  Lemma eqb_refl : forall a, eqb a a = true.
  Proof. intros. apply eqb_spec. reflexivity. Qed.

  Lemma eqb_false : forall a b, a <> b -> eqb a b = false.
  Proof. intros a b H. destruct (eqb a b) eqn:E; [apply eqb_spec in E; contradiction|reflexivity]. Qed.

  Lemma list_eqb_spec : forall a b, list_eqb eqb a b = true <-> a = b.
  Proof.
    induction a as [|x a IH]; destruct b as [|y b]; cbn [list_eqb]; try (split; congruence).
    rewrite andb_true_iff, eqb_spec, IH. split.
    - intros [-> ->]. reflexivity.
    - intros H. inversion H. auto.
  Qed.

  Lemma mem_In : forall x l, mem (list_eqb eqb) x l = true <-> In x l.
  Proof.
    intros x l. induction l as [|y t IH]; cbn [mem In].
    - split; [discriminate|tauto].
    - rewrite orb_true_iff, list_eqb_spec, IH. split; intros [H|H]; auto.
  Qed.

  Lemma prefixb_app : forall p l, prefixb eqb p (p ++ l) = true.
  Proof. induction p as [|x p IH]; intros; cbn; [reflexivity|]. rewrite eqb_refl, IH. reflexivity. Qed.

  Lemma prefixb_true : forall p l, prefixb eqb p l = true -> l = p ++ skipn (length p) l.
  Proof.
    induction p as [|x p IH]; intros l H; cbn in *; [reflexivity|].
    destruct l as [|y l]; [discriminate|].
    apply andb_true_iff in H. destruct H as [H1 H2]. apply eqb_spec in H1. subst y.
    cbn. f_equal. apply IH. assumption.
  Qed.

  Lemma prefixb_head_neq : forall s0 sep' x t, s0 <> x -> prefixb eqb (s0 :: sep') (x :: t) = false.
  Proof. intros. cbn. rewrite eqb_false by assumption. reflexivity. Qed.

  Lemma split_aux_skip : forall sep l cur k,
    split_aux eqb sep cur l k = split_aux eqb sep cur (skipn k l) 0.
  Proof.
    intros sep. induction l as [|x t IH]; intros cur k.
    - destruct k; reflexivity.
    - destruct k as [|k]; [reflexivity|]. cbn [split_aux skipn]. apply IH.
  Qed.

  Lemma split_aux_ne : forall sep l cur k, split_aux eqb sep cur l k <> [].
  Proof.
    intros sep. induction l as [|x t IH]; intros cur k; cbn [split_aux]; [discriminate|].
    destruct k; [|apply IH]. destruct (prefixb eqb sep (x :: t)); [discriminate|apply IH].
  Qed.

  Lemma join_cons2 : forall (sep p : list A) q, q <> [] -> join sep (p :: q) = p ++ sep ++ join sep q.
  Proof. intros sep p q H. destruct q; [congruence|reflexivity]. Qed.

  (* a separator at the head of the input closes the current piece *)
  Lemma split_aux_sep : forall sep rest cur, sep <> [] ->
    split_aux eqb sep cur (sep ++ rest) 0 = frev cur :: split_aux eqb sep [] rest 0.
  Proof.
    intros sep rest cur Hne. destruct sep as [|s0 sep']; [congruence|].
    change ((s0 :: sep') ++ rest) with (s0 :: (sep' ++ rest)).
    cbn [split_aux].
    change (s0 :: sep' ++ rest) with ((s0 :: sep') ++ rest). rewrite prefixb_app.
    f_equal. rewrite split_aux_skip. f_equal.
    cbn [length]. rewrite Nat.sub_1_r. cbn [Nat.pred].
    rewrite skipn_app, skipn_all, Nat.sub_diag. reflexivity.
  Qed.

  (* b', '.join(x.split(b', ')) == x *)
  Lemma join_split_aux : forall sep n l cur, sep <> [] -> length l <= n ->
    join sep (split_aux eqb sep cur l 0) = rev cur ++ l.
  Proof.
    intros sep n. induction n as [|n IH]; intros l cur Hne Hlen.
    - destruct l; [|cbn in Hlen; lia]. cbn. rewrite frev_is_rev, app_nil_r. reflexivity.
    - destruct l as [|x t]; [cbn; rewrite frev_is_rev, app_nil_r; reflexivity|].
      destruct (prefixb eqb sep (x :: t)) eqn:Ep.
      + apply prefixb_true in Ep. rewrite Ep. rewrite split_aux_sep by assumption.
        rewrite join_cons2 by apply split_aux_ne.
        rewrite IH; [rewrite frev_is_rev; reflexivity|assumption|].
        rewrite skipn_length. cbn [length] in *. destruct sep; [congruence|]. cbn [length]. lia.
      + cbn [split_aux]. rewrite Ep. rewrite IH; [|assumption|cbn in Hlen; lia].
        cbn [rev]. rewrite <- app_assoc. reflexivity.
  Qed.

  Lemma join_split : forall sep l, sep <> [] -> join sep (split eqb sep l) = l.
  Proof. intros. unfold split. rewrite (join_split_aux sep (length l)); auto. Qed.

  (* x.split(sep) of a join of pieces none of which contains the first element of sep *)
  Lemma split_aux_piece : forall s0 sep' p rest cur, ~ In s0 p ->
    split_aux eqb (s0 :: sep') cur (p ++ rest) 0 = split_aux eqb (s0 :: sep') (rev p ++ cur) rest 0.
  Proof.
    intros s0 sep'. induction p as [|x p IH]; intros rest cur Hn; [reflexivity|].
    change ((x :: p) ++ rest) with (x :: (p ++ rest)). cbn [split_aux].
    rewrite prefixb_head_neq by (intros ->; apply Hn; left; reflexivity).
    rewrite IH by (intros Hin; apply Hn; right; assumption).
    cbn [rev]. rewrite <- app_assoc. reflexivity.
  Qed.

  Lemma split_aux_join : forall s0 sep' ps p cur,
    Forall (fun q => ~ In s0 q) (p :: ps) ->
    split_aux eqb (s0 :: sep') cur (join (s0 :: sep') (p :: ps)) 0 = (rev cur ++ p) :: ps.
  Proof.
    intros s0 sep'. induction ps as [|q ps IH]; intros p cur HF.
    - cbn [join]. rewrite <- (app_nil_r p) at 1. rewrite split_aux_piece by (inversion HF; assumption).
      cbn [split_aux]. rewrite frev_is_rev, rev_app_distr, rev_involutive. reflexivity.
    - rewrite join_cons2 by discriminate.
      rewrite split_aux_piece by (inversion HF; assumption).
      rewrite split_aux_sep by discriminate.
      rewrite frev_is_rev, rev_app_distr, rev_involutive.
      f_equal. rewrite IH by (inversion HF; assumption). reflexivity.
  Qed.

  Lemma split_join : forall s0 sep' ps, ps <> [] -> Forall (fun q => ~ In s0 q) ps ->
    split eqb (s0 :: sep') (join (s0 :: sep') ps) = ps.
  Proof.
    intros s0 sep' ps Hne HF. destruct ps as [|p ps]; [congruence|].
    unfold split. rewrite split_aux_join by assumption. reflexivity.
  Qed.

  (* dict semantics *)
  Lemma assoc_get_set : forall {V} (k k' : A) (v : V) d,
    assoc_get eqb k (assoc_set eqb k' v d) = if eqb k k' then Some v else assoc_get eqb k d.
  Proof.
    intros V k k' v. induction d as [|[k0 v0] t IH]; cbn [assoc_set assoc_get].
    - reflexivity.
    - destruct (eqb k' k0) eqn:E0; cbn [assoc_get].
      + apply eqb_spec in E0. subst k0. destruct (eqb k k'); reflexivity.
      + rewrite IH. destruct (eqb k k0) eqn:E1; [|reflexivity].
        destruct (eqb k k') eqn:E2; [|reflexivity].
        apply eqb_spec in E1, E2. subst. rewrite eqb_refl in E0. discriminate.
  Qed.
End Generic.

Lemma byte_eqb_spec : forall a b, byte_eqb a b = true <-> a = b.
Proof. intros. unfold byte_eqb. apply Byte.eqb_eq. Qed.

Lemma beq_spec : forall a b, beq a b = true <-> a = b.
Proof. apply list_eqb_spec. exact byte_eqb_spec. Qed.
