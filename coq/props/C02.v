(* C02 — the writer emits only spec-conformant, canonical DiffX bytes.
   Property statements only; definitions, lemmas and proofs are in theories/WriterCanonFacts.v.
   Model: Writer.v (render_header, prepare_content, new_content_section, new_container_section, do_call,
   run_calls, writer_init), Header.v (sort_opts, parse_header), Json.v (dump), Bytes.v (isort, bytes_leb, text_leb).
   Spec side: HeaderFacts.spec_header / spec_key / spec_val / render_header (the header grammar, written from the
   format documentation), TextFacts.unbordered + C16 (line splitting), WriterFacts (C09: reachable states, order).

   STATUS.  Every clause of the C02 text has a theorem below.  What is NOT proved (hence the two stream-level
   theorems carry the suffix _partial):
     (a) there is no single function [spec_serialize : list call -> bytes] with [W calls = spec_serialize calls];
         instead each section is characterised piecewise: header = spec-side rendering of the unique key-sorted
         list of the non-None options (C02_header_is_spec_rendering), body = indent applied to the C16 lines of
         (encode; add BOM-free newline) (C02_preamble_call / C02_text_section_newline); the effective encoding is
         the model's own stack lookup [eff_enc] (its agreement with the nearest-declaring-ancestor rule is C04);
     (b) the header round trip covers option values None / int (below 10^4300 in absolute value, CPython's
         int<->str limit, which the reader has too) / str in the value grammar; bool option values ('%s' % True)
         and strings outside [A-Za-z0-9/._-]+ are outside it.  At call level this means: encodings must be codec
         names of the catalogue (all 1124 are in the grammar, checked by computation) and indent an int.
         NOTE (model behaviour, also true of pydiffx): new_change/new_file do not validate their encoding
         argument, so e.g. encoding='x y' is accepted and yields a header outside the grammar; C02's quantifier
         ("encodings as in C01": codec names) excludes it, and so does [call_args_good];
     (c) the indentation is characterised through the model's own [split_lines] plus its C16 properties (the lines
         concatenate to the content and each ends with the newline), not through an independent line splitter. *)
From Coq Require Import List Arith NArith ZArith Bool Strings.Byte Sorting.Sorted Sorting.Permutation.
From Coq Require Strings.String.
From DX Require Import Bytes Res Codec Text Sections Header Json Writer WriterCanonFacts.
From DX Require HeaderFacts TextFacts WriterFacts.
From DXGen Require GenSections GenText GenCodecs.
Import ListNotations.
Import String.StringSyntax.
Local Open Scope string_scope.
Local Open Scope list_scope.

(* ------------------------------------------------------------------------------------------------ *)
(* 1. "options in alphabetical order": the sort is a sort, for any total transitive order; the two
      lexicographic orders are total orders; the sorted list is unique (canonical)                    *)

Theorem C02_isort_sorted : forall {A} (leb : A -> A -> bool),
  (forall a b, leb a b = true \/ leb b a = true) ->
  (forall a b c, leb a b = true -> leb b c = true -> leb a c = true) ->
  forall l, StronglySorted (fun a b => leb a b = true) (isort leb l) /\ Permutation l (isort leb l).
Proof. exact @isort_sorted_perm. Qed.
Print Assumptions C02_isort_sorted.

Theorem C02_bytes_leb_order :
  (forall a b, bytes_leb a b = true \/ bytes_leb b a = true) /\
  (forall a b c, bytes_leb a b = true -> bytes_leb b c = true -> bytes_leb a c = true) /\
  (forall a b, bytes_leb a b = true -> bytes_leb b a = true -> a = b).
Proof. exact (conj bytes_leb_total (conj bytes_leb_trans bytes_leb_antisym)). Qed.
Print Assumptions C02_bytes_leb_order.

Theorem C02_text_leb_order :
  (forall a b, text_leb a b = true \/ text_leb b a = true) /\
  (forall a b c, text_leb a b = true -> text_leb b c = true -> text_leb a c = true) /\
  (forall a b, text_leb a b = true -> text_leb b a = true -> a = b).
Proof. exact (conj text_leb_total (conj text_leb_trans text_leb_antisym)). Qed.
Print Assumptions C02_text_leb_order.

Theorem C02_sort_opts_sorted : forall {V} (o : list (bytes * V)),
  StronglySorted (fun a b => bytes_leb (fst a) (fst b) = true) (sort_opts o).
Proof. exact @sort_opts_sorted. Qed.
Print Assumptions C02_sort_opts_sorted.

Theorem C02_sort_opts_perm : forall {V} (o : list (bytes * V)), Permutation o (sort_opts o).
Proof. exact @sort_opts_perm. Qed.
Print Assumptions C02_sort_opts_perm.

(* the rendered order does not depend on the insertion order of the options dict *)
Theorem C02_sort_opts_canonical : forall {V} (o o' : list (bytes * V)),
  Permutation o o' -> NoDup (map fst o) -> sort_opts o = sort_opts o'.
Proof. exact @sort_opts_canonical. Qed.
Print Assumptions C02_sort_opts_canonical.

(* ------------------------------------------------------------------------------------------------ *)
(* 2. the rendered header: "#" id ":" [" " k=v ", " k=v ...] LF, the pairs being exactly the non-None
      options in ascending key order, each value rendered by '%s'; everything ASCII                    *)

Theorem C02_header_shape : forall section opts h, render_header section opts = Ok h ->
  exists pairs,
    Forall2 pair_of (present (sort_opts opts)) pairs /\
    StronglySorted (fun a b => bytes_leb (fst a) (fst b) = true) (present (sort_opts opts)) /\
    Permutation (present opts) (present (sort_opts opts)) /\
    h = B "#" ++ section ++ B ":" ++ header_tail pairs ++ [x0a].
Proof. exact C02_header_canonical. Qed.
Print Assumptions C02_header_shape.

Theorem C02_header_ascii : forall section opts h, Forall ascii_byte section ->
  render_header section opts = Ok h -> Forall ascii_byte h.
Proof. exact WriterCanonFacts.C02_header_ascii. Qed.
Print Assumptions C02_header_ascii.

Example C02_header_shape_ex :
  render_header (B ".meta") ex_opts = Ok (B "#.meta: format=json, length=118" ++ [x0a]) /\
  present (sort_opts ex_opts) = [(B "format", WStr (T "json")); (B "length", WInt 118)].
Proof. split; vm_compute; reflexivity. Qed.

(* ------------------------------------------------------------------------------------------------ *)
(* 3. the header is in the spec grammar and is read back by the reader's header parser (C11)           *)

(* int(b'%d' % z) == z as the reader computes it *)
Theorem C02_decimal_round_trip : forall z, small_int z ->
  convert_value (Z_to_dec z) = VInt z /\ HeaderFacts.spec_val (Z_to_dec z).
Proof. exact decimal_round_trip. Qed.
Print Assumptions C02_decimal_round_trip.

Theorem C02_small_int_bound : forall z, (Z.abs_N z < 10 ^ 4300)%N -> small_int z.
Proof. exact small_int_bound. Qed.
Print Assumptions C02_small_int_bound.

Theorem C02_header_round_trip : forall valid dots name opts,
  dots <= 3 -> In name HeaderFacts.spec_names -> In (build_id dots name) valid ->
  NoDup (map fst opts) -> Forall good_opt opts ->
  exists line ps opts',
    render_header (build_id dots name) opts = Ok (line ++ [x0a]) /\
    ps = map spec_pair_of (present (sort_opts opts)) /\
    HeaderFacts.spec_header line dots name ps /\
    parse_header valid line = HOk dots name (build_id dots name) opts' /\
    forall k, assoc_get beq k opts' = match assoc_get beq k opts with Some v => read_back v | None => None end.
Proof. exact WriterCanonFacts.C02_header_round_trip. Qed.
Print Assumptions C02_header_round_trip.

(* whatever procedure sorts the non-None options by key, the writer's header is the spec-side rendering of it *)
Theorem C02_header_is_spec_rendering : forall dots name opts ps',
  dots <= 3 -> In name HeaderFacts.spec_names -> NoDup (map fst opts) -> Forall good_opt opts ->
  Permutation (map spec_pair_of (present opts)) ps' ->
  StronglySorted (fun a b : bytes * bytes => bytes_leb (fst a) (fst b) = true) ps' ->
  render_header (build_id dots name) opts = Ok (HeaderFacts.render_header dots name ps' ++ [x0a]) /\
  HeaderFacts.spec_header (HeaderFacts.render_header dots name ps') dots name ps'.
Proof. exact WriterCanonFacts.C02_header_is_spec_rendering. Qed.
Print Assumptions C02_header_is_spec_rendering.

(* the option keys the writer uses and the values of its choice sets (generated tables) are in the grammar;
   the choice values are not of integer form, so they are read back verbatim *)
Theorem C02_writer_keys_spec : forall k, In k writer_keys -> HeaderFacts.spec_key k.
Proof. exact writer_keys_spec. Qed.
Print Assumptions C02_writer_keys_spec.

Theorem C02_choice_values_spec : forall v, In v choice_values ->
  HeaderFacts.spec_val v /\ good_value (WStr (ascii_text v)) /\ read_back (WStr (ascii_text v)) = Some (VStr v).
Proof. exact choice_values_spec. Qed.
Print Assumptions C02_choice_values_spec.

Example C02_header_round_trip_ex :
  Forall good_opt ex_opts /\ NoDup (map fst ex_opts) /\
  parse_header [B ".meta"] (B "#.meta: format=json, length=118")
  = HOk 1 (B "meta") (B ".meta") [(B "format", VStr (B "json")); (B "length", VInt 118)].
Proof. split; [apply ex_opts_good|]. split; [apply ex_opts_good|vm_compute; reflexivity]. Qed.

(* ------------------------------------------------------------------------------------------------ *)
(* 4. "every content header carries length equal to the exact number of content bytes"                *)

Theorem C02_length_exact : forall name content le enc indent write_le inherit extra s s',
  new_content_section name content le enc indent write_le inherit extra s = (s', Ok tt) ->
  exists body le_out h,
    prepare_content s content indent le enc inherit = Ok (body, le_out) /\
    render_header (build_id (cur_level s) name) (content_opts body le_out enc indent write_le extra) = Ok h /\
    assoc_get beq (B "length") (content_opts body le_out enc indent write_le extra)
      = Some (WInt (Z.of_nat (length body))) /\
    w_out s' = w_out s ++ h ++ body /\
    w_prev s' = Some (build_id (cur_level s) name) /\
    w_stack s' = w_stack s.
Proof. exact WriterCanonFacts.C02_length_exact. Qed.
Print Assumptions C02_length_exact.

Theorem C02_length_in_header : forall name content le enc indent write_le inherit extra s s',
  new_content_section name content le enc indent write_le inherit extra s = (s', Ok tt) ->
  exists body pairs,
    w_out s' = w_out s ++ (B "#" ++ build_id (cur_level s) name ++ B ":" ++ header_tail pairs ++ [x0a]) ++ body /\
    In (B "length=" ++ Z_to_dec (Z.of_nat (length body))) pairs.
Proof. exact WriterCanonFacts.C02_length_in_header. Qed.
Print Assumptions C02_length_in_header.

(* ------------------------------------------------------------------------------------------------ *)
(* 5./6. content: encode, terminate with the BOM-free encoded newline, then indent every line          *)

(* the stages of _prepare_content in the model's order (changing the order in the model breaks this) *)
Theorem C02_prepare_content_unfold : forall s content indent le enc inherit body le_out,
  prepare_content s content indent le enc inherit = Ok (body, le_out) ->
  exists encoding1 nl0 newline_b content_b,
    eff_enc s enc inherit = Ok encoding1 /\
    choose_newline content le encoding1 = Ok (nl0, le_out) /\
    encode_newline nl0 encoding1 = Ok newline_b /\
    encode_content content encoding1 = Ok content_b /\
    (match content with CText t => is_nil t | CBytes b => is_nil b end) = false /\
    finish_content (add_newline (strip_bom newline_b (enc1_name encoding1)) content_b)
                   (strip_bom newline_b (enc1_name encoding1)) indent = Ok body.
Proof. exact prepare_content_unfold. Qed.
Print Assumptions C02_prepare_content_unfold.

Theorem C02_content_ends_with_newline : forall s content indent le enc inherit body le_out,
  prepare_content s content indent le enc inherit = Ok (body, le_out) ->
  exists encoding1 nl0 newline_b,
    eff_enc s enc inherit = Ok encoding1 /\
    choose_newline content le encoding1 = Ok (nl0, le_out) /\
    encode_newline nl0 encoding1 = Ok newline_b /\
    bends (strip_bom newline_b (enc1_name encoding1)) body = true.
Proof. exact WriterCanonFacts.C02_content_ends_with_newline. Qed.
Print Assumptions C02_content_ends_with_newline.

(* text sections: the newline is get_newline_for_type(<the line_endings value of the header>, <effective encoding>) *)
Theorem C02_text_section_newline : forall s t indent le enc inherit body le_out,
  prepare_content s (CText t) indent le enc inherit = Ok (body, le_out) ->
  exists e eb lename newline,
    eff_enc s enc inherit = Ok (WStr e) /\ c_enc ascii e = Some eb /\
    In lename (map fst GenText.newline_formats) /\
    le_out = WStr (ascii_text lename) /\ (declared_newline le <> None -> le_out = le) /\
    get_newline_for_type lename (Some eb) = Ok newline /\
    newline <> [] /\ TextFacts.unbordered newline /\
    bends newline body = true.
Proof. exact WriterCanonFacts.C02_text_section_newline. Qed.
Print Assumptions C02_text_section_newline.

Theorem C02_indent_every_line : forall s content k le enc inherit body le_out, (0 < k)%Z ->
  prepare_content s content (WInt k) le enc inherit = Ok (body, le_out) ->
  exists encoding1 nl0 newline_b content_b lines,
    eff_enc s enc inherit = Ok encoding1 /\
    choose_newline content le encoding1 = Ok (nl0, le_out) /\
    encode_newline nl0 encoding1 = Ok newline_b /\
    encode_content content encoding1 = Ok content_b /\
    let newline := strip_bom newline_b (enc1_name encoding1) in
    split_lines (add_newline newline content_b) newline true = Ok lines /\
    Forall (fun l => bends newline l = true) lines /\
    (TextFacts.unbordered newline -> concat lines = add_newline newline content_b) /\
    body = concat (map (fun l => repeat_b x20 (Z.to_nat k) ++ l) lines).
Proof. exact WriterCanonFacts.C02_indent_every_line. Qed.
Print Assumptions C02_indent_every_line.

(* diff sections: same, with the section's own encoding (diffs never inherit; none => ascii) *)
Theorem C02_bytes_section_newline : forall s b indent le enc inherit body le_out,
  prepare_content s (CBytes b) indent le enc inherit = Ok (body, le_out) ->
  exists encoding1 eb lename newline,
    eff_enc s enc inherit = Ok encoding1 /\
    (if wv_truthy encoding1 then exists e, encoding1 = WStr e /\ c_enc ascii e = Some eb else eb = B "ascii") /\
    In lename (map fst GenText.newline_formats) /\
    le_out = WStr (ascii_text lename) /\ (declared_newline le <> None -> le_out = le) /\
    get_newline_for_type lename (Some eb) = Ok newline /\
    newline <> [] /\ TextFacts.unbordered newline /\
    bends newline body = true.
Proof. exact WriterCanonFacts.C02_bytes_section_newline. Qed.
Print Assumptions C02_bytes_section_newline.

(* the whole of write_preamble(text, indent=k): from the API call to the bytes *)
Theorem C02_preamble_call : forall s t enc k le mt s', (0 < k)%Z ->
  do_call (WritePreamble (WStr t) enc (Some (WInt k)) le mt) s = (s', Ok tt) ->
  exists e eb lename newline content_b lines h,
    eff_enc s enc true = Ok (WStr e) /\ c_enc ascii e = Some eb /\
    In lename (map fst GenText.newline_formats) /\
    get_newline_for_type lename (Some eb) = Ok newline /\
    py_encode t eb = Ok content_b /\
    split_lines (add_newline newline content_b) newline true = Ok lines /\
    concat lines = add_newline newline content_b /\
    Forall (fun l => bends newline l = true) lines /\
    let body := concat (map (fun l => repeat_b x20 (Z.to_nat k) ++ l) lines) in
    render_header (build_id (cur_level s) (B "preamble"))
      (content_opts body (WStr (ascii_text lename)) enc (WInt k) true [(B "mimetype", mt)]) = Ok h /\
    w_out s' = w_out s ++ h ++ body.
Proof. exact WriterCanonFacts.C02_preamble_call. Qed.
Print Assumptions C02_preamble_call.

Example C02_prepare_content_ex :
  prepare_content ex_state (CText ex_text) (WInt 4) WNone WNone true = Ok (ex_preamble_body, WStr (T "unix")) /\
  get_newline_for_type (B "unix") (Some (B "utf-8")) = Ok [x0a] /\
  py_encode ex_text (B "utf-8") = Ok (B "Hello" ++ [x0a] ++ B "w" ++ [xc3; xb6] ++ B "rld") /\
  split_lines (B "Hello" ++ [x0a] ++ B "w" ++ [xc3; xb6] ++ B "rld" ++ [x0a]) [x0a] true
    = Ok [B "Hello" ++ [x0a]; B "w" ++ [xc3; xb6] ++ B "rld" ++ [x0a]].
Proof. repeat split; vm_compute; reflexivity. Qed.

(* ------------------------------------------------------------------------------------------------ *)
(* 7. metadata: JSON, keys sorted by code point, 4 spaces per level, "," and ": " separators, ASCII    *)

Theorem C02_sort_kb_sorted : forall kv,
  StronglySorted (fun a b => text_leb (fst a) (fst b) = true) (sort_kb kv) /\ Permutation kv (sort_kb kv).
Proof. exact sort_kb_sorted_perm. Qed.
Print Assumptions C02_sort_kb_sorted.

Theorem C02_dump_obj : forall lvl kv, kv <> [] ->
  dump lvl (JObj kv) =
  match dump_members lvl kv with
  | Ok body => Ok (B "{" ++ nl_indent (S lvl)
                     ++ join (B "," ++ nl_indent (S lvl)) (map render_member (sort_kb body))
                     ++ nl_indent lvl ++ B "}")
  | Err e => Err e
  end.
Proof. exact dump_obj. Qed.
Print Assumptions C02_dump_obj.

Theorem C02_dump_list : forall lvl l, l <> [] ->
  dump lvl (JList l) =
  match dump_items lvl l with
  | Ok body => Ok (B "[" ++ nl_indent (S lvl) ++ join (B "," ++ nl_indent (S lvl)) body ++ nl_indent lvl ++ B "]")
  | Err e => Err e
  end.
Proof. exact dump_list. Qed.
Print Assumptions C02_dump_list.

Theorem C02_json_sorted : forall kv d, kv <> [] -> json_dump (JObj kv) = Ok d ->
  exists body,
    Forall2 (fun kv kb => fst kb = fst kv /\ dump 1 (snd kv) = Ok (snd kb)) kv body /\
    StronglySorted (fun a b => text_leb (fst a) (fst b) = true) (sort_kb body) /\
    Permutation body (sort_kb body) /\
    d = B "{" ++ nl_indent 1 ++ join (B "," ++ nl_indent 1) (map render_member (sort_kb body)) ++ nl_indent 0 ++ B "}".
Proof. exact WriterCanonFacts.C02_json_sorted. Qed.
Print Assumptions C02_json_sorted.

Theorem C02_json_ascii : forall j d, floats_ascii j -> json_dump j = Ok d -> Forall ascii_byte d.
Proof. exact WriterCanonFacts.C02_json_ascii. Qed.
Print Assumptions C02_json_ascii.

(* the whole of write_meta(dict): canonical JSON, encoded in the effective encoding, LF-terminated.
   RESTATED for the fixed write_meta (`if not (encoding or self._cur_encoding): content = content.encode('ascii')`):
   the previous statement concluded for every accepted call that the effective encoding is a str [e]
   (`eff_enc s enc true = Ok (WStr e)`) whose codec encodes the JSON text.  That is false of the fixed writer
   (C02_meta_call_old_refuted below): with no encoding in force, e.g. DiffXWriter(encoding=None).write_meta({..}),
   the call is now accepted and writes the pure-ASCII JSON bytes as they are, terminated by the ASCII LF.
   True is the case split on the truthiness of the effective encoding [ce]: truthy = the old conclusion. *)
Theorem C02_meta_call : forall s kv enc fmt s',
  do_call (WriteMeta (WDict (JObj kv)) enc fmt) s = (s', Ok tt) ->
  exists d ce body fmtv h,
    kv <> [] /\ json_dump (JObj kv) = Ok d /\
    eff_enc s enc true = Ok ce /\
    ((wv_truthy ce = true /\
      exists e eb cb newline,
        ce = WStr e /\ c_enc ascii e = Some eb /\
        py_encode (ascii_text d) eb = Ok cb /\
        get_newline_for_type GenText.le_unix (Some eb) = Ok newline /\
        body = add_newline newline cb)
     \/
     (wv_truthy ce = false /\
      exists newline,
        get_newline_for_type GenText.le_unix None = Ok newline /\
        body = add_newline newline d)) /\
    render_header (build_id (cur_level s) (B "meta"))
      (content_opts body (WStr (ascii_text GenText.le_unix)) enc WNone false [(B "format", fmtv)]) = Ok h /\
    w_out s' = w_out s ++ h ++ body.
Proof. exact WriterCanonFacts.C02_meta_call. Qed.
Print Assumptions C02_meta_call.

(* the previous statement is refuted: a reachable state and an accepted write_meta with effective encoding None *)
Theorem C02_meta_call_old_refuted :
  exists s kv enc fmt s',
    WriterFacts.reachable s /\
    do_call (WriteMeta (WDict (JObj kv)) enc fmt) s = (s', Ok tt) /\
    eff_enc s enc true = Ok WNone /\
    ~ (exists e, eff_enc s enc true = Ok (WStr e)).
Proof. exact WriterCanonFacts.C02_meta_call_old_refuted. Qed.
Print Assumptions C02_meta_call_old_refuted.

Example C02_json_ex : json_dump ex_json = Ok ex_json_bytes /\ floats_ascii ex_json.
Proof. split; [vm_compute; reflexivity|exact ex_floats_ascii]. Qed.

(* ------------------------------------------------------------------------------------------------ *)
(* 8. "one of the nine legal section ids in an order the section hierarchy allows"                     *)

Theorem C02_ids_legal : forall s c s', WriterFacts.reachable s -> do_call c s = (s', Ok tt) ->
  exists p dots name pairs rest,
    w_prev s = Some p /\ In p WriterFacts.ids /\
    WriterFacts.target s c = build_id dots name /\ dots <= 3 /\ In name HeaderFacts.spec_names /\
    In (WriterFacts.target s c) WriterFacts.ids /\
    In (WriterFacts.target s c) (WriterFacts.table p) /\
    w_prev s' = Some (WriterFacts.target s c) /\
    w_out s' = w_out s ++ (B "#" ++ WriterFacts.target s c ++ B ":" ++ header_tail pairs ++ [x0a]) ++ rest.
Proof. exact WriterCanonFacts.C02_ids_legal. Qed.
Print Assumptions C02_ids_legal.

Example C02_nine_ids : length WriterFacts.ids = 9 /\ NoDup WriterFacts.ids.
Proof. exact nine_ids. Qed.

(* ------------------------------------------------------------------------------------------------ *)
(* 9./10. call level and whole streams                                                                 *)

(* the constructor's header *)
Theorem C02_init_header : forall enc ver s0 valid,
  writer_init enc ver = (s0, Ok tt) -> enc_good enc -> In (B "diffx") valid ->
  exists line ps opts',
    w_out s0 = line ++ [x0a] /\
    HeaderFacts.spec_header line 0 (B "diffx") ps /\
    StronglySorted (fun a b : bytes * bytes => bytes_leb (fst a) (fst b) = true) ps /\
    parse_header valid line = HOk 0 (B "diffx") (B "diffx") opts' /\
    assoc_get beq (B "version") opts' = Some (VStr GenText.writer_version) /\
    assoc_get beq (B "encoding") opts' = read_back enc.
Proof. exact WriterCanonFacts.C02_init_header. Qed.
Print Assumptions C02_init_header.

(* every accepted call: one header line in the spec grammar with sorted options, accepted by the reader's header
   parser exactly where the hierarchy table says, whose length option is the number of bytes that follow *)
Theorem C02_call_header_parses : forall s c s',
  WriterFacts.reachable s -> do_call c s = (s', Ok tt) -> call_args_good c ->
  (N.of_nat (length (w_out s')) < 10 ^ 4300)%N ->
  exists p dots name line ps opts' body,
    w_prev s = Some p /\ WriterFacts.target s c = build_id dots name /\
    w_out s' = w_out s ++ (line ++ [x0a]) ++ body /\
    HeaderFacts.spec_header line dots name ps /\
    StronglySorted (fun a b : bytes * bytes => bytes_leb (fst a) (fst b) = true) ps /\
    parse_header (WriterFacts.table p) line = HOk dots name (WriterFacts.target s c) opts' /\
    ((body = [] /\ assoc_get beq (B "length") opts' = None) \/
     assoc_get beq (B "length") opts' = Some (VInt (Z.of_nat (length body)))).
Proof. exact WriterCanonFacts.C02_call_header_parses. Qed.
Print Assumptions C02_call_header_parses.

(* whole call sequences, accepted and rejected calls mixed: every accepted call contributes one legal section
   (unconditional), rejected calls contribute nothing *)
Theorem C02_stream_ids_legal_partial : forall cs s, WriterFacts.reachable s ->
  trace section_legal s cs (snd (run_calls s cs)).
Proof. exact WriterCanonFacts.C02_stream_ids_legal. Qed.
Print Assumptions C02_stream_ids_legal_partial.

(* ... and with codec-name encodings and int indents every header of the stream parses (see STATUS (a)-(c)) *)
Theorem C02_stream_headers_parse_partial : forall cs s, WriterFacts.reachable s -> Forall call_args_good cs ->
  trace section_parses s cs (snd (run_calls s cs)).
Proof. exact WriterCanonFacts.C02_stream_headers_parse. Qed.
Print Assumptions C02_stream_headers_parse_partial.

(* a concrete run: DiffXWriter(encoding='utf-8'); write_preamble('Hello\nwörld', indent=4, mimetype='text/plain');
   write_meta({'zeta': 3, 'alpha': [True, None]}) — both calls accepted, the bytes literally *)
Example C02_run_ex :
  WriterFacts.reachable ex_state /\ Forall call_args_good ex_calls /\
  map fst (fst (run_calls ex_state ex_calls)) = [Ok tt; Ok tt] /\
  w_out (snd (run_calls ex_state ex_calls)) = ex_stream.
Proof. exact ex_run. Qed.

Example C02_enc_good_ex : enc_good (WStr (T "utf-16")) /\ enc_good WNone.
Proof. exact ex_enc_good. Qed.

(* OBSERVATION (outside the quantifier of C02, which takes encodings from the codec catalogue): new_change /
   new_file do not validate their encoding argument.  The call new_change(encoding='x y') is accepted and writes a
   header that is not in the header grammar and that the reader's header parser rejects.  pydiffx behaves the same. *)
Example C02_container_encoding_unvalidated_ex :
  exists s',
    do_call ex_bad_container_call ex_state = (s', Ok tt) /\
    w_out s' = w_out ex_state ++ B "#.change: encoding=x y" ++ [x0a] /\
    parse_header (WriterFacts.table (B "diffx")) (B "#.change: encoding=x y") = HErr None /\
    ~ call_args_good ex_bad_container_call.
Proof. exact ex_bad_container. Qed.
