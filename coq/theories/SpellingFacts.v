(* SpellingFacts.v — C15: facts about every row of the regenerated codec catalogue, by computation. *)
From Coq Require Import List Arith NArith Bool Strings.Byte.
From Coq Require Strings.String.
From DX Require Import Bytes Res Codec Text.
From DXGen Require GenText GenCodecs.
Import ListNotations.
Import String.StringSyntax.
Local Open Scope string_scope.
Local Open Scope list_scope.

Import GenCodecs.

(* what the library computes from what CPython's str.encode returned for this spelling *)
Definition lib_newline (r : codec_row) (dos : bool) : bytes :=
  strip_bom (if dos then cr_crlf r else cr_lf r) (Some (cr_spelling r)).

Definition row_ok (r : codec_row) : bool :=
  negb (cr_stateless r) ||
  (beq (lib_newline r false) (cr_lf_mid r) && beq (lib_newline r true) (cr_crlf_mid r)).

Lemma rows_ok : forallb row_ok rows = true.
Proof. vm_compute. reflexivity. Qed.

(* spellings of one codec agree on the BOM-free newline bytes (a fact about CPython recorded in the catalogue) *)
Definition same_codec_same_newline (r1 r2 : codec_row) : bool :=
  negb (beq (cr_canonical r1) (cr_canonical r2)) || negb (cr_stateless r1) || negb (cr_stateless r2) ||
  (beq (cr_lf_mid r1) (cr_lf_mid r2) && beq (cr_crlf_mid r1) (cr_crlf_mid r2)).

Lemma rows_consistent : forallb (fun r1 => forallb (same_codec_same_newline r1) rows) rows = true.
Proof. vm_compute. reflexivity. Qed.

Lemma row_count_ok : length rows = row_count.
Proof. vm_compute. reflexivity. Qed.

Theorem rows_newline :
  forall r, In r rows -> cr_stateless r = true ->
    lib_newline r false = cr_lf_mid r /\ lib_newline r true = cr_crlf_mid r.
Proof.
  intros r Hin Hs.
  pose proof (proj1 (forallb_forall row_ok rows) rows_ok r Hin) as H.
  unfold row_ok in H. rewrite Hs in H. cbn [negb orb] in H.
  apply andb_true_iff in H. destruct H as [H1 H2].
  (* beq reflects equality *)
  assert (Hb : forall a b : bytes, beq a b = true -> a = b).
  { induction a as [|x a IH]; destruct b as [|y b]; cbn; intros E; try discriminate; auto.
    apply andb_true_iff in E. destruct E as [E1 E2]. apply Byte.byte_dec_bl in E1. f_equal; auto. }
  split; apply Hb; assumption.
Qed.

Theorem spelling_independent :
  forall r1 r2, In r1 rows -> In r2 rows -> cr_stateless r1 = true -> cr_stateless r2 = true ->
    cr_canonical r1 = cr_canonical r2 ->
    lib_newline r1 false = lib_newline r2 false /\ lib_newline r1 true = lib_newline r2 true.
Proof.
  intros r1 r2 H1 H2 S1 S2 Hc.
  destruct (rows_newline r1 H1 S1) as [A1 B1]. destruct (rows_newline r2 H2 S2) as [A2 B2].
  rewrite A1, A2, B1, B2.
  pose proof (proj1 (forallb_forall _ rows) rows_consistent r1 H1) as H.
  pose proof (proj1 (forallb_forall _ rows) H r2 H2) as H'.
  unfold same_codec_same_newline in H'. rewrite S1, S2, Hc in H'.
  assert (Hb : forall a b : bytes, beq a b = true -> a = b).
  { induction a as [|x a IH]; destruct b as [|y b]; cbn; intros E; try discriminate; auto.
    apply andb_true_iff in E. destruct E as [E1 E2]. apply Byte.byte_dec_bl in E1. f_equal; auto. }
  assert (Hr : beq (cr_canonical r2) (cr_canonical r2) = true).
  { clear. induction (cr_canonical r2) as [|x l IH]; cbn; auto. apply andb_true_iff; split; auto.
    apply Byte.byte_dec_lb. reflexivity. }
  rewrite Hr in H'. cbn [negb orb] in H'. apply andb_true_iff in H'. destruct H' as [E1 E2].
  split; apply Hb; assumption.
Qed.

(* the Gallina codecs the extracted model runs agree with the catalogue on the newline, for every spelling of theirs *)
Definition model_row_ok (r : codec_row) : bool :=
  match lookup_codec (cr_spelling r) with
  | LOk _ _ =>
      (match get_newline_for_type GenText.le_unix (Some (cr_spelling r)) with Ok b => beq b (cr_lf_mid r) | Err _ => false end) &&
      (match get_newline_for_type GenText.le_dos (Some (cr_spelling r)) with Ok b => beq b (cr_crlf_mid r) | Err _ => false end)
  | _ => true
  end.
Lemma model_rows_ok : forallb model_row_ok rows = true.
Proof. vm_compute. reflexivity. Qed.

(* L4 of DESIGN (C01): no newline pattern contains 0x20, so indenting after encoding creates and destroys no newline *)
Definition no_space (b : bytes) : bool := negb (existsb (fun x => byte_eqb x x20) b).
Lemma newlines_have_no_space :
  forallb (fun r => negb (cr_stateless r) || (no_space (cr_lf_mid r) && no_space (cr_crlf_mid r))) rows = true.
Proof. vm_compute. reflexivity. Qed.
