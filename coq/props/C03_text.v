(* C03, file level, with well-formedness stated on TEXTS — for files whose text sections use only the codecs whose
   LF is one byte and which are ASCII-transparent (ascii, latin-1, utf-8, utf-8-sig: the "aligned" codecs).

   [wf_file] (theories/SpecReader.v, props/C03_spec.v) contains, for a text section, three clauses on the RENDERED
   BYTES that exist because byte-level newline search is unsound in UTF-16/32 (finding D16, misaligned newline
   bytes): [lines_clean], the detection half of [le_ok], and the byte-order-mark look-alike clause.  For an aligned
   codec each of them is EQUAL to a condition on the code points of the section's lines
   (theories/SpecReaderText.v):

     lines_clean            <->  no line contains the newline text of its kind
                                   unix:  no line contains LF (U+000A)
                                   dos:   no line contains CR LF (a bare LF, a bare CR, a final CR are all allowed:
                                          "x\r" ++ "\r\n" contains CR LF once, [occurrences] counts positions)
     le_ok, detection half  <->  the first LF of the text is preceded by CR (dos) / is not (unix)
                                 -- pydiffx's guess_line_endings on str ([C03_text_detect_is_guess])
     BOM clause             <->  the section is written with the codec's mark, or the codec writes none (of the
                                 aligned codecs only utf-8-sig writes one), or the text does not begin with U+FEFF.
                                 No per-codec case distinction is needed on texts: for ascii / latin-1 / utf-8 the
                                 clause is vacuous already in [wf_file], because [enc_bom c = []]
                                 ([C03_text_bom_cases]); so the clause is stated on texts for all four codecs and
                                 nothing is kept byte-level.

   [wf_file_text] is [wf_file] with these replacements, plus: every text section's effective encoding is aligned.
   What is still said about bytes, because it is about bytes: [encodable] (every line is in the codec's repertoire)
   and [length_ok] (the length option is the number of content bytes).  Sections with no encoding in force, and
   diffs, keep their clauses.

   Result: [wf_file_text f = aligned_file f && wf_file f]  (so it implies [wf_file], and is exactly [wf_file] on the
   class [aligned_file]), and C03 for that class with a text-level hypothesis.  The restriction to aligned codecs is
   necessary: [C03_text_utf16_refuted]. *)
From Coq Require Import List Arith NArith ZArith Bool Strings.Byte Lia.
From Coq Require Strings.String.
From DX Require Import Bytes Res Codec Text Sections Header Stream Json Reader SectionsSpec
                       SpecReader SpecReaderExamples SpecReaderText.
From DX Require RoundTripStep.
Import ListNotations.
Import String.StringSyntax.
Local Open Scope string_scope.
Local Open Scope list_scope.

(* ---- the theorem ---- *)

(* Hypotheses: the file is well-formed in the text-level sense; the json.loads oracle answers, for the text of every
   metadata section, with the value the AST gives it; the chunk size is positive; the file is not larger than
   sys.maxsize bytes. *)
Theorem C03_reads_spec_text : forall f orc chunk,
  wf_file_text f = true -> oracle_ok_file orc f -> 0 < chunk ->
  (Z.of_nat (length (render_file f)) <= sys_maxsize)%Z ->
  read_all orc chunk (render_file f) = (spec_records f, TEnd).
Proof. exact SpecReaderText.C03_reads_spec_text. Qed.
Print Assumptions C03_reads_spec_text.

(* ---- wf_file_text against wf_file ---- *)

Theorem C03_text_exact : forall f, wf_file_text f = aligned_file f && wf_file f.
Proof. exact SpecReaderText.wf_file_text_eq. Qed.
Print Assumptions C03_text_exact.

Theorem C03_text_sound : forall f, wf_file_text f = true -> wf_file f = true.
Proof. exact SpecReaderText.wf_file_text_wf. Qed.
Print Assumptions C03_text_sound.

Theorem C03_text_complete : forall f, aligned_file f = true -> wf_file f = true -> wf_file_text f = true.
Proof. exact SpecReaderText.wf_file_wf_text. Qed.
Print Assumptions C03_text_complete.

(* ---- the three clauses, one by one: for every spelling [eb] of an aligned codec [c] ---- *)

(* the allowed spellings are those of RoundTripStep.aligned_b (C01 / C06: codecs for which the newline guess is
   always right) *)
Theorem C03_text_aligned_is : forall eb, aligned_enc eb = RoundTripStep.aligned_b eb.
Proof. exact SpecReaderText.aligned_enc_is_aligned_b. Qed.
Print Assumptions C03_text_aligned_is.

(* [lines_clean] on the encoded pieces (the first one after the section's mark) = no line contains its newline *)
Theorem C03_text_lines_clean : forall eb c k t ls, aligned_enc eb = true -> codec_of eb = Some c ->
  forallb (encodable c (le_text k)) ls = true ->
  lines_clean (nl_bytes c k) (text_pieces c (le_text k) (tc_mark c t) ls) = forallb (line_clean_text k) ls.
Proof. exact SpecReaderText.aligned_lines_clean. Qed.
Print Assumptions C03_text_lines_clean.

(* what [line_clean_text] says, in the terms of [lines_clean]: the newline text occurs in line ++ newline once *)
Theorem C03_text_line_clean_occ : forall k l,
  Nat.eqb (occurrences N.eqb (le_text k) (l ++ le_text k)) 1 = line_clean_text k l.
Proof. exact SpecReaderText.line_clean_text_occ. Qed.
Print Assumptions C03_text_line_clean_occ.

(* first-line detection on the rendered, indented body = detection on the text *)
Theorem C03_text_detect : forall eb c k t ind ls, aligned_enc eb = true -> codec_of eb = Some c ->
  ls <> [] -> forallb (encodable c (le_text k)) ls = true ->
  detect_kind (nl_bytes c LUnix) (nl_bytes c LDos) (text_body c (le_text k) (tc_mark c t) ind ls)
  = detect_kind_text (concat (map (fun l => l ++ le_text k) ls)).
Proof. exact SpecReaderText.aligned_detect. Qed.
Print Assumptions C03_text_detect.

(* ... which is guess_line_endings(str) of pydiffx/utils/text.py (Text.guess_line_endings_text) *)
Theorem C03_text_detect_is_guess : forall t, fst (guess_line_endings_text t) = le_name (detect_kind_text t).
Proof. exact SpecReaderText.detect_kind_text_guess. Qed.
Print Assumptions C03_text_detect_is_guess.

(* the byte-order-mark clause *)
Theorem C03_text_bom : forall eb c (bomflag : bool) nl ls, aligned_enc eb = true -> codec_of eb = Some c ->
  forallb (encodable c nl) ls = true ->
  (bomflag || is_nil (enc_bom c) || negb (starts_with_bom (concat (map (enc_line c nl) ls))))
  = (bomflag || is_nil (enc_bom c) || negb (starts_feff (concat (map (fun l => l ++ nl) ls)))).
Proof. exact SpecReaderText.aligned_bom_clause. Qed.
Print Assumptions C03_text_bom.

Theorem C03_text_bom_cases : forall eb c, aligned_enc eb = true -> codec_of eb = Some c ->
  enc_bom c = [] \/ enc_bom c = bom8.
Proof. exact SpecReaderText.aligned_bom_cases. Qed.
Print Assumptions C03_text_bom_cases.

(* ---- Example: SpecReaderText.tx_file ----
   utf-8 main encoding; an indented .preamble with U+E9, U+20AC, U+1F600, line endings not declared (unix detected),
   a later line ending in CR; a .meta with non-ASCII JSON; a .change in latin-1 whose preamble declares dos endings
   and has a bare LF inside a line, U+FF, a line ending in CR; a ..meta in utf-8-sig written without its mark, dos
   endings detected; a two-line ...meta inheriting latin-1; a diff. *)
Example C03_text_ex_wf : wf_file_text tx_file = true.
Proof. vm_compute. reflexivity. Qed.

Example C03_text_ex_oracle : oracle_ok_file tx_orc tx_file.
Proof. unfold oracle_ok_file. repeat constructor. Qed.

Example C03_text_ex_read : forall chunk, 0 < chunk ->
  read_all tx_orc chunk (render_file tx_file) = (spec_records tx_file, TEnd).
Proof.
  intros chunk Hc. apply C03_reads_spec_text.
  - exact C03_text_ex_wf.
  - exact C03_text_ex_oracle.
  - exact Hc.
  - vm_compute. discriminate.
Qed.

(* the readings: payloads and logical lines; and the same by running the model *)
Example C03_text_ex_records :
  map r_payload (spec_records tx_file) =
    [ PNone;
      PText (asc "caf" ++ [233; 10; 8364; 128512] ++ asc " ok" ++ [10] ++ asc "x" ++ [13; 10])%N;
      PMeta (JObj [(asc "k", JStr [233; 8364]%N)]);
      PNone;
      PText (asc "a" ++ [10] ++ asc "b" ++ [233; 13; 10; 255] ++ asc "c" ++ [13; 13; 10])%N;
      PMeta (JObj []);
      PNone;
      PMeta (JObj []);
      PBytes (B "-a" ++ [x0a] ++ B "+b" ++ [x0a]) ] /\
  map r_line (spec_records tx_file) = [0; 1; 5; 7; 8; 11; 13; 14; 17]%Z /\
  read_all tx_orc 96 (render_file tx_file) = (spec_records tx_file, TEnd) /\
  read_all tx_orc 1 (render_file tx_file) = (spec_records tx_file, TEnd).
Proof. repeat split; vm_compute; reflexivity. Qed.

(* the text-level conditions are not vacuous (files of SpecReaderExamples, utf-8): a unix text whose first line ends
   in CR with undeclared line endings (detection says dos) is rejected, declared it is accepted; a line containing
   its newline, a wrong length are rejected *)
Example C03_text_ex_not_vacuous :
  wf_file_text sx_bad_detect = false /\ wf_file_text sx_good_declared = true /\
  wf_file_text sx_bad_clean = false /\ wf_file_text sx_bad_length = false /\
  (* the examples of props/C03_spec.v: sx_foreign (utf-8, utf-8-sig with mark, latin-1) is in the class,
     sx_mixed (utf-16 sections) is not *)
  wf_file_text sx_foreign = true /\ aligned_file sx_mixed = false.
Proof. repeat split; vm_compute; reflexivity. Qed.

(* a dos line may end in CR, contain a bare LF or a bare CR, but not CR LF; a unix line may contain CR, not LF *)
Example C03_text_ex_lines :
  line_clean_text LDos (asc "a" ++ [13]%N) = true /\ line_clean_text LDos (asc "a" ++ [10]%N ++ asc "b") = true /\
  line_clean_text LDos (asc "a" ++ [13; 10]%N ++ asc "b") = false /\
  line_clean_text LUnix (asc "a" ++ [13]%N ++ asc "b") = true /\ line_clean_text LUnix (asc "a" ++ [10]%N) = false /\
  detect_kind_text (asc "a" ++ [13; 10]%N ++ asc "b" ++ [10]%N) = LDos /\
  detect_kind_text (asc "a" ++ [10]%N ++ asc "b" ++ [13; 10]%N) = LUnix /\
  detect_kind_text (asc "ab") = LUnix.
Proof. repeat split; vm_compute; reflexivity. Qed.

(* ---- why the restriction to aligned codecs: UTF-16 ----
   SpecReaderText.tx_utf16: one unix line U+0A41 U+4100 under utf-16-le, line endings declared, correct length.
   Its bytes are 41 0A 00 41 (+ 0A 00): the encoded LF (0A 00) also occurs at offset 1, across the two characters.
   Every text-level clause holds ([wf_file_text_any]: [wf_file_text] without the restriction on the encoding; the
   line contains no LF), the byte-level [lines_clean] does not, [wf_file] is false -- and rightly so: the reader
   splits the content at the misaligned newline and counts two lines, so the next section is reported on logical
   line 4 where the specification says 3.  The implication [text-level clauses -> wf_file], and the conclusion of
   C03 itself, fail outside the aligned class. *)
Theorem C03_text_utf16_refuted :
  exists f, wf_file_text_any f = true /\ wf_file f = false /\ aligned_file f = false /\
            exists orc chunk, 0 < chunk /\ oracle_ok_file orc f /\
                              read_all orc chunk (render_file f) <> (spec_records f, TEnd).
Proof. exact SpecReaderText.utf16_refuted. Qed.
Print Assumptions C03_text_utf16_refuted.

Example C03_text_utf16_detail :
  let l := [0x0A41; 0x4100]%N in
  line_clean_text LUnix l = true /\
  enc_line utf16le [10%N] l = [x41; x0a; x00; x41; x0a; x00] /\ nl_bytes utf16le LUnix = [x0a; x00] /\
  lines_clean (nl_bytes utf16le LUnix) (text_pieces utf16le [10%N] [] [l]) = false /\
  map r_line (spec_records tx_utf16) = [0; 1; 3]%Z /\
  map r_line (fst (read_all [] 96 (render_file tx_utf16))) = [0; 1; 4]%Z /\
  map r_payload (fst (read_all [] 96 (render_file tx_utf16))) = map r_payload (spec_records tx_utf16).
Proof. cbv zeta. repeat split; vm_compute; reflexivity. Qed.
