(* C19 — typed attributes, structural equality.  Statements only; proofs are in theories/DomFacts.v.
   Vocabulary (DomFacts.v): [typed_ok ty choices v]: v has the declared type and, when a non-empty choice list is
   declared, is one of the choices; [psec_upd/msec_upd/dsec_upd s s' v]: s' is s with its content, or exactly one of
   its declared options, replaced by v; [dopts_same] = same key set and wv_eq-equal values under every key;
   [tree_same] = same shape and section by section dopts_same options and equal contents;
   [tree_unique/tree_wf/tree_clean/tree_strict]: conditions on model values (unique dict keys — always true of
   Python dicts —, no unserialisable/foreign value, no boolean); [opt_put_at]/[meta_put_at] are DomOps' raw
   section.options[k] = v and obj.meta[k] = v.
   VERDICTS: C19_set_* , C19_ctor_* , C19_eq_refl/sym/strict_iff, C19_perturb_* : full.
             "equal trees serialise to identical bytes": REFUTED (three witnesses), C19_eq_bytes_partial proved. *)
From Coq Require Import List Arith NArith ZArith Bool Strings.Byte.
From Coq Require Strings.String.
From DX Require Import Bytes Res Json Reader Writer Dom DomOps DomFacts.
From DXGen Require GenText.
Import ListNotations.
Import String.StringSyntax.
Local Open Scope string_scope.
Local Open Scope list_scope.

(* ---- assigning through a typed attribute ---- *)
Theorem C19_set_option : forall o name ty choices v o', set_option o name ty choices v = Ok o' ->
  typed_ok ty choices v /\ o' = assoc_set beq name v o.
Proof. exact DomFacts.C19_set_option. Qed.
Print Assumptions C19_set_option.
Theorem C19_typed_ok_def : forall ty choices v,
  typed_ok ty choices v <->
  has_type ty v = true /\ forall cs, choices = Some cs -> cs <> [] -> exists c, In c cs /\ v = WStr (ascii_text c).
Proof. intros; reflexivity. Qed.
Print Assumptions C19_typed_ok_def.
Theorem C19_set_option_accepts : forall o name ty choices v,
  has_type ty v = true -> (forall cs, choices = Some cs -> in_choices v cs) ->
  set_option o name ty choices v = Ok (assoc_set beq name v o).
Proof. exact DomFacts.C19_set_option_accepts. Qed.
Print Assumptions C19_set_option_accepts.

(* on success exactly one option (or the content) of exactly one section is replaced, by a value of the declared type *)
Theorem C19_set_ok_file : forall f name v f', set_file_attr f name v = Ok f' ->
  (typed_ok TStr None v /\ f' = {| f_opts := assoc_set beq (B "encoding") v (f_opts f); f_meta := f_meta f; f_diff := f_diff f |}) \/
  (exists m', msec_upd (f_meta f) m' v /\ f' = {| f_opts := f_opts f; f_meta := m'; f_diff := f_diff f |}) \/
  (exists d', dsec_upd (f_diff f) d' v /\ f' = {| f_opts := f_opts f; f_meta := f_meta f; f_diff := d' |}).
Proof. exact DomFacts.C19_set_ok_file. Qed.
Print Assumptions C19_set_ok_file.
Theorem C19_set_ok_change : forall c name v c', set_change_attr c name v = Ok c' ->
  c_files c' = c_files c /\
  ((typed_ok TStr None v /\
    c' = {| c_opts := assoc_set beq (B "encoding") v (c_opts c); c_pre := c_pre c; c_meta := c_meta c; c_files := c_files c |}) \/
   (exists m', msec_upd (c_meta c) m' v /\ c' = {| c_opts := c_opts c; c_pre := c_pre c; c_meta := m'; c_files := c_files c |}) \/
   (exists p', psec_upd (c_pre c) p' v /\ c' = {| c_opts := c_opts c; c_pre := p'; c_meta := c_meta c; c_files := c_files c |})).
Proof. exact DomFacts.C19_set_ok_change. Qed.
Print Assumptions C19_set_ok_change.
Theorem C19_set_ok_tree : forall t name v t', set_tree_attr t name v = Ok t' ->
  d_changes t' = d_changes t /\
  ((exists k ty ch, (k = B "encoding" /\ ty = TStr /\ ch = None \/ k = B "version" /\ ty = TStr /\ ch = Some GenText.versions) /\
      typed_ok ty ch v /\
      t' = {| d_opts := assoc_set beq k v (d_opts t); d_pre := d_pre t; d_meta := d_meta t; d_changes := d_changes t |}) \/
   (exists m', msec_upd (d_meta t) m' v /\ t' = {| d_opts := d_opts t; d_pre := d_pre t; d_meta := m'; d_changes := d_changes t |}) \/
   (exists p', psec_upd (d_pre t) p' v /\ t' = {| d_opts := d_opts t; d_pre := p'; d_meta := d_meta t; d_changes := d_changes t |})).
Proof. exact DomFacts.C19_set_ok_tree. Qed.
Print Assumptions C19_set_ok_tree.
(* the three section-level update relations spelled out *)
Theorem C19_sec_upd_def : forall v,
  (forall s s', psec_upd s s' v <->
     (exists t, v = WStr t /\ s' = {| p_opts := p_opts s; p_content := Some t |}) \/
     (exists k ty ch, psec_attr k = Some (ty, ch) /\ typed_ok ty ch v /\
                      (k = B "indent" -> exists z, v = WInt z /\ (0 <= z)%Z) /\
                      s' = {| p_opts := assoc_set beq k v (p_opts s); p_content := p_content s |})) /\
  (forall s s', msec_upd s s' v <->
     (exists kv, v = WDict (JObj kv) /\ s' = {| m_opts := m_opts s; m_content := kv |}) \/
     (exists k ty ch, msec_attr k = Some (ty, ch) /\ typed_ok ty ch v /\
                      s' = {| m_opts := assoc_set beq k v (m_opts s); m_content := m_content s |})) /\
  (forall s s', dsec_upd s s' v <->
     (exists b, v = WBytes b /\ s' = {| x_opts := x_opts s; x_content := Some b |}) \/
     (exists k ty ch, dsec_attr k = Some (ty, ch) /\ typed_ok ty ch v /\
                      s' = {| x_opts := assoc_set beq k v (x_opts s); x_content := x_content s |})).
Proof. intros; repeat split; intros; auto. Qed.
Print Assumptions C19_sec_upd_def.
(* at a path inside a tree: only the addressed change / file is touched *)
Theorem C19_set_ok_at : forall p name v t t', set_at p name v t = Some (Ok t') ->
  match p with
  | PMain => set_tree_attr t name v = Ok t'
  | PChange ci =>
      d_opts t' = d_opts t /\ d_pre t' = d_pre t /\ d_meta t' = d_meta t /\ length (d_changes t') = length (d_changes t) /\
      (forall j, j <> ci -> nth_error (d_changes t') j = nth_error (d_changes t) j) /\
      exists c c', nth_error (d_changes t) ci = Some c /\ nth_error (d_changes t') ci = Some c' /\ set_change_attr c name v = Ok c'
  | PFile ci fi =>
      d_opts t' = d_opts t /\ d_pre t' = d_pre t /\ d_meta t' = d_meta t /\ length (d_changes t') = length (d_changes t) /\
      (forall j, j <> ci -> nth_error (d_changes t') j = nth_error (d_changes t) j) /\
      exists c c', nth_error (d_changes t) ci = Some c /\ nth_error (d_changes t') ci = Some c' /\
        c_opts c' = c_opts c /\ c_pre c' = c_pre c /\ c_meta c' = c_meta c /\ length (c_files c') = length (c_files c) /\
        (forall j, j <> fi -> nth_error (c_files c') j = nth_error (c_files c) j) /\
        exists f f', nth_error (c_files c) fi = Some f /\ nth_error (c_files c') fi = Some f' /\ set_file_attr f name v = Ok f'
  end.
Proof. exact DomFacts.C19_set_ok_at. Qed.
Print Assumptions C19_set_ok_at.
Example C19_set_ok_ex :
  set_tree_attr new_tree (B "meta_format") (S_ "json") =
    Ok {| d_opts := d_opts new_tree; d_pre := d_pre new_tree;
          d_meta := {| m_opts := assoc_set beq (B "format") (S_ "json") (m_opts new_msec); m_content := [] |};
          d_changes := [] |} /\
  set_tree_attr new_tree (B "version") (S_ "2.0") = Err ELibChoice /\
  set_tree_attr new_tree (B "encoding") (WInt 3) = Err ELibOptionValue /\
  set_tree_attr new_tree (B "preamble_indent") (WBool true) = Err ELibOptionValue.
Proof. repeat split; vm_compute; reflexivity. Qed.

(* a rejected assignment — and any failing operation — leaves every tree unchanged *)
Theorem C19_set_err : forall orc ts i p name v ts' e, run_op orc ts (OSet i p name v) = (ts', RExc e) -> ts' = ts.
Proof. exact DomFacts.C19_set_err. Qed.
Print Assumptions C19_set_err.
Theorem C19_ctor_err : forall orc ts ts' e,
  (forall i attrs, run_op orc ts (OAddChange i attrs) = (ts', RExc e) -> ts' = ts) /\
  (forall i ci attrs, run_op orc ts (OAddFile i ci attrs) = (ts', RExc e) -> ts' = ts) /\
  (forall attrs, run_op orc ts (ONew attrs) = (ts', RExc e) -> ts' = ts).
Proof. exact DomFacts.C19_ctor_err. Qed.
Print Assumptions C19_ctor_err.
Theorem C19_ctor_raises : forall orc ts i t attrs e, nth_error ts i = Some t ->
  apply_attrs set_change_attr new_change attrs = Err e -> e <> EIndex ->
  run_op orc ts (OAddChange i attrs) = (ts, RExc e).
Proof. exact DomFacts.C19_ctor_raises. Qed.
Print Assumptions C19_ctor_raises.

(* unknown constructor attributes are rejected *)
Theorem C19_attr_names_def :
  change_attr_names = [B "encoding"; B "meta"; B "meta_encoding"; B "meta_format"; B "preamble"; B "preamble_encoding";
                       B "preamble_indent"; B "preamble_line_endings"; B "preamble_mimetype"] /\
  file_attr_names = [B "encoding"; B "meta"; B "meta_encoding"; B "meta_format"; B "diff"; B "diff_encoding";
                     B "diff_line_endings"; B "diff_type"] /\
  tree_attr_names = B "version" :: change_attr_names.
Proof. repeat split. Qed.
Print Assumptions C19_attr_names_def.
Theorem C19_ctor_unknown : forall pre k v post,
  (forall c1, apply_attrs set_change_attr new_change pre = Ok c1 -> ~ In k change_attr_names ->
              apply_attrs set_change_attr new_change (pre ++ (k, v) :: post) = Err ELibUnknownOption) /\
  (forall f1, apply_attrs set_file_attr new_file pre = Ok f1 -> ~ In k file_attr_names ->
              apply_attrs set_file_attr new_file (pre ++ (k, v) :: post) = Err ELibUnknownOption) /\
  (forall t1, apply_attrs set_tree_attr new_tree pre = Ok t1 -> ~ In k tree_attr_names ->
              apply_attrs set_tree_attr new_tree (pre ++ (k, v) :: post) = Err ELibUnknownOption).
Proof. exact DomFacts.C19_ctor_unknown. Qed.
Print Assumptions C19_ctor_unknown.
Theorem C19_ctor_names : forall attrs c, apply_attrs set_change_attr new_change attrs = Ok c ->
  forall k, In k (map fst attrs) -> In k change_attr_names.
Proof. exact DomFacts.C19_ctor_names. Qed.
Print Assumptions C19_ctor_names.
Example C19_ctor_unknown_ex :
  apply_attrs set_change_attr new_change [(B "encoding", S_ "utf-8"); (B "bogus", WInt 1)] = Err ELibUnknownOption /\
  apply_attrs set_change_attr new_change [(B "meta_content", WDict (JObj []))] = Err ELibUnknownOption /\
  snd (run_op [] [new_tree] (OAddChange 0 [(B "bogus", WInt 1)])) = RExc ELibUnknownOption /\
  fst (run_op [] [new_tree] (OAddChange 0 [(B "bogus", WInt 1)])) = [new_tree].
Proof. repeat split; vm_compute; reflexivity. Qed.

(* ---- structural equality ---- *)
Theorem C19_eq_refl : forall t, tree_clean t = true -> tree_eq t t = true.
Proof. exact DomFacts.C19_eq_refl. Qed.
Print Assumptions C19_eq_refl.
Theorem C19_eq_sym : forall a b, tree_wf a = true -> tree_wf b = true -> tree_eq a b = tree_eq b a.
Proof. exact DomFacts.C19_eq_sym. Qed.
Print Assumptions C19_eq_sym.
(* two trees compare equal exactly when they have the same shape and, section by section, equal options and content *)
Theorem C19_eq_strict_iff : forall a b, tree_unique a = true -> tree_unique b = true ->
  (tree_eq a b = true <-> tree_same a b).
Proof. exact DomFacts.C19_eq_strict_iff. Qed.
Print Assumptions C19_eq_strict_iff.
Theorem C19_tree_same_def : forall a b,
  tree_same a b <->
  dopts_same (d_opts a) (d_opts b) /\
  (dopts_same (p_opts (d_pre a)) (p_opts (d_pre b)) /\ p_content (d_pre a) = p_content (d_pre b)) /\
  (dopts_same (m_opts (d_meta a)) (m_opts (d_meta b)) /\ json_eq (JObj (m_content (d_meta a))) (JObj (m_content (d_meta b))) = true) /\
  Forall2 (fun ca cb =>
     dopts_same (c_opts ca) (c_opts cb) /\
     (dopts_same (p_opts (c_pre ca)) (p_opts (c_pre cb)) /\ p_content (c_pre ca) = p_content (c_pre cb)) /\
     (dopts_same (m_opts (c_meta ca)) (m_opts (c_meta cb)) /\ json_eq (JObj (m_content (c_meta ca))) (JObj (m_content (c_meta cb))) = true) /\
     Forall2 (fun fa fb =>
        dopts_same (f_opts fa) (f_opts fb) /\
        (dopts_same (m_opts (f_meta fa)) (m_opts (f_meta fb)) /\ json_eq (JObj (m_content (f_meta fa))) (JObj (m_content (f_meta fb))) = true) /\
        (dopts_same (x_opts (f_diff fa)) (x_opts (f_diff fb)) /\ x_content (f_diff fa) = x_content (f_diff fb)))
       (c_files ca) (c_files cb))
    (d_changes a) (d_changes b).
Proof. intros; reflexivity. Qed.
Print Assumptions C19_tree_same_def.
Theorem C19_dopts_same_def : forall a b,
  dopts_same a b <->
  (forall k, In k (map fst a) <-> In k (map fst b)) /\
  (forall k v w, assoc_get beq k a = Some v -> assoc_get beq k b = Some w -> wv_eq v w = true).
Proof. intros; reflexivity. Qed.
Print Assumptions C19_dopts_same_def.
(* Python's dict == dict on metadata means the same, one level at a time *)
Theorem C19_json_obj_eq : forall x y, NoDup (map fst x) -> NoDup (map fst y) ->
  (json_eq (JObj x) (JObj y) = true <->
   (forall k, In k (map fst x) <-> In k (map fst y)) /\
   (forall k v w, assoc_get teq k x = Some v -> assoc_get teq k y = Some w -> json_eq v w = true)).
Proof. intros x y Nx Ny. rewrite json_eq_obj. exact (dict_eqb_iff teq teq_eq json_eq x y Nx Ny). Qed.
Print Assumptions C19_json_obj_eq.
Example C19_eq_ex : tree_clean ex_tree = true /\ tree_wf ex_tree_perm = true /\ tree_unique ex_tree = true /\
  tree_eq ex_tree ex_tree_perm = true /\ ex_tree <> ex_tree_perm.
Proof. repeat split; try (vm_compute; reflexivity). discriminate. Qed.

(* changing any single option or content anywhere makes the trees unequal *)
Theorem C19_perturb_option : forall p s k new t t' o,
  opt_put_at p s k new t = Some (Ok t') -> opts_at p s t = Some o ->
  match assoc_get beq k o with Some old => wv_eq old new = false | None => True end -> tree_eq t t' = false.
Proof. exact DomFacts.C19_perturb_option. Qed.
Print Assumptions C19_perturb_option.
Theorem C19_perturb_meta : forall p k new t t' m,
  meta_put_at p k new t = Some (Ok t') -> meta_at p t = Some m ->
  match assoc_get teq k m with Some old => json_eq old new = false | None => True end -> tree_eq t t' = false.
Proof. exact DomFacts.C19_perturb_meta. Qed.
Print Assumptions C19_perturb_meta.
Theorem C19_perturb_preamble : forall p txt t t' old,
  set_at p (B "preamble") (WStr txt) t = Some (Ok t') -> pre_at p t = Some old -> old <> Some txt -> tree_eq t t' = false.
Proof. exact DomFacts.C19_perturb_preamble. Qed.
Print Assumptions C19_perturb_preamble.
Theorem C19_perturb_diff : forall p b t t' old,
  set_at p (B "diff") (WBytes b) t = Some (Ok t') -> diff_at p t = Some old -> old <> Some b -> tree_eq t t' = false.
Proof. exact DomFacts.C19_perturb_diff. Qed.
Print Assumptions C19_perturb_diff.
Theorem C19_perturb_typed_main : forall t name v t' k,
  set_tree_attr t name v = Ok t' -> (name = B "encoding" \/ name = B "version") -> k = name ->
  match assoc_get beq k (d_opts t) with Some old => wv_eq old v = false | None => True end -> tree_eq t t' = false.
Proof. exact DomFacts.C19_perturb_typed_main. Qed.
Print Assumptions C19_perturb_typed_main.
Example C19_perturb_ex : exists t',
  opt_put_at (PFile 0 1) SDiff (B "type") (S_ "text") ex_tree = Some (Ok t') /\ tree_eq ex_tree t' = false /\
  exists t'', meta_put_at (PFile 0 0) (skey "path") (JStr (skey "z")) ex_tree = Some (Ok t'') /\ tree_eq ex_tree t'' = false.
Proof. eexists. split; [vm_compute; reflexivity|]. split; [vm_compute; reflexivity|]. eexists. split; vm_compute; reflexivity. Qed.

(* ---- equal trees serialise to identical bytes: REFUTED in general ---- *)
Theorem C19_eq_bytes_refuted : exists a b ba bb,
  tree_eq a b = true /\ dom_write a = Ok ba /\ dom_write b = Ok bb /\ ba <> bb.
Proof. exact DomFacts.C19_eq_bytes_refuted. Qed.
Print Assumptions C19_eq_bytes_refuted.
(* the witness: metadata {"a": 1} against {"a": True} *)
Example C19_eq_bytes_refuted_witness :
  tree_eq (wit_meta (JInt 1)) (wit_meta (JBool true)) = true /\
  dom_write (wit_meta (JInt 1)) <> dom_write (wit_meta (JBool true)) /\
  (exists b, dom_write (wit_meta (JInt 1)) = Ok b) /\ (exists b, dom_write (wit_meta (JBool true)) = Ok b).
Proof.
  split; [vm_compute; reflexivity|]. split; [vm_compute; discriminate|].
  split; eexists; vm_compute; reflexivity.
Qed.
(* the same through a raw option (indent = True against 1) and, without any boolean, through the order of raw keys *)
Example C19_eq_bytes_refuted_option_witness :
  tree_eq (wit_pre (WInt 1)) (wit_pre (WBool true)) = true /\ dom_write (wit_pre (WInt 1)) <> dom_write (wit_pre (WBool true)).
Proof. split; [vm_compute; reflexivity | vm_compute; discriminate]. Qed.
Example C19_eq_bytes_refuted_order_witness :
  let a := wit_order [(B "type", S_ "text"); (B "diff_type", S_ "binary")] in
  let b := wit_order [(B "diff_type", S_ "binary"); (B "type", S_ "text")] in
  tree_eq a b = true /\ dom_write a <> dom_write b /\ (exists x, dom_write a = Ok x) /\ (exists x, dom_write b = Ok x).
Proof.
  split; [vm_compute; reflexivity|]. split; [vm_compute; discriminate|].
  split; eexists; vm_compute; reflexivity.
Qed.

(* PARTIAL: it holds when no boolean / unserialisable / foreign value sits in options or metadata and no meta/diff
   options dict holds both a key and the name the DOM writer renames it to (tree_strict).  Nothing else is missing:
   the three refutations above are exactly the three ways of violating tree_strict with Python-realisable values. *)
Theorem C19_eq_bytes_partial : forall a b, tree_strict a = true -> tree_strict b = true ->
  tree_eq a b = true -> dom_write a = dom_write b.
Proof. exact DomFacts.C19_eq_bytes_partial. Qed.
Print Assumptions C19_eq_bytes_partial.
Theorem C19_tree_strict_def : forall t,
  tree_strict t = tree_all opts_strict (fun m => json_strict (JObj m)) t && tree_remap_ok t.
Proof. intros; reflexivity. Qed.
Print Assumptions C19_tree_strict_def.
(* json.dumps(sort_keys=True) of == values without booleans is the same text *)
Theorem C19_json_dump_invariant : forall a b, json_strict a = true -> json_strict b = true -> json_eq a b = true ->
  forall lvl, dump lvl a = dump lvl b.
Proof. exact json_dump_eq_invariant. Qed.
Print Assumptions C19_json_dump_invariant.
Example C19_eq_bytes_partial_ex :
  tree_strict ex_tree = true /\ tree_strict ex_tree_perm = true /\ tree_eq ex_tree ex_tree_perm = true /\
  ex_tree <> ex_tree_perm /\ exists b, dom_write ex_tree = Ok b /\ dom_write ex_tree_perm = Ok b.
Proof.
  split; [vm_compute; reflexivity|]. split; [vm_compute; reflexivity|]. split; [vm_compute; reflexivity|].
  split; [discriminate|]. eexists. split; vm_compute; reflexivity.
Qed.
