(* Encodings.v — property C04: encoding inheritance follows nesting (nearest ancestor wins, siblings never leak).

   Part 1  abstract nesting histories, the specification by tree position, the two stack machines
           (one polymorphic [stack_step] is shared by the abstract machines and by the bridge lemmas).
   Part 2  theorems about the machines for histories of any length.
   Part 3  bridge to Writer.v (new_container_section / prepare_content / do_call / run_calls).
   Part 4  bridge to Reader.v (iter_step). *)
From Coq Require Import List Arith NArith ZArith Bool Lia Strings.Byte.
From Coq Require Strings.String.
From DX Require Import Bytes Res Codec Text Sections Header Stream Json Reader Writer.
From DXGen Require GenSections GenText.
Import ListNotations.
Import String.StringSyntax.
Local Open Scope string_scope.
Local Open Scope list_scope.

(* ================================================================================================= *)
(* Part 1: definitions                                                                                *)
(* ================================================================================================= *)

(* "declared value, else the fallback": Python's  [options.get('encoding', top)]  /  [encoding or top] *)
Definition orelse {E} (a b : option E) : option E := match a with Some _ => a | None => b end.

(* One container transition of either implementation, polymorphic in the type X of stack entries.
   The stack is kept top first.  [cur_level + 1 - level] entries are popped (IndexError = None when the
   stack runs out), then [decl] is pushed if there is one, else a copy of the new top. *)
Definition stack_push {X} (decl : option X) (stk : list X) : option (list X) :=
  match stk with
  | [] => None
  | t :: _ => Some (match decl with Some d => d | None => t end :: stk)
  end.

Definition stack_step {X} (cur_level level : nat) (decl : option X) (stk : list X) : option (list X) :=
  match pop_n (cur_level + 1 - level) stk with
  | None => None
  | Some stk' => stack_push decl stk'
  end.

Section Abstract.
  Context {E : Type}.

  (* a nesting history: what follows the main header *)
  Inductive transition := TChange (e : option E) | TFile (e : option E).
  Definition history := list transition.

  Definition decl (t : transition) : option E := match t with TChange e | TFile e => e end.
  Definition is_change (t : transition) : bool := match t with TChange _ => true | TFile _ => false end.
  Definition is_file (t : transition) : bool := negb (is_change t).
  Definition set_decl (t : transition) (e : option E) : transition :=
    match t with TChange _ => TChange e | TFile _ => TFile e end.

  (* a file is always inside a change: the first transition is a change *)
  Fixpoint ordered_from (in_change : bool) (h : history) : bool :=
    match h with
    | [] => true
    | TChange _ :: r => ordered_from true r
    | TFile _ :: r => in_change && ordered_from true r
    end.
  Definition ordered (h : history) : Prop := ordered_from false h = true.

  (* ---- the specification, by tree position ----
     [rh] is a history reversed (most recent first).  The change enclosing a file is the most recent
     change opened before it. *)
  Fixpoint enclosing_change (rh : history) : option E :=
    match rh with
    | [] => None
    | TChange e :: _ => e
    | TFile _ :: r => enclosing_change r
    end.

  (* The current container is the last transition.  A change's only ancestor is main; a file's ancestors
     are its enclosing change and main.  Nearest declaration wins; main's own declaration may be None. *)
  Definition spec_effective (e0 : option E) (h : history) : option E :=
    match rev h with
    | [] => e0
    | TChange e :: _ => orelse e e0
    | TFile e :: r => orelse e (orelse (enclosing_change r) e0)
    end.

  (* effective encodings along the current path, innermost first (main last) *)
  Definition path_stack (e0 : option E) (h : history) : list (option E) :=
    match rev h with
    | [] => [e0]
    | TChange e :: _ => [orelse e e0; e0]
    | TFile e :: r => [orelse e (orelse (enclosing_change r) e0); orelse (enclosing_change r) e0; e0]
    end.

  Definition depth (h : history) : nat :=
    match rev h with [] => 0 | TChange _ :: _ => 1 | TFile _ :: _ => 2 end.

  (* ---- positions: the current path as indices into the history ----
     Left-to-right scan: opening a change closes the previous change and its current file; opening a
     file closes the previous file of the same change.  A node is (index, declaration). *)
  Definition node := (nat * option E)%type.
  Fixpoint locate (i : nat) (chg fil : option node) (h : history) : option node * option node :=
    match h with
    | [] => (chg, fil)
    | TChange e :: r => locate (S i) (Some (i, e)) None r
    | TFile e :: r => locate (S i) chg (Some (i, e)) r
    end.
  Definition oidx (n : option node) : list nat := match n with Some (i, _) => [i] | None => [] end.
  Definition odecl (n : option node) : option E := match n with Some (_, e) => e | None => None end.

  (* indices of the current container and of its enclosing change (ancestors-or-self other than main) *)
  Definition cur_path (h : history) : list nat :=
    let (c, f) := locate 0 None None h in oidx f ++ oidx c.

  (* ---- the writer's machine: levels main=1 change=2 file=3, cur_level = len(stack) - 1 ---- *)
  Definition dopt (e : option E) : option (option E) := match e with Some a => Some (Some a) | None => None end.
  Definition wlevel (t : transition) : nat := match t with TChange _ => 2 | TFile _ => 3 end.
  Definition wstate_a := option (list (option E)).      (* None: IndexError *)
  Definition wstep (s : wstate_a) (t : transition) : wstate_a :=
    match s with
    | None => None
    | Some stk => stack_step (length stk - 1) (wlevel t) (dopt (decl t)) stk
    end.
  (* __init__: stack = [encoding]; then the main container at level 1 with the same encoding *)
  Definition winit (e0 : option E) : wstate_a := stack_step (length [e0] - 1) 1 (dopt e0) [e0].
  Definition wrun (e0 : option E) (h : history) : wstate_a := fold_left wstep h (winit e0).
  Definition wtop (s : wstate_a) : option (option E) := match s with Some (t :: _) => Some t | _ => None end.

  (* ---- the reader's machine: levels main=0 change=1 file=2, state = (stack, prev_container_level) ---- *)
  Definition rlevel (t : transition) : nat := match t with TChange _ => 1 | TFile _ => 2 end.
  Definition rstate_a := option (list (option E) * nat).
  Definition rstep (s : rstate_a) (t : transition) : rstate_a :=
    match s with
    | None => None
    | Some (stk, prev) =>
        match stack_step prev (rlevel t) (dopt (decl t)) stk with
        | Some stk' => Some (stk', rlevel t)
        | None => None
        end
    end.
  (* encodings = [None]; prev_container_level = 0; the main header pushes without popping *)
  Definition rinit (e0 : option E) : rstate_a :=
    match stack_push (dopt e0) [None] with Some stk => Some (stk, 0) | None => None end.
  Definition rrun (e0 : option E) (h : history) : rstate_a := fold_left rstep h (rinit e0).
  Definition rtop (s : rstate_a) : option (option E) := match s with Some (t :: _, _) => Some t | _ => None end.

  (* ---- the reader BEFORE the fix in /repo (commit "reader pops one encoding per container level left"):
          if level <= prev_container_level: encodings.pop()   -- at most one entry ---- *)
  Definition rstep_old (s : rstate_a) (t : transition) : rstate_a :=
    match s with
    | None => None
    | Some (stk, prev) =>
        match pop_n (if rlevel t <=? prev then 1 else 0) stk with
        | None => None
        | Some stk1 =>
            match stack_push (dopt (decl t)) stk1 with
            | Some stk' => Some (stk', rlevel t)
            | None => None
            end
        end
    end.
  Definition rrun_old (e0 : option E) (h : history) : rstate_a := fold_left rstep_old h (rinit e0).

  (* ---- content sections ---- *)
  Definition content_encoding (own eff : option E) : option E := match own with Some v => Some v | None => eff end.
  Definition diff_encoding (own : option E) : option E := own.

  (* ================================================================================================= *)
  (* Part 2: theorems                                                                                   *)
  (* ================================================================================================= *)

  Lemma ordered_from_snoc : forall h b t,
    ordered_from b (h ++ [t]) = ordered_from b h && (is_change t || b || nonempty h).
  Proof.
    induction h as [|x h IH]; intros b t.
    - destruct t; cbn; destruct b; reflexivity.
    - destruct x; cbn [app ordered_from nonempty].
      + rewrite IH. destruct (ordered_from true h), (is_change t), b; reflexivity.
      + rewrite IH. destruct (ordered_from true h), (is_change t), b; reflexivity.
  Qed.

  Lemma ordered_snoc : forall h t, ordered (h ++ [t]) -> ordered h /\ (is_change t = true \/ h <> []).
  Proof.
    unfold ordered. intros h t H. rewrite ordered_from_snoc in H.
    apply andb_true_iff in H. destruct H as [H1 H2]. split; [exact H1|].
    rewrite orb_false_r in H2. apply orb_true_iff in H2. destruct H2 as [H2|H2]; [left; exact H2|].
    right. destruct h; [discriminate|discriminate].
  Qed.

  Lemma spec_effective_head : forall e0 h, hd_error (path_stack e0 h) = Some (spec_effective e0 h).
  Proof.
    intros. unfold path_stack, spec_effective. destruct (rev h) as [|[e|e] r]; reflexivity.
  Qed.

  (* the invariant: the stack is the list of effective encodings along the current path, above the
     constructor's entry (writer) / the None sentinel (reader) *)
  Lemma wrun_invariant : forall e0 h, ordered h -> wrun e0 h = Some (path_stack e0 h ++ [e0]).
  Proof.
    intros e0 h. induction h as [|t h IH] using rev_ind; intros Ho.
    - unfold wrun, winit, path_stack. cbn. destruct e0; reflexivity.
    - apply ordered_snoc in Ho. destruct Ho as [Ho Hne]. specialize (IH Ho).
      unfold wrun in *. rewrite fold_left_app. cbn [fold_left]. rewrite IH.
      unfold path_stack, depth. rewrite rev_unit.
      destruct (rev h) as [|[e'|e'] r] eqn:Hr.
      + (* directly under main *)
        destruct t as [e|e].
        * cbn. destruct e; reflexivity.
        * exfalso. destruct Hne as [Hc|Hn]; [discriminate|].
          apply Hn. rewrite <- (rev_involutive h), Hr. reflexivity.
      + destruct t as [e|e]; cbn; destruct e; reflexivity.
      + destruct t as [e|e]; cbn; destruct e; reflexivity.
  Qed.

  Lemma rrun_invariant : forall e0 h, ordered h -> rrun e0 h = Some (path_stack e0 h ++ [None], depth h).
  Proof.
    intros e0 h. induction h as [|t h IH] using rev_ind; intros Ho.
    - unfold rrun, rinit, path_stack. cbn. destruct e0; reflexivity.
    - apply ordered_snoc in Ho. destruct Ho as [Ho Hne]. specialize (IH Ho).
      unfold rrun in *. rewrite fold_left_app. cbn [fold_left]. rewrite IH.
      unfold path_stack, depth. rewrite rev_unit.
      destruct (rev h) as [|[e'|e'] r] eqn:Hr.
      + destruct t as [e|e].
        * cbn. destruct e; reflexivity.
        * exfalso. destruct Hne as [Hc|Hn]; [discriminate|].
          apply Hn. rewrite <- (rev_involutive h), Hr. reflexivity.
      + destruct t as [e|e]; cbn; destruct e; reflexivity.
      + destruct t as [e|e]; cbn; destruct e; reflexivity.
  Qed.

  Theorem C04_writer_thm : forall e0 h, ordered h -> wtop (wrun e0 h) = Some (spec_effective e0 h).
  Proof.
    intros e0 h Ho. rewrite (wrun_invariant e0 h Ho).
    pose proof (spec_effective_head e0 h) as Hh.
    destruct (path_stack e0 h); cbn in *; [discriminate|exact Hh].
  Qed.

  Theorem C04_reader_thm : forall e0 h, ordered h -> rtop (rrun e0 h) = Some (spec_effective e0 h).
  Proof.
    intros e0 h Ho. rewrite (rrun_invariant e0 h Ho).
    pose proof (spec_effective_head e0 h) as Hh.
    destruct (path_stack e0 h); cbn in *; [discriminate|exact Hh].
  Qed.

  Theorem C04_agree_thm : forall e0 h, ordered h -> wtop (wrun e0 h) = rtop (rrun e0 h).
  Proof. intros. rewrite C04_writer_thm, C04_reader_thm by assumption. reflexivity. Qed.

  (* the two stacks agree entry for entry above their bottom entries, and neither ever underflows *)
  Theorem C04_stacks_agree : forall e0 h, ordered h ->
    exists p, wrun e0 h = Some (p ++ [e0]) /\ rrun e0 h = Some (p ++ [None], length p - 1) /\
              hd_error p = Some (spec_effective e0 h).
  Proof.
    intros e0 h Ho. exists (path_stack e0 h).
    rewrite wrun_invariant, rrun_invariant by assumption. repeat split.
    - f_equal. f_equal. unfold path_stack, depth. destruct (rev h) as [|[e|e] r]; reflexivity.
    - apply spec_effective_head.
  Qed.

  (* ---- positions ---- *)
  Lemma locate_app : forall h1 h2 i c f,
    locate i c f (h1 ++ h2) = let (c', f') := locate i c f h1 in locate (i + length h1) c' f' h2.
  Proof.
    induction h1 as [|t h1 IH]; intros.
    - cbn. rewrite Nat.add_0_r. reflexivity.
    - destruct t; cbn [app locate length]; rewrite IH; rewrite <- plus_n_Sm; reflexivity.
  Qed.

  (* the specification restated over the located nodes *)
  Lemma locate_rev : forall h,
    let (c, f) := locate 0 None None h in
    odecl c = enclosing_change (rev h) /\
    match rev h with
    | [] => c = None /\ f = None
    | TChange e :: _ => c = Some (length h - 1, e) /\ f = None
    | TFile e :: _ => f = Some (length h - 1, e)
    end.
  Proof.
    induction h as [|t h IH] using rev_ind.
    - cbn. auto.
    - rewrite locate_app. destruct (locate 0 None None h) as [c f].
      rewrite rev_unit, app_length. cbn [length]. replace (length h + 1 - 1) with (0 + length h) by lia.
      destruct IH as [IH1 IH2]. destruct t as [e|e]; cbn; auto.
  Qed.

  Lemma spec_effective_locate : forall e0 h,
    spec_effective e0 h = let (c, f) := locate 0 None None h in
                          match f with
                          | Some (_, e) => orelse e (orelse (odecl c) e0)
                          | None => orelse (odecl c) e0
                          end.
  Proof.
    intros e0 h. pose proof (locate_rev h) as H. unfold spec_effective.
    revert H. destruct (locate 0 None None h) as [c f].
    destruct (rev h) as [|[e|e] r]; cbn [enclosing_change]; intros [H1 H2].
    - destruct H2; subst. reflexivity.
    - destruct H2; subst. reflexivity.
    - subst f. rewrite H1. reflexivity.
  Qed.

  Lemma locate_has_change : forall h i c f c' f',
    existsb is_change h = true -> locate i c f h = locate i c' f' h.
  Proof.
    induction h as [|t h IH]; intros i c f c' f' H; [discriminate|].
    destruct t; cbn in *; [reflexivity|]. apply IH. exact H.
  Qed.

  Lemma locate_all_files : forall h i c f, forallb is_file h = true -> fst (locate i c f h) = c.
  Proof.
    induction h as [|t h IH]; intros i c f H; [reflexivity|].
    destruct t; cbn in *; [discriminate|]. apply IH. exact H.
  Qed.

  Lemma files_or_change : forall h : history, forallb is_file h = true \/ existsb is_change h = true.
  Proof.
    induction h as [|t h IH]; [left; reflexivity|].
    destruct t; cbn; [right; reflexivity|exact IH].
  Qed.

  (* Changing the declaration of a container that is not on the current path changes nothing. *)
  Theorem C04_no_leak_thm : forall e0 h1 t h2 e',
    ~ In (length h1) (cur_path (h1 ++ t :: h2)) ->
    spec_effective e0 (h1 ++ set_decl t e' :: h2) = spec_effective e0 (h1 ++ t :: h2).
  Proof.
    intros e0 h1 t h2 e' Hn. rewrite !spec_effective_locate.
    unfold cur_path in Hn. rewrite locate_app in Hn. rewrite !locate_app.
    destruct (locate 0 None None h1) as [c f]. cbn [plus] in *.
    destruct t as [e|e]; cbn [set_decl locate] in *.
    - destruct (files_or_change h2) as [Hf|Hc].
      + exfalso. apply Hn.
        pose proof (locate_all_files h2 (S (length h1)) (Some (length h1, e)) None Hf) as Hl.
        destruct (locate (S (length h1)) (Some (length h1, e)) None h2) as [c2 f2]. cbn in Hl. subst c2.
        apply in_or_app. right. left. reflexivity.
      + rewrite (locate_has_change h2 _ (Some (length h1, e')) None (Some (length h1, e)) None Hc). reflexivity.
    - destruct h2 as [|x h2].
      + exfalso. apply Hn. cbn. left. reflexivity.
      + destruct x; reflexivity.
  Qed.
End Abstract.

Arguments transition : clear implicits.
Arguments history : clear implicits.

(* ---- more about positions: which positions are on the current path ---- *)
Section Positions.
  Context {E : Type}.
  Notation transition := (transition E).
  Notation history := (history E).

  Lemma locate_fst_bounds : forall (h : history) i c f,
    fst (locate i c f h) = c \/ exists j e, fst (locate i c f h) = Some (j, e) /\ i <= j < i + length h.
  Proof.
    induction h as [|t h IH]; intros i c f; [cbn; auto|].
    destruct t as [e|e]; cbn [locate length].
    - destruct (IH (S i) (Some (i, e)) None) as [H1|[j [e1 [H1 Hj]]]].
      + right. exists i, e. split; [exact H1|lia].
      + right. exists j, e1. split; [exact H1|lia].
    - destruct (IH (S i) c (Some (i, e))) as [H1|[j [e1 [H1 Hj]]]].
      + left. exact H1.
      + right. exists j, e1. split; [exact H1|lia].
  Qed.

  Lemma locate_snd_bounds : forall (h : history) i c f,
    snd (locate i c f h) = f \/ snd (locate i c f h) = None \/
    exists j e, snd (locate i c f h) = Some (j, e) /\ i <= j < i + length h.
  Proof.
    induction h as [|t h IH]; intros i c f; [cbn; auto|].
    destruct t as [e|e]; cbn [locate length].
    - destruct (IH (S i) (Some (i, e)) None) as [H2|[H2|[j2 [e2 [H2 Hj2]]]]].
      + right. left. exact H2.
      + right. left. exact H2.
      + right. right. exists j2, e2. split; [exact H2|lia].
    - destruct (IH (S i) c (Some (i, e))) as [H2|[H2|[j2 [e2 [H2 Hj2]]]]].
      + right. right. exists i, e. split; [exact H2|lia].
      + right. left. exact H2.
      + right. right. exists j2, e2. split; [exact H2|lia].
  Qed.

  Lemma locate_bounds : forall (h : history) i c f,
    (fst (locate i c f h) = c \/ exists j e, fst (locate i c f h) = Some (j, e) /\ i <= j < i + length h) /\
    (snd (locate i c f h) = f \/ snd (locate i c f h) = None \/
     exists j e, snd (locate i c f h) = Some (j, e) /\ i <= j < i + length h).
  Proof. intros. split; [apply locate_fst_bounds|apply locate_snd_bounds]. Qed.

  (* A position is on the current path iff it is the current container (nothing follows), or it is a
     change and only files follow (then it encloses the current file). *)
  Lemma cur_path_char : forall (h1 : history) t h2,
    In (length h1) (cur_path (h1 ++ t :: h2)) <->
    h2 = [] \/ (is_change t = true /\ forallb is_file h2 = true).
  Proof.
    intros h1 t h2. unfold cur_path. rewrite locate_app.
    pose proof (locate_bounds h1 0 None None) as Hb1.
    destruct (locate 0 None None h1) as [c f]. cbn [fst snd plus] in *.
    set (n := length h1) in *.
    assert (Hc : forall j e, c = Some (j, e) -> j < n).
    { intros j e Hce. destruct Hb1 as [[H|[j' [e' [H Hj]]]] _]; [congruence|]. rewrite Hce in H. inversion H; lia. }
    split.
    - intros Hin. destruct t as [e|e]; cbn [locate] in Hin;
        (destruct h2 as [|x r]; [left; reflexivity|right]).
      + split; [reflexivity|].
        destruct (files_or_change (x :: r)) as [Hf|Hch]; [exact Hf|exfalso].
        rewrite (locate_has_change (x :: r) (S n) _ _ None None Hch) in Hin.
        pose proof (locate_bounds (x :: r) (S n) None None) as Hb.
        destruct (locate (S n) None None (x :: r)) as [c2 f2]. cbn [fst snd] in Hb.
        destruct Hb as [[H1|[j1 [e1 [H1 Hj1]]]] [H2|[H2|[j2 [e2 [H2 Hj2]]]]]]; subst; cbn in Hin;
          repeat (destruct Hin as [Hin|Hin]; try lia); try contradiction.
      + exfalso. destruct x as [e2|e2]; cbn [locate] in Hin.
        * pose proof (locate_bounds r (S (S n)) (Some (S n, e2)) None) as Hb.
          destruct (locate (S (S n)) (Some (S n, e2)) None r) as [c2 f2]. cbn [fst snd] in Hb.
          destruct Hb as [[H1|[j1 [e1 [H1 Hj1]]]] [H2|[H2|[j2 [e3 [H2 Hj2]]]]]]; subst; cbn in Hin;
            repeat (destruct Hin as [Hin|Hin]; try lia); try contradiction.
        * pose proof (locate_bounds r (S (S n)) c (Some (S n, e2))) as Hb.
          destruct (locate (S (S n)) c (Some (S n, e2)) r) as [c2 f2]. cbn [fst snd] in Hb.
          destruct Hb as [[H1|[j1 [e1 [H1 Hj1]]]] [H2|[H2|[j2 [e3 [H2 Hj2]]]]]]; subst; cbn in Hin;
            try (destruct c as [[jc ec]|]; cbn in Hin; [specialize (Hc jc ec eq_refl)|]);
            repeat (destruct Hin as [Hin|Hin]; try lia); try contradiction.
    - intros [H|[Hc1 Hf]].
      + subst h2. destruct t as [e|e]; cbn; auto.
      + destruct t as [e|e]; [|discriminate]. cbn [locate].
        pose proof (locate_all_files h2 (S n) (Some (n, e)) None Hf) as Hl.
        destruct (locate (S n) (Some (n, e)) None h2) as [c2 f2]. cbn in Hl. subst c2.
        apply in_or_app. right. left. reflexivity.
  Qed.

  (* the same, read as "completed sibling": a file that something follows, or a change that a later
     change follows, never influences the effective encoding *)
  Corollary C04_no_leak_sibling : forall (e0 : option E) (h1 : history) t h2 e',
    h2 <> [] -> (is_file t = true \/ existsb is_change h2 = true) ->
    spec_effective e0 (h1 ++ set_decl t e' :: h2) = spec_effective e0 (h1 ++ t :: h2).
  Proof.
    intros e0 h1 t h2 e' Hne Hs. apply C04_no_leak_thm. rewrite cur_path_char.
    intros [H|[Hc Hf]]; [contradiction|].
    destruct Hs as [Hs|Hs].
    - unfold is_file in Hs. rewrite Hc in Hs. discriminate.
    - clear - Hf Hs. induction h2 as [|x r IH]; [discriminate|].
      destruct x; cbn in *; [discriminate|auto].
  Qed.

  (* content sections: own option if present, else the effective encoding of the enclosing container;
     diffs: own option only *)
  Theorem C04_content_thm : forall (e0 : option E) (h : history) (own : option E), ordered h ->
    (forall eff, wtop (wrun e0 h) = Some eff ->
       content_encoding own eff = match own with Some v => Some v | None => spec_effective e0 h end) /\
    (forall eff, rtop (rrun e0 h) = Some eff ->
       content_encoding own eff = match own with Some v => Some v | None => spec_effective e0 h end) /\
    diff_encoding own = own.
  Proof.
    intros e0 h own Ho. rewrite C04_writer_thm, C04_reader_thm by assumption.
    repeat split; intros eff Heq; inversion Heq; reflexivity.
  Qed.
End Positions.

(* ---- concrete instances (E = nat) ---- *)
Definition ex_history : history nat :=
  [TChange (Some 1); TFile None; TFile (Some 2); TChange None; TFile None; TChange (Some 3); TFile (Some 4); TFile None].

Example ex_history_ordered : ordered ex_history.
Proof. reflexivity. Qed.
Example ex_history_effective : spec_effective (Some 0) ex_history = Some 3.
Proof. reflexivity. Qed.
Example ex_history_path : cur_path ex_history = [7; 5].
Proof. reflexivity. Qed.
Example ex_history_writer : wrun (Some 0) ex_history = Some [Some 3; Some 3; Some 0; Some 0].
Proof. reflexivity. Qed.
Example ex_history_reader : rrun (Some 0) ex_history = Some ([Some 3; Some 3; Some 0; None], 2).
Proof. reflexivity. Qed.
(* file 6 declared 4, its later sibling 7 does not see it; change 0 declared 1, the later change 3 does not *)
Example ex_history_prefix : spec_effective (Some 0) (firstn 5 ex_history) = Some 0.
Proof. reflexivity. Qed.
(* position 6 (a completed file) is not on the path of ex_history *)
Example ex_no_leak_hyp : ~ In (length (firstn 6 ex_history)) (cur_path (firstn 6 ex_history ++ TFile (Some 4) :: [TFile None])).
Proof. vm_compute. intros [H|[H|[]]]; discriminate. Qed.

(* Regression: the reader as it was before the fix (pop at most one entry when level <= prev level) leaks
   the encoding of a finished change into the next change when the finished change ended with a file. *)
Example C04_reader_old_refuted_ex :
  exists (e0 : option nat) (h : history nat),
    ordered h /\ rtop (rrun_old e0 h) <> Some (spec_effective e0 h) /\ rtop (rrun e0 h) = Some (spec_effective e0 h).
Proof.
  exists (Some 0), [TChange (Some 1); TFile None; TChange None].
  split; [reflexivity|]. split; [vm_compute; discriminate|reflexivity].
Qed.
(* what the old reader computed there: the sibling's encoding 1 instead of main's 0 *)
Example C04_reader_old_value :
  rtop (rrun_old (Some 0) [TChange (Some 1); TFile None; TChange None]) = Some (Some 1) /\
  spec_effective (Some 0) [TChange (Some 1); TFile None; TChange None] = Some 0.
Proof. split; reflexivity. Qed.
(* without [ordered] the statements would be false: a file directly under main *)
Example C04_ordered_needed : rrun (Some 0) [TFile (@None nat)] <> Some (path_stack (Some 0) [TFile None] ++ [None], 2).
Proof. vm_compute. discriminate. Qed.

(* ================================================================================================= *)
(* Part 3: bridge to Writer.v                                                                         *)
(* ================================================================================================= *)

(* generic facts about the shared machine *)
Lemma pop_n_some : forall {A} n (l : list A), n <= length l ->
  exists l', pop_n n l = Some l' /\ length l' = length l - n.
Proof.
  induction n; intros l H; [exists l; split; [reflexivity|lia]|].
  destruct l as [|x t]; cbn in H; [lia|]. cbn [pop_n length]. apply IHn. lia.
Qed.

Lemma pop_n_map : forall {A B} (g : A -> B) n l, pop_n n (map g l) = option_map (map g) (pop_n n l).
Proof.
  induction n; intros l; [reflexivity|]. destruct l as [|x t]; [reflexivity|]. cbn [map pop_n]. apply IHn.
Qed.

Lemma stack_push_map : forall {A B} (g : A -> B) d l,
  stack_push (option_map g d) (map g l) = option_map (map g) (stack_push d l).
Proof. intros. destruct l as [|x t]; [reflexivity|]. destruct d; reflexivity. Qed.

Lemma stack_step_map : forall {A B} (g : A -> B) c lv d l,
  stack_step c lv (option_map g d) (map g l) = option_map (map g) (stack_step c lv d l).
Proof.
  intros. unfold stack_step. rewrite pop_n_map. destruct (pop_n (c + 1 - lv) l); [|reflexivity].
  cbn [option_map]. apply stack_push_map.
Qed.

(* the levels are generated from the Python class constants: checked by computation *)
Lemma writer_levels : GenText.writer_level_main = 1 /\ GenText.writer_level_change = wlevel (@TChange wv None)
                      /\ GenText.writer_level_file = wlevel (@TFile wv None).
Proof. repeat split; reflexivity. Qed.

(* the declaration a writer call makes: [encoding or ...] *)
Definition wdecl (e : wv) : option wv := if wv_truthy e then Some e else None.

Lemma repeatM_pop : forall n s,
  match pop_n n (w_stack s) with
  | Some l => repeatM n pop_once s = ({| w_out := w_out s; w_stack := l; w_prev := w_prev s |}, Ok tt)
  | None => exists s', repeatM n pop_once s = (s', Err EIndex)
  end.
Proof.
  induction n; intros s.
  - cbn. destruct s; reflexivity.
  - destruct s as [o st p]. cbn [pop_n repeatM w_stack w_out w_prev]. destruct st as [|x t].
    + eexists. reflexivity.
    + specialize (IHn {| w_out := o; w_stack := t; w_prev := p |}). cbn [w_stack w_out w_prev] in IHn.
      change (bindM pop_once (fun _ => repeatM n pop_once) {| w_out := o; w_stack := x :: t; w_prev := p |})
        with (repeatM n pop_once {| w_out := o; w_stack := t; w_prev := p |}).
      exact IHn.
Qed.

Lemma write_section_header_stack : forall sec o s s' r,
  write_section_header sec o s = (s', r) ->
  w_stack s' = w_stack s /\ (forall e, r = Err e -> s' = s).
Proof.
  unfold write_section_header, bindM, lift, emit, set_prev. intros sec o s s' r H.
  destruct (render_header sec o); inversion H; subst; cbn; split; auto; discriminate.
Qed.

(* _new_container_section, completely: with a non-empty stack and level >= 1 it either succeeds and
   transforms the stack by [stack_step], or fails before anything was written or changed *)
Lemma new_container_stack : forall name level e extra s s' r,
  new_container_section name level e extra s = (s', r) ->
  1 <= level -> w_stack s <> [] ->
  (r = Ok tt /\ Some (w_stack s') = stack_step (cur_level s) level (wdecl e) (w_stack s))
  \/ (exists err, r = Err err /\ s' = s).
Proof.
  intros name level e extra s s' r H Hl Hne.
  unfold new_container_section in H. unfold bindM at 1 in H. unfold get_state at 1 in H.
  unfold bindM at 1 in H. unfold lift at 1 in H.
  destruct (validate_section s (build_id (level - 1) name)) as [[]|err]; [|right; inversion H; eauto].
  unfold bindM at 1 in H.
  destruct (write_section_header (build_id (level - 1) name) (dict_set "encoding" e extra) s) as [s1 r1] eqn:Hw.
  apply write_section_header_stack in Hw. destruct Hw as [Hst Herr].
  destruct r1 as [[]|err]; [|right; inversion H; subst; exists err; split; [reflexivity|]; eauto].
  unfold bindM at 1 in H. unfold get_state at 1 in H. unfold bindM at 1 in H.
  assert (Hlev : cur_level s1 = cur_level s) by (unfold cur_level; rewrite Hst; reflexivity).
  rewrite Hlev in H.
  assert (Hle : cur_level s + 1 - level <= length (w_stack s) - 1) by (unfold cur_level; lia).
  destruct (pop_n_some (cur_level s + 1 - level) (w_stack s)) as [l' [Hp Hlen]]; [lia|].
  pose proof (repeatM_pop (cur_level s + 1 - level) s1) as Hr. rewrite Hst, Hp in Hr. rewrite Hr in H.
  assert (Hl' : l' <> []).
  { destruct l'; [|discriminate]. cbn [length] in Hlen.
    assert (length (w_stack s) <> 0) by (destruct (w_stack s); [contradiction|discriminate]). lia. }
  destruct l' as [|top rest]; [contradiction|].
  unfold bindM, get_state, lift, cur_encoding, push in H. cbn in H.
  left. inversion H; subst. cbn. split; [reflexivity|].
  unfold stack_step. rewrite Hp. unfold stack_push, wdecl. destruct (wv_truthy e); reflexivity.
Qed.

(* new_change / new_file *)
Theorem writer_container_bridge : forall c e s s' r,
  (c = NewChange e \/ c = NewFile e) -> w_stack s <> [] ->
  do_call c s = (s', r) ->
  (r = Ok tt /\
   Some (w_stack s') = stack_step (cur_level s)
                         (match c with NewChange _ => GenText.writer_level_change | _ => GenText.writer_level_file end)
                         (wdecl e) (w_stack s))
  \/ (exists err, r = Err err /\ s' = s).
Proof.
  intros c e s s' r [Hc|Hc] Hne H; subst c; cbn [do_call] in H;
    eapply new_container_stack in H; eauto; vm_compute; lia.
Qed.

(* content sections never touch the stack *)
Lemma new_content_stack : forall name content le enc indent wle inh extra s s' r,
  new_content_section name content le enc indent wle inh extra s = (s', r) -> w_stack s' = w_stack s.
Proof.
  unfold new_content_section, bindM, get_state, lift. intros until r. intros H.
  destruct (validate_section s _) as [[]|]; [|inversion H; reflexivity].
  destruct (prepare_content s content indent le enc inh) as [[body leo]|]; [|inversion H; reflexivity].
  match type of H with context[write_section_header ?a ?b s] =>
    destruct (write_section_header a b s) as [s1 r1] eqn:Hw end.
  apply write_section_header_stack in Hw. destruct Hw as [Hst _].
  destruct r1 as [[]|]; inversion H; subst; cbn; assumption.
Qed.

Definition is_container_call (c : call) : bool :=
  match c with NewChange _ | NewFile _ => true | _ => false end.

Lemma content_call_stack : forall c s s' r,
  is_container_call c = false -> do_call c s = (s', r) -> w_stack s' = w_stack s.
Proof.
  intros c s s' r Hc H. destruct c; try discriminate; cbn [do_call] in H.
  - destruct text; try (inversion H; reflexivity).
    unfold bindM at 1, lift at 1 in H.
    destruct (match mimetype with WNone => Ok true | _ => in_strset mimetype GenText.mimetypes end) as [mok|];
      [|inversion H; reflexivity].
    destruct (negb mok); [inversion H; reflexivity|]. eapply new_content_stack; eauto.
  - destruct metadata; try (inversion H; reflexivity).
    destruct (negb (wv_truthy (WDict j))); [inversion H; reflexivity|].
    unfold bindM at 1, lift at 1 in H.
    destruct (in_strset _ GenText.meta_formats) as [fok|]; [|inversion H; reflexivity].
    destruct (negb fok); [inversion H; reflexivity|].
    unfold bindM at 1, lift at 1 in H.
    destruct (json_dump j); [|inversion H; reflexivity].
    unfold bindM at 1, get_state at 1 in H. cbv beta iota in H. unfold bindM at 1, lift at 1 in H.
    destruct (if wv_truthy encoding then _ else _) as [has_enc|]; [|inversion H; reflexivity].
    eapply new_content_stack; eauto.
  - destruct content; try (inversion H; reflexivity).
    unfold bindM at 1, lift at 1 in H.
    destruct (match diff_type with WNone => Ok true | _ => in_strset diff_type GenText.diff_types end) as [tok|];
      [|inversion H; reflexivity].
    destruct (negb tok); [inversion H; reflexivity|]. eapply new_content_stack; eauto.
Qed.

(* ---- _prepare_content: which encoding encodes the content ---- *)
Definition w_content_encoding (own : wv) (inherit : bool) (top : wv) : wv :=
  if negb (wv_truthy own) && inherit then top else own.

(* The writer state matters to _prepare_content only through the top of the stack, and only when the
   section gives no (truthy) encoding and inheritance is enabled: the call is the same as a call that
   names the encoding explicitly, in any state. *)
Lemma prepare_content_encoding : forall s s0 content indent le own inherit top,
  cur_encoding s = Ok top ->
  prepare_content s content indent le own inherit =
  prepare_content s0 content indent le (w_content_encoding own inherit top) false.
Proof.
  intros s s0 content indent le own inherit top Hc. unfold prepare_content, w_content_encoding.
  rewrite Hc. destruct (negb (wv_truthy own) && inherit); rewrite andb_false_r; reflexivity.
Qed.

Lemma prepare_content_reads_top : forall s content indent le own inherit,
  w_stack s = [] -> negb (wv_truthy own) && inherit = true ->
  (match content with CText t => is_nil t | CBytes b => is_nil b end) = false ->
  (match le with WNone => Ok true | v => in_strset v GenText.line_endings_values end) = Ok true ->
  prepare_content s content indent le own inherit = Err EIndex.
Proof.
  intros s content indent le own inherit Hs Hi He Hle. unfold prepare_content.
  rewrite He, Hle, Hi. unfold cur_encoding. rewrite Hs. reflexivity.
Qed.

(* in the vocabulary of Part 1 (declared = truthy): preamble/meta use content_encoding, diffs diff_encoding *)
Lemma w_content_encoding_abstract : forall own top,
  wdecl (w_content_encoding own true top) = content_encoding (wdecl own) (wdecl top) /\
  w_content_encoding own false top = own.
Proof.
  intros. unfold w_content_encoding, wdecl, content_encoding. rewrite andb_false_r, andb_true_r.
  destruct (wv_truthy own) eqn:Ho; cbn; [rewrite Ho|]; auto.
Qed.

(* which calls inherit: write_preamble and write_meta do, write_diff does not; observable behaviour of a
   content call depends on the stack only through its length (the level) and, unless it is a diff, its top *)
Definition is_diff_call (c : call) : bool := match c with WriteDiff _ _ _ _ => true | _ => false end.

Lemma new_content_section_depends : forall name content le enc indent wle inh extra s1 s2,
  w_out s1 = w_out s2 -> w_prev s1 = w_prev s2 -> length (w_stack s1) = length (w_stack s2) ->
  (inh = true -> hd_error (w_stack s1) = hd_error (w_stack s2)) ->
  snd (new_content_section name content le enc indent wle inh extra s1) =
  snd (new_content_section name content le enc indent wle inh extra s2) /\
  w_out (fst (new_content_section name content le enc indent wle inh extra s1)) =
  w_out (fst (new_content_section name content le enc indent wle inh extra s2)).
Proof.
  intros until s2. intros Ho Hp Hl Hh.
  assert (Hprep : prepare_content s1 content indent le enc inh = prepare_content s2 content indent le enc inh).
  { unfold prepare_content. destruct inh.
    - specialize (Hh eq_refl). unfold cur_encoding.
      destruct (w_stack s1) as [|a1 t1], (w_stack s2) as [|a2 t2]; cbn in Hh; try discriminate; [reflexivity|].
      inversion Hh; subst. reflexivity.
    - rewrite !andb_false_r. reflexivity. }
  unfold new_content_section, bindM, get_state, lift.
  assert (Hlev : cur_level s1 = cur_level s2) by (unfold cur_level; rewrite Hl; reflexivity).
  assert (Hval : forall sec, validate_section s1 sec = validate_section s2 sec)
    by (intros; unfold validate_section; rewrite Hp; reflexivity).
  rewrite Hlev, Hval, Hprep.
  destruct (validate_section s2 _) as [[]|]; [|cbn; auto].
  destruct (prepare_content s2 content indent le enc inh) as [[body leo]|]; [|cbn; auto].
  unfold write_section_header, bindM, lift, emit, set_prev.
  destruct (render_header _ _); cbn; rewrite ?Ho; auto.
Qed.

Theorem writer_content_depends : forall c s1 s2,
  is_container_call c = false ->
  w_out s1 = w_out s2 -> w_prev s1 = w_prev s2 -> length (w_stack s1) = length (w_stack s2) ->
  (is_diff_call c = false -> hd_error (w_stack s1) = hd_error (w_stack s2)) ->
  snd (do_call c s1) = snd (do_call c s2) /\ w_out (fst (do_call c s1)) = w_out (fst (do_call c s2)).
Proof.
  intros c s1 s2 Hc Ho Hp Hl Hh. destruct c; try discriminate; cbn [do_call is_diff_call] in *.
  - destruct text; try solve [cbn; auto].
    unfold bindM, lift.
    destruct (match mimetype with WNone => Ok true | _ => in_strset mimetype GenText.mimetypes end) as [mok|];
      [|cbn; auto].
    destruct (negb mok); [cbn; auto|]. apply new_content_section_depends; auto.
  - destruct metadata; try solve [cbn; auto].
    destruct (negb (wv_truthy (WDict j))); [cbn; auto|].
    unfold bindM, lift.
    destruct (in_strset _ GenText.meta_formats) as [fok|]; [|cbn; auto].
    destruct (negb fok); [cbn; auto|].
    unfold bindM, lift.
    destruct (json_dump j); [|cbn; auto].
    (* write_meta's test "is an encoding in force?" reads the top of the stack only *)
    assert (Hce : cur_encoding s1 = cur_encoding s2).
    { specialize (Hh eq_refl). unfold cur_encoding.
      destruct (w_stack s1), (w_stack s2); cbn in Hh; try discriminate; [reflexivity|].
      inversion Hh; reflexivity. }
    unfold get_state. cbv beta iota. rewrite Hce.
    destruct (if wv_truthy encoding then _ else _) as [has_enc|]; [|cbn; auto].
    apply new_content_section_depends; auto.
  - destruct content; try solve [cbn; auto].
    unfold bindM, lift.
    destruct (match diff_type with WNone => Ok true | _ => in_strset diff_type GenText.diff_types end) as [tok|];
      [|cbn; auto].
    destruct (negb tok); [cbn; auto|]. apply new_content_section_depends; auto.
Qed.

(* ---- whole call sequences: the writer's stack is the abstract machine's, for any program ---- *)
Definition call_transition (c : call) : option (transition wv) :=
  match c with
  | NewChange e => Some (TChange (wdecl e))
  | NewFile e => Some (TFile (wdecl e))
  | _ => None
  end.

(* the nesting history a program actually produced: its container calls that returned normally *)
Fixpoint ok_history (cs : list call) (rs : list (res unit * nat)) : history wv :=
  match cs, rs with
  | c :: cs', (r, _) :: rs' =>
      match call_transition c, r with
      | Some t, Ok _ => t :: ok_history cs' rs'
      | _, _ => ok_history cs' rs'
      end
  | _, _ => []
  end.

Lemma stack_step_nonempty : forall {X} c lv (d : option X) l l', stack_step c lv d l = Some l' -> l' <> [].
Proof.
  intros X c lv d l l' H. unfold stack_step, stack_push in H.
  destruct (pop_n (c + 1 - lv) l) as [[|x t]|]; inversion H; discriminate.
Qed.

Lemma dopt_wdecl : forall e, dopt (wdecl e) = option_map wdecl (wdecl e).
Proof. intros e. unfold wdecl. destruct (wv_truthy e) eqn:H; cbn; [rewrite H|]; reflexivity. Qed.

Lemma do_call_stack : forall c s s' r, w_stack s <> [] -> do_call c s = (s', r) ->
  w_stack s' <> [] /\
  Some (map wdecl (w_stack s')) =
  match call_transition c, r with
  | Some t, Ok _ => wstep (Some (map wdecl (w_stack s))) t
  | _, _ => Some (map wdecl (w_stack s))
  end.
Proof.
  intros c s s' r Hne H.
  destruct (is_container_call c) eqn:Hc.
  - assert (Hstep : forall e lv, Some (w_stack s') = stack_step (cur_level s) lv (wdecl e) (w_stack s) ->
              w_stack s' <> [] /\
              Some (map wdecl (w_stack s')) =
              stack_step (length (map wdecl (w_stack s)) - 1) lv (dopt (wdecl e)) (map wdecl (w_stack s))).
    { intros e lv Hs. rewrite dopt_wdecl, stack_step_map, map_length. fold (cur_level s). rewrite <- Hs.
      split; [|reflexivity].
      eapply stack_step_nonempty; symmetry; exact Hs. }
    destruct c as [e|e| | |]; try discriminate.
    + destruct (writer_container_bridge (NewChange e) e s s' r (or_introl eq_refl) Hne H) as [[Hr Hs]|[err [Hr Hs]]];
        subst r; cbn [call_transition wstep decl wlevel]; [apply (Hstep e _ Hs)|subst s'; auto].
    + destruct (writer_container_bridge (NewFile e) e s s' r (or_intror eq_refl) Hne H) as [[Hr Hs]|[err [Hr Hs]]];
        subst r; cbn [call_transition wstep decl wlevel]; [apply (Hstep e _ Hs)|subst s'; auto].
  - rewrite (content_call_stack c s s' r Hc H). split; [exact Hne|].
    destruct c; try discriminate; reflexivity.
Qed.

Theorem writer_stack_history : forall cs s, w_stack s <> [] ->
  Some (map wdecl (w_stack (snd (run_calls s cs)))) =
  fold_left wstep (ok_history cs (fst (run_calls s cs))) (Some (map wdecl (w_stack s))).
Proof.
  induction cs as [|c cs IH]; intros s Hne; [reflexivity|].
  cbn [run_calls]. destruct (do_call c s) as [s' r] eqn:Hd.
  destruct (do_call_stack c s s' r Hne Hd) as [Hne' Hs].
  specialize (IH s' Hne'). destruct (run_calls s' cs) as [rs f]. cbn [fst snd ok_history] in *.
  rewrite IH. destruct (call_transition c) as [t|]; [destruct r|]; cbn [fold_left]; rewrite <- Hs; reflexivity.
Qed.

(* DiffXWriter(fp, encoding, version) *)
Lemma writer_init_stack : forall enc ver s, writer_init enc ver = (s, Ok tt) ->
  w_stack s <> [] /\ Some (map wdecl (w_stack s)) = winit (wdecl enc).
Proof.
  intros enc ver s H. unfold writer_init in H.
  destruct (in_strset ver GenText.versions) as [[|]|]; try (inversion H; fail).
  eapply new_container_stack in H; [|vm_compute; lia|discriminate].
  destruct H as [[_ Hs]|[err [Hr _]]]; [|discriminate].
  cbn [w_stack] in Hs. unfold winit. rewrite dopt_wdecl.
  change [wdecl enc] with (map wdecl [enc]). rewrite stack_step_map.
  split; [|change (Some (map wdecl (w_stack s))) with (option_map (map wdecl) (Some (w_stack s)));
           rewrite Hs; reflexivity].
  eapply stack_step_nonempty; symmetry; exact Hs.
Qed.

(* End to end: after any program run on a fresh writer, the encoding inherited by the next preamble or
   metadata section (the top of the stack, read by _prepare_content) is, as a declaration, the one the
   specification assigns to the history of container calls that succeeded. *)
Theorem writer_effective_encoding : forall enc ver s0 cs,
  writer_init enc ver = (s0, Ok tt) ->
  let h := ok_history cs (fst (run_calls s0 cs)) in
  ordered h ->
  exists top, cur_encoding (snd (run_calls s0 cs)) = Ok top /\ wdecl top = spec_effective (wdecl enc) h.
Proof.
  intros enc ver s0 cs Hi h Ho. destruct (writer_init_stack enc ver s0 Hi) as [Hne Hs0].
  pose proof (writer_stack_history cs s0 Hne) as Hr. fold h in Hr. rewrite Hs0 in Hr.
  fold (wrun (wdecl enc) h) in Hr. pose proof (C04_writer_thm (wdecl enc) h Ho) as Hw.
  rewrite <- Hr in Hw. unfold cur_encoding.
  destruct (w_stack (snd (run_calls s0 cs))) as [|top rest]; [discriminate|].
  exists top. split; [reflexivity|]. cbn in Hw. inversion Hw. reflexivity.
Qed.

(* ================================================================================================= *)
(* Part 4: bridge to Reader.v                                                                         *)
(* ================================================================================================= *)

Lemma beq_eq : forall a b : bytes, beq a b = true -> a = b.
Proof.
  unfold beq. induction a as [|x a IH]; intros [|y b] H; cbn in H; try discriminate; [reflexivity|].
  apply andb_true_iff in H. destruct H as [H1 H2]. apply Byte.byte_dec_bl in H1. subst. f_equal. auto.
Qed.

(* ---- the header's level is determined by its section id ---- *)
Lemma match_name_in : forall names l n tl, match_name names l = Some (n, tl) -> In n names.
Proof.
  induction names as [|x names IH]; intros l n tl H; cbn in H; [discriminate|].
  destruct (bstarts _ l); [inversion H; left; reflexivity|right; eauto].
Qed.

Lemma match_header_re_name : forall h dots name ostr,
  match_header_re h = Some (dots, name, ostr) -> In name header_names.
Proof.
  intros h dots name ostr H. unfold match_header_re in H.
  destruct h as [|c r]; [discriminate|]. destruct (byte_eqb c "#"); [|discriminate].
  destruct (take_dots r) as [d rest]. destruct (d <=? 3); [|discriminate].
  destruct (match_name header_names rest) as [[n tl]|] eqn:Hm; [|discriminate].
  apply match_name_in in Hm.
  destruct tl as [|sp o]; [inversion H; subst; exact Hm|].
  destruct (_ && _); inversion H; subst; exact Hm.
Qed.

Lemma parse_header_id : forall valid h level name id opts,
  parse_header valid h = HOk level name id opts ->
  id = build_id level name /\ In name header_names /\ in_ids id valid = true.
Proof.
  intros valid h level name id opts H. unfold parse_header in H.
  destruct (match_header_re h) as [[[dots nm] ostr]|] eqn:Hm; [|discriminate].
  apply match_header_re_name in Hm.
  destruct (in_ids (build_id dots nm) valid) eqn:Hv; cbn [negb] in H; [|discriminate].
  destruct ostr as [s|].
  - destruct (parse_pairs h (bsplit comma_space s) []); inversion H; subst; auto.
  - inversion H; subst; auto.
Qed.

Lemma read_header_id : forall chunk valid st level name id opts line st1,
  read_header chunk valid st = HdrOk level name id opts line st1 ->
  id = build_id level name /\ In name header_names /\ in_ids id valid = true.
Proof.
  intros chunk valid st level name id opts line st1 H. unfold read_header in H.
  destruct (next_nonblank _ chunk (st_stream st)) as [[[hd|] s1]|]; try discriminate.
  destruct (negb (bends _ hd)); [discriminate|].
  destruct (parse_header valid _) eqn:Hp; [|discriminate].
  inversion H; subst. eapply parse_header_id; eauto.
Qed.

Ltac level_of_id Hin H level :=
  unfold header_names in Hin; cbn [In] in Hin;
  repeat (destruct Hin as [Hin|Hin]; [subst; destruct level as [|[|[|level]]]; vm_compute in H; try discriminate H; reflexivity|]);
  contradiction.

Lemma level_of_main : forall level name, In name header_names -> build_id level name = GenSections.sec_main -> level = 0.
Proof. intros level name Hin H. level_of_id Hin H level. Qed.
Lemma level_of_change : forall level name, In name header_names -> build_id level name = GenSections.sec_change -> level = rlevel (@TChange pv None).
Proof. intros level name Hin H. level_of_id Hin H level. Qed.
Lemma level_of_file : forall level name, In name header_names -> build_id level name = GenSections.sec_file -> level = rlevel (@TFile pv None).
Proof. intros level name Hin H. level_of_id Hin H level. Qed.

(* the declaration a header makes: options.get('encoding', <top>) *)
Definition rdecl (opts : options) : option (option pv) := option_map Some (opt_get "encoding" opts).

Lemma reader_push : forall opts encs cur,
  top encs = Some cur ->
  Some (match opt_get "encoding" opts with Some v => Some v | None => cur end :: encs) = stack_push (rdecl opts) encs.
Proof.
  intros opts encs cur H. destruct encs as [|x t]; [discriminate|]. inversion H; subst.
  unfold rdecl. destruct (opt_get "encoding" opts); reflexivity.
Qed.

Ltac destruct_matches H :=
  repeat match type of H with
         | context[match ?x with _ => _ end] => destruct x eqn:?; try discriminate H
         end.

(* One iteration of iter_sections, as far as the encoding stack is concerned. *)
Theorem reader_step_bridge : forall orc chunk st valid encs prev r st' valid' encs' prev',
  iter_step orc chunk st valid encs prev = SYield r st' valid' encs' prev' ->
  in_ids (r_id r) valid = true /\
  ( (is_content (r_id r) = true /\ encs' = encs /\ prev' = prev)
    \/ (r_id r = GenSections.sec_main /\ r_level r = 0 /\
        Some encs' = stack_push (rdecl (r_opts r)) encs /\ prev' = 0)
    \/ (r_id r = GenSections.sec_change /\ r_level r = 1 /\
        Some encs' = stack_step prev 1 (rdecl (r_opts r)) encs /\ prev' = 1)
    \/ (r_id r = GenSections.sec_file /\ r_level r = 2 /\
        Some encs' = stack_step prev 2 (rdecl (r_opts r)) encs /\ prev' = 2) ).
Proof.
  intros orc chunk st valid encs prev r st' valid' encs' prev' H.
  unfold iter_step in H.
  destruct (read_header chunk valid st) as [|level name id opts line st1| |] eqn:Hh; try discriminate.
  apply read_header_id in Hh. destruct Hh as [Hid [Hname Hvalid]].
  cbv zeta in H.
  destruct (is_content id) eqn:Hc.
  - destruct_matches H; inversion H; subst; (split; [exact Hvalid|left; cbn [r_id]; auto]).
  - destruct (beq id GenSections.sec_main) eqn:Hm.
    + apply beq_eq in Hm.
      destruct (match opt_get "version" opts with Some (VStr v) => in_ids v GenText.versions | _ => false end);
        [|discriminate].
      destruct (top encs) as [cur|] eqn:Ht; [|discriminate].
      destruct (table_get id); [|discriminate]. inversion H; subst r st' valid' encs' prev'.
      split; [exact Hvalid|right; left]. cbn [r_id r_level r_opts].
      assert (level = 0) by (eapply level_of_main; [exact Hname|congruence]). subst level.
      repeat split; auto. eapply reader_push; eauto.
    + destruct (beq id GenSections.sec_change || beq id GenSections.sec_file) eqn:Hcf; [|discriminate].
      destruct (pop_n (prev + 1 - level) encs) as [encs1|] eqn:Hp; [|discriminate].
      destruct (top encs1) as [cur|] eqn:Ht; [|discriminate].
      destruct (table_get id); [|discriminate]. inversion H; subst r st' valid' encs' prev'.
      split; [exact Hvalid|right; right]. cbn [r_id r_level r_opts].
      apply orb_true_iff in Hcf. destruct Hcf as [Hx|Hx]; apply beq_eq in Hx.
      * left. assert (level = 1) by (eapply level_of_change; [exact Hname|congruence]). subst level.
        repeat split; auto. unfold stack_step. rewrite Hp. eapply reader_push; eauto.
      * right. assert (level = 2) by (eapply level_of_file; [exact Hname|congruence]). subst level.
        repeat split; auto. unfold stack_step. rewrite Hp. eapply reader_push; eauto.
Qed.

(* ---- content sections: which encoding _read_content is given ---- *)
Definition yield (level : nat) (line : Z) (opts : options) (id name : bytes)
           (st2 : rstate) (p : payload) (encs : list (option pv)) (prev : nat) : step_result :=
  match table_get id with
  | None => SExc EKey
  | Some nxt =>
      SYield {| r_level := level; r_line := line; r_opts := opts; r_id := id; r_type := name; r_payload := p |}
             st2 nxt encs prev
  end.

Lemma section_classes :
  is_content GenSections.sec_file_diff = true /\ is_preamble GenSections.sec_file_diff = false /\
  is_meta GenSections.sec_file_diff = false /\
  forallb (fun id => is_content id && negb (beq id GenSections.sec_file_diff))
          (GenSections.preamble_sections ++ GenSections.meta_sections) = true /\
  forallb (fun id => negb (is_content id))
          [GenSections.sec_main; GenSections.sec_change; GenSections.sec_file] = true.
Proof. vm_compute. repeat split; reflexivity. Qed.

(* preambles: own option, else the top of the stack *)
Theorem reader_preamble_encoding : forall orc chunk st valid encs prev level name id opts line st1 inh len,
  read_header chunk valid st = HdrOk level name id opts line st1 ->
  is_content id = true -> is_preamble id = true ->
  top encs = Some inh -> opt_get "length" opts = Some (VInt len) -> (len <? 0)%Z = false ->
  iter_step orc chunk st valid encs prev =
  match read_content st1 len (content_encoding (opt_get "encoding" opts) inh)
                     (opt_get "indent" opts) (opt_get "line_endings" opts) false with
  | COk p st2 => yield level line opts id name st2 p encs prev
  | CParse l => SParse l None
  | CExc e => SExc e
  end.
Proof.
  intros until len. intros Hh Hc Hp Ht Hl Hn. unfold iter_step. rewrite Hh. cbv zeta.
  rewrite Hc, Ht, Hl, Hn, Hp. reflexivity.
Qed.

(* metadata: own option, else the top of the stack *)
Theorem reader_meta_encoding : forall orc chunk st valid encs prev level name id opts line st1 inh len,
  read_header chunk valid st = HdrOk level name id opts line st1 ->
  is_content id = true -> is_preamble id = false -> is_meta id = true ->
  top encs = Some inh -> opt_get "length" opts = Some (VInt len) -> (len <? 0)%Z = false ->
  (match opt_get "format" opts with None => true | Some (VStr s) => beq s (B "json") | Some (VInt _) => false end) = true ->
  iter_step orc chunk st valid encs prev =
  match read_content st1 len (content_encoding (opt_get "encoding" opts) inh)
                     None (opt_get "line_endings" opts) false with
  | COk p st2 =>
      let key := match p with PText t => oracle_key_text t | PBytes b => oracle_key_bytes b | _ => [] end in
      match assoc_get beq key orc with
      | None => SExc EOracleMiss
      | Some (LoadsOk j) => yield level line opts id name st2 (PMeta j) encs prev
      | Some LoadsValueError => SParse line None
      | Some LoadsRecursion => SParse line None
      end
  | CParse l => SParse l None
  | CExc e => SExc e
  end.
Proof.
  intros until len. intros Hh Hc Hp Hm Ht Hl Hn Hf. unfold iter_step. rewrite Hh. cbv zeta.
  rewrite Hc, Ht, Hl, Hn, Hp, Hm, Hf. reflexivity.
Qed.

(* diffs: own option only; the stack is not consulted (beyond Python's evaluation of encodings[-1]) *)
Theorem reader_diff_encoding : forall orc chunk st valid encs prev level name opts line st1 inh len,
  read_header chunk valid st = HdrOk level name GenSections.sec_file_diff opts line st1 ->
  top encs = Some inh -> opt_get "length" opts = Some (VInt len) -> (len <? 0)%Z = false ->
  iter_step orc chunk st valid encs prev =
  match read_content st1 len (diff_encoding (opt_get "encoding" opts))
                     None (opt_get "line_endings" opts) true with
  | COk p st2 => yield level line opts GenSections.sec_file_diff name st2 p encs prev
  | CParse l => SParse l None
  | CExc e => SExc e
  end.
Proof.
  intros until len. intros Hh Ht Hl Hn. unfold iter_step. rewrite Hh. cbv zeta.
  destruct section_classes as [Hc [Hp [Hm _]]]. rewrite Hc, Ht, Hl, Hn, Hp, Hm.
  replace (beq GenSections.sec_file_diff GenSections.sec_file_diff) with true by (vm_compute; reflexivity).
  reflexivity.
Qed.

(* every content id is a preamble, a metadata section or the diff: the three theorems above are exhaustive *)
Lemma content_ids_classified :
  forallb (fun id => is_preamble id || is_meta id || beq id GenSections.sec_file_diff) GenSections.content_sections = true.
Proof. vm_compute. reflexivity. Qed.

(* The same facts semantically: the outcome of an iteration that reads a content header depends on the
   stack only through its top, and for a diff not even on that. *)
Definition forget_encs (r : step_result) : step_result :=
  match r with SYield rec st v _ p => SYield rec st v [] p | x => x end.

Theorem reader_content_depends : forall orc chunk st valid encs1 encs2 prev level name id opts line st1,
  read_header chunk valid st = HdrOk level name id opts line st1 ->
  is_content id = true ->
  (if beq id GenSections.sec_file_diff then encs1 <> [] /\ encs2 <> [] else top encs1 = top encs2 /\ encs1 <> []) ->
  forget_encs (iter_step orc chunk st valid encs1 prev) = forget_encs (iter_step orc chunk st valid encs2 prev).
Proof.
  intros until st1. intros Hh Hc Htop. unfold iter_step. rewrite Hh. cbv zeta. rewrite Hc.
  destruct (beq id GenSections.sec_file_diff) eqn:Hd.
  - apply beq_eq in Hd. subst id. destruct section_classes as [_ [Hp [Hm _]]]. rewrite Hp, Hm.
    destruct Htop as [H1 H2]. destruct encs1 as [|a1 t1]; [contradiction|]. destruct encs2 as [|a2 t2]; [contradiction|].
    cbn [top]. destruct (opt_get "length" opts) as [[len|]|]; try reflexivity.
    destruct (len <? 0)%Z; [reflexivity|].
    destruct (read_content _ _ _ _ _ _); try reflexivity.
  - destruct Htop as [H1 H2]. rewrite <- H1. destruct encs1 as [|a1 t1]; [contradiction|]. cbn [top].
    destruct (opt_get "length" opts) as [[len|]|]; try reflexivity.
    destruct (len <? 0)%Z; [reflexivity|].
    destruct (is_preamble id).
    + destruct (read_content _ _ _ _ _ _); try reflexivity. destruct (table_get id); reflexivity.
    + destruct (is_meta id); [|reflexivity].
      destruct (negb _); [reflexivity|].
      destruct (read_content _ _ _ _ _ _); try reflexivity.
      destruct (assoc_get beq _ orc) as [[]|]; try reflexivity. destruct (table_get id); reflexivity.
Qed.

(* ---- whole runs of the reader ---- *)
Lemma reader_step_valid : forall orc chunk st valid encs prev r st' valid' encs' prev',
  iter_step orc chunk st valid encs prev = SYield r st' valid' encs' prev' ->
  table_get (r_id r) = Some valid'.
Proof.
  intros orc chunk st valid encs prev r st' valid' encs' prev' H.
  unfold iter_step in H.
  destruct (read_header chunk valid st) as [|level name id opts line st1| |]; try discriminate.
  cbv zeta in H.
  destruct_matches H; inversion H; subst; cbn [r_id]; assumption.
Qed.

(* the iterations of iter_sections that yield, with the loop variables made visible *)
Inductive rsteps (orc : oracle) (chunk : nat) :
  rstate -> list bytes -> list (option pv) -> nat -> list record ->
  rstate -> list bytes -> list (option pv) -> nat -> Prop :=
| rsteps_nil : forall st v e p, rsteps orc chunk st v e p [] st v e p
| rsteps_cons : forall st v e p r st1 v1 e1 p1 rs st2 v2 e2 p2,
    iter_step orc chunk st v e p = SYield r st1 v1 e1 p1 ->
    rsteps orc chunk st1 v1 e1 p1 rs st2 v2 e2 p2 ->
    rsteps orc chunk st v e p (r :: rs) st2 v2 e2 p2.

(* iter_loop is exactly this iteration *)
Lemma iter_loop_rsteps : forall fuel orc chunk st v e p acc out t,
  iter_loop fuel orc chunk st v e p acc = (out, t) ->
  exists rs st' v' e' p',
    out = rev acc ++ rs /\ rsteps orc chunk st v e p rs st' v' e' p' /\
    (t = TFuel \/ forall r a b c d, iter_step orc chunk st' v' e' p' <> SYield r a b c d).
Proof.
  induction fuel as [|f IH]; intros orc chunk st v e p acc out t H; cbn [iter_loop] in H.
  - inversion H; subst. exists [], st, v, e, p. unfold frev. rewrite <- rev_alt, app_nil_r.
    repeat split; [constructor|left; reflexivity].
  - destruct (iter_step orc chunk st v e p) as [|r st1 v1 e1 p1|l c|ex] eqn:Hs.
    + inversion H; subst. exists [], st, v, e, p. unfold frev. rewrite <- rev_alt, app_nil_r.
      repeat split; [constructor|right; intros; rewrite Hs; discriminate].
    + apply IH in H. destruct H as [rs [st' [v' [e' [p' [Ho [Hr Ht]]]]]]].
      exists (r :: rs), st', v', e', p'. cbn [rev] in Ho. rewrite <- app_assoc in Ho.
      repeat split; [exact Ho|econstructor; eauto|exact Ht].
    + inversion H; subst. exists [], st, v, e, p. unfold frev. rewrite <- rev_alt, app_nil_r.
      repeat split; [constructor|right; intros; rewrite Hs; discriminate].
    + inversion H; subst. exists [], st, v, e, p. unfold frev. rewrite <- rev_alt, app_nil_r.
      repeat split; [constructor|right; intros; rewrite Hs; discriminate].
Qed.

(* the nesting history of a list of yielded records *)
Definition rec_transition (r : record) : option (transition pv) :=
  if beq (r_id r) GenSections.sec_change then Some (TChange (opt_get "encoding" (r_opts r)))
  else if beq (r_id r) GenSections.sec_file then Some (TFile (opt_get "encoding" (r_opts r)))
  else None.
Fixpoint rec_history (rs : list record) : history pv :=
  match rs with
  | [] => []
  | r :: t => match rec_transition r with Some x => x :: rec_history t | None => rec_history t end
  end.

Lemma assoc_get_in : forall {V} k (d : list (bytes * V)) v, assoc_get beq k d = Some v -> exists k', In (k', v) d.
Proof.
  induction d as [|[k' v'] d IH]; intros v H; cbn in H; [discriminate|].
  destruct (beq k k'); [inversion H; subst; exists k'; left; reflexivity|].
  destruct (IH v H) as [k2 Hk]. exists k2. right. exact Hk.
Qed.

(* the main header is never valid after another section (table fact, by computation) *)
Lemma no_main_next : forall id v, table_get id = Some v -> in_ids GenSections.sec_main v = false.
Proof.
  intros id v H. unfold table_get in H. apply assoc_get_in in H. destruct H as [k Hk].
  assert (Hall : forallb (fun kv => negb (in_ids GenSections.sec_main (snd kv))) GenSections.valid_states = true)
    by (vm_compute; reflexivity).
  rewrite forallb_forall in Hall. specialize (Hall _ Hk). cbn [snd] in Hall.
  destruct (in_ids GenSections.sec_main v); [discriminate|reflexivity].
Qed.

Lemma rdecl_dopt : forall opts, rdecl opts = dopt (opt_get "encoding" opts).
Proof. intros. unfold rdecl, dopt. destruct (opt_get "encoding" opts); reflexivity. Qed.

Lemma rec_transition_cases : forall r,
  (is_content (r_id r) = true -> rec_transition r = None) /\
  (r_id r = GenSections.sec_change -> rec_transition r = Some (TChange (opt_get "encoding" (r_opts r)))) /\
  (r_id r = GenSections.sec_file -> rec_transition r = Some (TFile (opt_get "encoding" (r_opts r)))).
Proof.
  intros r. unfold rec_transition. repeat split; intros H.
  - destruct (beq (r_id r) GenSections.sec_change) eqn:H1; [apply beq_eq in H1; rewrite H1 in H; vm_compute in H; discriminate|].
    destruct (beq (r_id r) GenSections.sec_file) eqn:H2; [apply beq_eq in H2; rewrite H2 in H; vm_compute in H; discriminate|].
    reflexivity.
  - rewrite H. reflexivity.
  - rewrite H. reflexivity.
Qed.

Lemma rsteps_history : forall orc chunk st v e p rs st' v' e' p',
  rsteps orc chunk st v e p rs st' v' e' p' ->
  in_ids GenSections.sec_main v = false ->
  Some (e', p') = fold_left rstep (rec_history rs) (Some (e, p)) /\ in_ids GenSections.sec_main v' = false.
Proof.
  intros orc chunk st v e p rs st' v' e' p' H. induction H as [|st v e p r st1 v1 e1 p1 rs st2 v2 e2 p2 Hs Hr IH];
    intros Hv; [split; [reflexivity|exact Hv]|].
  pose proof (reader_step_valid _ _ _ _ _ _ _ _ _ _ _ Hs) as Hv1. apply no_main_next in Hv1.
  specialize (IH Hv1). destruct IH as [IH1 IH2]. split; [|exact IH2].
  apply reader_step_bridge in Hs. destruct Hs as [Hin Hs].
  destruct (rec_transition_cases r) as [Tc [Tch Tf]]. cbn [rec_history].
  destruct Hs as [[Hc [He Hp]]|[[Hid _]|[[Hid [_ [He Hp]]]|[Hid [_ [He Hp]]]]]].
  - subst. rewrite (Tc Hc). exact IH1.
  - rewrite Hid in Hin. rewrite Hin in Hv. discriminate.
  - rewrite (Tch Hid). cbn [fold_left rstep decl rlevel]. rewrite <- rdecl_dopt, <- He. subst p1. exact IH1.
  - rewrite (Tf Hid). cbn [fold_left rstep decl rlevel]. rewrite <- rdecl_dopt, <- He. subst p1. exact IH1.
Qed.

(* From the start of iter_sections: the first record is the main header and, at every later point, the
   loop variables (encodings, prev_container_level) are the abstract reader machine run on the history
   of the container records yielded so far. *)
Theorem reader_stack_history : forall orc chunk st0 r0 rs st' v' e' p',
  rsteps orc chunk st0 [GenSections.sec_main] [None] 0 (r0 :: rs) st' v' e' p' ->
  r_id r0 = GenSections.sec_main /\
  Some (e', p') = rrun (opt_get "encoding" (r_opts r0)) (rec_history rs).
Proof.
  intros orc chunk st0 r0 rs st' v' e' p' H.
  inversion H as [|? ? ? ? ? st1 v1 e1 p1 ? ? ? ? ? Hs0 Hr]; subst. clear H.
  pose proof (reader_step_valid _ _ _ _ _ _ _ _ _ _ _ Hs0) as Hv1. apply no_main_next in Hv1.
  apply reader_step_bridge in Hs0. destruct Hs0 as [Hin Hs].
  assert (Hid : r_id r0 = GenSections.sec_main).
  { unfold in_ids in Hin. cbn [mem] in Hin. rewrite orb_false_r in Hin. apply beq_eq. exact Hin. }
  split; [exact Hid|].
  destruct Hs as [[Hc _]|[[_ [_ [He Hp]]]|[[Hx _]|[Hx _]]]].
  - rewrite Hid in Hc. vm_compute in Hc. discriminate.
  - subst p1. apply rsteps_history in Hr; [|exact Hv1]. destruct Hr as [Hr _].
    rewrite Hr. unfold rrun, rinit. rewrite <- rdecl_dopt, <- He. reflexivity.
  - rewrite Hid in Hx. vm_compute in Hx. discriminate.
  - rewrite Hid in Hx. vm_compute in Hx. discriminate.
Qed.

(* ... hence the value a preamble or metadata section inherits (the top of the stack, see
   reader_preamble_encoding / reader_meta_encoding) is the one the specification assigns *)
Theorem reader_effective_encoding : forall orc chunk st0 r0 rs st' v' e' p',
  rsteps orc chunk st0 [GenSections.sec_main] [None] 0 (r0 :: rs) st' v' e' p' ->
  ordered (rec_history rs) ->
  top e' = Some (spec_effective (opt_get "encoding" (r_opts r0)) (rec_history rs)).
Proof.
  intros orc chunk st0 r0 rs st' v' e' p' H Ho.
  apply reader_stack_history in H. destruct H as [_ H].
  pose proof (C04_reader_thm (opt_get "encoding" (r_opts r0)) (rec_history rs) Ho) as Hr.
  rewrite <- H in Hr. destruct e' as [|x t]; [discriminate|]. exact Hr.
Qed.

(* ---- [ordered] is not an assumption about real runs: the section-order table enforces it ---- *)
Lemma ordered_snoc_intro : forall {E} (h : history E) t,
  ordered h -> (is_change t = true \/ h <> []) -> ordered (h ++ [t]).
Proof.
  unfold ordered. intros E h t Ho Ht. rewrite ordered_from_snoc, Ho. cbn [andb].
  destruct Ht as [Ht|Ht]; [rewrite Ht; reflexivity|]. destruct h; [contradiction|]. cbn. apply orb_true_r.
Qed.

(* ids below a change or a file: those starting with two dots *)
Definition deep (id : bytes) : bool := bstarts (B "..") id.

(* table fact: only after a change header or a deep section may a deep section follow *)
Lemma deep_next : forall id v, table_get id = Some v -> existsb deep v = true ->
  deep id = true \/ id = GenSections.sec_change.
Proof.
  intros id v H Hd. unfold table_get in H.
  assert (Hall : forallb (fun kv => negb (existsb deep (snd kv)) || deep (fst kv) || beq (fst kv) GenSections.sec_change)
                         GenSections.valid_states = true) by (vm_compute; reflexivity).
  revert H. induction GenSections.valid_states as [|[k w] d IH]; intros H; cbn in H; [discriminate|].
  cbn [forallb fst snd] in Hall. apply andb_true_iff in Hall. destruct Hall as [H1 H2].
  destruct (beq id k) eqn:Hk; [|apply IH; assumption].
  apply beq_eq in Hk. subst k. inversion H; subst w. rewrite Hd in H1. cbn [negb orb] in H1.
  apply orb_true_iff in H1. destruct H1 as [H1|H1]; [left; exact H1|right; apply beq_eq; exact H1].
Qed.

Lemma in_ids_deep : forall id v, in_ids id v = true -> deep id = true -> existsb deep v = true.
Proof.
  unfold in_ids. induction v as [|x v IH]; intros H Hd; cbn in *; [discriminate|].
  apply orb_true_iff in H. destruct H as [H|H].
  - apply beq_eq in H. subst x. rewrite Hd. reflexivity.
  - rewrite (IH H Hd). apply orb_true_r.
Qed.

Lemma rsteps_ordered : forall orc chunk st v e p rs st' v' e' p',
  rsteps orc chunk st v e p rs st' v' e' p' ->
  in_ids GenSections.sec_main v = false ->
  forall h0, (existsb deep v = true -> h0 <> []) -> ordered h0 ->
  ordered (h0 ++ rec_history rs).
Proof.
  intros orc chunk st v e p rs st' v' e' p' H.
  induction H as [|st v e p r st1 v1 e1 p1 rs st2 v2 e2 p2 Hs Hr IH]; intros Hv h0 Hinv Ho;
    [rewrite app_nil_r; exact Ho|].
  pose proof (reader_step_valid _ _ _ _ _ _ _ _ _ _ _ Hs) as Hv1.
  pose proof (no_main_next _ _ Hv1) as Hnm. specialize (IH Hnm).
  apply reader_step_bridge in Hs. destruct Hs as [Hin Hs].
  destruct (rec_transition_cases r) as [Tc [Tch Tf]]. cbn [rec_history].
  destruct Hs as [[Hc _]|[[Hid _]|[[Hid _]|[Hid _]]]].
  - rewrite (Tc Hc). apply IH; [|exact Ho].
    intros Hd. apply Hinv. destruct (deep_next _ _ Hv1 Hd) as [Hdd|Hch].
    + eapply in_ids_deep; eauto.
    + rewrite Hch in Hc. vm_compute in Hc. discriminate.
  - rewrite Hid in Hin. rewrite Hin in Hv. discriminate.
  - rewrite (Tch Hid). change (?a :: rec_history rs) with ([a] ++ rec_history rs). rewrite app_assoc.
    apply IH; [intros _; destruct h0; discriminate|]. apply ordered_snoc_intro; [exact Ho|left; reflexivity].
  - rewrite (Tf Hid). change (?a :: rec_history rs) with ([a] ++ rec_history rs). rewrite app_assoc.
    apply IH; [intros _; destruct h0; discriminate|]. apply ordered_snoc_intro; [exact Ho|right].
    apply Hinv. eapply in_ids_deep; [exact Hin|]. rewrite Hid. vm_compute. reflexivity.
Qed.

Theorem reader_history_ordered : forall orc chunk st0 r0 rs st' v' e' p',
  rsteps orc chunk st0 [GenSections.sec_main] [None] 0 (r0 :: rs) st' v' e' p' ->
  ordered (rec_history rs).
Proof.
  intros orc chunk st0 r0 rs st' v' e' p' H.
  pose proof (reader_stack_history _ _ _ _ _ _ _ _ _ H) as [Hid _].
  inversion H as [|? ? ? ? ? st1 v1 e1 p1 ? ? ? ? ? Hs0 Hr]; subst. clear H.
  pose proof (reader_step_valid _ _ _ _ _ _ _ _ _ _ _ Hs0) as Hv1.
  pose proof (no_main_next _ _ Hv1) as Hnm.
  apply (rsteps_ordered _ _ _ _ _ _ _ _ _ _ _ Hr Hnm []); [|reflexivity].
  rewrite Hid in Hv1. vm_compute in Hv1. inversion Hv1; subst v1. vm_compute. discriminate.
Qed.

(* C04 for the reader, unconditionally: at every point of every run of iter_sections the value inherited
   by a preamble or metadata section is the effective encoding by tree position *)
Theorem reader_effective_encoding_total : forall orc chunk st0 r0 rs st' v' e' p',
  rsteps orc chunk st0 [GenSections.sec_main] [None] 0 (r0 :: rs) st' v' e' p' ->
  top e' = Some (spec_effective (opt_get "encoding" (r_opts r0)) (rec_history rs)).
Proof.
  intros. eapply reader_effective_encoding; eauto. eapply reader_history_ordered; eauto.
Qed.

(* ---- the same for the writer: _validate_section enforces [ordered] ---- *)
Lemma write_section_header_prev : forall sec o s s', write_section_header sec o s = (s', Ok tt) -> w_prev s' = Some sec.
Proof.
  unfold write_section_header, bindM, lift, emit, set_prev. intros sec o s s' H.
  destruct (render_header sec o); inversion H; reflexivity.
Qed.

Lemma new_container_prev : forall name level e extra s s' r,
  new_container_section name level e extra s = (s', r) ->
  1 <= level -> w_stack s <> [] ->
  (r = Ok tt /\ validate_section s (build_id (level - 1) name) = Ok tt /\ w_prev s' = Some (build_id (level - 1) name))
  \/ (exists err, r = Err err /\ s' = s).
Proof.
  intros name level e extra s s' r H Hl Hne.
  unfold new_container_section in H. unfold bindM at 1 in H. unfold get_state at 1 in H.
  unfold bindM at 1 in H. unfold lift at 1 in H.
  destruct (validate_section s (build_id (level - 1) name)) as [[]|err]; [|right; inversion H; eauto].
  unfold bindM at 1 in H.
  destruct (write_section_header (build_id (level - 1) name) (dict_set "encoding" e extra) s) as [s1 r1] eqn:Hw.
  pose proof Hw as Hw2.
  apply write_section_header_stack in Hw. destruct Hw as [Hst Herr].
  destruct r1 as [[]|err]; [|right; inversion H; subst; exists err; split; [reflexivity|]; eauto].
  apply write_section_header_prev in Hw2.
  unfold bindM at 1 in H. unfold get_state at 1 in H. unfold bindM at 1 in H.
  assert (Hlev : cur_level s1 = cur_level s) by (unfold cur_level; rewrite Hst; reflexivity).
  rewrite Hlev in H.
  assert (Hle : cur_level s + 1 - level <= length (w_stack s) - 1) by (unfold cur_level; lia).
  destruct (pop_n_some (cur_level s + 1 - level) (w_stack s)) as [l' [Hp Hlen]]; [lia|].
  pose proof (repeatM_pop (cur_level s + 1 - level) s1) as Hr. rewrite Hst, Hp in Hr. rewrite Hr in H.
  assert (Hl' : l' <> []).
  { destruct l'; [|discriminate]. cbn [length] in Hlen.
    assert (length (w_stack s) <> 0) by (destruct (w_stack s); [contradiction|discriminate]). lia. }
  destruct l' as [|top rest]; [contradiction|].
  unfold bindM, get_state, lift, cur_encoding, push in H. cbn in H.
  left. inversion H; subst. cbn. auto.
Qed.

Lemma new_content_prev : forall name content le enc indent wle inh extra s s' r,
  new_content_section name content le enc indent wle inh extra s = (s', r) ->
  (r = Ok tt /\ validate_section s (build_id (cur_level s + 1 - 1) name) = Ok tt /\
   w_prev s' = Some (build_id (cur_level s + 1 - 1) name))
  \/ (exists err, r = Err err /\ s' = s).
Proof.
  unfold new_content_section, bindM, get_state, lift. intros until r. intros H.
  destruct (validate_section s _) as [[]|err]; [|right; inversion H; eauto].
  destruct (prepare_content s content indent le enc inh) as [[body leo]|err]; [|right; inversion H; eauto].
  match type of H with context[write_section_header ?a ?b s] =>
    destruct (write_section_header a b s) as [s1 r1] eqn:Hw end.
  pose proof Hw as Hw2. apply write_section_header_stack in Hw. destruct Hw as [_ Herr].
  destruct r1 as [[]|err]; [|right; inversion H; subst; exists err; split; [reflexivity|]; eauto].
  apply write_section_header_prev in Hw2. left. unfold emit in H. inversion H; subst. cbn. auto.
Qed.

(* the section id a call writes *)
Definition call_section (c : call) (s : wstate) : bytes :=
  match c with
  | NewChange _ => build_id (GenText.writer_level_change - 1) (B "change")
  | NewFile _ => build_id (GenText.writer_level_file - 1) (B "file")
  | WritePreamble _ _ _ _ _ => build_id (cur_level s + 1 - 1) (B "preamble")
  | WriteMeta _ _ _ => build_id (cur_level s + 1 - 1) (B "meta")
  | WriteDiff _ _ _ _ => build_id (cur_level s + 1 - 1) (B "diff")
  end.

(* a call either fails leaving the writer exactly as it was, or was validated against the order table *)
Lemma do_call_prev : forall c s s' r, w_stack s <> [] -> do_call c s = (s', r) ->
  (r = Ok tt /\ validate_section s (call_section c s) = Ok tt /\ w_prev s' = Some (call_section c s))
  \/ (exists err, r = Err err /\ s' = s).
Proof.
  intros c s s' r Hne H. destruct c; cbn [do_call call_section] in *.
  - eapply new_container_prev in H; eauto. vm_compute; lia.
  - eapply new_container_prev in H; eauto. vm_compute; lia.
  - destruct text; try (right; inversion H; eauto; fail).
    unfold bindM at 1, lift at 1 in H.
    destruct (match mimetype with WNone => Ok true | _ => in_strset mimetype GenText.mimetypes end) as [mok|];
      [|right; inversion H; eauto].
    destruct (negb mok); [right; inversion H; eauto|]. eapply new_content_prev; eauto.
  - destruct metadata; try (right; inversion H; eauto; fail).
    destruct (negb (wv_truthy (WDict j))); [right; inversion H; eauto|].
    unfold bindM at 1, lift at 1 in H.
    destruct (in_strset _ GenText.meta_formats) as [fok|]; [|right; inversion H; eauto].
    destruct (negb fok); [right; inversion H; eauto|].
    unfold bindM at 1, lift at 1 in H.
    destruct (json_dump j); [|right; inversion H; eauto].
    unfold bindM at 1, get_state at 1 in H. cbv beta iota in H. unfold bindM at 1, lift at 1 in H.
    destruct (if wv_truthy encoding then _ else _) as [has_enc|]; [|right; inversion H; eauto].
    eapply new_content_prev; eauto.
  - destruct content; try (right; inversion H; eauto; fail).
    unfold bindM at 1, lift at 1 in H.
    destruct (match diff_type with WNone => Ok true | _ => in_strset diff_type GenText.diff_types end) as [tok|];
      [|right; inversion H; eauto].
    destruct (negb tok); [right; inversion H; eauto|]. eapply new_content_prev; eauto.
Qed.

Lemma validate_section_ok : forall s sec, validate_section s sec = Ok tt ->
  w_prev s = None \/ exists p v, w_prev s = Some p /\ table_get p = Some v /\ in_ids sec v = true.
Proof.
  intros s sec H. unfold validate_section in H. destruct (w_prev s) as [p|]; [right|left; reflexivity].
  destruct (table_get p) as [v|] eqn:Ht; [|discriminate]. destruct (in_ids sec v) eqn:Hi; [|discriminate]. exists p, v. auto.
Qed.

Lemma content_id_not_change : forall n name, In name [B "preamble"; B "meta"; B "diff"] ->
  build_id n name <> GenSections.sec_change.
Proof.
  intros n name Hin H. cbn [In] in Hin.
  repeat (destruct Hin as [Hin|Hin]; [subst; destruct n as [|[|n]]; vm_compute in H; discriminate H|]).
  contradiction.
Qed.

(* invariant: deep sections may follow the previous section only if a change has been opened *)
Definition wprev_inv (s : wstate) (h : history wv) : Prop :=
  exists p, w_prev s = Some p /\ forall v, table_get p = Some v -> existsb deep v = true -> h <> [].

Lemma run_calls_ordered : forall cs s h0,
  w_stack s <> [] -> wprev_inv s h0 -> ordered h0 ->
  ordered (h0 ++ ok_history cs (fst (run_calls s cs))).
Proof.
  induction cs as [|c cs IH]; intros s h0 Hne Hinv Ho; [cbn; rewrite app_nil_r; exact Ho|].
  cbn [run_calls]. destruct (do_call c s) as [s' r] eqn:Hd.
  destruct (do_call_stack c s s' r Hne Hd) as [Hne' _].
  specialize (IH s'). destruct (run_calls s' cs) as [rs f] eqn:Hrun. cbn [fst ok_history] in *.
  destruct (do_call_prev c s s' r Hne Hd) as [[Hr [Hval Hprev]]|[err [Hr Hs]]].
  - (* the call was accepted *)
    subst r. apply validate_section_ok in Hval. destruct Hinv as [p [Hp Hinv]].
    destruct Hval as [Hval|[p' [v [Hp' [Hv Hin]]]]]; [congruence|]. rewrite Hp in Hp'. inversion Hp'; subst p'.
    (* what holds of any accepted section *)
    assert (Hstep : forall h1, (h0 <> [] -> h1 <> []) ->
                    (call_section c s = GenSections.sec_change -> h1 <> []) -> wprev_inv s' h1).
    { intros h1 Hmono Hch. exists (call_section c s). split; [exact Hprev|]. intros v1 Hv1 Hd1.
      destruct (deep_next _ _ Hv1 Hd1) as [Hdeep|Hc]; [|auto].
      apply Hmono. apply (Hinv v Hv). eapply in_ids_deep; eauto. }
    destruct c as [e|e| | |]; cbn [call_transition].
    + change (?a :: ok_history cs rs) with ([a] ++ ok_history cs rs). rewrite app_assoc.
      apply IH; [exact Hne'| |apply ordered_snoc_intro; [exact Ho|left; reflexivity]].
      apply Hstep; intros; destruct h0; discriminate.
    + change (?a :: ok_history cs rs) with ([a] ++ ok_history cs rs). rewrite app_assoc.
      assert (Hh0 : h0 <> []).
      { apply (Hinv v Hv). eapply in_ids_deep; [exact Hin|]. vm_compute. reflexivity. }
      apply IH; [exact Hne'| |apply ordered_snoc_intro; [exact Ho|right; exact Hh0]].
      apply Hstep; intros; destruct h0; discriminate.
    + apply IH; [exact Hne'| |exact Ho]. apply Hstep; [auto|].
      intros Hc. exfalso. eapply content_id_not_change; [|exact Hc]. cbn; auto.
    + apply IH; [exact Hne'| |exact Ho]. apply Hstep; [auto|].
      intros Hc. exfalso. eapply content_id_not_change; [|exact Hc]. cbn; auto.
    + apply IH; [exact Hne'| |exact Ho]. apply Hstep; [auto|].
      intros Hc. exfalso. eapply content_id_not_change; [|exact Hc]. cbn; auto.
  - (* the call was rejected: nothing changed *)
    subst r s'. destruct (call_transition c); apply IH; assumption.
Qed.

Lemma writer_init_prev : forall enc ver s, writer_init enc ver = (s, Ok tt) -> wprev_inv s [].
Proof.
  intros enc ver s H. unfold writer_init in H.
  destruct (in_strset ver GenText.versions) as [[|]|]; try (inversion H; fail).
  eapply new_container_prev in H; [|vm_compute; lia|discriminate].
  destruct H as [[_ [_ Hp]]|[err [Hr _]]]; [|discriminate].
  exists (build_id (GenText.writer_level_main - 1) (B "diffx")). split; [exact Hp|].
  intros v Hv Hd. vm_compute in Hv. inversion Hv; subst v. vm_compute in Hd. discriminate.
Qed.

Theorem writer_history_ordered : forall enc ver s0 cs,
  writer_init enc ver = (s0, Ok tt) -> ordered (ok_history cs (fst (run_calls s0 cs))).
Proof.
  intros enc ver s0 cs Hi. destruct (writer_init_stack enc ver s0 Hi) as [Hne _].
  apply (run_calls_ordered cs s0 [] Hne (writer_init_prev enc ver s0 Hi)). reflexivity.
Qed.

(* C04 for the writer, unconditionally: after any program whatsoever run on a fresh writer, the encoding
   the next preamble or metadata section inherits is the effective encoding by tree position *)
Theorem writer_effective_encoding_total : forall enc ver s0 cs,
  writer_init enc ver = (s0, Ok tt) ->
  exists top, cur_encoding (snd (run_calls s0 cs)) = Ok top /\
              wdecl top = spec_effective (wdecl enc) (ok_history cs (fst (run_calls s0 cs))).
Proof.
  intros. eapply writer_effective_encoding; eauto. eapply writer_history_ordered; eauto.
Qed.

(* ---- concrete runs of the real models ---- *)
Definition ex_utf8 : wv := WStr (ascii_text (B "utf-8")).
Definition ex_latin1 : wv := WStr (ascii_text (B "latin-1")).
Definition ex_calls : list call :=
  [ NewChange ex_latin1;
    WritePreamble (WStr (ascii_text (B "hello"))) WNone None WNone WNone;
    NewFile WNone;                                   (* inherits latin-1 from its change *)
    NewFile ex_utf8;                                 (* rejected (a file must start with its metadata): no effect *)
    WriteMeta (WDict (JObj [(ascii_text (B "k"), JStr (ascii_text (B "v")))])) WNone None;
    WriteDiff (WBytes (B "--- a")) WNone WNone WNone;
    NewChange WNone ].                               (* sibling change: back to main's utf-8 *)

Example ex_writer_run :
  exists s0, writer_init ex_utf8 (WStr (ascii_text (B "1.0"))) = (s0, Ok tt) /\
    map fst (fst (run_calls s0 ex_calls)) = [Ok tt; Ok tt; Ok tt; Err ELibOrder; Ok tt; Ok tt; Ok tt] /\
    ok_history ex_calls (fst (run_calls s0 ex_calls)) = [TChange (Some ex_latin1); TFile None; TChange None] /\
    cur_encoding (snd (run_calls s0 ex_calls)) = Ok ex_utf8 /\
    cur_encoding (snd (run_calls s0 (firstn 3 ex_calls))) = Ok ex_latin1.
Proof. eexists. split; [vm_compute; reflexivity|]. vm_compute. repeat split; reflexivity. Qed.

Definition ex_stream : bytes :=
  B "#diffx: encoding=utf-8, version=1.0" ++ [x0a] ++
  B "#.change: encoding=latin-1" ++ [x0a] ++
  B "#..preamble: length=3" ++ [x0a] ++ B "hi" ++ [x0a] ++
  B "#..file:" ++ [x0a] ++
  B "#...meta: length=3" ++ [x0a] ++ B "{}" ++ [x0a] ++
  B "#...diff: length=2" ++ [x0a] ++ B "x" ++ [x0a] ++
  B "#.change:" ++ [x0a] ++
  B "#..preamble: length=3" ++ [x0a] ++ B "ho" ++ [x0a].
Definition ex_oracle : oracle := [(oracle_key_text (ascii_text (B "{}" ++ [x0a])), LoadsOk (JObj []))].

Example ex_reader_run :
  exists rs, fst (read_all ex_oracle default_chunk ex_stream) = rs /\ snd (read_all ex_oracle default_chunk ex_stream) = TEnd /\
    map r_id rs = [B "diffx"; B ".change"; B "..preamble"; B "..file"; B "...meta"; B "...diff"; B ".change"; B "..preamble"] /\
    rec_history (tl rs) = [TChange (Some (VStr (B "latin-1"))); TFile None; TChange None].
Proof. eexists. split; [reflexivity|]. vm_compute. repeat split; reflexivity. Qed.

Example ex_reader_rsteps :
  exists r0 rs st' v' e' p',
    rsteps ex_oracle default_chunk {| st_stream := {| s_data := ex_stream; s_pos := 0 |}; st_linenum := 0%Z; st_fnl := None |}
           [GenSections.sec_main] [None] 0 (r0 :: rs) st' v' e' p' /\
    List.length rs = 6 /\
    e' = [Some (VStr (B "utf-8")); Some (VStr (B "utf-8")); None] /\ p' = 1.
Proof.
  do 6 eexists. split.
  - do 7 (eapply rsteps_cons; [vm_compute; reflexivity|]). apply rsteps_nil.
  - vm_compute. repeat split; reflexivity.
Qed.
