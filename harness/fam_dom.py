"""Object-model families: dom (C05, C06), stats (C13), alias (C18), attrs (C19)."""
import io
import json

import lib
import streamlib as sl
import gen_calls as gc
import gen_foreign as gf
import spec
from lib import H, T, L, Lst
from family import Family, hx, unhx


# ------------------------------------------------------------------ trees as JSON, as python objects, as snapshots
# tree JSON: {"opts": {k: wv}, "pre": {"opts": {}, "content": str|None}, "meta": {"opts": {}, "content": {}},
#             "changes": [{"opts", "pre", "meta", "files": [{"opts", "meta", "diff": {"opts", "content": hex|None}}]}]}
def wv_of_py(v):
    if v is None:
        return None
    if isinstance(v, bool):
        return {'bool': v}
    if isinstance(v, int):
        return {'i': v}
    if isinstance(v, str):
        return {'s': v}
    if isinstance(v, bytes):
        return {'b': v.hex()}
    if isinstance(v, dict):
        return {'d': v}
    return 'other'


def dopts_sx(o):
    items = sorted(o.items(), key=lambda kv: kv[0].encode('utf-8', 'replace'))
    return '(' + ' '.join('(%s %s)' % (H(k.encode('utf-8', 'replace')), sl.wv_sx(v)) for k, v in items) + ')'


def tree_sx(t):
    def psec(s):
        return '(%s %s)' % (dopts_sx(s['opts']), 'none' if s['content'] is None else '(some %s)' % T(s['content']))

    def msec(s):
        return '(%s %s)' % (dopts_sx(s['opts']), sl.json_sx(sl.py_json(s['content'])))

    def dsec(s):
        return '(%s %s)' % (dopts_sx(s['opts']), 'none' if s['content'] is None else '(some #%s)' % s['content'])

    def fil(f):
        return '(%s %s %s)' % (dopts_sx(f['opts']), msec(f['meta']), dsec(f['diff']))

    def chg(c):
        return '(%s %s %s (%s))' % (dopts_sx(c['opts']), psec(c['pre']), msec(c['meta']), ' '.join(fil(f) for f in c['files']))
    return '(%s %s %s (%s))' % (dopts_sx(t['opts']), psec(t['pre']), msec(t['meta']), ' '.join(chg(c) for c in t['changes']))


def changed_sections(a, b):
    """Names of the sections (main, cI, fI.J) whose snapshot differs between two snapshots of one tree."""
    out = []

    def sec(x):
        return json.dumps({k: v for k, v in x.items() if k not in ('changes', 'files')}, sort_keys=True, default=repr)
    if sec(a) != sec(b):
        out.append('main')
    for ci, (ca, cb) in enumerate(zip(a['changes'], b['changes'])):
        if sec(ca) != sec(cb):
            out.append('c%d' % ci)
        for fi, (fa, fb) in enumerate(zip(ca['files'], cb['files'])):
            if sec(fa) != sec(fb):
                out.append('f%d.%d' % (ci, fi))
    return out


def has_marker_keys(x):
    if isinstance(x, dict):
        return any(isinstance(k, str) and k.startswith('__key_') for k in x) or any(has_marker_keys(v) for v in x.values())
    if isinstance(x, (list, tuple)):
        return any(has_marker_keys(v) for v in x)
    return False


def has_mixed_keys(x):
    if isinstance(x, dict):
        ks = list(x.keys())
        if any(isinstance(k, str) and k.startswith(sl.KEY_INT) for k in ks) and any(not (isinstance(k, str) and k.startswith(sl.KEY_INT)) for k in ks):
            return True
        return any(has_mixed_keys(v) for v in x.values())
    if isinstance(x, (list, tuple)):
        return any(has_mixed_keys(v) for v in x)
    return False


def skey(snap):
    """Comparison key of a snapshot: dictionary order does not matter, int and str keys stay distinct."""
    return json.dumps(snap, sort_keys=True, default=repr)


def snapshot(d):
    """Structural dump of a live DiffX tree into tree JSON (reads attributes only)."""
    def opts(o):
        return {k: wv_of_py(v) for k, v in o.items()}

    def psec(s):
        return dict(opts=opts(s.options), content=s.content)

    def keep(x):
        # a JSON-able copy that keeps int and str dictionary keys apart (json.dumps would write both as strings)
        if isinstance(x, dict):
            return {sl.case_key(k): keep(v) for k, v in x.items()}
        if isinstance(x, (list, tuple)):
            return [keep(v) for v in x]
        return x

    def msec(s):
        return dict(opts=opts(s.options), content=keep(s.content) if _jsonable(s.content) else {'__unjsonable__': sl.live_dump(s.content)})

    def dsec(s):
        return dict(opts=opts(s.options), content=None if s.content is None else bytes(s.content).hex())
    return dict(opts=opts(d.options), pre=psec(d.preamble_section), meta=msec(d.meta_section),
                changes=[dict(opts=opts(c.options), pre=psec(c.preamble_section), meta=msec(c.meta_section),
                              files=[dict(opts=opts(f.options), meta=msec(f.meta_section), diff=dsec(f.diff_section))
                                     for f in c.files])
                         for c in d.changes])


def _jsonable(x):
    try:
        json.dumps(x)
        return True
    except (TypeError, ValueError):
        return False


ATTR = {'encoding': 'encoding', 'indent': 'indent', 'line_endings': 'line_endings', 'mimetype': 'mimetype',
        'format': 'format', 'type': 'type', 'version': 'version'}


def build(t):
    """Builds a live tree from tree JSON through the public constructors and typed attributes."""
    from pydiffx.dom import DiffX
    d = DiffX()
    _apply_main(d, t)
    for c in t['changes']:
        ch = d.add_change()
        for k, v in c['opts'].items():
            setattr(ch, k, sl.pyval(v))
        _apply_pre(ch, c['pre'])
        _apply_meta(ch, c['meta'])
        for f in c['files']:
            fl = ch.add_file()
            for k, v in f['opts'].items():
                setattr(fl, k, sl.pyval(v))
            _apply_meta(fl, f['meta'])
            for k, v in f['diff']['opts'].items():
                setattr(fl, 'diff_' + k, sl.pyval(v))
            if f['diff']['content'] is not None:
                fl.diff = bytes.fromhex(f['diff']['content'])
    return d


def _apply_main(d, t):
    # the default options are encoding=utf-8, version=1.0; a tree JSON lists the options it wants set
    for k, v in t['opts'].items():
        setattr(d, k, sl.pyval(v))
    _apply_pre(d, t['pre'])
    _apply_meta(d, t['meta'])


def _apply_pre(obj, s):
    for k, v in s['opts'].items():
        setattr(obj, 'preamble_' + k, sl.pyval(v))
    if s['content'] is not None:
        obj.preamble = s['content']


def _apply_meta(obj, s):
    for k, v in s['opts'].items():
        setattr(obj, 'meta_' + k, sl.pyval(v))
    if s['content']:
        obj.meta = sl.py_json(s['content'])


def default_tree_json():
    return dict(opts={'encoding': {'s': 'utf-8'}, 'version': {'s': '1.0'}}, pre=dict(opts={}, content=None),
                meta=dict(opts={'format': {'s': 'json'}}, content={}), changes=[])


def gen_tree(rng, encs=None):
    encs = encs or gc.CODECS

    def pick(p=0.6):
        return None if rng.random() < p else rng.choice(encs)

    def pre(eff):
        o = {}
        e = pick(0.7)
        if e:
            o['encoding'] = {'s': e}
        if rng.random() < 0.5:
            o['indent'] = {'i': rng.choice([0, 1, 2, 4, 7])}
        if rng.random() < 0.4:
            o['line_endings'] = {'s': rng.choice(['unix', 'dos'])}
        if rng.random() < 0.3:
            o['mimetype'] = {'s': rng.choice(['text/plain', 'text/markdown'])}
        r = rng.random()
        content = None if r < 0.25 else ('' if r < 0.35 else gc.gen_text(rng, gc.canon(e or eff)))
        return dict(opts=o, content=content)

    def meta(eff, required=False):
        o = {'format': {'s': 'json'}}
        e = pick(0.75)
        if e:
            o['encoding'] = {'s': e}
        content = gc.gen_dict(rng) if (required or rng.random() < 0.7) else {}
        return dict(opts=o, content=content)

    def diff():
        o = {}
        e = pick(0.6)
        if e:
            o['encoding'] = {'s': e}
        if rng.random() < 0.4:
            o['line_endings'] = {'s': rng.choice(['unix', 'dos'])}
        if rng.random() < 0.4:
            o['type'] = {'s': rng.choice(['text', 'binary'])}
        r = rng.random()
        content = None if r < 0.25 else ('' if r < 0.3 else gc.gen_diff(rng, gc.canon(e) if e else None).hex())
        return dict(opts=o, content=content)
    main = rng.choice(encs) if rng.random() < 0.5 else 'utf-8'
    t = dict(opts={'encoding': {'s': main}, 'version': {'s': '1.0'}}, pre=pre(main), meta=meta(main), changes=[])
    for _ in range(rng.randint(1, 3)):
        ce = pick()
        ceff = ce or main
        c = dict(opts={'encoding': {'s': ce}} if ce else {}, pre=pre(ceff), meta=meta(ceff), files=[])
        for _ in range(rng.randint(1, 3)):
            fe = pick(0.7)
            c['files'].append(dict(opts={'encoding': {'s': fe}} if fe else {}, meta=meta(fe or ceff, required=True),
                                   diff=diff()))
        t['changes'].append(c)
    return t


# ------------------------------------------------------------------ the documented normalisation (C05), from the property text
def normalise(t):
    def eff_enc(*c):
        for e in c:
            if e:
                return e
        return None

    def val(o, k):
        return sl.pyval(o[k]) if k in o else None

    def pre(s, parent):
        if not s['content']:
            return dict(opts={}, content=None)
        o = dict(s['opts'])
        if 'indent' not in o:
            o['indent'] = {'i': 4}
        kind = val(o, 'line_endings') or gc.detect_kind_text(s['content'])
        o['line_endings'] = {'s': kind}
        nl = '\n' if kind == 'unix' else '\r\n'
        c = s['content'] if s['content'].endswith(nl) else s['content'] + nl
        return dict(opts=o, content=c)

    def meta(s):
        if not s['content']:
            return dict(opts={'format': {'s': 'json'}}, content={})
        o = dict(s['opts'])
        o.setdefault('format', {'s': 'json'})
        return dict(opts=o, content=s['content'])

    def diff(s):
        if not s['content']:
            return dict(opts={}, content=None)
        o = dict(s['opts'])
        enc = val(o, 'encoding')
        b = bytes.fromhex(s['content'])
        kind = val(o, 'line_endings') or gc.detect_kind_bytes(b, enc)
        o['line_endings'] = {'s': kind}
        nl = spec.newline_bytes(kind, enc)
        if not b.endswith(nl):
            b += nl
        return dict(opts=o, content=b.hex())
    return dict(opts=dict(t['opts']), pre=pre(t['pre'], None), meta=meta(t['meta']),
                changes=[dict(opts=dict(c['opts']), pre=pre(c['pre'], None), meta=meta(c['meta']),
                              files=[dict(opts=dict(f['opts']), meta=meta(f['meta']), diff=diff(f['diff'])) for f in c['files']])
                         for c in t['changes']])


def calls_of_tree(t):
    """The call sequence that serialising the tree amounts to (python-valued, for spec.spec_serialize)."""
    def v(o, k):
        return sl.pyval(o[k]) if k in o else None
    calls = []

    def pre(s):
        if s['content']:
            o = s['opts']
            calls.append(['write_preamble', s['content'], v(o, 'encoding'), v(o, 'indent') if 'indent' in o else 4,
                          v(o, 'line_endings'), v(o, 'mimetype')])

    def meta(s):
        if s['content']:
            calls.append(['write_meta', sl.py_json(s['content']), v(s['opts'], 'encoding')])
    pre(t['pre'])
    meta(t['meta'])
    for c in t['changes']:
        calls.append(['new_change', v(c['opts'], 'encoding')])
        pre(c['pre'])
        meta(c['meta'])
        for f in c['files']:
            calls.append(['new_file', v(f['opts'], 'encoding')])
            meta(f['meta'])
            d = f['diff']
            if d['content']:
                calls.append(['write_diff', bytes.fromhex(d['content']), v(d['opts'], 'type'), v(d['opts'], 'encoding'),
                              v(d['opts'], 'line_endings')])
    return v(t['opts'], 'encoding'), calls


def exc_obs(e):
    from pydiffx.errors import BaseDiffXError
    return '(exc)'


class Dom(Family):
    name = 'dom'
    rule = ('random typed trees (1-3 changes, 1-3 files, empty and non-empty content, every option independently set or '
            'unset, encodings from 10 codecs) serialised and parsed back (C05); writer-produced canonical files and '
            'foreign well-formed files parsed and re-serialised twice (C06); non-trivial = a tree with at least two '
            'changes or files / a file with at least 5 sections; distinct by tree or file bytes')

    def cases(self, tier, rng, prop_id):
        n = 300 if tier == 'quick' else 6000
        if prop_id in ('C05', 'ALL'):
            for i in range(n):
                yield dict(kind='tree', tree=gen_tree(rng))
                if i % 15 == 0:
                    # preambles whose first line, ENCODED, contains the newline bytes at a non-character boundary (line
                    # endings not declared), and size boundaries: very large indents, a CRLF across byte 65536
                    import fam_stream
                    specials = []
                    for codec, (lf_pair, crlf_triple) in fam_stream.MISALIGNED_FIRST_LINE.items():
                        specials.append((codec, 'a' + lf_pair + 'b\r\nsecond\r\n', rng.choice([None, 0, 2])))
                        if crlf_triple:
                            specials.append((codec, 'a' + crlf_triple + 'b\nsecond\n', rng.choice([None, 0, 2])))
                    # lone surrogates from the range an error handler such as surrogateescape maps to bytes: such a tree
                    # does not serialise (strict encoding); if it ever does, it must come back unchanged
                    specials += [('latin-1', 'caf\udce9\n', None), ('utf-8', 'x\udc80\n', 2), ('ascii', '\udcff', None),
                                 ('utf-16', 'a\udce9\n', None)]
                    specials += [('utf-8', ' lead\n  two\nx\n', 1025), ('utf-16', ' lead\n  two\nx\n', 1024),
                                 ('utf-8', 'x' * 65535 + '\r\ntail\r\n', 2), ('utf-8', 'y' * 8191 + '\r\n a\n b\r\n', 2)]
                    codec, text, ind = specials[(i // 15) % len(specials)]
                    t = gen_tree(rng)
                    if (i // 15) % 3 == 0:
                        # metadata with a key JSON cannot write (a tuple, bytes): such a tree does not serialise; if it ever
                        # does, reading it back must give the same tree
                        t['meta'] = dict(opts={'format': {'s': 'json'}},
                                         content=rng.choice([{'revision map': {'__key_tuple__:r1,r2': 'trunk'}},
                                                             {'__key_bytes__:6162': 1}, {'m': [{'__key_tuple__:a': {'b': 1}}]}]))
                    t['opts']['encoding'] = {'s': codec}
                    t['pre'] = dict(opts=({} if ind is None else {'indent': {'i': ind}}), content=text)
                    if t['changes']:
                        t['changes'][0]['opts'] = {}
                        t['changes'][0]['pre'] = dict(opts=({} if ind is None else {'indent': {'i': ind}}), content=text)
                    yield dict(kind='tree', tree=t)
        if prop_id in ('C06', 'ALL'):
            for i in range(n // 2):
                main, calls = gc.gen_wellformed_calls(rng)
                # the C01 domain: indent >= 0 or default
                calls = [[c[0], c[1], c[2], ('omitted' if c[3] is None else c[3]), c[4], c[5]] if c[0] == 'write_preamble' else c
                         for c in calls]
                wobs, data, per = sl.run_writer(sl.S(main), sl.S('1.0'), calls)
                if data is not None and all(p[0] for p in per):
                    yield dict(kind='canonical', data=hx(data))
            for i in range(n // 2):
                f = gf.gen_file(rng)
                yield dict(kind='foreign', data=hx(gf.render(f)), file=f)
            # what an earlier load leaves behind in the process must not change a later one: a tolerated under-indented
            # short preamble (indent larger than the whole content) first, then the library's own output with that indent
            for k in (1, 2, 4, 7, 8):
                short = b'#diffx: encoding=utf-8, version=1.0\n#.preamble: indent=%d, length=%d\n' % (k, min(k, 3)) + \
                    (b'hi\n' if k >= 3 else b'x\n'[-k:] if k > 1 else b'\n')
                body = b''.join(b' ' * k + l for l in [b'hello\n', b'  world\n', b'\n', b'end\n'])
                canon = b'#diffx: encoding=utf-8, version=1.0\n#.preamble: indent=%d, length=%d, line_endings=unix\n' % (k, len(body)) + body
                yield dict(kind='canonical', data=hx(canon), history=[hx(short)])
                yield dict(kind='canonical', data=hx(canon), history=[hx(canon), hx(short)])

    def _impl(self, c):
        if '_impl' in c:
            return c['_impl']
        from pydiffx.dom import DiffX
        import pydiffx.reader as rmod
        rec = sl.LoadsRecorder()
        saved = rmod.json
        rmod.json = rec
        try:
            if c['kind'] == 'tree':
                try:
                    d = build(c['tree'])
                    b = d.to_bytes()
                except Exception as e:
                    res = dict(obs='(exc)', wrote=None, err=type(e).__name__)
                else:
                    try:
                        d2 = DiffX.from_bytes(b)
                        snap = snapshot(d2)
                        res = dict(obs='(ok %s (ok %s))' % (H(b), tree_sx(snap)), wrote=b, snap=snap)
                    except Exception as e:
                        res = dict(obs='(ok %s (exc))' % H(b), wrote=b, snap=None, err=type(e).__name__ + ': ' + str(e)[:200])
            else:
                # histories: files loaded earlier IN THIS PROCESS (the case carries them, so a replay reproduces them)
                for h in c.get('history', []):
                    try:
                        DiffX.from_bytes(unhx(h))
                    except Exception:
                        pass
                rec.table.clear()
                data = unhx(c['data'])
                try:
                    d = DiffX.from_bytes(data)
                    snap = snapshot(d)
                except Exception as e:
                    res = dict(obs='(exc)', snap=None, err=type(e).__name__ + ': ' + str(e)[:200])
                else:
                    try:
                        b1 = d.to_bytes()
                        res = dict(obs='(ok %s (ok %s))' % (tree_sx(snap), H(b1)), snap=snap, b1=b1)
                        try:
                            d2 = DiffX.from_bytes(b1)
                            res['snap2'] = snapshot(d2)
                            res['b2'] = d2.to_bytes()
                        except Exception as e:
                            res['err2'] = type(e).__name__ + ': ' + str(e)[:200]
                    except Exception as e:
                        res = dict(obs='(ok %s (exc))' % tree_sx(snap), snap=snap, b1=None, err=type(e).__name__ + ': ' + str(e)[:200])
        finally:
            rmod.json = saved
        res['orc'] = '(' + ' '.join('(%s %s)' % (H(k), v) for k, v in rec.table.items()) + ')'
        c['_impl'] = res
        return res

    def model_line(self, c):
        r = self._impl(c)
        if c['kind'] == 'tree' and has_marker_keys(c['tree']):
            return None         # dictionary keys JSON cannot carry: the value-level model has no such tree (oracle only)
        if c['kind'] == 'tree':
            return L('dom_roundtrip', tree_sx(c['tree']), r['orc'])
        return L('dom_reserialise', '#' + c['data'], r['orc'])

    def impl_obs(self, c):
        return self._impl(c)['obs']

    def normalize_model(self, line):
        return sl.collapse_exc(line)

    def key(self, c):
        return json.dumps([c.get('tree') or c.get('data'), c.get('history')], sort_keys=True)

    def bucket(self, c):
        return c['kind']

    def nontrivial(self, c):
        if c['kind'] == 'tree':
            t = c['tree']
            return len(t['changes']) > 1 or any(len(x['files']) > 1 for x in t['changes'])
        return unhx(c['data']).count(b'\n#') >= 4

    def describe(self, c):
        return {k: v for k, v in c.items() if not k.startswith('_') and k != 'file'}

    def oracle(self, c, obs):
        r = self._impl(c)
        out = []
        if c['kind'] == 'tree':
            if r.get('wrote') is None:
                return out          # the tree does not serialise: outside C05's quantifier
            want = normalise(c['tree'])
            if r.get('snap') is None:
                out.append(('C05', 'reparse-failed', 'the serialised tree could not be parsed: %s' % r.get('err')))
            elif tree_sx(r['snap']) != tree_sx(want):
                out.append(('C05', 'roundtrip-differs', 'parsed tree differs from the normalised original: %s vs %s'
                            % (tree_sx(r['snap'])[:300], tree_sx(want)[:300])))
            try:
                main, calls = calls_of_tree(c['tree'])
                canon = spec.spec_serialize(main, calls)
            except Exception:
                canon = None
            if canon is not None and canon != r['wrote']:
                out.append(('C05', 'not-canonical', 'to_bytes() differs from the canonical serialisation of the tree'))
        elif c['kind'] == 'canonical':
            data = unhx(c['data'])
            if r.get('b1') is None:
                out.append(('C06', 'canonical-not-reserialised', 'a file the library produced failed to load/re-serialise: %s' % r.get('err')))
            elif r['b1'] != data:
                n = next((i for i in range(min(len(data), len(r['b1']))) if data[i] != r['b1'][i]), -1)
                out.append(('C06', 'canonical-not-identical', 're-serialising a canonical file changed it at byte %d: %r vs %r'
                            % (n, r['b1'][max(0, n - 30):n + 30], data[max(0, n - 30):n + 30])))
        else:
            if r.get('snap') is None:
                return out          # the object model does not accept the file
            if r.get('b1') is None:
                sig = 'foreign-not-reserialisable'
                if 'line_endings' in (r.get('err') or '') and 'write_meta' in (r.get('err') or ''):
                    sig = 'meta-line-endings-not-reserialisable'
                out.append(('C06', sig, 'a foreign file the object model accepted cannot be re-serialised: %s' % r.get('err')))
            else:
                if 'err2' in r:
                    out.append(('C06', 'reserialised-not-loadable', r['err2']))
                elif r['b2'] != r['b1']:
                    out.append(('C06', 'not-a-fixed-point', 'parsing and serialising the re-serialised file changed it'))
                elif contents(r['snap2']) != contents(r['snap']):
                    out.append(('C06', 'contents-changed', 'section contents changed by re-serialising'))
        return out


def contents(snap):
    out = [snap['pre']['content'], json.dumps(snap['meta']['content'], sort_keys=True)]
    for c in snap['changes']:
        out += [c['pre']['content'], json.dumps(c['meta']['content'], sort_keys=True)]
        for f in c['files']:
            out += [json.dumps(f['meta']['content'], sort_keys=True), f['diff']['content']]
    return out


# ------------------------------------------------------------------ generate_stats (C13)
import fam_hunks as fh


def gen_stats_tree(rng):
    """A tree whose diffs are assembled from hunk ASTs with known counts; returns (tree JSON, expected per-file counts)."""
    t = default_tree_json()
    expect = []
    if rng.random() < 0.3:
        t['meta']['content'] = {'stats': {'custom': 'kept', 'insertions': 999}, 'other': [1, 2]}
    for ci in range(rng.randint(0, 3)):
        c = dict(opts={}, pre=dict(opts={}, content=None), meta=dict(opts={'format': {'s': 'json'}}, content={}), files=[])
        if rng.random() < 0.3:
            c['meta']['content'] = {'stats': {'mine': 1, 'files': 77}, 'id': 'abc'}
        cexp = []
        for fi in range(rng.randint(0, 3)):
            kind = rng.choice(['text', 'text', 'text', 'binary', 'empty', 'absent', 'unparsable'])
            meta = {'path': 'f%d' % fi}
            if rng.random() < 0.3:
                # figures a file "already had" need not be consistent with each other: sums use what is reported
                meta['stats'] = rng.choice([{'custom': [1], 'insertions': 5, 'deletions': 6, 'lines changed': 11},
                                            {'lines changed': 7, 'blobs': 1},
                                            {'insertions': 2, 'deletions': 1, 'lines changed': 10},
                                            {'custom': 'only'}, {'insertions': 4}, {'deletions': 3, 'lines changed': 0}])
            elif rng.random() < 0.3:
                # ... or the keys the specification documents for files (similarity of a rename/copy, operation, revisions)
                meta.update(gc.gen_doc_meta(rng, ints_only=True))
            o = {}
            content = None
            counts = None
            if kind in ('text', 'binary', 'unparsable'):
                enc = rng.choice([None, None, 'utf-8', 'latin-1', 'ascii', 'utf-8-sig', 'utf-16', 'utf-16-le', 'utf-32-be'])
                if rng.random() < 0.12:
                    # codecs the model does not execute (the comparison is discarded, the counts oracle still applies):
                    # some keep CR/LF as ASCII but spell the diff markers differently, some are stateful
                    enc = rng.choice(['utf-7', 'mac_arabic', 'cp037', 'cp500', 'iso2022_jp', 'hz', 'shift_jis', 'koi8-r', 'utf-16-be'])
                le = rng.choice([None, 'unix', 'dos'])
                nlk = le or rng.choice(['unix', 'dos'])
                hs = [fh.gen_hunk(rng) for _ in range(rng.randint(1, 3))]
                # payloads must not contain the newline and must be encodable
                for h in hs:
                    h['body'] = [(k, p.replace(b'\r', b'').replace(b'\xff\x00', b'zz')) for k, p in h['body']]
                    h['markers'] = [(i, b'\\ No newline at end of file') for i, m in h['markers']]
                    if nlk == 'unix' and h['body'] and rng.random() < 0.35:
                        # a carriage return (or another character some line splitters break on) INSIDE a line of a diff
                        # whose lines end in LF: part of the line, whatever follows it
                        j = rng.randrange(len(h['body']))
                        k0, p0 = h['body'][j]
                        brk = rng.choice([b'\r', b'\r', b'\x0b', b'\x0c', b'\x1c', b'\x1e', b'\x85', b'\xe2\x80\xa8'])
                        h['body'][j] = (k0, p0 + brk + rng.choice([b'-b', b'+c', b' d', b'x', b'@@ -1 +1 @@']))
                    if h['ctx'] is not None:
                        h['ctx'] = h['ctx'].replace(b'\r', b'')
                seps = [[rng.choice([b'diff --git a/x b/x', b'--- a/x', b'+++ b/x', b'index 1..2', b'garbage'])
                         for _ in range(rng.choice([0, 1, 2]))] for _ in range(len(hs) + 1)]
                lines = list(seps[0])
                for h, s in zip(hs, seps[1:]):
                    lines += fh.render_hunk(h) + s
                if kind == 'unparsable':
                    # an unterminated hunk
                    lines = lines + [b'@@ -1,5 +1,5 @@', b' only one line']
                nl = '\n' if nlk == 'unix' else '\r\n'
                text = nl.join(l.decode('latin-1') for l in lines) + nl
                if le is None and nlk == 'dos' and not lines:
                    text = nl
                try:
                    data = text.encode(enc) if enc else text.encode('latin-1')
                except UnicodeError:
                    data = text.encode('utf-8')
                    enc = 'utf-8'
                if enc:
                    o['encoding'] = {'s': enc}
                if le:
                    o['line_endings'] = {'s': le}
                if kind == 'binary':
                    o['type'] = {'s': 'binary'}
                elif rng.random() < 0.3:
                    o['type'] = {'s': 'text'}
                content = data.hex()
                if kind == 'text':
                    counts = (sum(1 for h in hs for k, _ in h['body'] if k == '+'),
                              sum(1 for h in hs for k, _ in h['body'] if k == '-'))
                ascii_compat = enc in (None, 'utf-8', 'latin-1', 'ascii', 'utf-8-sig')
            elif kind == 'empty':
                content = ''
            if kind not in ('text', 'binary', 'unparsable'):
                ascii_compat = True
            # the file section's OWN encoding option (it concerns the metadata) is no statement about the diff
            fopts = {'encoding': {'s': rng.choice(['utf-16', 'utf-16-le', 'utf-16-be', 'utf-32', 'cp037', 'latin-1', 'utf-8'])}} \
                if rng.random() < 0.3 else {}
            c['files'].append(dict(opts=fopts, meta=dict(opts={'format': {'s': 'json'}}, content=meta),
                                   diff=dict(opts=o, content=content)))
            cexp.append(dict(kind=kind, counts=counts, old=meta.get('stats'), ascii=ascii_compat))
        t['changes'].append(c)
        expect.append(cexp)
    return t, expect


class Stats(Family):
    name = 'stats'
    rule = ('trees with 0-3 changes x 0-3 files whose diffs are assembled from generated hunk ASTs with known counts '
            '(garbage lines between hunks, unix/dos, declared/undeclared line endings, 8 diff encodings incl. UTF-16/32, '
            'binary/empty/absent/unparsable diffs, pre-existing stats dictionaries with custom keys and the keys the '
            'specification documents, line-splitter characters inside hunk lines, file sections with an encoding of their own); generate_stats '
            'once and twice; non-trivial = at least one text diff; distinct by tree')

    def cases(self, tier, rng, prop_id):
        for i in range(300 if tier == 'quick' else 8000):
            t, e = gen_stats_tree(rng)
            yield dict(kind='tree', tree=t, expect=e)
            # statistics generated once while the diff options are not yet set, then the options are assigned on the same
            # objects and statistics are generated again: the result depends on the tree as it is NOW
            if any('encoding' in f['diff']['opts'] or 'line_endings' in f['diff']['opts'] for ch in t['changes'] for f in ch['files']):
                yield dict(kind='regen', tree=t, expect=e)

    def _impl(self, c):
        if '_impl' not in c:
            try:
                if c['kind'] == 'regen':
                    t0 = json.loads(json.dumps(c['tree']))
                    later = []
                    for ci, ch in enumerate(t0['changes']):
                        for fi, f in enumerate(ch['files']):
                            for k in ('encoding', 'line_endings'):
                                if k in f['diff']['opts']:
                                    later.append((ci, fi, 'diff_' + k, sl.pyval(f['diff']['opts'].pop(k))))
                    d = build(t0)
                    d.generate_stats()
                    for ci, fi, attr, val in later:
                        setattr(d.changes[ci].files[fi], attr, val)
                    # what the first generation stored is part of the starting point of the second one
                    for ci, ch in enumerate(t0['changes']):
                        for fi, f in enumerate(ch['files']):
                            c['expect'][ci][fi] = dict(c['expect'][ci][fi], old=d.changes[ci].files[fi].meta.get('stats'))
                else:
                    d = build(c['tree'])
                before = snapshot(d)
                d.generate_stats()
                s1 = snapshot(d)
                d.generate_stats()
                s2 = snapshot(d)
                c['_impl'] = dict(obs='(ok %s)' % tree_sx(s1), before=before, s1=s1, s2=s2)
            except Exception as e:
                c['_impl'] = dict(obs='(exc)', err=type(e).__name__ + ': ' + str(e)[:200])
        return c['_impl']

    def model_line(self, c):
        # the model starts from the tree as built (the typed attributes may have normalised nothing here)
        r = self._impl(c)
        if 'before' not in r:
            return None
        return L('stats', tree_sx(r['before']))

    def impl_obs(self, c):
        return self._impl(c)['obs']

    def normalize_model(self, line):
        return sl.collapse_exc(line)

    def key(self, c):
        return json.dumps([c['kind'], c['tree']], sort_keys=True)

    def nontrivial(self, c):
        return any(f['kind'] == 'text' for ce in c['expect'] for f in ce)

    def describe(self, c):
        return dict(kind=c['kind'], tree=c['tree'], expect=c['expect'])

    def oracle(self, c, obs):
        r = self._impl(c)
        if 'before' not in r:
            return [('C13', 'exception', 'generate_stats raised %s' % r.get('err'))]
        out = []
        s1, s2, before = r['s1'], r['s2'], r['before']
        if tree_sx(s1) != tree_sx(s2):
            out.append(('C13', 'not-idempotent', 'generating twice differs from generating once'))
        tot = dict(changes=len(s1['changes']), files=0, insertions=0, deletions=0, lines=0)
        for ci, ch in enumerate(s1['changes']):
            csum = dict(files=len(ch['files']), insertions=0, deletions=0, lines=0)
            for fi, f in enumerate(ch['files']):
                e = c['expect'][ci][fi]
                st = f['meta']['content'].get('stats')
                old = e['old']
                if e['kind'] == 'text':
                    ins, dels = e['counts']
                    want = dict(old or {}, insertions=ins, deletions=dels, **{'lines changed': ins + dels})
                    if st != want:
                        out.append(('C13', 'file-stats', 'change %d file %d: stats %r, expected %r' % (ci, fi, st, want)))
                else:
                    if st != old:
                        out.append(('C13', 'unanalysed-diff-touched', 'change %d file %d (%s): stats %r, had %r'
                                    % (ci, fi, e['kind'], st, old)))
                # everything else in the file is preserved
                b = before['changes'][ci]['files'][fi]
                if {k: v for k, v in f['meta']['content'].items() if k != 'stats'} != \
                        {k: v for k, v in b['meta']['content'].items() if k != 'stats'} or f['diff'] != b['diff'] or f['opts'] != b['opts']:
                    out.append(('C13', 'not-preserved', 'change %d file %d: something other than stats changed' % (ci, fi)))
                rep = st or {}
                for k, kk in (('insertions', 'insertions'), ('deletions', 'deletions'), ('lines', 'lines changed')):
                    csum[k] += rep.get(kk, 0)
            cst = ch['meta']['content'].get('stats', {})
            oldc = before['changes'][ci]['meta']['content'].get('stats', {})
            wantc = dict(oldc, files=csum['files'], insertions=csum['insertions'], deletions=csum['deletions'],
                         **{'lines changed': csum['lines']})
            if cst != wantc:
                out.append(('C13', 'change-sums', 'change %d: stats %r, expected %r' % (ci, cst, wantc)))
            tot['files'] += cst.get('files', 0)
            tot['insertions'] += cst.get('insertions', 0)
            tot['deletions'] += cst.get('deletions', 0)
            tot['lines'] += cst.get('lines changed', 0)
        oldt = before['meta']['content'].get('stats', {})
        wantt = dict(oldt, changes=tot['changes'], files=tot['files'], insertions=tot['insertions'],
                     deletions=tot['deletions'], **{'lines changed': tot['lines']})
        if s1['meta']['content'].get('stats') != wantt:
            out.append(('C13', 'top-sums', 'top-level stats %r, expected %r' % (s1['meta']['content'].get('stats'), wantt)))
        if {k: v for k, v in s1['meta']['content'].items() if k != 'stats'} != {k: v for k, v in before['meta']['content'].items() if k != 'stats'}:
            out.append(('C13', 'not-preserved', 'top-level metadata other than stats changed'))
        return out


# ------------------------------------------------------------------ operation interleavings over live trees (C18, C19)
def attrs_sx(a):
    return '(' + ' '.join('(%s %s)' % (H(k.encode()), sl.wv_sx(v)) for k, v in a) + ')'


def path_sx(p):
    if p == 'main':
        return 'main'
    return '(' + ' '.join(str(x) for x in p) + ')'


def op_sx(o):
    n = o[0]
    if n == 'new':
        return '(new %s)' % attrs_sx(o[1])
    if n == 'add_change':
        return '(add_change %d %s)' % (o[1], attrs_sx(o[2]))
    if n == 'add_file':
        return '(add_file %d %d %s)' % (o[1], o[2], attrs_sx(o[3]))
    if n == 'set':
        return '(set %d %s %s %s)' % (o[1], path_sx(o[2]), H(o[3].encode()), sl.wv_sx(o[4]))
    if n == 'meta_put':
        return '(meta_put %d %s %s %s)' % (o[1], path_sx(o[2]), T(o[3]), sl.json_sx(sl.py_json(o[4])))
    if n == 'opt_put':
        return '(opt_put %d %s %s %s %s)' % (o[1], path_sx(o[2]), o[3], H(o[4].encode()), sl.wv_sx(o[5]))
    if n in ('to_bytes', 'stats'):
        return '(%s %d)' % (n, o[1])
    if n == 'eq':
        return '(eq %d %d)' % (o[1], o[2])
    if n == 'parse':
        return '(parse #%s)' % o[1]
    raise ValueError(o)


LIST_OPS = ('swap_changes', 'swap_files', 'reverse_changes', 'assign_changes')


def resolve(tree, p):
    if p == 'main':
        return tree
    if p[0] == 'c':
        return tree.changes[p[1]]
    return tree.changes[p[1]].files[p[2]]


def run_ops_impl(ops):
    """Executes ops on live objects (one shared DOM reader and one shared DOM writer object).
    Returns (observation string, list of (outcome, [snapshots]), oracle sx)."""
    from pydiffx.dom import DiffX
    from pydiffx.dom.reader import DiffXDOMReader
    from pydiffx.dom.writer import DiffXDOMWriter
    import pydiffx.reader as rmod
    rec = sl.LoadsRecorder()
    saved = rmod.json
    rmod.json = rec
    reader = DiffXDOMReader(DiffX)
    writer = DiffXDOMWriter()
    trees = []
    steps = []
    shared = {}

    def pv(v):
        # equal immutable case values are ONE Python object within a run (a program that assigns the same constant to two
        # trees): identity of str / bytes / int values must never matter; dictionaries are built afresh every time
        if isinstance(v, dict) and ('s' in v or 'b' in v):
            k = json.dumps(v, sort_keys=True)
            if k not in shared:
                shared[k] = sl.pyval(v)
            return shared[k]
        return sl.pyval(v)
    try:
        for o in ops:
            n = o[0]
            out = 'unit'
            try:
                if n == 'new':
                    trees.append(DiffX(**{k: pv(v) for k, v in o[1]}))
                elif n == 'add_change':
                    trees[o[1]].add_change(**{k: pv(v) for k, v in o[2]})
                elif n == 'add_file':
                    trees[o[1]].changes[o[2]].add_file(**{k: pv(v) for k, v in o[3]})
                elif n == 'set':
                    setattr(resolve(trees[o[1]], o[2]), o[3], pv(o[4]))
                elif n == 'meta_put':
                    resolve(trees[o[1]], o[2]).meta[o[3]] = sl.py_json(o[4])
                elif n == 'meta_nested_put':
                    # in-place edit of a NESTED value of one section's metadata
                    resolve(trees[o[1]], o[2]).meta[o[3]][o[4]] = sl.py_json(o[5])
                elif n == 'opt_put':
                    obj = resolve(trees[o[1]], o[2])
                    sec = {'self': obj, 'pre': getattr(obj, 'preamble_section', None), 'meta': getattr(obj, 'meta_section', None),
                           'diff': getattr(obj, 'diff_section', None)}[o[3]]
                    sec.options[o[4]] = pv(o[5])
                elif n == 'to_bytes':
                    # the public entry point AND one shared writer object: both must give the same bytes
                    b1 = trees[o[1]].to_bytes()
                    with io.BytesIO() as st:
                        writer.write_stream(trees[o[1]], st)
                        b2 = st.getvalue()
                    out = H(b1) if b1 == b2 else '(to_bytes-differs-from-write_stream)'
                elif n == 'eq':
                    a, b = trees[o[1]], trees[o[2]]
                    r = (a == b)
                    if r != (not (a != b)):
                        out = 'eq-ne-inconsistent'
                    else:
                        out = 'true' if r else 'false'
                    repr(a)
                elif n == 'parse':
                    trees.append(reader.parse(io.BytesIO(bytes.fromhex(o[1]))))
                elif n == 'stats':
                    trees[o[1]].generate_stats()
                elif n == 'swap_changes':
                    # edits of the public lists that keep their length: two elements exchanged / the list reversed
                    ch = trees[o[1]].changes
                    ch[o[2]], ch[o[3]] = ch[o[3]], ch[o[2]]
                elif n == 'swap_files':
                    fl = trees[o[1]].changes[o[2]].files
                    fl[o[3]], fl[o[4]] = fl[o[4]], fl[o[3]]
                elif n == 'reverse_changes':
                    trees[o[1]].changes.reverse()
                elif n == 'assign_changes':
                    trees[o[1]].changes = list(reversed(trees[o[1]].changes))
            except IndexError:
                out = 'bad-index'
            except Exception as e:
                out = '(exc)'
            steps.append((out, [snapshot(t) for t in trees]))
        # the bytes are a function of the tree's value: AFTER the run (so that nothing here comes between two operations), every
        # serialisation is compared with that of a tree rebuilt from scratch from the snapshot taken at that step (fresh objects)
        for k, o in enumerate(ops):
            if o[0] == 'to_bytes' and steps[k][0].startswith('#') and o[1] < len(steps[k][1]):
                try:
                    snap = steps[k][1][o[1]]
                    t2 = build(json.loads(json.dumps(snap)))
                    if skey(snapshot(t2)) == skey(snap) and H(t2.to_bytes()) != steps[k][0]:
                        steps[k] = ('(to_bytes-differs-from-rebuilt-tree)', steps[k][1])
                except Exception:
                    pass
    finally:
        rmod.json = saved
    obs = '(' + ' '.join('(%s (%s))' % (o, ' '.join(tree_sx(s) for s in snaps)) for o, snaps in steps) + ')'
    orc = '(' + ' '.join('(%s %s)' % (H(k), v) for k, v in rec.table.items()) + ')'
    return obs, steps, orc


ATTRS_MAIN = ['encoding', 'version', 'preamble', 'preamble_encoding', 'preamble_indent', 'preamble_line_endings',
              'preamble_mimetype', 'meta', 'meta_encoding', 'meta_format']
ATTRS_CHANGE = [a for a in ATTRS_MAIN if a != 'version']
ATTRS_FILE = ['encoding', 'meta', 'meta_encoding', 'meta_format', 'diff', 'diff_encoding', 'diff_line_endings', 'diff_type']
CANDIDATES = [None, {'s': 'utf-8'}, {'s': 'utf-16'}, {'s': 'unix'}, {'s': 'dos'}, {'s': 'mac'}, {'s': 'text/plain'},
              {'s': 'text/html'}, {'s': 'json'}, {'s': 'yaml'}, {'s': 'text'}, {'s': 'binary'}, {'s': '1.0'}, {'s': '2.0'},
              {'s': 'hello\n'}, {'s': ''}, {'i': 0}, {'i': 4}, {'i': -1}, {'bool': True}, {'bool': False}, {'b': '2d610a'},
              {'b': ''}, {'d': {'k': 1}}, {'d': {}}, 'other',
              # near misses of the allowed choices: parameters, case, padding
              {'s': 'text/plain; format=flowed'}, {'s': 'text/markdown; variant=GFM'}, {'s': 'text/plain;charset=utf-8'},
              {'s': 'Text/Plain'}, {'s': 'unix '}, {'s': 'DOS'}, {'s': 'json\n'}, {'s': 'utf-8\x00'}, {'s': ' binary'}]
def _sample_files():
    import io as _io
    from pydiffx.writer import DiffXWriter
    out = []
    st = _io.BytesIO()
    w = DiffXWriter(st)
    w.write_meta({'a': 1})
    w.new_change()
    w.new_file()
    w.write_meta({'p': 2})
    out.append(st.getvalue())
    st = _io.BytesIO()
    w = DiffXWriter(st)
    w.new_change(encoding='latin-1')
    w.write_preamble('hi\n', indent=2)
    w.new_file()
    w.write_meta({'p': 2})
    w.write_diff(b'-a\n+b\n')
    out.append(st.getvalue())
    # two files of one change (and a file of another change) whose metadata carry EQUAL nested maps under the same key
    st = _io.BytesIO()
    w = DiffXWriter(st)
    w.new_change()
    for name in ('a', 'b'):
        w.new_file()
        w.write_meta({'path': name, 'revision': {'old': 'r1', 'new': 'r2'}, 'tags': {'k': 'v'}})
    w.new_change()
    w.new_file()
    w.write_meta({'path': 'c', 'revision': {'old': 'r1', 'new': 'r2'}})
    out.append(st.getvalue())
    return out


SAMPLE_FILES = _sample_files()


def gen_ops(rng, n_ops):
    ops = []
    shapes = []        # per tree: list of number of files per change

    def some_attrs(names, k):
        out = {}
        for _ in range(k):
            out[rng.choice(names)] = rng.choice(CANDIDATES)
        return [[a, v] for a, v in out.items()]

    def pick_path(i):
        sh = shapes[i]
        r = rng.random()
        if r < 0.35 or not sh:
            return 'main', ATTRS_MAIN
        ci = rng.randrange(len(sh))
        if r < 0.65 or sh[ci] == 0:
            return ['c', ci], ATTRS_CHANGE
        return ['f', ci, rng.randrange(sh[ci])], ATTRS_FILE
    for _ in range(n_ops):
        r = rng.random()
        if not shapes or (r < 0.12 and len(shapes) < 4):
            if rng.random() < 0.7:
                ops.append(['new', some_attrs(ATTRS_MAIN, rng.choice([0, 0, 1, 2])) if rng.random() < 0.5 else []])
                # the constructor may raise; whether it did is only known after running, so shapes are re-derived below
                shapes.append([])
            else:
                ops.append(['parse', rng.choice(SAMPLE_FILES).hex()])
                shapes.append([1])
            continue
        i = rng.randrange(len(shapes))
        if r < 0.25:
            ops.append(['add_change', i, some_attrs(ATTRS_CHANGE, rng.choice([0, 0, 1]))])
            shapes[i].append(0)
        elif r < 0.4 and shapes[i]:
            ci = rng.randrange(len(shapes[i]))
            ops.append(['add_file', i, ci, some_attrs(ATTRS_FILE, rng.choice([0, 0, 1]))])
            shapes[i][ci] += 1
        elif r < 0.46:
            # reset a content attribute to its empty value (a default-like value that must not become shared state)
            p, names = pick_path(i)
            a = rng.choice([n for n in names if n in ('meta', 'preamble', 'diff')])
            ops.append(['set', i, p, a, {'meta': {'d': {}}, 'preamble': {'s': ''}, 'diff': {'b': ''}}[a]])
        elif r < 0.6:
            p, names = pick_path(i)
            ops.append(['set', i, p, rng.choice(names + ['bogus']), rng.choice(CANDIDATES)])
        elif r < 0.72:
            p, names = pick_path(i)
            key = rng.choice(['k', 'stats', 'x'])
            ops.append(['meta_put', i, p, key, {'n': 1, 'insertions': 2} if key == 'stats' else rng.choice([1, True, 'v', [1], {'n': 1}, None, {'__key_int__:1001': 'alice'}, [{'__key_int__:7': {'x': 1}}],
                                                                                                          {'__key_int__:1': 'a', 'b': 2}, {'b': 2, '__key_int__:1': 'a'}])])
        elif r < 0.78:
            p, names = pick_path(i)
            sel = rng.choice(['self', 'meta'] + (['pre'] if p == 'main' or p[0] == 'c' else ['diff']))
            # raw writes into an options dict, with values of the option's declared type (ill-typed raw values are
            # outside what the object model documents and outside the model of generate_stats)
            k = rng.choice(['encoding', 'custom', 'indent', 'encoding', 'indent'])
            v = {'encoding': rng.choice([{'s': 'utf-8'}, {'s': 'x'}, {'s': 'latin-1'}, None]), 'custom': rng.choice([{'s': 'x'}, {'i': 3}]),
                 'indent': rng.choice([{'i': 3}, {'i': 0}, None])}[k]
            ops.append(['opt_put', i, p, sel, k, v])
            if rng.random() < 0.5:
                ops.append(['to_bytes', i])      # an observer right after a raw write (must not touch the dict)
                if rng.random() < 0.5:
                    ops.append(['eq', i, rng.randrange(len(shapes))])
        elif r < 0.86:
            ops.append(['to_bytes', i])
        elif r < 0.96:
            ops.append(['eq', i, rng.randrange(len(shapes))])
        else:
            ops.append(['stats', i])
    return ops


def fix_ops(ops):
    """Drops operations whose tree index does not exist in the implementation run (a raising constructor / parse)."""
    # run once to learn which `new`/`parse` succeeded, then renumber
    obs, steps, orc = run_ops_impl(ops)
    return ops


class Alias(Family):
    name = 'alias'
    rule = ('random interleavings (8-20 operations) over up to 4 live trees: construct (with keyword attributes), parse '
            'with one shared reader object, add_change/add_file, typed attribute assignment with right and wrong '
            'values, in-place mutation of metadata and options dictionaries (incl. live values JSON has no notation '
            'for: iterators, sets, views; dict subclasses such as defaultdict; equal immutable values are ONE object), '
            'serialise with one shared writer object '
            '(each result compared afterwards with a tree rebuilt from scratch), '
            '==/!=/repr, generate_stats; after every operation every live tree is snapshotted and compared with the '
            'value-level model; non-trivial = at least two trees alive and one mutation; distinct by operation list')

    def cases(self, tier, rng, prop_id):
        # parsed trees whose sections carry equal nested metadata: an in-place edit of one nested value changes that
        # section only (not a sibling file, not the other change, not a second parse of the same bytes)
        shared = SAMPLE_FILES[-1].hex()
        for (ci, fi, key, sub) in [(0, 0, 'revision', 'new'), (0, 1, 'revision', 'old'), (1, 0, 'revision', 'new'), (0, 0, 'tags', 'k')]:
            yield dict(kind='ops', ops=[['parse', shared], ['parse', shared], ['to_bytes', 0], ['to_bytes', 1],
                                        ['meta_nested_put', 0, ['f', ci, fi], key, sub, 'edited'],
                                        ['to_bytes', 0], ['to_bytes', 1], ['eq', 0, 1]])
        # metadata holding live values JSON has no notation for (one-shot iterators, sets, views, ...): serialising either
        # fails every time or succeeds every time with the same bytes, and never uses the value up
        people = ['alice', 'bob', 'carol']
        for kind in sl.LIVE_KINDS:
            for path, pre in (('main', []), (['c', 0], [['add_change', 0, []]]),
                              (['f', 0, 0], [['add_change', 0, []], ['add_file', 0, 0, [['meta', {'d': {'path': 'a'}}]]]])):
                for nested in (False, True):
                    live = {'__live__': kind, 'items': people}
                    yield dict(kind='ops', ops=[['new', []]] + pre + [
                        ['meta_put', 0, path, 'reviewers', {'names': live} if nested else live],
                        ['to_bytes', 0], ['to_bytes', 0], ['eq', 0, 0], ['to_bytes', 0], ['new', []], ['eq', 0, 1], ['to_bytes', 0]])
        # the SAME bytes / str object held by two live trees under different encodings (line endings not declared): what
        # one tree's serialisation worked out about the value must not reach the other's
        for e0, e1 in [('utf-16', None), (None, 'utf-16'), ('utf-32', 'utf-8'), ('utf-16-be', 'latin-1'), ('utf-8', 'utf-32-le')]:
            for diff in ('2d610a2b620a', '2d610d0a2b620d0a', '2d000a002b000a00'):
                mk = lambda t, e: [['new', []], ['add_change', t, []],
                                   ['add_file', t, 0, [['meta', {'d': {'path': 'a'}}], ['diff', {'b': diff}]] +
                                    ([['diff_encoding', {'s': e}]] if e else [])]]
                yield dict(kind='ops', ops=mk(0, e0) + mk(1, e1) + [['to_bytes', 0], ['to_bytes', 1], ['to_bytes', 0], ['to_bytes', 1],
                                                                  ['eq', 0, 1], ['to_bytes', 1], ['to_bytes', 0]])
            mkp = lambda t, e: [['new', [['encoding', {'s': e or 'utf-8'}], ['preamble', {'s': 'Summary\r\nline\n'}]]]]
            yield dict(kind='ops', ops=mkp(0, e0) + mkp(1, e1) + [['to_bytes', 0], ['to_bytes', 1], ['to_bytes', 0], ['to_bytes', 1], ['eq', 0, 1]])
        # metadata held in a dict SUBCLASS (defaultdict inserts a key when a missing one is read, OrderedDict, Counter), with and
        # without the keys the specification documents, at every level, and nested under `path` / `revision`
        for kind in sl.DICT_KINDS:
            for items in ([['k', 'v']], [['path', 'a']], [['revision', 'r']], []):
                for path, pre in (('main', []), (['c', 0], [['add_change', 0, []]]),
                                  (['f', 0, 0], [['add_change', 0, []], ['add_file', 0, 0, [['meta', {'d': {'path': 'a'}}]]]])):
                    live = {'__live__': kind, 'items': items}
                    yield dict(kind='ops', ops=[['new', []]] + pre + [
                        ['set', 0, path, 'meta', {'d': live}], ['to_bytes', 0], ['to_bytes', 0], ['eq', 0, 0], ['to_bytes', 0]])
                    for key in ('path', 'revision', 'stats'):
                        yield dict(kind='ops', ops=[['new', []]] + pre + [
                            ['meta_put', 0, path, key, live], ['to_bytes', 0], ['to_bytes', 0], ['eq', 0, 0], ['to_bytes', 0]])
        for i in range(400 if tier == 'quick' else 8000):
            ops = gen_ops(rng, rng.randint(8, 20))
            if i % 4 == 0:
                # a serialisation that FAILS part-way (text not encodable / metadata not serialisable), then the other
                # trees are serialised again: a failure must leave nothing behind
                ntrees = sum(1 for o in ops if o[0] in ('new', 'parse'))
                bad = rng.choice([[['preamble', {'s': 'caf\u00e9'}], ['preamble_encoding', {'s': 'ascii'}]],
                                  [['preamble', {'s': 'x'}], ['preamble_encoding', {'s': 'nope'}]]])
                ops = ops + [['to_bytes', j] for j in range(ntrees)] + [['new', bad], ['add_change', ntrees, []],
                                                                          ['add_file', ntrees, 0, [['meta', {'d': {'p': 1}}]]],
                                                                          ['to_bytes', ntrees]] + \
                    [['to_bytes', j] for j in range(ntrees)] + [['to_bytes', j] for j in range(ntrees)]
            yield dict(kind='ops', ops=ops)

    def _impl(self, c):
        if '_impl' not in c:
            c['_impl'] = run_ops_impl(c['ops'])
        return c['_impl']

    def model_line(self, c):
        obs, steps, orc = self._impl(c)
        if any(o[0] == 'meta_nested_put' for o in c['ops']):
            return None         # nested in-place edits: judged by the frame oracle alone
        if any(o[0] in LIST_OPS for o in c['ops']) or c.get('huge'):
            return None         # edits of the public changes / files lists, astronomically large indents: judged by the oracles alone
        if '__live__' in json.dumps(c['ops']):
            return None         # live values: judged by the oracles alone (observers change nothing, same bytes twice)
        if has_mixed_keys(c['ops']):
            # a dictionary with an int key next to a str key: equal to its reordering, yet not serialisable (the keys cannot
            # be sorted); the value-level model has no such value, so these cases are judged by the oracles alone
            return None
        return L('dom_ops', orc, '(' + ' '.join(op_sx(o) for o in c['ops']) + ')')

    def impl_obs(self, c):
        return self._impl(c)[0]

    def normalize_model(self, line):
        return sl.collapse_exc(line)

    def nontrivial(self, c):
        obs, steps, orc = self._impl(c)
        return bool(steps) and len(steps[-1][1]) >= 2 and any(o[0] in ('set', 'meta_put', 'opt_put', 'add_change') for o in c['ops'])

    def oracle(self, c, obs):
        """C18 / C19 stated on the implementation: an operation on tree i leaves every other tree's snapshot unchanged;
        observers change nothing; a raising assignment leaves everything unchanged; == agrees with snapshot equality;
        serialising twice gives the same bytes."""
        obs_s, steps, orc = self._impl(c)
        out = []
        prev = []
        last_bytes = {}
        for k, (o, (res, snaps)) in enumerate(zip(c['ops'], steps)):
            n = o[0]
            target = o[1] if n not in ('new', 'parse') else None
            if n == 'meta_nested_put' and res != '(exc)' and target < len(prev) and target < len(snaps):
                # inside the target tree only the addressed section's metadata may differ
                changed = changed_sections(prev[target], snaps[target])
                want = 'main' if o[2] == 'main' else ('c%d' % o[2][1] if o[2][0] == 'c' else 'f%d.%d' % (o[2][1], o[2][2]))
                extra = [x for x in changed if x != want]
                if extra:
                    out.append(('C18', 'aliasing', 'op %d: editing %s.meta[%r][%r] in place also changed %s of the same tree'
                                % (k, want, o[3], o[4], ', '.join(extra))))
            for j in range(min(len(prev), len(snaps))):
                if j == target and n in ('add_change', 'add_file', 'set', 'meta_put', 'meta_nested_put', 'opt_put', 'stats') + LIST_OPS and res != '(exc)':
                    continue
                if skey(prev[j]) != skey(snaps[j]):
                    if n in ('to_bytes', 'eq'):
                        out.append(('C18', 'observer-mutated', 'op %d (%s) changed tree %d' % (k, n, j)))
                    elif res == '(exc)' and j == target and n in ('set', 'add_change', 'add_file'):
                        out.append(('C19', 'failed-assignment-mutated', 'op %d (%s %r) raised and changed tree %d' % (k, n, o[2:], j)))
                    else:
                        out.append(('C18', 'aliasing', 'op %d (%s on tree %s) changed tree %d' % (k, n, target, j)))
            if n == 'eq' and res in ('true', 'false'):
                same = skey(snaps[o[1]]) == skey(snaps[o[2]])
                if same and res == 'false':
                    out.append(('C19', 'equal-trees-compare-unequal', 'op %d: structurally identical trees are !=' % k))
                if (not same) and res == 'true':
                    sig = 'python-numeric-equality' if numeric_only_difference(snaps[o[1]], snaps[o[2]]) else 'unequal-trees-compare-equal'
                    out.append(('C19', sig, 'op %d: trees with different snapshots compare =='
                                % k))
            if res == 'eq-ne-inconsistent':
                out.append(('C19', 'eq-ne-inconsistent', 'op %d: == and != disagree' % k))
            if n == 'to_bytes' and res == '(to_bytes-differs-from-rebuilt-tree)':
                out.append(('C18', 'serialise-not-deterministic', 'op %d: the tree serialises to other bytes than an equal tree '
                            'built from scratch (what was serialised before matters)' % k))
            if n == 'to_bytes' and res == '(to_bytes-differs-from-write_stream)':
                out.append(('C18', 'serialise-not-deterministic', 'op %d: DiffX.to_bytes() and a DOM writer give different '
                            'bytes for the same tree' % k))
            if n == 'to_bytes' and res.startswith('#'):
                key = skey(snaps[o[1]])
                if key in last_bytes and last_bytes[key][0] != res:
                    out.append(('C18', 'serialise-not-deterministic', 'op %d: same tree, different bytes' % k))
                    if last_bytes[key][1] != o[1]:
                        out.append(('C19', 'equal-trees-serialise-differently',
                                    'op %d: trees %d and %d are structurally identical but serialise to different bytes'
                                    % (k, last_bytes[key][1], o[1])))
                last_bytes[key] = (res, o[1])
            prev = snaps
            if out:
                break
        return out


CHOICES = {'line_endings': {'unix', 'dos'}, 'mimetype': {'text/plain', 'text/markdown'}, 'type': {'text', 'binary'},
           'format': {'json'}, 'version': {'1.0'}}


def ill_typed_option(snaps):
    """First option in any live tree whose stored value is not of the declared type / choice (None if all are fine)."""
    def check(where, opts):
        for k, v in opts.items():
            if v is None:
                continue
            if k == 'indent':
                if not (isinstance(v, dict) and set(v) == {'i'} and v['i'] >= 0):
                    return '%s indent=%r' % (where, v)
            elif k == 'encoding':
                if not (isinstance(v, dict) and set(v) == {'s'}):
                    return '%s encoding=%r' % (where, v)
            elif k in CHOICES:
                if not (isinstance(v, dict) and set(v) == {'s'} and v['s'] in CHOICES[k]):
                    return '%s %s=%r' % (where, k, v)
        return None
    for ti, t in enumerate(snaps):
        secs = [('tree %d main' % ti, t['opts']), ('tree %d preamble' % ti, t['pre']['opts']), ('tree %d meta' % ti, t['meta']['opts'])]
        for ci, ch in enumerate(t['changes']):
            secs += [('change %d' % ci, ch['opts']), ('change %d preamble' % ci, ch['pre']['opts']), ('change %d meta' % ci, ch['meta']['opts'])]
            for fi, f in enumerate(ch['files']):
                secs += [('file %d.%d' % (ci, fi), f['opts']), ('file %d.%d meta' % (ci, fi), f['meta']['opts']),
                         ('file %d.%d diff' % (ci, fi), f['diff']['opts'])]
        for where, o in secs:
            r = check(where, o)
            if r:
                return r
    return None


def numeric_only_difference(a, b):
    """True if the two snapshots are equal once booleans are replaced by 0/1 (Python's True == 1)."""
    def norm(x):
        if isinstance(x, bool):
            return int(x)
        if isinstance(x, dict):
            if set(x.keys()) == {'bool'}:
                return {'i': int(x['bool'])}
            return {k: norm(v) for k, v in x.items()}
        if isinstance(x, list):
            return [norm(v) for v in x]
        return x
    return json.dumps(norm(a), sort_keys=True) == json.dumps(norm(b), sort_keys=True)


def _near_equal_texts():
    import unicodedata
    seeds = ['Caf\u00e9 au lait\n', '\u212b ngstr\u00f6m\n', '10 \u212a\n', '\ufb01le \uff21\uff22\n', '\u1e69\u0323\n', '\uf900 \u2126\n', '\u00bd \u2460\n',
             '\u0130stanbul \u017fs\n', 'Stra\u00dfe\n']
    pairs = []
    for t in seeds:
        for form in ('NFC', 'NFD', 'NFKC', 'NFKD'):
            u = unicodedata.normalize(form, t)
            if u != t:
                pairs.append((t, u))
        for u in (t.lower(), t.upper(), t.casefold()):
            if u != t:
                pairs.append((t, u))
    pairs += [('a b\n', 'a  b\n'), ('x\n', 'x\r\n'), ('x', 'x\n'), ('x \n', 'x\n'), ('\ufeffx\n', 'x\n'), ('1\n', '01\n'), ('1.0\n', '1\n'),
              ('a\tb\n', 'a b\n'), ('x\n', ' x\n'), ('a\u00a0b\n', 'a b\n'), ('a\u200bb\n', 'ab\n'), ('\u0430\n', 'a\n')]
    seen, out = set(), []
    for pr in pairs:
        if pr not in seen:
            seen.add(pr)
            out.append(pr)
    return out


NEAR_EQUAL_TEXTS = _near_equal_texts()


class Attrs(Family):
    """C19: every attribute name x candidate value on a tree, and single-field perturbations with == / to_bytes."""
    name = 'attrs'
    rule = ('for random trees: every attribute name (own and forwarded) at every section x 26 candidate values of right '
            'and wrong type/choice (assignment either stores or raises leaving the tree unchanged); unknown constructor '
            'attributes; every single-field perturbation of a tree compared with the original by ==, != and to_bytes, '
            'incl. pairs of near-equal texts (Unicode normal forms, case, white space, newline style) and edits of the '
            'public changes / files lists that keep their length; '
            'non-trivial = the tree has at least one change with a file; distinct by operation list')

    def cases(self, tier, rng, prop_id):
        ntrees = 6 if tier == 'quick' else 60
        for i in range(ntrees):
            if rng.random() < 0.4:
                base = [['parse', rng.choice(SAMPLE_FILES).hex()]]
                ci, fi = 0, 0
            else:
                # a constructed tree with 1-2 changes and 1-2 files per change, varied metadata / options
                base = [['new', [['preamble', {'s': rng.choice(['p\n', 'q'])}]] if rng.random() < 0.5 else []]]
                nch = rng.randint(1, 2)
                for c_ in range(nch):
                    base.append(['add_change', 0, [['encoding', {'s': rng.choice(['utf-8', 'latin-1'])}]] if rng.random() < 0.4 else []])
                    for f_ in range(rng.randint(1, 2)):
                        base.append(['add_file', 0, c_, [['meta', {'d': {'p': rng.choice([1, 2, 'x']), 'k%d' % f_: [f_]}}]]])
                ci = rng.randrange(nch)
                fi = 0
            for p, names in (('main', ATTRS_MAIN), (['c', ci], ATTRS_CHANGE), (['f', ci, fi], ATTRS_FILE)):
                for a in names + ['bogus', 'content', 'length', 'meta_content', 'preamble_content', 'diff_content']:
                    for v in CANDIDATES:
                        yield dict(kind='assign', ops=base + [['set', 0, p, a, v], ['to_bytes', 0]])
            # the same attribute assigned twice in a row: a valid value first, then an ==-equal value of another type
            for first, second in [({'i': 1}, {'bool': True}), ({'i': 0}, {'bool': False}), ({'i': 1}, 'other'),
                                  ({'i': 4}, {'s': '4'}), ({'bool': True}, {'i': 1})]:
                for p in ('main', ['c', ci]):
                    yield dict(kind='assign', ops=base + [['set', 0, p, 'preamble_indent', first],
                                                          ['set', 0, p, 'preamble_indent', second], ['to_bytes', 0]])
            for a in ['bogus', 'lenght', 'diff', 'preamble_bogus']:
                yield dict(kind='ctor', ops=[['new', [[a, {'s': 'x'}]]], ['new', []], ['add_change', 0, [[a, {'s': 'x'}]]]])
                if a != 'diff':
                    yield dict(kind='ctor', ops=[['new', []], ['add_change', 0, []], ['add_file', 0, 0, [[a, {'s': 'x'}]]]])
            # single-field perturbations: two copies of the same tree, perturb one, compare
            for p, names in (('main', ATTRS_MAIN), (['c', ci], ATTRS_CHANGE), (['f', ci, fi], ATTRS_FILE)):
                for a in names:
                    for v in [{'s': 'utf-16'}, {'s': 'dos'}, {'s': 'text/markdown'}, {'s': 'binary'}, {'s': 'changed\n'},
                              {'i': 7}, {'b': '2b780a'}, {'d': {'p': True}}, {'d': {'p': 1, 'q': 2}}]:
                        yield dict(kind='perturb', ops=base + base_shift(base) + [['eq', 0, 1], ['set', 1, p, a, v],
                                                                                  ['eq', 0, 1], ['to_bytes', 0], ['to_bytes', 1]])
            # shape perturbations: a tree against the same tree with one more change / file at the end (and the reverse)
            for extra in ([['add_change', 1, []]], [['add_file', 1, ci, []]], [['add_change', 1, []], ['add_file', 1, -1, []]]):
                extra = [[o[0], o[1], (o[2] if o[2] != -1 else 0)] + o[3:] if o[0] == 'add_file' else o for o in extra]
                yield dict(kind='perturb-shape', ops=base + base_shift(base) + [['eq', 0, 1]] + extra +
                           [['eq', 0, 1], ['eq', 1, 0], ['to_bytes', 0], ['to_bytes', 1]])
            # dictionary keys that are not strings: an int key alone (JSON writes it as a string; the tree keeps the int),
            # and an int next to a str key (cannot be sorted: not serialisable, in whatever order the keys were inserted)
            for v0, v1 in [({'__key_int__:1001': 'alice'}, {'__key_int__:1001': 'alice'}),
                           ({'__key_int__:1': 'a', 'b': 2}, {'b': 2, '__key_int__:1': 'a'}),
                           ({'r': {'__key_int__:1': 'a', 'b': 2}}, {'r': {'b': 2, '__key_int__:1': 'a'}})]:
                yield dict(kind='perturb-meta', ops=base + base_shift(base) + [['meta_put', 0, ['f', ci, fi], 'who', v0],
                                                                               ['meta_put', 1, ['f', ci, fi], 'who', v1], ['eq', 0, 1],
                                                                               ['to_bytes', 0], ['to_bytes', 1], ['eq', 0, 1]])
            # integers that CPython hashes alike (congruent modulo sys.hash_info.modulus) and -1 / -2: different option values
            import sys as _sys
            M = _sys.hash_info.modulus
            for a0, a1 in [(0, M), (1, M + 1), (4, 4 + M), (7, 7 + 2 * M)]:
                for p in ('main', ['c', ci]):
                    yield dict(kind='perturb', ops=base + base_shift(base) + [['set', 0, p, 'preamble_indent', {'i': a0}],
                                                                              ['set', 1, p, 'preamble_indent', {'i': a1}],
                                                                              ['eq', 0, 1], ['eq', 1, 0]], huge=True)
            # values a person would call "the same" and that are nevertheless different content: canonically / compatibly
            # equivalent Unicode spellings, case, white space, newline style, a leading U+FEFF, numerals
            for a0, a1 in NEAR_EQUAL_TEXTS:
                for p in ('main', ['c', ci]):
                    yield dict(kind='perturb', ops=base + base_shift(base) + [['set', 0, p, 'preamble', {'s': a0}], ['set', 1, p, 'preamble', {'s': a1}],
                                                                              ['eq', 0, 1], ['eq', 1, 0], ['to_bytes', 0], ['to_bytes', 1]])
                for p in ('main', ['c', ci], ['f', ci, fi]):
                    yield dict(kind='perturb-meta', ops=base + base_shift(base) + [['meta_put', 0, p, 'who', a0], ['meta_put', 1, p, 'who', a1],
                                                                                   ['eq', 0, 1], ['to_bytes', 0], ['to_bytes', 1]])
                    yield dict(kind='perturb-meta', ops=base + base_shift(base) + [['meta_put', 0, p, a0, 1], ['meta_put', 1, p, a1, 1],
                                                                                   ['eq', 0, 1], ['to_bytes', 0], ['to_bytes', 1]])
                yield dict(kind='perturb', ops=base + base_shift(base) + [
                    ['set', 0, ['f', ci, fi], 'diff', {'b': ('-' + a0 + '\n').encode('utf-8').hex()}],
                    ['set', 1, ['f', ci, fi], 'diff', {'b': ('-' + a1 + '\n').encode('utf-8').hex()}],
                    ['eq', 0, 1], ['eq', 1, 0], ['to_bytes', 0], ['to_bytes', 1]])
            # order is content: two equal trees, both observed (compared, serialised), then one of them gets two changes /
            # two files exchanged, its list of changes reversed or reassigned -- the lists keep their length
            two = [['new', [['preamble', {'s': 'top\n'}]]], ['add_change', 0, [['preamble', {'s': 'first\n'}]]],
                   ['add_file', 0, 0, [['meta', {'d': {'path': 'a'}}], ['diff', {'b': '2d610a'}]]],
                   ['add_file', 0, 0, [['meta', {'d': {'path': 'b'}}]]],
                   ['add_change', 0, [['preamble', {'s': 'second\n'}]]], ['add_file', 0, 1, [['meta', {'d': {'path': 'c'}}]]]]
            if i == 0:
                for edit in ([['swap_changes', 1, 0, 1]], [['swap_files', 1, 0, 0, 1]], [['reverse_changes', 1]], [['assign_changes', 1]],
                             [['swap_files', 1, 0, 0, 1], ['swap_changes', 1, 0, 1]]):
                    for observed in (True, False):
                        obs_ops = [['eq', 0, 1], ['to_bytes', 0], ['to_bytes', 1]] if observed else []
                        yield dict(kind='perturb-order', ops=two + base_shift(two) + obs_ops + edit +
                                   [['eq', 0, 1], ['eq', 1, 0], ['to_bytes', 0], ['to_bytes', 1]])
            for key, v in [('p', True), ('p', 1), ('p', 2), ('z', None)]:
                yield dict(kind='perturb-meta', ops=base + base_shift(base) + [['meta_put', 1, ['f', ci, fi], key, v], ['eq', 0, 1],
                                                                               ['to_bytes', 0], ['to_bytes', 1]])

    _impl = Alias._impl
    model_line = Alias.model_line
    impl_obs = Alias.impl_obs
    normalize_model = Alias.normalize_model

    def nontrivial(self, c):
        return True

    def bucket(self, c):
        return c['kind']

    def oracle(self, c, obs):
        out = Alias.oracle(self, c, obs)
        obs_s, steps, orc = self._impl(c)
        # a typed attribute that was assigned WITHOUT raising stores a value of the declared type and allowed choice
        # (independent statement of the declared types, from the options documented in the specification)
        if c['kind'] in ('assign', 'ctor') and not any(o[0] == 'opt_put' for o in c['ops']):
            for o, st in zip(c['ops'], steps):
                if o[0] in ('set', 'new', 'add_change', 'add_file') and st[0] == 'unit':
                    bad = ill_typed_option(st[1])
                    if bad:
                        out.append(('C19', 'ill-typed-value-stored', '%r was accepted and the tree now holds %s' % (o[:5], bad)))
                        break
        # unknown constructor attributes are rejected (on the root object, a change and a file alike)
        known = {'new': set(ATTRS_MAIN), 'add_change': set(ATTRS_CHANGE), 'add_file': set(ATTRS_FILE)}
        for o, st in zip(c['ops'], steps):
            if o[0] in known:
                kws = o[1] if o[0] == 'new' else (o[2] if o[0] == 'add_change' else o[3])
                bad = [k for k, _ in kws if k not in known[o[0]]]
                if bad and st[0] != '(exc)' and st[0] != 'bad-index':
                    out.append(('C19', 'unknown-constructor-attribute-accepted',
                                '%s(%s=...) was accepted' % ({'new': 'DiffX', 'add_change': 'add_change', 'add_file': 'add_file'}[o[0]], bad[0])))
        # equal trees serialise to identical bytes
        if c['kind'].startswith('perturb') and not out:
            eqs = [s[0] for o, s in zip(c['ops'], steps) if o[0] == 'eq']
            bs = [s[0] for o, s in zip(c['ops'], steps) if o[0] == 'to_bytes']
            if eqs and eqs[-1] == 'true' and len(bs) == 2 and bs[0] != bs[1] and bs[0].startswith('#') and bs[1].startswith('#'):
                out.append(('C19', 'python-numeric-equality' if numeric_only_difference(steps[-1][1][0], steps[-1][1][1])
                            else 'equal-trees-serialise-differently', 'trees compare == but serialise to different bytes'))
        return out


def base_shift(base):
    """A second copy of the base construction, building tree 1 instead of tree 0."""
    out = []
    for o in base:
        o = list(o)
        if o[0] in ('add_change', 'add_file'):
            o[1] = 1
        out.append(o)
    return out
