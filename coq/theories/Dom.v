(* Dom.v — value-level model of pydiffx/dom: trees, typed attributes, DOM writer/reader, equality, generate_stats. *)
From Coq Require Import List Arith NArith ZArith Bool Strings.Byte.
From Coq Require Strings.String.
From DX Require Import Bytes Res Codec Text Sections Header Json Reader Writer Hunks.
From DXGen Require GenSections GenText.
Import ListNotations.
Import String.StringSyntax.
Local Open Scope string_scope.
Local Open Scope list_scope.

Definition dopts := list (bytes * wv).        (* an options dict: str keys, insertion order kept *)

Record psec := { p_opts : dopts; p_content : option text }.       (* DiffXPreambleSection: content None or str *)
Record msec := { m_opts : dopts; m_content : list (text * json) }. (* DiffXMetaSection: content is a dict *)
Record dsec := { x_opts : dopts; x_content : option bytes }.      (* DiffXFileDiffSection *)
Record dfile := { f_opts : dopts; f_meta : msec; f_diff : dsec }.
Record dchange := { c_opts : dopts; c_pre : psec; c_meta : msec; c_files : list dfile }.
Record dtree := { d_opts : dopts; d_pre : psec; d_meta : msec; d_changes : list dchange }.

Definition S_ (s : String.string) : wv := WStr (ascii_text (B s)).

Definition new_psec : psec := {| p_opts := []; p_content := None |}.
Definition new_msec : msec := {| m_opts := [(B "format", WStr (ascii_text GenText.meta_format_json))]; m_content := [] |}.
Definition new_dsec : dsec := {| x_opts := []; x_content := None |}.
Definition new_file : dfile := {| f_opts := []; f_meta := new_msec; f_diff := new_dsec |}.
Definition new_change : dchange := {| c_opts := []; c_pre := new_psec; c_meta := new_msec; c_files := [] |}.
Definition new_tree : dtree :=
  {| d_opts := [(B "encoding", WStr (ascii_text GenText.default_encoding)); (B "version", WStr (ascii_text GenText.writer_version))];
     d_pre := new_psec; d_meta := new_msec; d_changes := [] |}.

(* ---- Python == on the values that can sit in an options dict / metadata ---- *)
Definition bool_Z (b : bool) : Z := if b then 1%Z else 0%Z.
Fixpoint json_eq (a b : json) : bool :=
  match a, b with
  | JNull, JNull => true
  | JBool x, JBool y => Bool.eqb x y
  | JInt x, JInt y => Z.eqb x y
  | JBool x, JInt y => Z.eqb (bool_Z x) y
  | JInt x, JBool y => Z.eqb x (bool_Z y)
  | JFloat x, JFloat y => beq x y
  | JStr x, JStr y => teq x y
  | JList x, JList y =>
      (fix go (x y : list json) : bool :=
         match x, y with
         | [], [] => true
         | p :: x', q :: y' => json_eq p q && go x' y'
         | _, _ => false
         end) x y
  | JObj x, JObj y =>
      Nat.eqb (length x) (length y) &&
      (fix go (x : list (text * json)) : bool :=
         match x with
         | [] => true
         | (k, v) :: x' => (match assoc_get teq k y with Some w => json_eq v w | None => false end) && go x'
         end) x
  | JBad, JBad => false
  | _, _ => false
  end.

Definition wv_eq (a b : wv) : bool :=
  match a, b with
  | WNone, WNone => true
  | WBool x, WBool y => Bool.eqb x y
  | WInt x, WInt y => Z.eqb x y
  | WBool x, WInt y => Z.eqb (bool_Z x) y
  | WInt x, WBool y => Z.eqb x (bool_Z y)
  | WStr x, WStr y => teq x y
  | WBytes x, WBytes y => beq x y
  | WDict x, WDict y => json_eq x y
  | _, _ => false
  end.

(* dict == dict *)
Fixpoint keys_unique (o : dopts) : bool :=
  match o with [] => true | (k, _) :: t => negb (existsb (fun p => beq k (fst p)) t) && keys_unique t end.
Definition dopts_eq (a b : dopts) : bool :=
  Nat.eqb (length a) (length b) &&
  forallb (fun p => match assoc_get beq (fst p) b with Some w => wv_eq (snd p) w | None => false end) a.

Definition opt_text_eq (a b : option text) : bool :=
  match a, b with None, None => true | Some x, Some y => teq x y | _, _ => false end.
Definition opt_bytes_eq (a b : option bytes) : bool :=
  match a, b with None, None => true | Some x, Some y => beq x y | _, _ => false end.

Definition psec_eq (a b : psec) := dopts_eq (p_opts a) (p_opts b) && opt_text_eq (p_content a) (p_content b).
Definition msec_eq (a b : msec) := dopts_eq (m_opts a) (m_opts b) && json_eq (JObj (m_content a)) (JObj (m_content b)).
Definition dsec_eq (a b : dsec) := dopts_eq (x_opts a) (x_opts b) && opt_bytes_eq (x_content a) (x_content b).
Definition file_eq (a b : dfile) := dopts_eq (f_opts a) (f_opts b) && msec_eq (f_meta a) (f_meta b) && dsec_eq (f_diff a) (f_diff b).
Fixpoint list_eq2 {A} (eq : A -> A -> bool) (a b : list A) : bool :=
  match a, b with [], [] => true | x :: a', y :: b' => eq x y && list_eq2 eq a' b' | _, _ => false end.
Definition change_eq (a b : dchange) :=
  dopts_eq (c_opts a) (c_opts b) && psec_eq (c_pre a) (c_pre b) && msec_eq (c_meta a) (c_meta b) && list_eq2 file_eq (c_files a) (c_files b).
Definition tree_eq (a b : dtree) :=
  dopts_eq (d_opts a) (d_opts b) && psec_eq (d_pre a) (d_pre b) && msec_eq (d_meta a) (d_meta b) && list_eq2 change_eq (d_changes a) (d_changes b).

(* ---- typed attributes (dom/properties.py) ---- *)
Inductive atype := TStr | TInt.
Definition has_type (t : atype) (v : wv) : bool :=
  match t, v with
  | TStr, WStr _ => true
  | TInt, WInt _ => true
  | TInt, WBool _ => true       (* isinstance(True, int) *)
  | _, _ => false
  end.

(* OptionProperty.__set__ *)
Definition set_option (o : dopts) (name : bytes) (t : atype) (choices : option (list bytes)) (v : wv) : res dopts :=
  if negb (has_type t v) then Err ELibOptionValue
  else match choices with
       | Some cs =>
           match in_strset v cs with
           | Ok true => Ok (assoc_set beq name v o)
           | Ok false => if nonempty cs then Err ELibChoice else Ok (assoc_set beq name v o)
           | Err e => Err e
           end
       | None => Ok (assoc_set beq name v o)
       end.

Definition set_psec (s : psec) (attr : bytes) (v : wv) : res psec :=
  if beq attr (B "content") then
    match v with WStr t => Ok {| p_opts := p_opts s; p_content := Some t |} | _ => Err EType end
  else
    let upd (r : res dopts) := do o <- r; Ok {| p_opts := o; p_content := p_content s |} in
    if beq attr (B "encoding") then upd (set_option (p_opts s) (B "encoding") TStr None v)
    else if beq attr (B "indent") then
      match v with
      | WBool _ => Err ELibOptionValue                  (* PreambleIndentOptionProperty: no booleans, no negatives *)
      | WInt z => if (z <? 0)%Z then Err ELibOptionValue else upd (set_option (p_opts s) (B "indent") TInt None v)
      | _ => upd (set_option (p_opts s) (B "indent") TInt None v)
      end
    else if beq attr (B "line_endings") then upd (set_option (p_opts s) (B "line_endings") TStr (Some GenText.line_endings_values) v)
    else if beq attr (B "mimetype") then upd (set_option (p_opts s) (B "mimetype") TStr (Some GenText.mimetypes) v)
    else Err EAttribute.

Definition set_msec (s : msec) (attr : bytes) (v : wv) : res msec :=
  if beq attr (B "content") then
    match v with WDict (JObj kv) => Ok {| m_opts := m_opts s; m_content := kv |} | _ => Err EType end
  else
    let upd (r : res dopts) := do o <- r; Ok {| m_opts := o; m_content := m_content s |} in
    if beq attr (B "encoding") then upd (set_option (m_opts s) (B "encoding") TStr None v)
    else if beq attr (B "format") then upd (set_option (m_opts s) (B "format") TStr (Some GenText.meta_formats) v)
    else Err EAttribute.

Definition set_dsec (s : dsec) (attr : bytes) (v : wv) : res dsec :=
  if beq attr (B "content") then
    match v with WBytes b => Ok {| x_opts := x_opts s; x_content := Some b |} | _ => Err EType end
  else
    let upd (r : res dopts) := do o <- r; Ok {| x_opts := o; x_content := x_content s |} in
    if beq attr (B "encoding") then upd (set_option (x_opts s) (B "encoding") TStr None v)
    else if beq attr (B "line_endings") then upd (set_option (x_opts s) (B "line_endings") TStr (Some GenText.line_endings_values) v)
    else if beq attr (B "type") then upd (set_option (x_opts s) (B "type") TStr (Some GenText.diff_types) v)
    else Err EAttribute.

(* forwarded names: "preamble" -> content, "preamble_indent" -> indent, ... *)
Definition forwarded (prefix : String.string) (name : bytes) : option bytes :=
  if beq name (B prefix) then Some (B "content")
  else if bstarts (B prefix ++ B "_") name then
    let rest := skipn (length (B prefix) + 1) name in
    if beq rest (B "content") then None else Some rest      (* there is no "meta_content" attribute *)
  else None.

Definition set_file_attr (f : dfile) (name : bytes) (v : wv) : res dfile :=
  if beq name (B "encoding") then
    do o <- set_option (f_opts f) (B "encoding") TStr None v; Ok {| f_opts := o; f_meta := f_meta f; f_diff := f_diff f |}
  else match forwarded "meta" name with
       | Some a => do m <- set_msec (f_meta f) a v; Ok {| f_opts := f_opts f; f_meta := m; f_diff := f_diff f |}
       | None =>
           match forwarded "diff" name with
           | Some a => do d <- set_dsec (f_diff f) a v; Ok {| f_opts := f_opts f; f_meta := f_meta f; f_diff := d |}
           | None => Err EAttribute
           end
       end.

Definition set_change_attr (c : dchange) (name : bytes) (v : wv) : res dchange :=
  if beq name (B "encoding") then
    do o <- set_option (c_opts c) (B "encoding") TStr None v;
    Ok {| c_opts := o; c_pre := c_pre c; c_meta := c_meta c; c_files := c_files c |}
  else match forwarded "meta" name with
       | Some a => do m <- set_msec (c_meta c) a v; Ok {| c_opts := c_opts c; c_pre := c_pre c; c_meta := m; c_files := c_files c |}
       | None =>
           match forwarded "preamble" name with
           | Some a => do p <- set_psec (c_pre c) a v; Ok {| c_opts := c_opts c; c_pre := p; c_meta := c_meta c; c_files := c_files c |}
           | None => Err EAttribute
           end
       end.

Definition set_tree_attr (t : dtree) (name : bytes) (v : wv) : res dtree :=
  if beq name (B "encoding") then
    do o <- set_option (d_opts t) (B "encoding") TStr None v;
    Ok {| d_opts := o; d_pre := d_pre t; d_meta := d_meta t; d_changes := d_changes t |}
  else if beq name (B "version") then
    do o <- set_option (d_opts t) (B "version") TStr (Some GenText.versions) v;
    Ok {| d_opts := o; d_pre := d_pre t; d_meta := d_meta t; d_changes := d_changes t |}
  else match forwarded "meta" name with
       | Some a => do m <- set_msec (d_meta t) a v; Ok {| d_opts := d_opts t; d_pre := d_pre t; d_meta := m; d_changes := d_changes t |}
       | None =>
           match forwarded "preamble" name with
           | Some a => do p <- set_psec (d_pre t) a v; Ok {| d_opts := d_opts t; d_pre := p; d_meta := d_meta t; d_changes := d_changes t |}
           | None => Err EAttribute
           end
       end.

(* constructor keyword arguments: setattr in order; AttributeError -> DiffXUnknownOptionError *)
Definition unknown_to_lib {A} (r : res A) : res A :=
  match r with Err EAttribute => Err ELibUnknownOption | x => x end.
Fixpoint apply_attrs {T} (set : T -> bytes -> wv -> res T) (x : T) (attrs : list (bytes * wv)) : res T :=
  match attrs with
  | [] => Ok x
  | (k, v) :: r => do x' <- unknown_to_lib (set x k v); apply_attrs set x' r
  end.

(* ---- DOM writer (dom/writer.py) ---- *)
(* { remapped.get(k, k): v for k, v in options.items() }: a dict comprehension, so a later entry with the same
   (renamed) key overrides an earlier one *)
Definition remap (name : String.string) (o : dopts) : dopts :=
  fold_left (fun acc p =>
               let k := if beq (fst p) (B "type") && String.eqb name "diff" then B "diff_type"
                        else if beq (fst p) (B "format") && String.eqb name "meta" then B "meta_format"
                        else fst p in
               assoc_set beq k (snd p) acc) o [].

Definition kw (o : dopts) (k : String.string) : wv := match assoc_get beq (B k) o with Some v => v | None => WNone end.
Definition kw_opt (o : dopts) (k : String.string) : option wv := assoc_get beq (B k) o.
Definition only_keys (o : dopts) (allowed : list String.string) : bool :=
  forallb (fun p => existsb (fun a => beq (fst p) (B a)) allowed) o.

(* calling f with the options dict as keyword arguments: an unexpected keyword is a TypeError before the body runs *)
Definition call_container (name : String.string) (o : dopts) : res call :=
  if negb (only_keys o ["encoding"]) then Err EType
  else Ok (if String.eqb name "change" then NewChange (kw o "encoding") else NewFile (kw o "encoding")).

Definition call_preamble (s : psec) : res (option call) :=
  match p_content s with
  | None => Ok None
  | Some t =>
      if is_nil t then Ok None else
      let o := p_opts s in
      if negb (only_keys o ["encoding"; "indent"; "line_endings"; "mimetype"]) then Err EType
      else Ok (Some (WritePreamble (WStr t) (kw o "encoding") (kw_opt o "indent") (kw o "line_endings") (kw o "mimetype")))
  end.
Definition call_meta (s : msec) : res (option call) :=
  if is_nil (m_content s) then Ok None else
  (* _get_options: line_endings is never passed on for metadata sections (write_meta has no such parameter) *)
  let o := remap "meta" (assoc_del beq (B "line_endings") (m_opts s)) in
  if negb (only_keys o ["encoding"; "meta_format"]) then Err EType
  else Ok (Some (WriteMeta (WDict (JObj (m_content s))) (kw o "encoding") (kw_opt o "meta_format"))).
Definition call_diff (s : dsec) : res (option call) :=
  match x_content s with
  | None => Ok None
  | Some b =>
      if is_nil b then Ok None else
      let o := remap "diff" (x_opts s) in
      if negb (only_keys o ["diff_type"; "encoding"; "line_endings"]) then Err EType
      else Ok (Some (WriteDiff (WBytes b) (kw o "diff_type") (kw o "encoding") (kw o "line_endings")))
  end.

(* the DOM writer interleaves building each call with executing it: the first failure stops everything *)
Definition exec (c : res (option call)) (s : wstate) : wstate * res unit :=
  match c with
  | Err e => (s, Err e)
  | Ok None => (s, Ok tt)
  | Ok (Some c) => do_call c s
  end.
Definition seqw (a b : wstate -> wstate * res unit) : wstate -> wstate * res unit :=
  fun s => let (s1, r) := a s in match r with Ok _ => b s1 | Err e => (s1, Err e) end.
Fixpoint seq_all (l : list (wstate -> wstate * res unit)) : wstate -> wstate * res unit :=
  match l with [] => fun s => (s, Ok tt) | a :: t => seqw a (seq_all t) end.

Definition some_call (r : res call) : res (option call) := match r with Ok c => Ok (Some c) | Err e => Err e end.

Definition write_file (f : dfile) : wstate -> wstate * res unit :=
  seq_all [exec (some_call (call_container "file" (f_opts f))); exec (call_meta (f_meta f)); exec (call_diff (f_diff f))].
Definition write_change (c : dchange) : wstate -> wstate * res unit :=
  seq_all ([exec (some_call (call_container "change" (c_opts c))); exec (call_preamble (c_pre c)); exec (call_meta (c_meta c))]
           ++ map write_file (c_files c)).

(* DiffXDOMWriter.write_stream / DiffX.to_bytes *)
Definition dom_write (t : dtree) : res bytes :=
  let o := d_opts t in
  let version := match assoc_get beq (B "version") o with Some v => v | None => WStr (ascii_text GenText.writer_version) end in
  let encoding := match assoc_get beq (B "encoding") o with Some v => v | None => WNone end in
  let rest := assoc_del beq (B "encoding") (assoc_del beq (B "version") o) in
  if nonempty rest then Err EType else
  let (s0, r0) := writer_init encoding version in
  match r0 with
  | Err e => Err e
  | Ok _ =>
      let (s1, r1) := seq_all ([exec (call_preamble (d_pre t)); exec (call_meta (d_meta t))] ++ map write_change (d_changes t)) s0 in
      match r1 with Ok _ => Ok (w_out s1) | Err e => Err e end
  end.

(* ---- DOM reader (dom/reader.py) over the streaming reader's records ---- *)
Definition wv_of_pv (v : pv) : wv := match v with VInt z => WInt z | VStr s => WStr (ascii_text s) end.
Definition dopts_of_options (o : options) : dopts := map (fun p => (fst p, wv_of_pv (snd p))) o.
Definition content_options (o : options) : dopts := dopts_of_options (assoc_del beq (B "length") o).

(* names that exist as plain slots on a container object: a header option with such a name silently overwrites
   internal state; outside the modelled universe *)
Definition slot_names : list bytes :=
  [B "options"; B "section_id"; B "_level"; B "meta_section"; B "preamble_section"; B "diff_section"; B "files";
   B "changes"; B "self"; B "parent_section"].
Definition has_slot_key (o : dopts) : bool := existsb (fun p => mem beq (fst p) slot_names) o.

(* any TypeError/AttributeError inside a handler is converted to DiffXParseError by the DOM reader *)
Definition to_parse {A} (r : res A) : res A :=
  match r with Err EType => Err ELibParse | Err EAttribute => Err ELibParse | x => x end.

Fixpoint set_last {A} (f : A -> res A) (l : list A) : res (list A) :=
  match l with
  | [] => Err EIndex
  | [x] => do y <- f x; Ok [y]
  | x :: t => do t' <- set_last f t; Ok (x :: t')
  end.

Inductive cursor := AtMain | AtChange | AtFile.

Definition apply_record (tc : dtree * cursor) (r : record) : res (dtree * cursor) :=
  let (t, cur) := tc in
  let id := r_id r in
  let on_change (f : dchange -> res dchange) : res dtree :=
    do cs <- set_last f (d_changes t); Ok {| d_opts := d_opts t; d_pre := d_pre t; d_meta := d_meta t; d_changes := cs |} in
  let on_file (f : dfile -> res dfile) : res dtree :=
    on_change (fun c => do fs <- set_last f (c_files c);
                        Ok {| c_opts := c_opts c; c_pre := c_pre c; c_meta := c_meta c; c_files := fs |}) in
  if beq id GenSections.sec_main then
    Ok ({| d_opts := dopts_of_options (r_opts r); d_pre := d_pre t; d_meta := d_meta t; d_changes := d_changes t |}, AtMain)
  else if beq id GenSections.sec_change then
    let o := dopts_of_options (r_opts r) in
    if has_slot_key o then Err EUnmodelled else
    do c <- to_parse (apply_attrs set_change_attr new_change o);
    Ok ({| d_opts := d_opts t; d_pre := d_pre t; d_meta := d_meta t; d_changes := d_changes t ++ [c] |}, AtChange)
  else if beq id GenSections.sec_file then
    let o := dopts_of_options (r_opts r) in
    if has_slot_key o then Err EUnmodelled else
    do f <- to_parse (apply_attrs set_file_attr new_file o);
    do t' <- on_change (fun c => Ok {| c_opts := c_opts c; c_pre := c_pre c; c_meta := c_meta c; c_files := c_files c ++ [f] |});
    Ok (t', AtFile)
  else
    let co := content_options (r_opts r) in
    match r_payload r with
    | PText txt =>
        (* section.preamble = text ; then options replaced *)
        let upd (p : psec) : res psec := Ok {| p_opts := co; p_content := Some txt |} in
        match cur with
        | AtMain => do p <- upd (d_pre t); Ok ({| d_opts := d_opts t; d_pre := p; d_meta := d_meta t; d_changes := d_changes t |}, cur)
        | AtChange => do t' <- on_change (fun c => do p <- upd (c_pre c); Ok {| c_opts := c_opts c; c_pre := p; c_meta := c_meta c; c_files := c_files c |}); Ok (t', cur)
        | AtFile => Err ELibParse       (* a file has no preamble attribute: AttributeError -> parse error *)
        end
    | PBytes b =>
        if beq id GenSections.sec_file_diff then
          match cur with
          | AtFile => do t' <- on_file (fun f => Ok {| f_opts := f_opts f; f_meta := f_meta f; f_diff := {| x_opts := co; x_content := Some b |} |}); Ok (t', cur)
          | _ => Err ELibParse
          end
        else Err ELibParse              (* preamble text left as bytes (no encoding in force): TypeError -> parse error *)
    | PMeta j =>
        match j with
        | JObj kv =>
            let m := {| m_opts := co; m_content := kv |} in
            match cur with
            | AtMain => Ok ({| d_opts := d_opts t; d_pre := d_pre t; d_meta := m; d_changes := d_changes t |}, cur)
            | AtChange => do t' <- on_change (fun c => Ok {| c_opts := c_opts c; c_pre := c_pre c; c_meta := m; c_files := c_files c |}); Ok (t', cur)
            | AtFile => do t' <- on_file (fun f => Ok {| f_opts := f_opts f; f_meta := m; f_diff := f_diff f |}); Ok (t', cur)
            end
        | _ => Err ELibParse            (* metadata that is not a JSON object: TypeError -> parse error *)
        end
    | PNone => Err EAssertion
    end.

Fixpoint apply_records (tc : dtree * cursor) (rs : list record) : res (dtree * cursor) :=
  match rs with
  | [] => Ok tc
  | r :: t => do tc' <- apply_record tc r; apply_records tc' t
  end.

(* DiffX.from_bytes: records are consumed as they are yielded, so a handler error wins over a later parse error *)
Definition dom_read (orc : oracle) (data : bytes) : res dtree :=
  let (rs, term) := read_all orc default_chunk data in
  match apply_records (new_tree, AtMain) rs with
  | Err e => Err e
  | Ok (t, _) =>
      match term with
      | TEnd => Ok t
      | TParse _ _ => Err ELibParse
      | TExc e => Err e
      | TFuel => Err EOracleMiss
      end
  end.

(* ---- generate_stats ---- *)
Definition jget (k : String.string) (kv : list (text * json)) : option json := assoc_get teq (ascii_text (B k)) kv.
Definition jset (k : String.string) (v : json) (kv : list (text * json)) : list (text * json) := assoc_set teq (ascii_text (B k)) v kv.
Fixpoint jupdate (src dst : list (text * json)) : list (text * json) :=
  match src with [] => dst | (k, v) :: t => jupdate t (assoc_set teq k v dst) end.

(* if 'stats' in meta: meta['stats'].update(stats) else: meta['stats'] = stats *)
Definition merge_stats (meta : list (text * json)) (stats : list (text * json)) : res (list (text * json)) :=
  match jget "stats" meta with
  | Some (JObj old) => Ok (jset "stats" (JObj (jupdate stats old)) meta)
  | Some _ => Err EAttribute
  | None => Ok (jset "stats" (JObj stats) meta)
  end.

Definition text_of (v : wv) : option bytes := match v with WStr t => c_enc ascii t | _ => None end.

Definition stat (k : String.string) (z : Z) : text * json := (ascii_text (B k), JInt z).

(* DiffXFileSection.generate_stats *)
Definition file_stats (f : dfile) : res dfile :=
  match x_content (f_diff f) with
  | None => Ok f
  | Some diff =>
      if is_nil diff then Ok f else
      let o := x_opts (f_diff f) in
      if wv_eq (kw o "type") (WStr (ascii_text GenText.diff_type_binary)) then Ok f else
      let enc := text_of (kw o "encoding") in
      do newline <- (if wv_truthy (kw o "line_endings")
                     then match text_of (kw o "line_endings") with
                          | Some le => get_newline_for_type le enc
                          | None => Err EValue
                          end
                     else do p <- guess_line_endings_bytes diff enc; Ok (snd p));
      (* work with a UTF-8 version of the diff when it decodes in its declared encoding (ValueError: keep the bytes) *)
      do dn <- (match enc with
                | Some e =>
                    match py_decode diff e with
                    | Ok t =>
                        match py_decode newline e with
                        | Ok nt => match c_enc utf8 t, c_enc utf8 nt with
                                   | Some a, Some b => Ok (a, b)
                                   | _, _ => Ok (diff, newline)
                                   end
                        | Err EUnmodelled => Err EUnmodelled
                        | Err _ => Ok (diff, newline)
                        end
                    | Err EUnmodelled => Err EUnmodelled
                    | Err _ => Ok (diff, newline)
                    end
                | None => Ok (diff, newline)
                end);
      let (diff, newline) := dn in
      match split_lines diff newline false with
      | Err _ => Ok f                     (* logged and swallowed *)
      | Ok lines =>
          match get_unified_diff_hunks lines true with
          | Malformed _ _ _ => Ok f       (* logged and swallowed *)
          | HunksOk _ _ dels ins =>
              do m <- merge_stats (m_content (f_meta f))
                        [stat "deletions" dels; stat "insertions" ins; stat "lines changed" (dels + ins)%Z];
              Ok {| f_opts := f_opts f; f_meta := {| m_opts := m_opts (f_meta f); m_content := m |}; f_diff := f_diff f |}
          end
      end
  end.

Definition jint_or (d : Z) (o : option json) : res Z :=
  match o with None => Ok d | Some (JInt z) => Ok z | Some (JBool b) => Ok (bool_Z b) | Some _ => Err EType end.

Fixpoint map_res {A C} (f : A -> res C) (l : list A) : res (list C) :=
  match l with [] => Ok [] | x :: t => do y <- f x; do r <- map_res f t; Ok (y :: r) end.

(* DiffXChangeSection.generate_stats *)
Definition change_stats (c : dchange) : res dchange :=
  do fs <- map_res file_stats (c_files c);
  do sums <- (fix go (l : list dfile) (acc : Z * Z * Z) : res (Z * Z * Z) :=
                match l with
                | [] => Ok acc
                | f :: t =>
                    let st := match jget "stats" (m_content (f_meta f)) with Some (JObj kv) => Ok kv | None => Ok [] | Some _ => Err EAttribute end in
                    do kv <- st;
                    do i <- jint_or 0 (jget "insertions" kv);
                    do d <- jint_or 0 (jget "deletions" kv);
                    do l' <- jint_or 0 (jget "lines changed" kv);
                    let '(ai, ad, al) := acc in go t (ai + i, ad + d, al + l')%Z
                end) fs (0, 0, 0)%Z;
  let '(i, d, l) := sums in
  do m <- merge_stats (m_content (c_meta c))
            [stat "deletions" d; stat "files" (Z.of_nat (length fs)); stat "insertions" i; stat "lines changed" l];
  Ok {| c_opts := c_opts c; c_pre := c_pre c; c_meta := {| m_opts := m_opts (c_meta c); m_content := m |}; c_files := fs |}.

(* DiffX.generate_stats *)
Definition tree_stats (t : dtree) : res dtree :=
  do cs <- map_res change_stats (d_changes t);
  do sums <- (fix go (l : list dchange) (acc : Z * Z * Z * Z) : res (Z * Z * Z * Z) :=
                match l with
                | [] => Ok acc
                | c :: r =>
                    do kv <- (match jget "stats" (m_content (c_meta c)) with Some (JObj kv) => Ok kv | Some _ => Err EType | None => Err EKey end);
                    let need k := match jget k kv with Some (JInt z) => Ok z | Some (JBool b) => Ok (bool_Z b) | Some _ => Err EType | None => Err EKey end in
                    do f <- need "files"; do i <- need "insertions"; do d <- need "deletions"; do l' <- need "lines changed";
                    let '(af, ai, ad, al) := acc in go r (af + f, ai + i, ad + d, al + l')%Z
                end) cs (0, 0, 0, 0)%Z;
  let '(f, i, d, l) := sums in
  do m <- merge_stats (m_content (d_meta t))
            [stat "changes" (Z.of_nat (length cs)); stat "deletions" d; stat "files" f; stat "insertions" i; stat "lines changed" l];
  Ok {| d_opts := d_opts t; d_pre := d_pre t; d_meta := {| m_opts := m_opts (d_meta t); m_content := m |}; d_changes := cs |}.
