(* SpecReaderDefects.v — the file-level REJECTION half of property C03:
     "A file with a single spec violation (unsupported or missing version, missing length, content not ending in
      its newline, format other than json, invalid JSON, unknown line_endings value) is rejected with a parse error
      whose line number designates the offending section."

   SpecReaderFacts.v proves the acceptance half for whole files of the spec AST (SpecReader.v); ReaderSpecFacts.v
   proves each defect for ONE iteration of the reader, under hypotheses on the reader state at the offending
   header.  This file composes the two: for a well-formed file [f], a section index [k] and a defect of the
   catalogue, the reader on the rendering of the DEFECTIVE file yields exactly the records of the sections before
   [k] and then raises DiffXParseError(l, c) with [l] in the line range of section [k].

   Part 1  options as written: removing a key, setting a key ("last one wins")
   Part 2  the defect catalogue as functions on the AST (mirrors harness/gen_foreign.py [inject])
   Part 3  running the reader over the well-formed prefix: the loop state at the header of section k
   Part 4  header-level defects: bad_version, missing_version, missing_length, format_not_json,
           unknown_line_endings
   Part 5  invalid_json (a change of the json.loads oracle)
   Part 6  no_final_newline (the defective content described in bytes)
   Part 7  the umbrella statement
   Part 8  concrete inputs used by the Examples of props/C03_defects.v *)
From Coq Require Import List Arith NArith ZArith Bool Strings.Byte Lia.
From Coq Require Strings.String.
From DX Require Import Bytes Res Codec Text Sections Header Stream Json Reader SectionsSpec
                       SpecReader SpecReaderBase SpecReaderCodec SpecReaderContent SpecReaderFacts.
From DX Require Import RoundTripCodec.
From DX Require SpecReaderExamples.
From DX Require HeaderFacts TextFacts StreamFacts SectionsFacts ReaderSpecFacts.
From DXGen Require GenSections GenText.
Import ListNotations.
Import String.StringSyntax.
Local Open Scope string_scope.
Local Open Scope list_scope.

Module RS := ReaderSpecFacts.

(* ================================================================================================ *)
(** * Part 1: options as written *)

(* Options may be repeated and come in any order; the reader (a Python dict) keeps the LAST value of a key.
   Hence: REMOVING a key removes ALL its occurrences, and SETTING a key removes all its occurrences and appends
   the new pair at the end.  (gen_foreign.py's setopt overwrites the first occurrence in place; on its files,
   whose keys are not repeated, the two agree up to the position of the pair, which the reader ignores.) *)
Definition del_opt (k : String.string) (ps : list (bytes * bytes)) : list (bytes * bytes) :=
  filter (fun p => negb (beq (B k) (fst p))) ps.
Definition set_opt (k : String.string) (v : bytes) (ps : list (bytes * bytes)) : list (bytes * bytes) :=
  del_opt k ps ++ [(B k, v)].

Lemma beq_true : forall a b, beq a b = true -> a = b.
Proof. intros a b H. apply HeaderFacts.beq_spec. exact H. Qed.
Lemma beq_same : forall a, beq a a = true.
Proof. intros a. apply HeaderFacts.beq_spec. reflexivity. Qed.
Lemma beq_sym_false : forall a b, beq a b = false -> beq b a = false.
Proof.
  intros a b H. destruct (beq b a) eqn:E; [|reflexivity]. apply beq_true in E. subst b. rewrite beq_same in H. discriminate H.
Qed.

Lemma last_val_app : forall k a b,
  HeaderFacts.last_val k (a ++ b) =
  match HeaderFacts.last_val k b with Some w => Some w | None => HeaderFacts.last_val k a end.
Proof.
  intros k. induction a as [|p a IH]; intros b; cbn [app HeaderFacts.last_val].
  - destruct (HeaderFacts.last_val k b); reflexivity.
  - rewrite IH. destruct (HeaderFacts.last_val k b); reflexivity.
Qed.

Lemma last_val_del_same : forall k ps,
  HeaderFacts.last_val k (filter (fun p => negb (beq k (fst p))) ps) = None.
Proof.
  intros k. induction ps as [|p ps IH]; [reflexivity|]. cbn [filter].
  destruct (beq k (fst p)) eqn:E; cbn [negb]; [exact IH|]. cbn [HeaderFacts.last_val]. rewrite IH, E. reflexivity.
Qed.

Lemma last_val_del_other : forall k k' ps, beq k k' = false ->
  HeaderFacts.last_val k' (filter (fun p => negb (beq k (fst p))) ps) = HeaderFacts.last_val k' ps.
Proof.
  intros k k' ps Hkk. induction ps as [|p ps IH]; [reflexivity|]. cbn [filter HeaderFacts.last_val].
  destruct (beq k (fst p)) eqn:E; cbn [negb].
  - rewrite IH. apply beq_true in E. rewrite <- E. rewrite (beq_sym_false _ _ Hkk). destruct (HeaderFacts.last_val k' ps); reflexivity.
  - cbn [HeaderFacts.last_val]. rewrite IH. reflexivity.
Qed.

Lemma opt_del_same : forall k ps, opt k (del_opt k ps) = None.
Proof. intros. apply last_val_del_same. Qed.
Lemma opt_del_other : forall k k' ps, beq (B k) (B k') = false -> opt k' (del_opt k ps) = opt k' ps.
Proof. intros. apply last_val_del_other. assumption. Qed.
Lemma opt_set_same : forall k v ps, opt k (set_opt k v ps) = Some v.
Proof.
  intros. unfold opt, set_opt. rewrite last_val_app. cbn [HeaderFacts.last_val fst snd]. rewrite beq_same. reflexivity.
Qed.
Lemma opt_set_other : forall k k' v ps, beq (B k) (B k') = false -> opt k' (set_opt k v ps) = opt k' ps.
Proof.
  intros k k' v ps H. unfold opt, set_opt. rewrite last_val_app. cbn [HeaderFacts.last_val fst snd].
  rewrite (beq_sym_false _ _ H). apply last_val_del_other. exact H.
Qed.

Lemma pairs_del : forall k ps, forallb pair_ok ps = true -> forallb pair_ok (del_opt k ps) = true.
Proof.
  intros k ps H. apply forallb_forall. intros p Hp. unfold del_opt in Hp. apply filter_In in Hp.
  rewrite forallb_forall in H. apply H. apply Hp.
Qed.
Lemma pairs_set : forall k v ps, forallb pair_ok ps = true -> pair_ok (B k, v) = true ->
  forallb pair_ok (set_opt k v ps) = true.
Proof.
  intros k v ps H Hkv. unfold set_opt. rewrite forallb_app, (pairs_del k ps H). cbn [forallb]. rewrite Hkv. reflexivity.
Qed.

(* ================================================================================================ *)
(** * Part 2: the defect catalogue on the AST *)

Definition with_opts (s : fsection) (ps : list (bytes * bytes)) : fsection :=
  {| fs_id := fs_id s; fs_opts := ps; fs_blank := fs_blank s; fs_content := fs_content s |}.

(* Main: the version option set to a value [v] other than "1.0" (v in the header grammar) *)
Definition d_bad_version (v : bytes) (s : fsection) : fsection := with_opts s (set_opt "version" v (fs_opts s)).
(* Main: the version option removed *)
Definition d_missing_version (s : fsection) : fsection := with_opts s (del_opt "version" (fs_opts s)).
(* content section: the length option removed *)
Definition d_missing_length (s : fsection) : fsection := with_opts s (del_opt "length" (fs_opts s)).
(* content section: line_endings set to a grammatical value that is neither "unix" nor "dos" *)
Definition d_unknown_le (v : bytes) (s : fsection) : fsection := with_opts s (set_opt "line_endings" v (fs_opts s)).
(* metadata section: format set to a grammatical value other than "json" *)
Definition d_format (v : bytes) (s : fsection) : fsection := with_opts s (set_opt "format" v (fs_opts s)).
(* content section whose content does not end with its newline: the header carries the new length [lenv]; the
   content bytes themselves are given separately (the AST renders every line with its newline), see Part 6 *)
Definition d_length (lenv : bytes) (s : fsection) : fsection := with_opts s (set_opt "length" lenv (fs_opts s)).

(* the defect applied to section k of a file *)
Fixpoint map_at {A} (g : A -> A) (k : nat) (l : list A) : list A :=
  match l, k with
  | [], _ => []
  | a :: t, 0 => g a :: t
  | a :: t, S k' => a :: map_at g k' t
  end.

Definition inject (g : fsection -> fsection) (f : ffile) (k : nat) : ffile :=
  {| ff_crlf := ff_crlf f; ff_sections := map_at g k (ff_sections f); ff_trailing := ff_trailing f |}.

Lemma nth_split : forall {A} (l : list A) k s, nth_error l k = Some s -> l = firstn k l ++ s :: skipn (S k) l.
Proof.
  induction l as [|a l IH]; intros [|k] s H; cbn in H; try discriminate H.
  - injection H as ->. reflexivity.
  - cbn [firstn skipn app]. f_equal. apply IH. exact H.
Qed.

Lemma map_at_split : forall {A} (g : A -> A) (l : list A) k s, nth_error l k = Some s ->
  map_at g k l = firstn k l ++ g s :: skipn (S k) l.
Proof.
  induction l as [|a l IH]; intros [|k] s H; cbn in H; try discriminate H.
  - injection H as ->. reflexivity.
  - cbn [map_at firstn skipn app]. f_equal. apply IH. exact H.
Qed.

(* ================================================================================================ *)
(** * Part 3: the reader after the well-formed prefix *)

(* previous section id, encoding context and logical line after a list of sections *)
Fixpoint prev_after (prev : option sid) (ss : list fsection) : option sid :=
  match ss with [] => prev | s :: t => prev_after (Some (fs_id s)) t end.
Fixpoint ectx_after (x : ectx) (ss : list fsection) : ectx :=
  match ss with [] => x | s :: t => ectx_after (ectx_next x s) t end.
Fixpoint line_after (line : Z) (ss : list fsection) : Z :=
  match ss with [] => line | s :: t => line_after (line + 1 + Z.of_nat (content_nlines s)) t end.

(* the position of section k of a file: what precedes it, the encodings in force, the line of its header *)
Definition sec_prev (f : ffile) (k : nat) : option sid := prev_after None (firstn k (ff_sections f)).
Definition sec_ectx (f : ffile) (k : nat) : ectx := ectx_after ectx0 (firstn k (ff_sections f)).
Definition sec_line (f : ffile) (k : nat) : Z := line_after 0 (firstn k (ff_sections f)).

Lemma wf_secs_app : forall pre prev x post,
  wf_secs prev x (pre ++ post) = wf_secs prev x pre && wf_secs (prev_after prev pre) (ectx_after x pre) post.
Proof.
  induction pre as [|s pre IH]; intros prev x post; [reflexivity|].
  cbn [app wf_secs prev_after ectx_after]. rewrite IH, andb_assoc. reflexivity.
Qed.

Lemma render_secs_app : forall crlf pre x post,
  render_secs crlf x (pre ++ post) = render_secs crlf x pre ++ render_secs crlf (ectx_after x pre) post.
Proof.
  intros crlf. induction pre as [|s pre IH]; intros x post; [reflexivity|].
  cbn [app render_secs ectx_after]. rewrite IH, <- app_assoc. reflexivity.
Qed.

Lemma records_secs_app : forall pre line post,
  records_secs line (pre ++ post) = records_secs line pre ++ records_secs (line_after line pre) post.
Proof.
  induction pre as [|s pre IH]; intros line post; [reflexivity|].
  cbn [app records_secs line_after]. rewrite IH. reflexivity.
Qed.

Lemma records_secs_length : forall ss line, length (records_secs line ss) = length ss.
Proof. induction ss as [|s ss IH]; intros line; [reflexivity|]. cbn [records_secs length]. rewrite IH. reflexivity. Qed.

(* the records of the sections before k are the first k records of the file *)
Lemma firstn_records : forall f k s, nth_error (ff_sections f) k = Some s ->
  firstn k (spec_records f) = records_secs 0 (firstn k (ff_sections f)).
Proof.
  intros f k s H. unfold spec_records. rewrite (nth_split _ _ _ H) at 1. rewrite records_secs_app.
  assert (Hk : k = length (records_secs 0 (firstn k (ff_sections f)))).
  { rewrite records_secs_length, firstn_length.
    assert (k < length (ff_sections f)) by (apply nth_error_Some; congruence). lia. }
  rewrite Hk at 1. rewrite firstn_app, Nat.sub_diag, firstn_all. cbn [firstn]. apply app_nil_r.
Qed.

(* [sec_line f k] is the line the specification assigns to section k *)
Lemma sec_line_spec : forall f k s, nth_error (ff_sections f) k = Some s ->
  nth_error (spec_records f) k = Some (sec_record (sec_line f k) s).
Proof.
  intros f k s H. unfold spec_records. rewrite (nth_split _ _ _ H) at 1. rewrite records_secs_app.
  assert (Hk : length (records_secs 0 (firstn k (ff_sections f))) = k).
  { rewrite records_secs_length, firstn_length.
    assert (k < length (ff_sections f)) by (apply nth_error_Some; congruence). lia. }
  rewrite nth_error_app2 by lia. rewrite Hk, Nat.sub_diag. reflexivity.
Qed.

(* well-formedness of the prefix and of section k in its context *)
Lemma wf_at : forall f k s, wf_file f = true -> nth_error (ff_sections f) k = Some s ->
  wf_secs None ectx0 (firstn k (ff_sections f)) = true /\
  wf_section (sec_prev f k) (sec_ectx f k) s = true.
Proof.
  intros f k s Hwf H. unfold wf_file in Hwf. apply andb_true_iff in Hwf. destruct Hwf as [Hs _].
  rewrite (nth_split _ _ _ H), wf_secs_app in Hs. apply andb_true_iff in Hs. destruct Hs as [Hpre Hrest].
  cbn [wf_secs] in Hrest. apply andb_true_iff in Hrest. destruct Hrest as [Hk _]. split; assumption.
Qed.

(* run_secs, keeping the invariant and the line counter of the final state *)
Lemma run_secs_inv : forall orc chunk crlf ss prev x st valid encs pl rest,
  0 < chunk -> Inv crlf prev x st valid encs pl -> wf_secs prev x ss = true -> Forall (oracle_ok_section orc) ss ->
  remaining (st_stream st) = render_secs crlf x ss ++ rest ->
  (Z.of_nat (length (render_secs crlf x ss)) <= sys_maxsize)%Z ->
  exists st' valid' encs' pl',
    RS.run orc chunk st valid encs pl (records_secs (st_linenum st) ss) st' valid' encs' pl' /\
    remaining (st_stream st') = rest /\
    Inv crlf (prev_after prev ss) (ectx_after x ss) st' valid' encs' pl' /\
    st_linenum st' = line_after (st_linenum st) ss.
Proof.
  intros orc chunk crlf. induction ss as [|s ss IH]; intros prev x st valid encs pl rest Hc HI Hwf Horc Hrem Hmax.
  - exists st, valid, encs, pl. split; [constructor|]. split; [exact Hrem|]. split; [exact HI | reflexivity].
  - cbn [wf_secs] in Hwf. apply andb_true_iff in Hwf. destruct Hwf as [Hws Hwss].
    inversion Horc as [|? ? Ho Hos]; subst.
    cbn [render_secs] in Hrem, Hmax. rewrite <- app_assoc in Hrem.
    assert (Hm1 : (Z.of_nat (length (content_body x s)) <= sys_maxsize)%Z).
    { unfold sec_render in Hmax. rewrite !app_length in Hmax. lia. }
    destruct (step_section orc chunk crlf prev x s st valid encs pl _ Hc HI Hws Ho Hrem Hm1)
      as (st1 & v1 & e1 & p1 & Hstep & HI1 & Hrem1 & Hline1).
    assert (Hm2 : (Z.of_nat (length (render_secs crlf (ectx_next x s) ss)) <= sys_maxsize)%Z)
      by (rewrite app_length in Hmax; lia).
    destruct (IH _ _ st1 v1 e1 p1 rest Hc HI1 Hwss Hos Hrem1 Hm2) as (st' & v' & e' & p' & Hrun & Hrem' & HI' & Hline').
    exists st', v', e', p'. cbn [prev_after ectx_after line_after records_secs].
    split; [|split; [exact Hrem'|split; [exact HI'|rewrite Hline', Hline1; reflexivity]]].
    rewrite <- Hline1. econstructor; [exact Hstep | exact Hrun].
Qed.

(* The composition: whatever bytes [rest] follow the rendering of the first k sections of a well-formed file, if
   the iteration that starts at [rest] in the loop state of that position raises DiffXParseError(l, c), then
   read_all yields the first k records of the file and raises it. *)
Lemma defect_at : forall f k s orc chunk rest l c,
  wf_file f = true -> nth_error (ff_sections f) k = Some s ->
  Forall (oracle_ok_section orc) (firstn k (ff_sections f)) -> 0 < chunk ->
  (Z.of_nat (length (render_secs (ff_crlf f) ectx0 (firstn k (ff_sections f)))) <= sys_maxsize)%Z ->
  (forall st valid encs pl,
     Inv (ff_crlf f) (sec_prev f k) (sec_ectx f k) st valid encs pl ->
     remaining (st_stream st) = rest -> st_linenum st = sec_line f k ->
     iter_step orc chunk st valid encs pl = SParse l c) ->
  read_all orc chunk (render_secs (ff_crlf f) ectx0 (firstn k (ff_sections f)) ++ rest)
  = (firstn k (spec_records f), TParse l c).
Proof.
  intros f k s orc chunk rest l c Hwf Hk Horc Hc Hmax Hstep.
  destruct (wf_at f k s Hwf Hk) as [Hpre _].
  set (data := render_secs (ff_crlf f) ectx0 (firstn k (ff_sections f)) ++ rest).
  assert (HI : Inv (ff_crlf f) None ectx0 (RS.init_state data) [GenSections.sec_main] [None] 0)
    by (constructor; reflexivity).
  destruct (run_secs_inv orc chunk (ff_crlf f) _ None ectx0 _ _ _ _ rest Hc HI Hpre Horc eq_refl Hmax)
    as (st' & v' & e' & p' & Hrun & Hrem' & HI' & Hline').
  cbn [RS.init_state st_linenum] in Hrun, Hline'.
  rewrite (firstn_records f k s Hk).
  destruct (RS.defect_read_all orc chunk data _ st' v' e' p' l c Hc Hrun (Hstep st' v' e' p' HI' Hrem' Hline')) as [H _].
  exact H.
Qed.

(* the rendering of a file whose section k is replaced by [s'] *)
Lemma render_inject : forall g f k s, nth_error (ff_sections f) k = Some s ->
  render_file (inject g f k) =
  render_secs (ff_crlf f) ectx0 (firstn k (ff_sections f)) ++
  (sec_header (ff_crlf f) (g s) ++ content_body (sec_ectx f k) (g s) ++
   render_secs (ff_crlf f) (ectx_next (sec_ectx f k) (g s)) (skipn (S k) (ff_sections f)) ++
   render_blanks (ff_trailing f)).
Proof.
  intros g f k s H. unfold render_file, inject. cbn [ff_crlf ff_sections ff_trailing].
  rewrite (map_at_split g _ _ _ H), render_secs_app. cbn [render_secs]. unfold sec_render, sec_ectx.
  rewrite <- !app_assoc. reflexivity.
Qed.

Lemma prefix_bound : forall (a b : bytes), (Z.of_nat (length (a ++ b)) <= sys_maxsize)%Z ->
  (Z.of_nat (length a) <= sys_maxsize)%Z.
Proof. intros a b H. rewrite app_length in H. lia. Qed.

Lemma Forall_firstn_ : forall {A} (P : A -> Prop) k l, Forall P l -> Forall P (firstn k l).
Proof.
  intros A P. induction k as [|k IH]; intros l H; [constructor|].
  destruct H as [|a l Ha Hl]; [constructor|]. cbn [firstn]. constructor; [exact Ha | apply IH; exact Hl].
Qed.

(* ================================================================================================ *)
(** * Part 4: header-level defects *)

(* ---- the header of the defective section is read ---- *)
Lemma defect_header : forall chunk crlf prev x s' st valid encs pl rest,
  0 < chunk -> Inv crlf prev x st valid encs pl ->
  order_ok prev (fs_id s') = true -> forallb is_ws_line (fs_blank s') = true ->
  forallb pair_ok (fs_opts s') = true ->
  remaining (st_stream st) = sec_header crlf s' ++ rest ->
  exists s1,
    read_header chunk valid st =
      HdrOk (fs_dots s') (fs_name s') (sid_bytes (fs_id s')) (HeaderFacts.opts_of convert_value (fs_opts s'))
            (st_linenum st) (hdr_state st s1 crlf) /\
    remaining s1 = rest.
Proof.
  intros chunk crlf prev x s' st valid encs pl rest Hc HI Hord Hblank Hpairs Hrem.
  exact (read_sec_header chunk valid st s' crlf rest Hc Hblank Hpairs (order_valid _ _ _ _ _ _ _ _ HI Hord) Hrem
           (fnl_cases _ _ _ _ _ _ _ HI)).
Qed.

(* ---- the encoding stack at a content section ---- *)
Lemma content_top : forall crlf prev x st valid encs pl a,
  Inv crlf prev x st valid encs pl -> order_ok prev a = true -> sid_kind a <> SContainer ->
  top encs = Some (pvo (inherited x (sid_depth a))).
Proof.
  intros crlf prev x st valid encs pl a HI Hord Hk. destruct prev as [p|]; cbn [order_ok] in Hord.
  - assert (Hd : sid_depth a = sid_depth p).
    { destruct p, a; try discriminate Hord; try reflexivity; exfalso; apply Hk; reflexivity. }
    rewrite (inv_encs _ _ _ _ _ _ _ HI), Hd. apply top_stack.
  - apply SectionsSpec.sid_eqb_eq in Hord. subst a. exfalso. apply Hk. reflexivity.
Qed.

Lemma sid_is_meta : forall a, is_meta (sid_bytes a) = match sid_kind a with SMeta => true | _ => false end.
Proof. destruct a; vm_compute; reflexivity. Qed.

Lemma spec_conv_str_inv : forall v w, spec_conv v = VStr w -> w = v.
Proof. intros v w H. rewrite spec_conv_model in H. exact (RS.convert_value_str v w H). Qed.

(* ---- tables, by computation ---- *)
Lemma versions_only : forall v, in_ids v GenText.versions = true -> v = B "1.0".
Proof.
  intros v H. apply HeaderFacts.in_ids_In in H.
  assert (F : forallb (fun w => beq w (B "1.0")) GenText.versions = true) by (vm_compute; reflexivity).
  rewrite forallb_forall in F. apply beq_true. apply F. exact H.
Qed.

Lemma assoc_get_keys : forall {V} (v a b : bytes) (l : list (bytes * V)),
  forallb (fun p => beq (fst p) a || beq (fst p) b) l = true ->
  beq v a = false -> beq v b = false -> assoc_get beq v l = None.
Proof.
  intros V v a b. induction l as [|[k' t] l IH]; intros H Ha Hb; [reflexivity|].
  cbn [forallb fst] in H. apply andb_true_iff in H. destruct H as [Hk Hl]. cbn [assoc_get].
  destruct (beq v k') eqn:E; [|apply IH; assumption].
  apply beq_true in E. subst k'. rewrite Ha, Hb in Hk. discriminate Hk.
Qed.

Lemma newline_formats_keys : forall v, beq v (B "unix") = false -> beq v (B "dos") = false ->
  assoc_get beq v GenText.newline_formats = None.
Proof. intros v Hu Hd. apply (assoc_get_keys v (B "unix") (B "dos")); [vm_compute; reflexivity | exact Hu | exact Hd]. Qed.

(* ---- what well-formedness says of a content section ---- *)
Lemma clean_body_nonempty : forall nlb n pieces, pieces <> [] -> lines_clean nlb pieces = true ->
  concat (map (app (repeat_b x20 n)) pieces) <> [].
Proof.
  intros nlb n [|p0 t] Hne H; [congruence|]. unfold lines_clean in H. cbn [forallb] in H.
  apply andb_true_iff in H. destruct H as [H0 _]. destruct p0 as [|b p0]; [discriminate H0|].
  cbn [map concat]. intros E. apply app_eq_nil in E. destruct E as [E _]. apply app_eq_nil in E. destruct E as [_ E].
  discriminate E.
Qed.

Lemma wf_content_facts : forall prev x s, wf_section prev x s = true -> sid_kind (fs_id s) <> SContainer ->
  length_ok (fs_opts s) (content_body x s) = true /\ content_body x s <> [] /\
  (sid_kind (fs_id s) = SPreamble -> indent_ok (fs_opts s) = true) /\
  (sid_kind (fs_id s) = SMeta -> format_ok (fs_opts s) = true) /\
  1 <= content_nlines s.
Proof.
  intros prev x s Hwf Hnc. destruct (wf_section_inv prev x s Hwf) as (_ & _ & _ & Henc & Hkind).
  destruct (sid_kind (fs_id s)) eqn:Ek; destruct (fs_content s) as [[t|t j|ls k|ls k j|raw k]|] eqn:Econt;
    try discriminate Hkind; try (exfalso; apply Hnc; reflexivity).
  - (* preamble, text *)
    apply andb_true_iff in Hkind. destruct Hkind as [Htext Hind].
    destruct (text_ok_inv x s t Htext) as (c & Hc & Hne & _ & _ & Hclean & _ & Hlen).
    split; [exact Hlen|]. split.
    + unfold content_body. rewrite Econt, Hc. unfold text_body. eapply clean_body_nonempty; [|exact Hclean].
      destruct (tc_lines t); [congruence | cbn [text_pieces]; discriminate].
    + split; [intros _; exact Hind|]. split; [discriminate|]. unfold content_nlines. rewrite Econt.
      destruct (tc_lines t); [congruence | cbn; lia].
  - (* preamble, raw *)
    apply andb_true_iff in Hkind. destruct Hkind as [Hraw Hind].
    destruct (raw_ok_inv x s ls k Hraw) as (_ & Hne & Hclean & _ & Hlen).
    split; [exact Hlen|]. split.
    + unfold content_body. rewrite Econt. unfold raw_body.
      eapply clean_body_nonempty; [|exact Hclean].
      unfold raw_pieces. destruct ls; [congruence | cbn [map]; discriminate].
    + split; [intros _; exact Hind|]. split; [discriminate|]. unfold content_nlines. rewrite Econt.
      destruct ls; [congruence | cbn; lia].
  - (* metadata, text *)
    apply andb_true_iff in Hkind. destruct Hkind as [Htext Hfmt].
    destruct (text_ok_inv x s t Htext) as (c & Hc & Hne & _ & _ & Hclean & _ & Hlen).
    split; [exact Hlen|]. split.
    + unfold content_body. rewrite Econt, Hc. unfold text_body. eapply clean_body_nonempty; [|exact Hclean].
      destruct (tc_lines t); [congruence | cbn [text_pieces]; discriminate].
    + split; [discriminate|]. split; [intros _; exact Hfmt|]. unfold content_nlines. rewrite Econt.
      destruct (tc_lines t); [congruence | cbn; lia].
  - (* metadata, raw *)
    apply andb_true_iff in Hkind. destruct Hkind as [Hraw Hfmt].
    destruct (raw_ok_inv x s ls k Hraw) as (_ & Hne & Hclean & _ & Hlen).
    split; [exact Hlen|]. split.
    + unfold content_body. rewrite Econt. unfold raw_body.
      eapply clean_body_nonempty; [|exact Hclean].
      unfold raw_pieces. destruct ls; [congruence | cbn [map]; discriminate].
    + split; [discriminate|]. split; [intros _; exact Hfmt|]. unfold content_nlines. rewrite Econt.
      destruct ls; [congruence | cbn; lia].
  - (* diff *)
    unfold diff_ok in Hkind. destruct (diff_codec s) as [c|] eqn:Ec; [|discriminate Hkind].
    repeat (apply andb_true_iff in Hkind; destruct Hkind as [Hkind ?]).
    rename H into Hlen, H0 into Hle, H1 into Hends. apply HeaderFacts.nonempty_true in Hkind.
    assert (Hb : content_body x s = raw) by (unfold content_body; rewrite Econt; reflexivity).
    rewrite Hb. split; [exact Hlen|]. split; [exact Hkind|]. split; [discriminate|]. split; [discriminate|].
    unfold content_nlines. rewrite Econt, Ec.
    unfold diff_codec in Ec. destruct (codec_laws_x _ c Ec) as (bom & enc0 & laws & _).
    destruct (nl_bytes_laws _ _ _ _ laws k) as (_ & Hn2 & _).
    apply (TextFacts.suffixb_occurrences byte_eqb HeaderFacts.byte_eqb_spec _ _ Hn2 Hends).
Qed.

(* ---- options other than the one the defect touches are seen unchanged ---- *)
Lemma content_body_with_opts : forall x s ps',
  opt "encoding" ps' = opt "encoding" (fs_opts s) -> opt "indent" ps' = opt "indent" (fs_opts s) ->
  content_body x (with_opts s ps') = content_body x s.
Proof.
  intros x s ps' He Hi. unfold content_body, text_codec, eff_enc, indent_of, int_opt.
  cbn [with_opts fs_id fs_opts fs_content]. rewrite He, Hi. reflexivity.
Qed.

Lemma ectx_next_with_opts : forall x s ps', opt "encoding" ps' = opt "encoding" (fs_opts s) ->
  ectx_next x (with_opts s ps') = ectx_next x s.
Proof. intros x s ps' He. unfold ectx_next. cbn [with_opts fs_id fs_opts]. rewrite He. reflexivity. Qed.

Lemma enc_opt_ok_with : forall ps ps', opt "encoding" ps' = opt "encoding" ps -> enc_opt_ok ps = true -> enc_opt_ok ps' = true.
Proof. intros ps ps' He H. unfold enc_opt_ok in *. rewrite He. exact H. Qed.

Lemma enc_valid_content : forall ps kk inh, enc_opt_ok ps = true ->
  RS.enc_valid (RS.encoding_of kk (HeaderFacts.opts_of convert_value ps) (pvo inh)).
Proof.
  intros ps kk inh Henc. destruct kk; cbn [RS.encoding_of]; unfold RS.eff_encoding.
  - rewrite (push_enc ps inh Henc). destruct (orelse _ _); exact I.
  - rewrite (push_enc ps inh Henc). destruct (orelse _ _); exact I.
  - pose proof (push_enc_none ps Henc) as H. destruct (opt_get "encoding" _) as [v|]; [|exact I].
    destruct (opt "encoding" ps); cbn [pvo option_map] in H; [|discriminate H]. injection H as ->. exact I.
Qed.

Lemma indent_valid_opts : forall ps, indent_ok ps = true ->
  RS.indent_bad (opt_get "indent" (HeaderFacts.opts_of convert_value ps)) = false.
Proof.
  intros ps H. rewrite opt_get_model. unfold indent_ok in H. destruct (opt "indent" ps) as [v|]; [|reflexivity].
  cbn [option_map]. destruct (spec_conv v) as [z|]; [|discriminate H]. cbn [RS.indent_bad]. apply Z.leb_le in H. lia.
Qed.

(* ---- A.1 unsupported or missing version: the iteration on the defective main header ---- *)
Lemma step_version : forall orc chunk crlf prev x s ps' st valid encs pl rest,
  0 < chunk -> Inv crlf prev x st valid encs pl -> wf_section prev x s = true -> fs_id s = Main ->
  forallb pair_ok ps' = true ->
  RS.version_ok (HeaderFacts.opts_of convert_value ps') = false ->
  remaining (st_stream st) = sec_header crlf (with_opts s ps') ++ rest ->
  iter_step orc chunk st valid encs pl = SParse (st_linenum st) None.
Proof.
  intros orc chunk crlf prev x s ps' st valid encs pl rest Hc HI Hwf Hid Hpairs Hv Hrem.
  destruct (wf_section_inv prev x s Hwf) as (Hord & Hblank & _ & _ & _).
  destruct (defect_header chunk crlf prev x (with_opts s ps') st valid encs pl rest Hc HI Hord Hblank Hpairs Hrem)
    as (s1 & Hh & _).
  cbn [with_opts fs_id fs_opts] in Hh. rewrite Hid in Hh.
  exact (RS.bad_version orc chunk st valid encs pl _ _ _ _ _ Hh Hv).
Qed.

Lemma version_bad_set : forall v ps, beq v (B "1.0") = false ->
  RS.version_ok (HeaderFacts.opts_of convert_value (set_opt "version" v ps)) = false.
Proof.
  intros v ps Hv. unfold RS.version_ok. rewrite opt_get_model, opt_set_same. cbn [option_map].
  destruct (spec_conv v) as [z|w] eqn:E; [reflexivity|]. apply spec_conv_str_inv in E. subst w.
  destruct (in_ids v GenText.versions) eqn:Hin; [|reflexivity].
  apply versions_only in Hin. subst v. rewrite beq_same in Hv. discriminate Hv.
Qed.

Lemma version_bad_del : forall ps, RS.version_ok (HeaderFacts.opts_of convert_value (del_opt "version" ps)) = false.
Proof. intros ps. unfold RS.version_ok. rewrite opt_get_model, opt_del_same. reflexivity. Qed.

Lemma key_pair_ok : forall k v, spec_keyb (B k) = true -> spec_valb v = true -> pair_ok (B k, v) = true.
Proof. intros k v Hk Hv. unfold pair_ok. cbn [fst snd]. rewrite Hk, Hv. reflexivity. Qed.

(* the common shape of the file-level theorems for defects that only change the header of section k *)
Lemma header_defect_file : forall g f k s orc chunk l,
  wf_file f = true -> oracle_ok_file orc f -> nth_error (ff_sections f) k = Some s -> 0 < chunk ->
  (Z.of_nat (length (render_file (inject g f k))) <= sys_maxsize)%Z ->
  (forall st valid encs pl rest,
     Inv (ff_crlf f) (sec_prev f k) (sec_ectx f k) st valid encs pl ->
     remaining (st_stream st) = sec_header (ff_crlf f) (g s) ++ content_body (sec_ectx f k) (g s) ++ rest ->
     iter_step orc chunk st valid encs pl = SParse (st_linenum st + l) None) ->
  read_all orc chunk (render_file (inject g f k)) = (firstn k (spec_records f), TParse (sec_line f k + l) None).
Proof.
  intros g f k s orc chunk l Hwf Horc Hk Hc Hmax Hstep.
  rewrite (render_inject g f k s Hk) in *.
  apply (defect_at f k s orc chunk _ _ None Hwf Hk (Forall_firstn_ _ k _ Horc) Hc (prefix_bound _ _ Hmax)).
  intros st valid encs pl HI Hrem Hline. rewrite <- Hline. eapply Hstep; [exact HI | exact Hrem].
Qed.

Theorem bad_version_file : forall f k s orc chunk v,
  wf_file f = true -> oracle_ok_file orc f -> nth_error (ff_sections f) k = Some s ->
  fs_id s = Main -> spec_valb v = true -> beq v (B "1.0") = false ->
  0 < chunk -> (Z.of_nat (length (render_file (inject (d_bad_version v) f k))) <= sys_maxsize)%Z ->
  read_all orc chunk (render_file (inject (d_bad_version v) f k))
  = (firstn k (spec_records f), TParse (sec_line f k) None).
Proof.
  intros f k s orc chunk v Hwf Horc Hk Hid Hval Hv Hc Hmax.
  rewrite <- (Z.add_0_r (sec_line f k)).
  apply (header_defect_file (d_bad_version v) f k s orc chunk 0 Hwf Horc Hk Hc Hmax).
  intros st valid encs pl rest HI Hrem. rewrite Z.add_0_r.
  destruct (wf_at f k s Hwf Hk) as [_ Hws]. destruct (wf_section_inv _ _ _ Hws) as (_ & _ & Hpairs & _).
  eapply (step_version orc chunk _ _ _ s (set_opt "version" v (fs_opts s)) st valid encs pl _ Hc HI Hws Hid).
  - apply pairs_set; [exact Hpairs | apply key_pair_ok; [reflexivity | exact Hval]].
  - apply version_bad_set. exact Hv.
  - exact Hrem.
Qed.

Theorem missing_version_file : forall f k s orc chunk,
  wf_file f = true -> oracle_ok_file orc f -> nth_error (ff_sections f) k = Some s ->
  fs_id s = Main ->
  0 < chunk -> (Z.of_nat (length (render_file (inject d_missing_version f k))) <= sys_maxsize)%Z ->
  read_all orc chunk (render_file (inject d_missing_version f k))
  = (firstn k (spec_records f), TParse (sec_line f k) None).
Proof.
  intros f k s orc chunk Hwf Horc Hk Hid Hc Hmax.
  rewrite <- (Z.add_0_r (sec_line f k)).
  apply (header_defect_file d_missing_version f k s orc chunk 0 Hwf Horc Hk Hc Hmax).
  intros st valid encs pl rest HI Hrem. rewrite Z.add_0_r.
  destruct (wf_at f k s Hwf Hk) as [_ Hws]. destruct (wf_section_inv _ _ _ Hws) as (_ & _ & Hpairs & _).
  eapply (step_version orc chunk _ _ _ s (del_opt "version" (fs_opts s)) st valid encs pl _ Hc HI Hws Hid).
  - apply pairs_del. exact Hpairs.
  - apply version_bad_del.
  - exact Hrem.
Qed.

(* ---- A.2 missing length ---- *)
Theorem missing_length_file : forall f k s orc chunk,
  wf_file f = true -> oracle_ok_file orc f -> nth_error (ff_sections f) k = Some s ->
  sid_kind (fs_id s) <> SContainer ->
  0 < chunk -> (Z.of_nat (length (render_file (inject d_missing_length f k))) <= sys_maxsize)%Z ->
  read_all orc chunk (render_file (inject d_missing_length f k))
  = (firstn k (spec_records f), TParse (sec_line f k) None).
Proof.
  intros f k s orc chunk Hwf Horc Hk Hkind Hc Hmax.
  rewrite <- (Z.add_0_r (sec_line f k)).
  apply (header_defect_file d_missing_length f k s orc chunk 0 Hwf Horc Hk Hc Hmax).
  intros st valid encs pl rest HI Hrem. rewrite Z.add_0_r.
  destruct (wf_at f k s Hwf Hk) as [_ Hws]. destruct (wf_section_inv _ _ _ Hws) as (Hord & Hblank & Hpairs & _).
  destruct (defect_header chunk _ _ _ (d_missing_length s) st valid encs pl _ Hc HI Hord Hblank
              (pairs_del "length" _ Hpairs) Hrem) as (s1 & Hh & _).
  eapply (RS.missing_length orc chunk st valid encs pl _ _ _ _ _ _ _ Hh).
  - cbn [d_missing_length with_opts fs_id]. rewrite sid_is_content. destruct (sid_kind (fs_id s)); try reflexivity.
    exfalso. apply Hkind. reflexivity.
  - exact (content_top _ _ _ _ _ _ _ _ HI Hord Hkind).
  - cbn [d_missing_length with_opts fs_opts]. rewrite opt_get_model, opt_del_same. reflexivity.
Qed.

(* ---- A.3 format other than json ---- *)
Theorem format_not_json_file : forall f k s orc chunk v,
  wf_file f = true -> oracle_ok_file orc f -> nth_error (ff_sections f) k = Some s ->
  sid_kind (fs_id s) = SMeta -> spec_valb v = true -> beq v (B "json") = false ->
  0 < chunk -> (Z.of_nat (length (render_file (inject (d_format v) f k))) <= sys_maxsize)%Z ->
  read_all orc chunk (render_file (inject (d_format v) f k))
  = (firstn k (spec_records f), TParse (sec_line f k) None).
Proof.
  intros f k s orc chunk v Hwf Horc Hk Hkind Hval Hv Hc Hmax.
  rewrite <- (Z.add_0_r (sec_line f k)).
  apply (header_defect_file (d_format v) f k s orc chunk 0 Hwf Horc Hk Hc Hmax).
  intros st valid encs pl rest HI Hrem. rewrite Z.add_0_r.
  destruct (wf_at f k s Hwf Hk) as [_ Hws]. destruct (wf_section_inv _ _ _ Hws) as (Hord & Hblank & Hpairs & _).
  assert (Hnc : sid_kind (fs_id s) <> SContainer) by (rewrite Hkind; discriminate).
  destruct (defect_header chunk _ _ _ (d_format v s) st valid encs pl _ Hc HI Hord Hblank
              (pairs_set "format" v _ Hpairs (key_pair_ok "format" v eq_refl Hval)) Hrem) as (s1 & Hh & _).
  eapply (RS.format_not_json orc chunk st valid encs pl _ _ _ _ _ _ _ Hh).
  - cbn [d_format with_opts fs_id]. rewrite sid_is_meta, Hkind. reflexivity.
  - exact (content_top _ _ _ _ _ _ _ _ HI Hord Hnc).
  - cbn [d_format with_opts fs_opts]. unfold RS.fmt_ok. rewrite opt_get_model, opt_set_same. cbn [option_map].
    destruct (spec_conv v) as [z|w] eqn:E; [reflexivity|]. apply spec_conv_str_inv in E. subst w. exact Hv.
Qed.

(* ---- A.4 unknown line_endings value ----
   Every grammatical value other than "unix" and "dos", integers included.  (Until pydiffx fix D19 this theorem
   carried the premise [spec_conv v <> VInt 0]: the reader tested [if line_endings:], the values "0", "00", "-0"
   convert to the falsy int 0, and the option was treated as absent: the file was accepted.  Since D19 the test is
   [if line_endings is not None:], see [C03_unknown_le_zero_rejected] in props/C03_defects.v.) *)
Theorem unknown_line_endings_file : forall f k s orc chunk v,
  wf_file f = true -> oracle_ok_file orc f -> nth_error (ff_sections f) k = Some s ->
  sid_kind (fs_id s) <> SContainer -> spec_valb v = true ->
  beq v (B "unix") = false -> beq v (B "dos") = false ->
  0 < chunk -> (Z.of_nat (length (render_file (inject (d_unknown_le v) f k))) <= sys_maxsize)%Z ->
  read_all orc chunk (render_file (inject (d_unknown_le v) f k))
  = (firstn k (spec_records f), TParse (sec_line f k + 1) None).
Proof.
  intros f k s orc chunk v Hwf Horc Hk Hkind Hval Hu Hd Hc Hmax.
  apply (header_defect_file (d_unknown_le v) f k s orc chunk 1 Hwf Horc Hk Hc Hmax).
  intros st valid encs pl rest HI Hrem.
  destruct (wf_at f k s Hwf Hk) as [_ Hws]. destruct (wf_section_inv _ _ _ Hws) as (Hord & Hblank & Hpairs & Henc & _).
  destruct (wf_content_facts _ _ _ Hws Hkind) as (Hlen & Hne & Hind & Hfmt & _).
  set (ps' := set_opt "line_endings" v (fs_opts s)).
  assert (Oenc : opt "encoding" ps' = opt "encoding" (fs_opts s)) by (apply opt_set_other; reflexivity).
  assert (Oind : opt "indent" ps' = opt "indent" (fs_opts s)) by (apply opt_set_other; reflexivity).
  assert (Olen : opt "length" ps' = opt "length" (fs_opts s)) by (apply opt_set_other; reflexivity).
  assert (Ofmt : opt "format" ps' = opt "format" (fs_opts s)) by (apply opt_set_other; reflexivity).
  unfold d_unknown_le in Hrem. fold ps' in Hrem. rewrite (content_body_with_opts _ s ps' Oenc Oind) in Hrem.
  rewrite app_assoc in Hrem.
  destruct (defect_header chunk _ _ _ (with_opts s ps') st valid encs pl _ Hc HI Hord Hblank
              (pairs_set "line_endings" v _ Hpairs (key_pair_ok "line_endings" v eq_refl Hval))
              ltac:(rewrite Hrem, <- app_assoc; reflexivity)) as (s1 & Hh & Hrem1).
  cbn [with_opts fs_id fs_opts] in Hh.
  pose proof (sid_kind_of (fs_id s)) as Hko.
  assert (exists kk, RS.kind_of (sid_bytes (fs_id s)) = Some kk /\
                     (kk = RS.KPreamble -> sid_kind (fs_id s) = SPreamble) /\
                     (kk = RS.KMeta -> sid_kind (fs_id s) = SMeta)) as (kk & Hkk & HkP & HkM).
  { destruct (sid_kind (fs_id s)); [exfalso; apply Hkind; reflexivity | | |];
      eexists; (split; [exact Hko|]); split; intros E; try reflexivity; discriminate E. }
  assert (Hlen' : length_ok ps' (content_body (sec_ectx f k) s) = true)
    by (unfold length_ok, int_opt in *; rewrite Olen; exact Hlen).
  eapply (RS.unknown_line_endings orc chunk st valid encs pl _ _ _ _ _ _ kk _ _ Hh).
  - rewrite sid_is_content. destruct (sid_kind (fs_id s)); try reflexivity. exfalso. apply Hkind. reflexivity.
  - exact Hkk.
  - exact (content_top _ _ _ _ _ _ _ _ HI Hord Hkind).
  - exact (length_opt ps' _ Hlen').
  - destruct (content_body (sec_ectx f k) s); [congruence | cbn [length]; lia].
  - change (remaining s1 <> []). rewrite Hrem1. destruct (content_body (sec_ectx f k) s); [congruence | discriminate].
  - intros E. apply fmt_opt. unfold format_ok. rewrite Ofmt. exact (Hfmt (HkM E)).
  - apply enc_valid_content. exact (enc_opt_ok_with _ _ Oenc Henc).
  - unfold RS.indent_valid. destruct kk; cbn [RS.indent_of]; try reflexivity.
    apply indent_valid_opts. unfold indent_ok. rewrite Oind. exact (Hind (HkP eq_refl)).
  - rewrite opt_get_model. unfold ps'. rewrite opt_set_same. cbn [option_map].
    destruct (spec_conv v) as [z|w] eqn:E; cbn [RS.le_unknown]; [exact I|].
    apply spec_conv_str_inv in E. subst w. apply newline_formats_keys; assumption.
Qed.

(* ================================================================================================ *)
(** * Part 5: invalid JSON *)

(* The JSON text of a metadata section is not parsed by the model: json.loads is an oracle (Reader.v).  "The
   metadata of section k is invalid JSON" therefore is a property of the ORACLE at the key of that section's
   text (or bytes, when no encoding is in force): it answers ValueError (json.JSONDecodeError) or RecursionError.
   gen_foreign.py's [inject] replaces the content by an invalid text and adjusts [length]; in the AST this is
   a file [f] whose section k carries that text — still well-formed as far as [wf_file] goes, which does not look
   inside the JSON — read with an oracle that is right for the sections before k and says "invalid" at k. *)
Definition meta_key (s : fsection) : option bytes :=
  match fs_content s with
  | Some (FMeta t _) => Some (oracle_key_text (joined t))
  | Some (FRawMeta ls k _) => Some (oracle_key_bytes (concat (raw_pieces k ls)))
  | _ => None
  end.

Definition oracle_bad_section (orc : oracle) (s : fsection) : Prop :=
  exists key a, meta_key s = Some key /\ assoc_get beq key orc = Some a /\ (a = LoadsValueError \/ a = LoadsRecursion).

(* the oracle changed at the key of section s *)
Definition bad_oracle (s : fsection) (orc : oracle) : oracle :=
  match meta_key s with Some key => (key, LoadsValueError) :: orc | None => orc end.

Lemma render_split : forall f k s, nth_error (ff_sections f) k = Some s ->
  render_file f =
  render_secs (ff_crlf f) ectx0 (firstn k (ff_sections f)) ++
  (sec_header (ff_crlf f) s ++ content_body (sec_ectx f k) s ++
   render_secs (ff_crlf f) (ectx_next (sec_ectx f k) s) (skipn (S k) (ff_sections f)) ++
   render_blanks (ff_trailing f)).
Proof.
  intros f k s H. unfold render_file. rewrite (nth_split _ _ _ H) at 1. rewrite render_secs_app. cbn [render_secs].
  unfold sec_render, sec_ectx. rewrite <- !app_assoc. reflexivity.
Qed.

Theorem invalid_json_file : forall f k s orc chunk,
  wf_file f = true -> nth_error (ff_sections f) k = Some s ->
  Forall (oracle_ok_section orc) (firstn k (ff_sections f)) -> oracle_bad_section orc s ->
  0 < chunk -> (Z.of_nat (length (render_file f)) <= sys_maxsize)%Z ->
  read_all orc chunk (render_file f) = (firstn k (spec_records f), TParse (sec_line f k) None).
Proof.
  intros f k s orc chunk Hwf Hk Horc (key & a & Hkey & Ha & Hbad) Hc Hmax.
  rewrite (render_split f k s Hk) in *.
  apply (defect_at f k s orc chunk _ _ None Hwf Hk Horc Hc (prefix_bound _ _ Hmax)).
  intros st valid encs pl HI Hrem Hline. rewrite <- Hline.
  set (x := sec_ectx f k) in *. set (crlf := ff_crlf f) in *.
  destruct (wf_at f k s Hwf Hk) as [_ Hws]. fold x in Hws.
  destruct (wf_section_inv _ _ _ Hws) as (Hord & Hblank & Hpairs & Henc & Hkind).
  assert (Hm1 : (Z.of_nat (length (content_body x s)) <= sys_maxsize)%Z).
  { rewrite !app_length in Hmax. lia. }
  destruct (defect_header chunk _ _ _ s st valid encs pl _ Hc HI Hord Hblank Hpairs Hrem) as (s1 & Hh & Hrem1).
  change (remaining (st_stream (hdr_state st s1 crlf)) = content_body x s ++
            render_secs crlf (ectx_next x s) (skipn (S k) (ff_sections f)) ++ render_blanks (ff_trailing f)) in Hrem1.
  unfold meta_key in Hkey.
  destruct (sid_kind (fs_id s)) eqn:Ek; destruct (fs_content s) as [[t|t j|ls kd|ls kd j|raw kd]|] eqn:Econt;
    try discriminate Hkind; try discriminate Hkey; injection Hkey as <-.
  - (* metadata, text *)
    apply andb_true_iff in Hkind. destruct Hkind as [Htext Hfmt].
    assert (Hnc : sid_kind (fs_id s) <> SContainer) by (rewrite Ek; discriminate).
    assert (Hnd : fs_id s <> FileDiff) by (intros E; rewrite E in Ek; discriminate Ek).
    assert (Hi0 : indent_matches None (indent_of s)).
    { left. split; [reflexivity | apply indent_of_other; rewrite Ek; discriminate]. }
    destruct (read_section_text x s t None (hdr_state st s1 crlf) _ Htext Henc Hnd (or_intror (ex_intro _ j Econt))
                Hi0 Hrem1 Hm1) as (st2 & Hrc & _).
    destruct (text_ok_inv x s t Htext) as (c & _ & _ & _ & _ & _ & _ & Hlen).
    eapply (RS.invalid_json orc chunk st valid encs pl _ _ _ _ _ _ _ _ _ _ a Hh).
    + rewrite sid_is_meta, Ek. reflexivity.
    + exact (content_top _ _ _ _ _ _ _ _ HI Hord Hnc).
    + exact (length_opt _ _ Hlen).
    + lia.
    + exact (fmt_opt _ Hfmt).
    + exact Hrc.
    + exact Ha.
    + exact Hbad.
  - (* metadata, no encoding in force *)
    apply andb_true_iff in Hkind. destruct Hkind as [Hraw Hfmt].
    assert (Hnc : sid_kind (fs_id s) <> SContainer) by (rewrite Ek; discriminate).
    assert (Hnd : fs_id s <> FileDiff) by (intros E; rewrite E in Ek; discriminate Ek).
    assert (Hi0 : indent_matches None (indent_of s)).
    { left. split; [reflexivity | apply indent_of_other; rewrite Ek; discriminate]. }
    destruct (read_section_raw x s ls kd None (hdr_state st s1 crlf) _ Hraw Henc Hnd (or_intror (ex_intro _ j Econt))
                Hi0 Hrem1 Hm1) as (st2 & Hrc & _).
    destruct (raw_ok_inv x s ls kd Hraw) as (_ & _ & _ & _ & Hlen).
    eapply (RS.invalid_json orc chunk st valid encs pl _ _ _ _ _ _ _ _ _ _ a Hh).
    + rewrite sid_is_meta, Ek. reflexivity.
    + exact (content_top _ _ _ _ _ _ _ _ HI Hord Hnc).
    + exact (length_opt _ _ Hlen).
    + lia.
    + exact (fmt_opt _ Hfmt).
    + exact Hrc.
    + exact Ha.
    + exact Hbad.
Qed.

(* the same with the oracle of the well-formed file overridden at the key of section k; the sections before k
   must not carry the same JSON text (they would be rejected first) *)
Lemma oracle_ok_override : forall orc key a s0, oracle_ok_section orc s0 -> meta_key s0 <> Some key ->
  oracle_ok_section ((key, a) :: orc) s0.
Proof.
  intros orc key a s0 H Hne. unfold oracle_ok_section, meta_key in *.
  destruct (fs_content s0) as [[t|t j|ls k|ls k j|raw k]|]; try exact I; cbn [assoc_get].
  - destruct (beq (oracle_key_text (joined t)) key) eqn:E; [|exact H]. apply beq_true in E. congruence.
  - destruct (beq (oracle_key_bytes (concat (raw_pieces k ls))) key) eqn:E; [|exact H]. apply beq_true in E. congruence.
Qed.

Theorem invalid_json_override : forall f k s orc chunk key,
  wf_file f = true -> oracle_ok_file orc f -> nth_error (ff_sections f) k = Some s ->
  meta_key s = Some key -> Forall (fun s0 => meta_key s0 <> Some key) (firstn k (ff_sections f)) ->
  0 < chunk -> (Z.of_nat (length (render_file f)) <= sys_maxsize)%Z ->
  read_all (bad_oracle s orc) chunk (render_file f) = (firstn k (spec_records f), TParse (sec_line f k) None).
Proof.
  intros f k s orc chunk key Hwf Horc Hk Hkey Hdiff Hc Hmax.
  apply (invalid_json_file f k s _ chunk Hwf Hk); try assumption.
  - unfold bad_oracle. rewrite Hkey.
    pose proof (Forall_firstn_ _ k _ Horc) as Hpre. revert Hpre Hdiff. generalize (firstn k (ff_sections f)).
    induction l as [|s0 l IH]; intros Hpre Hdiff; [constructor|].
    inversion Hpre; subst. inversion Hdiff; subst. constructor; [apply oracle_ok_override; assumption | apply IH; assumption].
  - exists key, LoadsValueError. unfold bad_oracle. rewrite Hkey. cbn [assoc_get]. rewrite beq_same. auto.
Qed.

(* ================================================================================================ *)
(** * Part 6: content not ending in its newline *)

(* The AST renders every content line with its newline, so the defective CONTENT is given in bytes: after the
   rendering of the first k sections comes the header of section k with its length option set to [lenv] (an
   integer spelling of the new byte length), then the defective content [body'], then anything ([rest]). *)
Definition no_final_newline_bytes (f : ffile) (k : nat) (s : fsection) (lenv body' rest : bytes) : bytes :=
  render_secs (ff_crlf f) ectx0 (firstn k (ff_sections f)) ++
  (sec_header (ff_crlf f) (d_length lenv s) ++ body' ++ rest).

(* the codec in which the reader encodes the newline it looks for: the section's effective encoding (a diff's
   own encoding), ASCII when there is none *)
Definition newline_codec (x : ectx) (s : fsection) : codec :=
  match fs_id s with
  | FileDiff => match diff_codec s with Some c => c | None => ascii end
  | _ => match text_codec x s with Some c => c | None => ascii end
  end.

Lemma le_pv_any : forall ps c k body body', le_ok ps c k body = true ->
  exists k',
    opt_get "line_endings" (HeaderFacts.opts_of convert_value ps) = Some (VStr (le_name k')) \/
    (opt_get "line_endings" (HeaderFacts.opts_of convert_value ps) = None /\
     detect_kind (nl_bytes c LUnix) (nl_bytes c LDos) body' = k').
Proof.
  intros ps c k body body' H. destruct (le_opt ps c k body H) as [E | [E _]].
  - exists k. left. exact E.
  - eexists. right. split; [exact E | reflexivity].
Qed.

(* the newline the reader splits the content of a well-formed section's header on, whatever the content is *)
Lemma section_newline : forall prev x s kk body',
  wf_section prev x s = true -> RS.kind_of (sid_bytes (fs_id s)) = Some kk ->
  exists kd,
    RS.nl_res_of (opt_get "line_endings" (HeaderFacts.opts_of convert_value (fs_opts s)))
      (RS.enc_name (RS.encoding_of kk (HeaderFacts.opts_of convert_value (fs_opts s)) (pvo (inherited x (sid_depth (fs_id s))))))
      body' = Ok (nl_bytes (newline_codec x s) kd) /\
    nl_bytes (newline_codec x s) kd <> [].
Proof.
  intros prev x s kk body' Hwf Hkk. destruct (wf_section_inv prev x s Hwf) as (_ & _ & _ & Henc & Hkind).
  rewrite sid_kind_of in Hkk.
  destruct (sid_kind (fs_id s)) eqn:Ek; destruct (fs_content s) as [[t|t j|ls k|ls k j|raw k]|] eqn:Econt;
    try discriminate Hkind; try discriminate Hkk; injection Hkk as <-; cbn [RS.encoding_of].
  - (* preamble, text *)
    apply andb_true_iff in Hkind. destruct Hkind as [Htext _].
    assert (Hnd : fs_id s <> FileDiff) by (intros E; rewrite E in Ek; discriminate Ek).
    destruct (text_ok_inv x s t Htext) as (c & Hc & _ & _ & _ & _ & Hle & _).
    assert (Hnc : newline_codec x s = c) by (unfold newline_codec; rewrite Hc; destruct (fs_id s); congruence).
    unfold text_codec in Hc. destruct (eff_enc x s) as [eb|] eqn:Eeff; [|discriminate Hc].
    destruct (codec_laws_x eb c Hc) as (bom & enc0 & laws & _).
    rewrite (eff_encoding_model x s eb Henc Hnd Eeff), Hnc. cbn [RS.enc_name].
    destruct (le_pv_any _ _ _ _ body' Hle) as [k' Hk']. exists k'.
    split; [exact (nl_res_cases eb c bom enc0 laws _ body' k' Hk') | apply (nl_bytes_laws eb c bom enc0 laws k')].
  - (* preamble, raw *)
    apply andb_true_iff in Hkind. destruct Hkind as [Hraw _].
    assert (Hnd : fs_id s <> FileDiff) by (intros E; rewrite E in Ek; discriminate Ek).
    destruct (raw_ok_inv x s ls k Hraw) as (Eeff & _ & _ & Hle & _).
    assert (Hnc : newline_codec x s = ascii).
    { unfold newline_codec, text_codec. rewrite Eeff. destruct (fs_id s); congruence. }
    rewrite (eff_encoding_none x s Henc Hnd Eeff), Hnc. cbn [RS.enc_name]. rewrite nl_res_ascii.
    destruct (codec_laws_x _ _ ascii_codec) as (bom & enc0 & laws & _).
    destruct (le_pv_any _ _ _ _ body' Hle) as [k' Hk']. exists k'.
    split; [exact (nl_res_cases _ ascii bom enc0 laws _ body' k' Hk') | apply (nl_bytes_laws _ ascii bom enc0 laws k')].
  - (* metadata, text *)
    apply andb_true_iff in Hkind. destruct Hkind as [Htext _].
    assert (Hnd : fs_id s <> FileDiff) by (intros E; rewrite E in Ek; discriminate Ek).
    destruct (text_ok_inv x s t Htext) as (c & Hc & _ & _ & _ & _ & Hle & _).
    assert (Hnc : newline_codec x s = c) by (unfold newline_codec; rewrite Hc; destruct (fs_id s); congruence).
    unfold text_codec in Hc. destruct (eff_enc x s) as [eb|] eqn:Eeff; [|discriminate Hc].
    destruct (codec_laws_x eb c Hc) as (bom & enc0 & laws & _).
    rewrite (eff_encoding_model x s eb Henc Hnd Eeff), Hnc. cbn [RS.enc_name].
    destruct (le_pv_any _ _ _ _ body' Hle) as [k' Hk']. exists k'.
    split; [exact (nl_res_cases eb c bom enc0 laws _ body' k' Hk') | apply (nl_bytes_laws eb c bom enc0 laws k')].
  - (* metadata, raw *)
    apply andb_true_iff in Hkind. destruct Hkind as [Hraw _].
    assert (Hnd : fs_id s <> FileDiff) by (intros E; rewrite E in Ek; discriminate Ek).
    destruct (raw_ok_inv x s ls k Hraw) as (Eeff & _ & _ & Hle & _).
    assert (Hnc : newline_codec x s = ascii).
    { unfold newline_codec, text_codec. rewrite Eeff. destruct (fs_id s); congruence. }
    rewrite (eff_encoding_none x s Henc Hnd Eeff), Hnc. cbn [RS.enc_name]. rewrite nl_res_ascii.
    destruct (codec_laws_x _ _ ascii_codec) as (bom & enc0 & laws & _).
    destruct (le_pv_any _ _ _ _ body' Hle) as [k' Hk']. exists k'.
    split; [exact (nl_res_cases _ ascii bom enc0 laws _ body' k' Hk') | apply (nl_bytes_laws _ ascii bom enc0 laws k')].
  - (* diff *)
    unfold diff_ok in Hkind. destruct (diff_codec s) as [c|] eqn:Ec; [|discriminate Hkind].
    repeat (apply andb_true_iff in Hkind; destruct Hkind as [Hkind ?]). rename H0 into Hle.
    assert (Hnc : newline_codec x s = c).
    { unfold newline_codec. rewrite Ec. destruct (fs_id s); try discriminate Ek. reflexivity. }
    unfold diff_codec in Ec. destruct (codec_laws_x _ c Ec) as (bom & enc0 & laws & _).
    assert (Heo : opt_get "encoding" (HeaderFacts.opts_of convert_value (fs_opts s)) = pvo (opt "encoding" (fs_opts s))).
    { pose proof (push_enc_none (fs_opts s) Henc) as H2. destruct (opt_get "encoding" _) as [v|]; exact H2. }
    rewrite Heo, Hnc.
    destruct (le_pv_any _ _ _ _ body' Hle) as [k' Hk']. exists k'.
    split; [|apply (nl_bytes_laws _ c bom enc0 laws k')].
    pose proof (nl_res_cases _ c bom enc0 laws _ body' k' Hk') as Hnl.
    unfold diff_spelling in Hnl. destruct (opt "encoding" (fs_opts s)); cbn [pvo option_map RS.enc_name]; exact Hnl.
Qed.

Theorem no_final_newline_file : forall f k s orc chunk lenv body' rest,
  wf_file f = true -> oracle_ok_file orc f -> nth_error (ff_sections f) k = Some s ->
  sid_kind (fs_id s) <> SContainer ->
  spec_valb lenv = true -> spec_conv lenv = VInt (Z.of_nat (length body')) ->
  body' <> [] ->
  (forall kd, bends (nl_bytes (newline_codec (sec_ectx f k) s) kd) body' = false) ->
  0 < chunk -> (Z.of_nat (length (no_final_newline_bytes f k s lenv body' rest)) <= sys_maxsize)%Z ->
  read_all orc chunk (no_final_newline_bytes f k s lenv body' rest)
  = (firstn k (spec_records f), TParse (sec_line f k + 1) None).
Proof.
  intros f k s orc chunk lenv body' rest Hwf Horc Hk Hkind Hval Hlenv Hne Hends Hc Hmax.
  unfold no_final_newline_bytes in *.
  apply (defect_at f k s orc chunk _ _ None Hwf Hk (Forall_firstn_ _ k _ Horc) Hc (prefix_bound _ _ Hmax)).
  intros st valid encs pl HI Hrem Hline. rewrite <- Hline.
  set (x := sec_ectx f k) in *. set (crlf := ff_crlf f) in *.
  destruct (wf_at f k s Hwf Hk) as [_ Hws]. fold x in Hws.
  destruct (wf_section_inv _ _ _ Hws) as (Hord & Hblank & Hpairs & Henc & _).
  destruct (wf_content_facts _ _ _ Hws Hkind) as (_ & _ & Hind & Hfmt & _).
  assert (Hm1 : (Z.of_nat (length body') <= sys_maxsize)%Z) by (rewrite !app_length in Hmax; lia).
  set (ps' := set_opt "length" lenv (fs_opts s)).
  assert (Oenc : opt "encoding" ps' = opt "encoding" (fs_opts s)) by (apply opt_set_other; reflexivity).
  assert (Oind : opt "indent" ps' = opt "indent" (fs_opts s)) by (apply opt_set_other; reflexivity).
  assert (Ole : opt "line_endings" ps' = opt "line_endings" (fs_opts s)) by (apply opt_set_other; reflexivity).
  assert (Ofmt : opt "format" ps' = opt "format" (fs_opts s)) by (apply opt_set_other; reflexivity).
  assert (Genc : opt_get "encoding" (HeaderFacts.opts_of convert_value ps') =
                 opt_get "encoding" (HeaderFacts.opts_of convert_value (fs_opts s))) by (rewrite !opt_get_model, Oenc; reflexivity).
  assert (Gle : opt_get "line_endings" (HeaderFacts.opts_of convert_value ps') =
                opt_get "line_endings" (HeaderFacts.opts_of convert_value (fs_opts s))) by (rewrite !opt_get_model, Ole; reflexivity).
  destruct (defect_header chunk _ _ _ (d_length lenv s) st valid encs pl _ Hc HI Hord Hblank
              (pairs_set "length" lenv _ Hpairs (key_pair_ok "length" lenv eq_refl Hval)) Hrem) as (s1 & Hh & Hrem1).
  cbn [d_length with_opts fs_id fs_opts] in Hh. fold ps' in Hh.
  change (remaining (st_stream (hdr_state st s1 crlf)) = body' ++ rest) in Hrem1.
  pose proof (sid_kind_of (fs_id s)) as Hko.
  assert (exists kk, RS.kind_of (sid_bytes (fs_id s)) = Some kk /\
                     (kk = RS.KPreamble -> sid_kind (fs_id s) = SPreamble) /\
                     (kk = RS.KMeta -> sid_kind (fs_id s) = SMeta)) as (kk & Hkk & HkP & HkM).
  { destruct (sid_kind (fs_id s)); [exfalso; apply Hkind; reflexivity | | |];
      eexists; (split; [exact Hko|]); split; intros E; try reflexivity; discriminate E. }
  destruct (section_newline _ x s kk body' Hws Hkk) as (kd & Hnl & Hnlne).
  destruct (TextFacts.C16b_total_ok body' _ true Hne Hnlne) as [lines Hsl].
  assert (Hcb : RS.content_bytes (hdr_state st s1 crlf) (Z.of_nat (length body')) = body')
    by (exact (content_bytes_exact _ body' rest Hrem1 Hm1)).
  assert (Eenc : RS.encoding_of kk (HeaderFacts.opts_of convert_value ps') (pvo (inherited x (sid_depth (fs_id s)))) =
                 RS.encoding_of kk (HeaderFacts.opts_of convert_value (fs_opts s)) (pvo (inherited x (sid_depth (fs_id s))))).
  { destruct kk; cbn [RS.encoding_of]; unfold RS.eff_encoding; rewrite Genc; reflexivity. }
  eapply (RS.no_final_newline_step orc chunk st valid encs pl _ _ _ _ _ _ kk _ _ Hh).
  - rewrite sid_is_content. destruct (sid_kind (fs_id s)); try reflexivity. exfalso. apply Hkind. reflexivity.
  - exact Hkk.
  - exact (content_top _ _ _ _ _ _ _ _ HI Hord Hkind).
  - rewrite opt_get_model. unfold ps'. rewrite opt_set_same. cbn [option_map]. rewrite Hlenv. reflexivity.
  - lia.
  - intros E. apply fmt_opt. unfold format_ok. rewrite Ofmt. exact (Hfmt (HkM E)).
  - rewrite RS.content_call_eq.
    apply (RS.no_final_newline_raw _ _ _ _ _ _ (nl_bytes (newline_codec x s) kd) lines).
    + rewrite Hcb. apply TextFacts.is_nil_false. exact Hne.
    + apply enc_valid_content. exact (enc_opt_ok_with _ _ Oenc Henc).
    + unfold RS.indent_valid. destruct kk; cbn [RS.indent_of]; try reflexivity.
      apply indent_valid_opts. unfold indent_ok. rewrite Oind. exact (Hind (HkP eq_refl)).
    + rewrite Hcb, Eenc, Gle. exact Hnl.
    + rewrite Hcb. exact Hsl.
    + rewrite Hcb. apply Hends.
Qed.

(* ================================================================================================ *)
(** * Part 7: the catalogue in one statement *)

Inductive defect :=
| DBadVersion (v : bytes)
| DMissingVersion
| DMissingLength
| DUnknownLineEndings (v : bytes)
| DFormatNotJson (v : bytes)
| DInvalidJson
| DNoFinalNewline (lenv body' rest : bytes).

(* when the defect can be applied to section k of f (= s) *)
Definition applicable (f : ffile) (k : nat) (s : fsection) (d : defect) : Prop :=
  match d with
  | DBadVersion v => fs_id s = Main /\ spec_valb v = true /\ beq v (B "1.0") = false
  | DMissingVersion => fs_id s = Main
  | DMissingLength => sid_kind (fs_id s) <> SContainer
  | DUnknownLineEndings v =>
      sid_kind (fs_id s) <> SContainer /\ spec_valb v = true /\
      beq v (B "unix") = false /\ beq v (B "dos") = false
  | DFormatNotJson v => sid_kind (fs_id s) = SMeta /\ spec_valb v = true /\ beq v (B "json") = false
  | DInvalidJson =>
      exists key, meta_key s = Some key /\ Forall (fun s0 => meta_key s0 <> Some key) (firstn k (ff_sections f))
  | DNoFinalNewline lenv body' rest =>
      sid_kind (fs_id s) <> SContainer /\ spec_valb lenv = true /\ spec_conv lenv = VInt (Z.of_nat (length body')) /\
      body' <> [] /\ (forall kd, bends (nl_bytes (newline_codec (sec_ectx f k) s) kd) body' = false)
  end.

(* the bytes of the defective file, and the json.loads oracle it is read with *)
Definition defect_bytes (f : ffile) (k : nat) (s : fsection) (d : defect) : bytes :=
  match d with
  | DBadVersion v => render_file (inject (d_bad_version v) f k)
  | DMissingVersion => render_file (inject d_missing_version f k)
  | DMissingLength => render_file (inject d_missing_length f k)
  | DUnknownLineEndings v => render_file (inject (d_unknown_le v) f k)
  | DFormatNotJson v => render_file (inject (d_format v) f k)
  | DInvalidJson => render_file f
  | DNoFinalNewline lenv body' rest => no_final_newline_bytes f k s lenv body' rest
  end.
Definition defect_oracle (s : fsection) (d : defect) (orc : oracle) : oracle :=
  match d with DInvalidJson => bad_oracle s orc | _ => orc end.

(* the line of the error: the header's line, or the line after it (the first content line) *)
Definition defect_line (f : ffile) (k : nat) (d : defect) : Z :=
  match d with
  | DUnknownLineEndings _ | DNoFinalNewline _ _ _ => sec_line f k + 1
  | _ => sec_line f k
  end.

Theorem single_defect_rejected : forall f k s orc chunk d,
  wf_file f = true -> oracle_ok_file orc f -> nth_error (ff_sections f) k = Some s ->
  applicable f k s d -> 0 < chunk ->
  (Z.of_nat (length (defect_bytes f k s d)) <= sys_maxsize)%Z ->
  read_all (defect_oracle s d orc) chunk (defect_bytes f k s d)
  = (firstn k (spec_records f), TParse (defect_line f k d) None) /\
  (sec_line f k <= defect_line f k d <= sec_line f k + Z.of_nat (content_nlines s))%Z.
Proof.
  intros f k s orc chunk d Hwf Horc Hk Happ Hc Hmax.
  destruct (wf_at f k s Hwf Hk) as [_ Hws].
  destruct d as [v| | |v|v| |lenv body' rest]; cbn [applicable defect_bytes defect_oracle defect_line] in *.
  - destruct Happ as (Hid & Hval & Hv). split; [exact (bad_version_file f k s orc chunk v Hwf Horc Hk Hid Hval Hv Hc Hmax)|lia].
  - split; [exact (missing_version_file f k s orc chunk Hwf Horc Hk Happ Hc Hmax)|lia].
  - split; [exact (missing_length_file f k s orc chunk Hwf Horc Hk Happ Hc Hmax)|lia].
  - destruct Happ as (Hkind & Hval & Hu & Hd).
    split; [exact (unknown_line_endings_file f k s orc chunk v Hwf Horc Hk Hkind Hval Hu Hd Hc Hmax)|].
    destruct (wf_content_facts _ _ _ Hws Hkind) as (_ & _ & _ & _ & Hn). lia.
  - destruct Happ as (Hkind & Hval & Hv).
    split; [exact (format_not_json_file f k s orc chunk v Hwf Horc Hk Hkind Hval Hv Hc Hmax)|lia].
  - destruct Happ as (key & Hkey & Hdiff).
    split; [exact (invalid_json_override f k s orc chunk key Hwf Horc Hk Hkey Hdiff Hc Hmax)|lia].
  - destruct Happ as (Hkind & Hval & Hlenv & Hne & Hends).
    split; [exact (no_final_newline_file f k s orc chunk lenv body' rest Hwf Horc Hk Hkind Hval Hlenv Hne Hends Hc Hmax)|].
    destruct (wf_content_facts _ _ _ Hws Hkind) as (_ & _ & _ & _ & Hn). lia.
Qed.

(* in the shape of the property text: some parse error, at a line of section k *)
Corollary single_defect_rejected_ex : forall f k s orc chunk d,
  wf_file f = true -> oracle_ok_file orc f -> nth_error (ff_sections f) k = Some s ->
  applicable f k s d -> 0 < chunk ->
  (Z.of_nat (length (defect_bytes f k s d)) <= sys_maxsize)%Z ->
  exists r l c,
    nth_error (spec_records f) k = Some r /\
    read_all (defect_oracle s d orc) chunk (defect_bytes f k s d) = (firstn k (spec_records f), TParse l c) /\
    (r_line r <= l <= r_line r + Z.of_nat (content_nlines s))%Z.
Proof.
  intros f k s orc chunk d Hwf Horc Hk Happ Hc Hmax.
  destruct (single_defect_rejected f k s orc chunk d Hwf Horc Hk Happ Hc Hmax) as [H1 H2].
  exists (sec_record (sec_line f k) s), (defect_line f k d), None.
  split; [exact (sec_line_spec f k s Hk)|]. split; [exact H1 | exact H2].
Qed.

(* ================================================================================================ *)
(** * Part 8: concrete inputs for the Examples of props/C03_defects.v *)

Module Ex.
Import SpecReaderExamples.

(* sx_foreign (SpecReaderExamples.v) from its .preamble on / from its .meta on / its last two lines *)
Definition fx_from_preamble : bytes :=
  nl ++
  B "  " ++ nl ++
  B "#.preamble: length=20, x-producer=other/1.0, indent=2, encoding=utf-8-sig" ++ cr ++ nl ++
  B "  " ++ [xef; xbb; xbf] ++ B "hello" ++ cr ++ nl ++
  B "   w" ++ [xc3; xa9] ++ cr ++ nl.
Definition fx_from_meta : bytes :=
  B "#.meta: length=8" ++ cr ++ nl ++
  B "{" ++ [x22] ++ B "a" ++ [x22] ++ B ":1}" ++ nl ++
  B " " ++ nl ++
  B "#.change:" ++ cr ++ nl ++
  B "#..file: encoding=latin-1" ++ cr ++ nl ++
  B "#...meta: format=json, length=3" ++ cr ++ nl ++
  B "{}" ++ nl ++
  nl.
Definition fx_trailing : bytes := nl ++ B " " ++ nl.

(* bad_version at section 0: version=2.0 (the option moves to the end of the header) *)
Definition fx_version2 : bytes :=
  B "#diffx: encoding=utf-8, version=2.0" ++ cr ++ nl ++ fx_from_preamble ++ fx_from_meta ++
  B "#...diff: length=6, line_endings=unix" ++ cr ++ nl ++ B "-a" ++ nl ++ B "+b" ++ nl ++ fx_trailing.

(* unknown_line_endings at section 6 (the diff, on logical line 10): line_endings=mac *)
Definition fx_le_mac : bytes :=
  B "#diffx: version=1.0, encoding=utf-8" ++ cr ++ nl ++ fx_from_preamble ++ fx_from_meta ++
  B "#...diff: length=6, line_endings=mac" ++ cr ++ nl ++ B "-a" ++ nl ++ B "+b" ++ nl ++ fx_trailing.

(* no_final_newline at section 1 (the utf-8-sig preamble with DOS line endings, on logical line 1): the final
   CR LF dropped and an "x" appended, 19 bytes; the rest of the file follows *)
Definition fx_pre_body : bytes := B "  " ++ [xef; xbb; xbf] ++ B "hello" ++ cr ++ nl ++ B "   w" ++ [xc3; xa9] ++ B "x".
Definition fx_nfn_preamble : bytes :=
  B "#diffx: version=1.0, encoding=utf-8" ++ cr ++ nl ++
  nl ++
  B "  " ++ nl ++
  B "#.preamble: x-producer=other/1.0, indent=2, encoding=utf-8-sig, length=19" ++ cr ++ nl ++
  fx_pre_body ++ fx_from_meta.

(* no_final_newline at section 6 (the diff): "-a\n+bx", 6 bytes *)
Definition fx_diff_body : bytes := B "-a" ++ nl ++ B "+bx".
Definition fx_nfn_diff : bytes :=
  B "#diffx: version=1.0, encoding=utf-8" ++ cr ++ nl ++ fx_from_preamble ++ fx_from_meta ++
  B "#...diff: line_endings=unix, length=6" ++ cr ++ nl ++ fx_diff_body ++ fx_trailing.

(* sections 1, 2 and 6 of sx_foreign *)
Definition fx_s1 : fsection := nth 1 (ff_sections sx_foreign) (Build_fsection Main [] [] None).
Definition fx_s2 : fsection := nth 2 (ff_sections sx_foreign) (Build_fsection Main [] [] None).
Definition fx_s6 : fsection := nth 6 (ff_sections sx_foreign) (Build_fsection Main [] [] None).
End Ex.
