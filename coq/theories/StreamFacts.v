(* StreamFacts.v — C17: the chunked _read_until (as coded) coincides with the abstract "up to and including the first
   LF, or everything with eof" reading, for every read-ahead block size > 0; consequences for the reader. *)
From Coq Require Import List Arith NArith ZArith Bool Strings.Byte Lia ZifyBool.
From Coq Require Strings.String.
From DX Require Import Bytes Res Codec Text Sections Header Stream Json Reader.
From DXGen Require GenSections GenText.
Import ListNotations.
Local Open Scope list_scope.

(* ------------------------------------------------------------------------------------------------ *)
(* Well-formedness of a stream: the position is inside (or at the end of) the data.                 *)

Definition wf_stream (s : stream) : Prop := s_pos s <= List.length (s_data s).

Lemma wf_initial : forall data, wf_stream {| s_data := data; s_pos := 0 |}.
Proof. intros; unfold wf_stream; cbn; lia. Qed.

Lemma remaining_length : forall s, List.length (remaining s) = List.length (s_data s) - s_pos s.
Proof. intros; unfold remaining; apply skipn_length. Qed.

(* fp.read(n) *)
Lemma sread_wf : forall n s, wf_stream s -> wf_stream (snd (sread n s)).
Proof.
  intros n s H. unfold wf_stream, sread in *. cbn [snd s_data s_pos].
  rewrite firstn_length, remaining_length. lia.
Qed.

Lemma sread_data : forall n s, s_data (snd (sread n s)) = s_data s.
Proof. reflexivity. Qed.

Lemma sread_pos : forall n s, s_pos (snd (sread n s)) = s_pos s + List.length (fst (sread n s)).
Proof. reflexivity. Qed.

Lemma sread_prefix : forall n s, fst (sread n s) = firstn (List.length (fst (sread n s))) (remaining s).
Proof.
  intros; unfold sread; cbn [fst].
  rewrite firstn_length.
  destruct (Nat.min_spec n (List.length (remaining s))) as [[? ->]|[? ->]]; [reflexivity|].
  rewrite firstn_all, firstn_all2 by lia. reflexivity.
Qed.

Lemma skipn_add : forall {A} p k (l : list A), skipn (p + k) l = skipn k (skipn p l).
Proof.
  induction p as [|p IH]; intros k l; [reflexivity|].
  destruct l as [|x t]; cbn [plus skipn]; [rewrite skipn_nil; reflexivity|apply IH].
Qed.

Lemma remaining_advance : forall data p k,
  remaining {| s_data := data; s_pos := p + k |} = skipn k (remaining {| s_data := data; s_pos := p |}).
Proof. intros; unfold remaining; cbn [s_data s_pos]. apply skipn_add. Qed.

(* ------------------------------------------------------------------------------------------------ *)
(* find_byte                                                                                         *)

Lemma find_byte_bounds : forall c l k i, find_byte c l k = Some i -> k <= i < k + List.length l.
Proof.
  induction l as [|x t IH]; intros k i H; cbn [find_byte] in H; [discriminate|].
  cbn [List.length]. destruct (byte_eqb x c).
  - inversion H; subst; lia.
  - apply IH in H. lia.
Qed.

Lemma find_byte_app_some : forall c l1 l2 k i,
  find_byte c l1 k = Some i -> find_byte c (l1 ++ l2) k = Some i.
Proof.
  induction l1 as [|x t IH]; intros l2 k i H; cbn [find_byte app] in *; [discriminate|].
  destruct (byte_eqb x c); auto.
Qed.

Lemma find_byte_app_none : forall c l1 l2 k,
  find_byte c l1 k = None -> find_byte c (l1 ++ l2) k = find_byte c l2 (k + List.length l1).
Proof.
  induction l1 as [|x t IH]; intros l2 k H; cbn [find_byte app List.length] in *.
  - f_equal; lia.
  - destruct (byte_eqb x c); [discriminate|].
    rewrite IH by assumption. f_equal; lia.
Qed.

Lemma find_byte_shift : forall c l k,
  find_byte c l k = option_map (fun i => k + i) (find_byte c l 0).
Proof.
  intros c l. induction l as [|x t IH]; intros k; cbn [find_byte]; [reflexivity|].
  destruct (byte_eqb x c).
  - cbn. f_equal; lia.
  - rewrite (IH (S k)), (IH 1). destruct (find_byte c t 0); cbn; [f_equal; lia|reflexivity].
Qed.

(* what find_byte means: index of the first occurrence *)
Lemma find_byte_some_spec : forall c l i,
  find_byte c l 0 = Some i ->
  nth_error l i = Some c /\ forall j, j < i -> nth_error l j <> Some c.
Proof.
  intros c l. induction l as [|x t IH]; intros i H; cbn [find_byte] in H; [discriminate|].
  destruct (byte_eqb x c) eqn:E.
  - inversion H; subst. unfold byte_eqb in E. apply Byte.byte_dec_bl in E. subst. split; [reflexivity|intros; lia].
  - rewrite find_byte_shift in H. destruct (find_byte c t 0) as [i'|] eqn:F; [|discriminate].
    cbn in H. inversion H; subst. destruct (IH _ eq_refl) as [A B]. split; [exact A|].
    intros [|j] Hj; cbn [nth_error].
    + intro Q; inversion Q; subst. unfold byte_eqb in E. rewrite (Byte.byte_dec_lb eq_refl) in E. discriminate.
    + apply B; lia.
Qed.

Lemma find_byte_none_spec : forall c l, find_byte c l 0 = None -> ~ In c l.
Proof.
  intros c l. induction l as [|x t IH]; intros H; cbn [find_byte] in H; [intros []|].
  destruct (byte_eqb x c) eqn:E; [discriminate|].
  rewrite find_byte_shift in H. destruct (find_byte c t 0) eqn:F; [discriminate|].
  intros [Q|Q]; [|exact (IH eq_refl Q)].
  subst. unfold byte_eqb in E. rewrite (Byte.byte_dec_lb eq_refl) in E. discriminate.
Qed.

(* ------------------------------------------------------------------------------------------------ *)
(* read_until_abs, factored through the remaining bytes                                              *)

Definition rua (data : bytes) (pos : nat) (r : bytes) : bytes * bool * stream :=
  match find_byte lf r 0 with
  | Some i => (firstn (i + 1) r, false, {| s_data := data; s_pos := pos + (i + 1) |})
  | None => (r, true, {| s_data := data; s_pos := pos + List.length r |})
  end.

Lemma read_until_abs_rua : forall s, read_until_abs s = rua (s_data s) (s_pos s) (remaining s).
Proof. reflexivity. Qed.

Definition prepend (acc : bytes) (x : bytes * bool * stream) : bytes * bool * stream :=
  let '(b, e, s) := x in (acc ++ b, e, s).

Lemma prepend_nil : forall x, prepend [] x = x.
Proof. intros [[b e] s]; reflexivity. Qed.

Lemma rua_skip : forall data pos l1 l2,
  find_byte lf l1 0 = None ->
  rua data pos (l1 ++ l2) = prepend l1 (rua data (pos + List.length l1) l2).
Proof.
  intros data pos l1 l2 H. unfold rua.
  rewrite (find_byte_app_none _ _ _ _ H). rewrite find_byte_shift. cbn [plus].
  destruct (find_byte lf l2 0) as [j|]; cbn [option_map prepend].
  - f_equal; [f_equal|].
    + rewrite firstn_app.
      replace (List.length l1 + j + 1 - List.length l1) with (j + 1) by lia.
      rewrite firstn_all2 by lia. reflexivity.
    + f_equal; lia.
  - f_equal. f_equal. rewrite app_length. lia.
Qed.

(* ------------------------------------------------------------------------------------------------ *)
(* the loop of _read_until                                                                           *)

Lemma read_until_chunked_abs : forall fuel chunk acc s,
  0 < chunk ->
  List.length (remaining s) < fuel ->
  read_until_chunked fuel chunk acc s = Ok (prepend acc (read_until_abs s)).
Proof.
  induction fuel as [|f IH]; intros chunk acc s Hc Hf; [lia|].
  rewrite read_until_abs_rua.
  cbn [read_until_chunked sread].
  destruct s as [data pos]. cbn [s_data s_pos] in *.
  set (r := remaining {| s_data := data; s_pos := pos |}) in *.
  pose proof (firstn_skipn chunk r) as Hsplit.
  set (l1 := firstn chunk r) in *. set (l2 := skipn chunk r) in *.
  destruct l1 as [|x t] eqn:El1.
  - (* nothing read: end of data *)
    assert (r = []) as Hr.
    { destruct r as [|y r']; [reflexivity|]. destruct chunk; [lia|]. subst l1. discriminate. }
    rewrite Hr. unfold rua. cbn [find_byte prepend List.length]. rewrite app_nil_r. reflexivity.
  - rewrite <- El1 in *.
    assert (0 < List.length l1) as Hl1 by (rewrite El1; cbn; lia).
    destruct (find_byte lf l1 0) as [i|] eqn:Ef.
    + (* LF inside the block: keep i+1 bytes, seek back *)
      pose proof (find_byte_bounds _ _ _ _ Ef) as Hb.
      unfold sseek_cur. cbn [s_pos s_data].
      destruct (Z.of_nat (pos + List.length l1) + (Z.of_nat (i + 1) - Z.of_nat (List.length l1)) <? 0)%Z eqn:Hneg; [lia|].
      cbn [bind]. unfold rua. rewrite <- Hsplit.
      rewrite (find_byte_app_some _ _ l2 _ _ Ef). cbn [prepend].
      rewrite firstn_app. replace (i + 1 - List.length l1) with 0 by lia.
      rewrite firstn_O, app_nil_r.
      do 3 f_equal. lia.
    + (* no LF in the block: accumulate and go on *)
      assert (skipn (List.length l1) r = l2) as Hskip.
      { rewrite <- Hsplit. rewrite skipn_app, skipn_all, Nat.sub_diag. reflexivity. }
      rewrite IH; [| assumption |].
      * rewrite read_until_abs_rua. cbn [s_data s_pos].
        rewrite remaining_advance. fold r. rewrite Hskip.
        rewrite <- Hsplit. rewrite (rua_skip _ _ _ _ Ef).
        destruct (rua data (pos + List.length l1) l2) as [[b e] s']. cbn [prepend].
        rewrite app_assoc. reflexivity.
      * rewrite remaining_advance. fold r. rewrite Hskip.
        assert (List.length r = List.length l1 + List.length l2) by (rewrite <- Hsplit, app_length; reflexivity).
        lia.
Qed.

(* C17, stream level: for every block size > 0 the chunked reader returns exactly the abstract reading: same
   bytes, same eof flag, same stream afterwards. It never raises and the fuel always suffices. *)
Theorem read_until_abs_correct : forall chunk s,
  0 < chunk -> read_until chunk s = Ok (read_until_abs s).
Proof.
  intros chunk s Hc. unfold read_until.
  rewrite read_until_chunked_abs by lia. rewrite prepend_nil. reflexivity.
Qed.

(* more fuel changes nothing *)
Lemma read_until_fuel_irrelevant : forall fuel chunk s,
  0 < chunk -> List.length (remaining s) < fuel ->
  read_until_chunked fuel chunk [] s = read_until chunk s.
Proof.
  intros. rewrite read_until_abs_correct, read_until_chunked_abs, prepend_nil by assumption. reflexivity.
Qed.

Corollary read_until_chunk_indep : forall c1 c2 s,
  0 < c1 -> 0 < c2 -> read_until c1 s = read_until c2 s.
Proof. intros. rewrite !read_until_abs_correct by assumption. reflexivity. Qed.

(* ------------------------------------------------------------------------------------------------ *)
(* The abstract reading consumes exactly the bytes it returns.                                       *)

Lemma read_until_abs_exact : forall s b e s',
  read_until_abs s = (b, e, s') ->
  s_data s' = s_data s /\
  s_pos s' = s_pos s + List.length b /\
  b = firstn (List.length b) (remaining s) /\
  remaining s = b ++ remaining s' /\
  (wf_stream s -> wf_stream s').
Proof.
  intros s b e s' H. unfold read_until_abs in H.
  destruct (find_byte lf (remaining s) 0) as [i|] eqn:Ef; inversion H; subst; clear H; cbn [s_data s_pos].
  - pose proof (find_byte_bounds _ _ _ _ Ef) as Hb.
    assert (List.length (firstn (i + 1) (remaining s)) = i + 1) as Hl by (rewrite firstn_length; lia).
    rewrite Hl. repeat split.
    + destruct s as [data pos]. rewrite remaining_advance. cbn [s_data s_pos]. symmetry; apply firstn_skipn.
    + unfold wf_stream; cbn [s_data s_pos]. rewrite remaining_length in Hb. lia.
  - repeat split.
    + symmetry; apply firstn_all.
    + destruct s as [data pos]. rewrite remaining_advance. cbn [s_data s_pos].
      rewrite skipn_all, app_nil_r. reflexivity.
    + unfold wf_stream; cbn [s_data s_pos]. rewrite remaining_length. lia.
Qed.

(* what is returned: a line ending in the first LF, or (eof) everything left and it has no LF *)
Lemma read_until_abs_shape : forall s b e s',
  read_until_abs s = (b, e, s') ->
  (e = false -> exists l, b = l ++ [lf] /\ ~ In lf l) /\
  (e = true -> b = remaining s /\ ~ In lf b).
Proof.
  intros s b e s' H. unfold read_until_abs in H.
  destruct (find_byte lf (remaining s) 0) as [i|] eqn:Ef; inversion H; subst; clear H; split; try discriminate; intros _.
  - destruct (find_byte_some_spec _ _ _ Ef) as [A B].
    exists (firstn i (remaining s)). split.
    + apply nth_error_split in A. destruct A as (l1 & l2 & Hr & Hlen). rewrite Hr.
      rewrite !firstn_app. subst i.
      rewrite firstn_all2 by lia. rewrite firstn_all.
      replace (List.length l1 + 1 - List.length l1) with 1 by lia. rewrite Nat.sub_diag. cbn. rewrite app_nil_r. reflexivity.
    + intro Hin. apply In_nth_error in Hin. destruct Hin as [j Hj].
      assert (j < i) as Hji.
      { assert (j < List.length (firstn i (remaining s))) by (apply nth_error_Some; congruence).
        rewrite firstn_length in *. lia. }
      apply (B j Hji). rewrite <- Hj.
      rewrite <- (firstn_skipn i (remaining s)) at 1.
      apply nth_error_app1. apply nth_error_Some; congruence.
  - split; [reflexivity|]. apply find_byte_none_spec; assumption.
Qed.

(* C17, position part: after _read_until the stream is again well-formed, its data is untouched, and its position
   is exactly the old position plus the number of bytes returned, which are exactly the next bytes of the stream:
   nothing lost, duplicated or re-read; what remains is what was there minus the returned prefix. *)
Theorem read_until_position_exact : forall chunk s b e s',
  0 < chunk -> wf_stream s ->
  read_until chunk s = Ok (b, e, s') ->
  wf_stream s' /\
  s_data s' = s_data s /\
  s_pos s' = s_pos s + List.length b /\
  b = firstn (List.length b) (remaining s) /\
  remaining s = b ++ remaining s'.
Proof.
  intros chunk s b e s' Hc Hwf H. rewrite read_until_abs_correct in H by assumption.
  inversion H as [H']. apply read_until_abs_exact in H'. destruct H' as (A & B & C & D & E). auto 6.
Qed.

(* ------------------------------------------------------------------------------------------------ *)
(* Lifting to the reader: the block size is used by read_until only.                                  *)

Lemma next_nonblank_chunk_indep : forall fuel c1 c2 s,
  0 < c1 -> 0 < c2 -> next_nonblank fuel c1 s = next_nonblank fuel c2 s.
Proof.
  induction fuel as [|f IH]; intros c1 c2 s H1 H2; cbn [next_nonblank]; [reflexivity|].
  rewrite (read_until_chunk_indep c1 c2 s H1 H2).
  destruct (read_until c2 s) as [[[line eof] s1]|err]; cbn [bind]; [|reflexivity].
  destruct eof; [reflexivity|]. destruct (nonempty (strip line)); [reflexivity|]. apply IH; assumption.
Qed.

Lemma read_header_chunk_indep : forall c1 c2 valid st,
  0 < c1 -> 0 < c2 -> read_header c1 valid st = read_header c2 valid st.
Proof.
  intros. unfold read_header. rewrite (next_nonblank_chunk_indep _ c1 c2) by assumption. reflexivity.
Qed.

Lemma iter_step_chunk_indep : forall orc c1 c2 st valid encs prev,
  0 < c1 -> 0 < c2 -> iter_step orc c1 st valid encs prev = iter_step orc c2 st valid encs prev.
Proof.
  intros. unfold iter_step. rewrite (read_header_chunk_indep c1 c2) by assumption. reflexivity.
Qed.

Lemma iter_loop_chunk_indep : forall fuel orc c1 c2 st valid encs prev acc,
  0 < c1 -> 0 < c2 ->
  iter_loop fuel orc c1 st valid encs prev acc = iter_loop fuel orc c2 st valid encs prev acc.
Proof.
  induction fuel as [|f IH]; intros orc c1 c2 st valid encs prev acc H1 H2; cbn [iter_loop]; [reflexivity|].
  rewrite (iter_step_chunk_indep orc c1 c2) by assumption.
  destruct (iter_step orc c2 st valid encs prev); try reflexivity. apply IH; assumption.
Qed.

(* C17, reader level *)
Theorem read_all_chunk_indep : forall orc c1 c2 data,
  0 < c1 -> 0 < c2 -> read_all orc c1 data = read_all orc c2 data.
Proof. intros. unfold read_all. apply iter_loop_chunk_indep; assumption. Qed.

(* ------------------------------------------------------------------------------------------------ *)
(* The streams the reader works on stay well-formed (so the position-exactness theorem applies at    *)
(* every header read of a run).                                                                      *)

Definition wf_rstate (st : rstate) : Prop := wf_stream (st_stream st).

Lemma next_nonblank_wf : forall fuel chunk s o s',
  0 < chunk -> wf_stream s -> next_nonblank fuel chunk s = Ok (o, s') ->
  wf_stream s' /\ s_data s' = s_data s /\ s_pos s <= s_pos s'.
Proof.
  induction fuel as [|f IH]; intros chunk s o s' Hc Hwf H; cbn [next_nonblank] in H; [discriminate|].
  destruct (read_until chunk s) as [[[line eof] s1]|err] eqn:E; cbn [bind] in H; [|discriminate].
  destruct (read_until_position_exact _ _ _ _ _ Hc Hwf E) as (A & B & C & _).
  destruct eof.
  - inversion H; subst. repeat split; auto; lia.
  - destruct (nonempty (strip line)).
    + inversion H; subst. repeat split; auto; lia.
    + destruct (IH _ _ _ _ Hc A H) as (A' & B' & C'). repeat split; auto; [congruence|lia].
Qed.

Lemma read_header_wf : forall chunk valid st level name id opts line st',
  0 < chunk -> wf_rstate st ->
  read_header chunk valid st = HdrOk level name id opts line st' -> wf_rstate st'.
Proof.
  intros chunk valid st level name id opts line st' Hc Hwf H. unfold read_header in H.
  destruct (next_nonblank _ chunk (st_stream st)) as [[[hdr|] s1]|err] eqn:E; try discriminate.
  apply next_nonblank_wf in E; [|assumption|exact Hwf]. destruct E as (A & _).
  destruct (negb _); [discriminate|].
  destruct (parse_header _ _); [|discriminate].
  inversion H; subst. exact A.
Qed.

Lemma read_content_wf : forall st len enc ind le keep p st',
  wf_rstate st -> read_content st len enc ind le keep = COk p st' -> wf_rstate st'.
Proof.
  intros st len enc ind le keep p st' Hwf H. unfold read_content in H. cbv zeta in H.
  match type of H with
  | context [sread ?n ?s] => pose proof (sread_wf n s Hwf) as Hs; destruct (sread n s) as [content s1]
  end.
  cbn [snd] in Hs.
  assert (forall (q : payload) (b : bool) (lines : list bytes),
            (if b then COk q {| st_stream := s1; st_linenum := (st_linenum st + Z.of_nat (List.length lines))%Z;
                               st_fnl := st_fnl st |} else CParse (st_linenum st)) = COk p st' -> wf_rstate st') as Hfin.
  { intros q b lines Q. destruct b; [|discriminate]. inversion Q; subst. exact Hs. }
  destruct (is_nil content); [discriminate|].
  repeat match type of H with
         | (match ?x with _ => _ end) = _ => destruct x eqn:?; try discriminate
         | (if ?x then _ else _) = _ => first [ apply Hfin in H; exact H | destruct x eqn:?; try discriminate ]
         end; try (apply Hfin in H; exact H).
  all: inversion H; subst; exact Hs.
Qed.

Lemma iter_step_wf : forall orc chunk st valid encs prev r st' valid' encs' prev',
  0 < chunk -> wf_rstate st ->
  iter_step orc chunk st valid encs prev = SYield r st' valid' encs' prev' -> wf_rstate st'.
Proof.
  intros orc chunk st valid encs prev r st' valid' encs' prev' Hc Hwf H. unfold iter_step in H.
  destruct (read_header chunk valid st) as [|level name id opts line st1|? ?|?] eqn:Eh; try discriminate.
  apply read_header_wf in Eh; [|assumption|assumption].
  repeat match type of H with
         | (match read_content ?a ?b ?c ?d ?e ?f with _ => _ end) = _ =>
             let E := fresh "Ec" in destruct (read_content a b c d e f) eqn:E; try discriminate;
             apply read_content_wf in E; [|assumption]
         | (match ?x with _ => _ end) = _ => destruct x eqn:?; try discriminate
         | (if ?x then _ else _) = _ => destruct x eqn:?; try discriminate
         end;
  inversion H; subst; assumption.
Qed.

(* ------------------------------------------------------------------------------------------------ *)
(* Block size 0 is different: fp.read(0) returns b'' and the reader sees end-of-file at once.        *)

Lemma read_until_chunk0 : forall s,
  read_until 0 s = Ok ([], true, {| s_data := s_data s; s_pos := s_pos s + 0 |}).
Proof. reflexivity. Qed.

Lemma read_all_chunk0 : forall orc data, read_all orc 0 data = ([], TEnd).
Proof. reflexivity. Qed.

Definition ex_stream : stream :=
  {| s_data := ["a"; "b"; "c"; "d"; x0a; "e"; "f"; x0a; "g"; "h"]%byte; s_pos := 0 |}.

Example read_until_chunk0_differs :
  read_until 0 ex_stream <> Ok (read_until_abs ex_stream) /\
  read_until 0 ex_stream = Ok ([], true, ex_stream).
Proof. split; [vm_compute; discriminate|reflexivity]. Qed.

Example read_until_ex :
  wf_stream ex_stream /\
  read_until 1 ex_stream = Ok (["a"; "b"; "c"; "d"; x0a]%byte, false, {| s_data := s_data ex_stream; s_pos := 5 |}) /\
  read_until 3 ex_stream = read_until 1 ex_stream /\
  read_until 96 ex_stream = read_until 1 ex_stream /\
  read_until_abs ex_stream = (["a"; "b"; "c"; "d"; x0a]%byte, false, {| s_data := s_data ex_stream; s_pos := 5 |}).
Proof. split; [unfold wf_stream; cbn; lia|]. repeat split; vm_compute; reflexivity. Qed.

(* ------------------------------------------------------------------------------------------------ *)
(* Every reader state reachable in a run has a well-formed stream.                                   *)

Inductive reachable (orc : oracle) (chunk : nat) (data : bytes)
  : rstate -> list bytes -> list (option pv) -> nat -> Prop :=
| reach_init :
    reachable orc chunk data
              {| st_stream := {| s_data := data; s_pos := 0 |}; st_linenum := 0%Z; st_fnl := None |}
              [GenSections.sec_main] [None] 0
| reach_step : forall st valid encs prev r st' valid' encs' prev',
    reachable orc chunk data st valid encs prev ->
    iter_step orc chunk st valid encs prev = SYield r st' valid' encs' prev' ->
    reachable orc chunk data st' valid' encs' prev'.

Theorem reachable_wf : forall orc chunk data st valid encs prev,
  0 < chunk -> reachable orc chunk data st valid encs prev -> wf_rstate st.
Proof.
  intros orc chunk data st valid encs prev Hc H. induction H.
  - apply wf_initial.
  - eapply iter_step_wf; eauto.
Qed.

(* the states reachable do not depend on the block size either *)
Theorem reachable_chunk_indep : forall orc c1 c2 data st valid encs prev,
  0 < c1 -> 0 < c2 -> reachable orc c1 data st valid encs prev -> reachable orc c2 data st valid encs prev.
Proof.
  intros orc c1 c2 data st valid encs prev H1 H2 H. induction H.
  - constructor.
  - econstructor; [eassumption|]. rewrite (iter_step_chunk_indep orc c2 c1) by assumption. eassumption.
Qed.

(* ------------------------------------------------------------------------------------------------ *)
(* A concrete file: headers of different lengths, content after headers, read with several block     *)
(* sizes (1: every header spans many blocks; 7; 96: the default, several headers and contents inside *)
(* one block; 1000: the whole file in one block).                                                    *)

Import String.StringSyntax.
Local Open Scope string_scope.
Local Open Scope list_scope.

Definition ex_nl : bytes := [x0a].
Definition ex_file : bytes :=
  B "#diffx: encoding=utf-8, version=1.0" ++ ex_nl ++
  B "#.preamble: length=6" ++ ex_nl ++
  B "hello" ++ ex_nl ++
  B "#.change:" ++ ex_nl ++
  B "#..file:" ++ ex_nl ++
  B "#...meta: format=json, length=3" ++ ex_nl ++
  B "{}" ++ ex_nl ++
  B "#...diff: length=10" ++ ex_nl ++
  B "--- a" ++ ex_nl ++ B "+b" ++ ex_nl ++ ex_nl.
Definition ex_orc : oracle := [("s"%byte :: B "{}" ++ ex_nl, LoadsOk (JObj []))].

Example read_all_ex :
  map r_payload (fst (read_all ex_orc 96 ex_file)) =
    [PNone; PText [104; 101; 108; 108; 111; 10]%N; PNone; PNone; PMeta (JObj []);
     PBytes (B "--- a" ++ ex_nl ++ B "+b" ++ ex_nl ++ ex_nl)] /\
  snd (read_all ex_orc 96 ex_file) = TEnd /\
  read_all ex_orc 1 ex_file = read_all ex_orc 96 ex_file /\
  read_all ex_orc 7 ex_file = read_all ex_orc 96 ex_file /\
  read_all ex_orc 1000 ex_file = read_all ex_orc 96 ex_file.
Proof. repeat split; vm_compute; reflexivity. Qed.

(* with block size 0 the same file yields no record at all: 0 < chunk is necessary *)
Example read_all_chunk0_differs :
  read_all ex_orc 0 ex_file = ([], TEnd) /\ read_all ex_orc 0 ex_file <> read_all ex_orc 96 ex_file.
Proof. split; [reflexivity|vm_compute; discriminate]. Qed.
