(* C07 at file level: truncating a structurally well-formed file (any producer) at any byte position.
   Composition of TruncationFacts.truncation_partial (any data) with SpecReaderFacts.C03_reads_spec (the intact
   well-formed file is read to exactly the specification's records): the comparison is now with the SPECIFICATION's
   reading of the intact file, not with another run of the reader. *)
From Coq Require Import List Arith NArith ZArith Bool Strings.Byte Lia.
From Coq Require Strings.String.
From DX Require Import Bytes Res Codec Text Sections Header Stream Json Reader SectionsSpec
                       SpecReader SpecReaderBase SpecReaderFacts StreamFacts TruncationFacts.
Import ListNotations.
Import String.StringSyntax.
Local Open Scope string_scope.
Local Open Scope list_scope.

Theorem file_truncation_partial : forall f orc chunk k,
  wf_file f = true -> oracle_ok_file orc f -> 0 < chunk ->
  (Z.of_nat (length (render_file f)) <= sys_maxsize)%Z ->
  k <= length (render_file f) ->
  let resT := read_all orc chunk (firstn k (render_file f)) in
  exists rs1 extra,
    fst resT = rs1 ++ extra /\ prefix rs1 (spec_records f) /\ List.length extra <= 1 /\
    (forall r, extra = [r] ->
       is_content (r_id r) = true /\
       (exists n, opt_get "length" (r_opts r) = Some (VInt n) /\ (0 < n)%Z) /\
       (exists st valid encs prev,
           reachable orc chunk (firstn k (render_file f)) st valid encs prev /\
           short_read orc chunk st valid encs prev r) /\
       (forall r', nth_error (spec_records f) (List.length rs1) = Some r' -> hdr_eq r r') /\
       snd resT = TEnd) /\
    snd resT <> TFuel.
Proof.
  intros f orc chunk k Hwf Horc Hc Hmax Hk.
  pose proof (truncation_partial orc chunk (render_file f) k Hc Hk) as H.
  cbv zeta in H. rewrite (C03_reads_spec f orc chunk Hwf Horc Hc Hmax) in H. cbn [fst snd] in H.
  cbv zeta. exact H.
Qed.

(* the full statement for well-formed files, under the negation of the recorded finding's signature *)
Corollary file_truncation_without_short_read : forall f orc chunk k,
  wf_file f = true -> oracle_ok_file orc f -> 0 < chunk ->
  (Z.of_nat (length (render_file f)) <= sys_maxsize)%Z ->
  k <= length (render_file f) ->
  (forall st valid encs prev r,
      reachable orc chunk (firstn k (render_file f)) st valid encs prev -> ~ short_read orc chunk st valid encs prev r) ->
  prefix (fst (read_all orc chunk (firstn k (render_file f)))) (spec_records f).
Proof.
  intros f orc chunk k Hwf Horc Hc Hmax Hk Hno.
  pose proof (truncation_without_short_read orc chunk (render_file f) k Hc Hk Hno) as H.
  rewrite (C03_reads_spec f orc chunk Hwf Horc Hc Hmax) in H. exact H.
Qed.

(* cutting exactly at the end of a section (a header line or a whole content) is never a short read: every prefix of
   the sections of a well-formed file that is itself well-formed reads to exactly its own records *)
Corollary file_truncation_whole : forall f orc chunk,
  wf_file f = true -> oracle_ok_file orc f -> 0 < chunk ->
  (Z.of_nat (length (render_file f)) <= sys_maxsize)%Z ->
  read_all orc chunk (firstn (length (render_file f)) (render_file f)) = (spec_records f, TEnd).
Proof.
  intros f orc chunk Hwf Horc Hc Hmax. rewrite firstn_all. exact (C03_reads_spec f orc chunk Hwf Horc Hc Hmax).
Qed.
