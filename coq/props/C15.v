(* C15 — newline and BOM handling depends on the codec, not on how its name is spelled.
   Statements only; proofs are in theories/SpellingFacts.v. The catalogue GenCodecs.rows is regenerated from the
   running CPython and pydiffx's BOMS table on every run, so these are re-checked against what the code says now. *)
From Coq Require Import List.
From DX Require Import Bytes Text SpellingFacts.
From DXGen Require GenCodecs.

(* For every stateless text codec spelling in the catalogue, the newline the library derives (strip_bom over the BOMS
   table, keyed through the codec's canonical name) is exactly the BOM-free encoding of LF / CRLF in that codec. *)
Theorem C15_rows :
  forall r, In r GenCodecs.rows -> GenCodecs.cr_stateless r = true ->
    lib_newline r false = GenCodecs.cr_lf_mid r /\ lib_newline r true = GenCodecs.cr_crlf_mid r.
Proof. exact rows_newline. Qed.
Print Assumptions C15_rows.

(* Two spellings of the same codec give the same newline bytes. *)
Theorem C15_spelling :
  forall r1 r2, In r1 GenCodecs.rows -> In r2 GenCodecs.rows ->
    GenCodecs.cr_stateless r1 = true -> GenCodecs.cr_stateless r2 = true ->
    GenCodecs.cr_canonical r1 = GenCodecs.cr_canonical r2 ->
    lib_newline r1 false = lib_newline r2 false /\ lib_newline r1 true = lib_newline r2 true.
Proof. exact spelling_independent. Qed.
Print Assumptions C15_spelling.

(* The catalogue is the finite domain of the two theorems above; its size is part of the statement. *)
Theorem C15_domain : length GenCodecs.rows = GenCodecs.row_count.
Proof. exact row_count_ok. Qed.
Print Assumptions C15_domain.

(* The executable codecs of the model agree with the catalogue for every spelling that maps to them. *)
Theorem C15_model_codecs : forallb model_row_ok GenCodecs.rows = true.
Proof. exact model_rows_ok. Qed.
Print Assumptions C15_model_codecs.
