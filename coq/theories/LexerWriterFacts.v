(* LexerWriterFacts.v — C20, second half, gap (a): every UTF-8 output of the WRITER model (Writer.v) whose contents
   contain no "#." is the rendering of a well-formed abstract document of LexerHeaderFacts.v ([wf_doc]), whose
   section headers are the ones the calls determine; composed with [LexerHeaderFacts.headers_thm] this gives the
   statement about the lexer model for writer outputs.

   Route: C02_writer_is_spec (SpecSerializerFacts.v) turns the writer's state machine into the specification's
   serializer, a concatenation of sections [header dots name opts ++ body]; here
     1. [spec_parts]/[doc_of_calls]: the same walk, returning the PARTS of every section and, decoded with the strict
        UTF-8 decoder of Codec.v, the abstract document;
     2. header lines are ASCII without LF (option values are in the option-value grammar); the body of a content
        section is valid UTF-8, non-empty, and its decoded text has no "#." (LexerWriterUtf.v: appending the newline
        and indenting with spaces creates none);
     3. the two theorems.
   Proof file: nothing of the model is changed here. *)
From Coq Require Import List Arith NArith ZArith Bool Strings.Byte Lia ZifyBool.
From Coq Require Import Sorting.Permutation.
From Coq Require Strings.String.
From DX Require Import Bytes Res Codec Text Sections Header Json Writer.
From DX Require HeaderFacts TextFacts WriterFacts Encodings.
From DX Require Import WriterCanonFacts RoundTripBase RoundTripContent RoundTripSim RoundTrip RoundTripCodec.
From DX Require Import SpecSerializer SpecSerializerFacts LexerWriterUtf.
From DX Require Lexer LexerFacts LexerHeaderFacts.
From DXGen Require GenSections GenText GenCodecs GenLexer.
Import ListNotations.
Import String.StringSyntax.
Local Open Scope string_scope.
Local Open Scope list_scope.

Module LH := LexerHeaderFacts.

(* ================================================================================================ *)
(** * 0. the premises, as decidable predicates on the arguments *)

(* a catalogue spelling of utf-8 ("utf-8", "UTF-8", "utf8", "U8", ...: every row of GenCodecs.rows whose canonical
   name is utf-8) *)
Definition is_u8 (eb : bytes) : bool :=
  match lookup_codec eb with Codec.LOk canon _ => beq canon (B "utf-8") | _ => false end.
Definition u8_opt (o : option bytes) : bool := match o with None => true | Some eb => is_u8 eb end.
(* an encoding argument: None, or a str that is a utf-8 spelling *)
Definition u8_arg (v : wv) : bool := match str_arg v with Some o => u8_opt o | None => false end.
(* the constructor's encoding: a utf-8 spelling *)
Definition u8_main (v : wv) : bool := match str_arg v with Some (Some eb) => is_u8 eb | _ => false end.

Definition call_enc (c : call) : wv :=
  match c with
  | NewChange e | NewFile e => e
  | WritePreamble _ e _ _ _ => e
  | WriteMeta _ e _ => e
  | WriteDiff _ _ e _ => e
  end.

(* every encoding in force is UTF-8 *)
Definition encodings_utf8 (enc0 : wv) (cs : list call) : bool :=
  u8_main enc0 && forallb (fun c => u8_arg (call_enc c)) cs.

(* the content AS GIVEN has no "#.": the preamble text; the canonical JSON text of the metadata; the diff bytes, which
   must be valid UTF-8, decoded *)
Definition content_clean (c : call) : bool :=
  match c with
  | WritePreamble (WStr t) _ _ _ _ => negb (LH.has_marker t)
  | WriteMeta (WDict j) _ _ =>
      match json_dump j with Ok d => negb (LH.has_marker (map byte_n d)) | Err _ => true end
  | WriteDiff (WBytes b) _ _ _ =>
      match u8_dec b with Some t => negb (LH.has_marker t) | None => false end
  | _ => true
  end.
Definition contents_no_marker (cs : list call) : bool := forallb content_clean cs.

(* the header tokens the calls determine: by nesting depth (0 main, 1 in a change, 2 in a file) *)
Definition call_header (d : nat) (c : call) : text :=
  match c with
  | NewChange _ => LH.h_change
  | NewFile _ => LH.h_file
  | WritePreamble _ _ _ _ _ => match d with 0 => LH.h_pre1 | _ => LH.h_pre2 end
  | WriteMeta _ _ _ => match d with 0 => LH.h_meta1 | 1 => LH.h_meta2 | _ => LH.h_meta3 end
  | WriteDiff _ _ _ _ => LH.h_diff
  end.
Definition next_depth (d : nat) (c : call) : nat :=
  match c with NewChange _ => 1 | NewFile _ => 2 | _ => d end.
Fixpoint headers_from (d : nat) (cs : list call) : list text :=
  match cs with
  | [] => []
  | c :: t => call_header d c :: headers_from (next_depth d c) t
  end.
Definition expected_headers (cs : list call) : list text := LH.h_diffx :: headers_from 0 cs.

(* ================================================================================================ *)
(** * 1. the walk of the specification's serializer, returning parts; the abstract document *)

Definition parts := (nat * bytes * list (bytes * option bytes) * bytes)%type.
Definition asm (p : parts) : bytes := match p with (d, n, o, b) => header d n o ++ b end.

Definition container_parts (dots : nat) (name : bytes) (own : option bytes) : parts :=
  (dots, name, [(B "encoding", own)], []).
Definition content_parts (dots : nat) (name : bytes) (own : option bytes) (ind : option nat)
           (le : option bytes) (extra : bytes * option bytes) (body : bytes) : parts :=
  (dots, name, [(B "encoding", own); (B "indent", option_map dec ind); (B "length", Some (dec (length body)));
                (B "line_endings", le); extra], body).

Lemma asm_container : forall dots name own, asm (container_parts dots name own) = container_section dots name own.
Proof. intros. unfold asm, container_parts, container_section. apply app_nil_r. Qed.
Lemma asm_content : forall dots name own ind le extra body,
  asm (content_parts dots name own ind le extra body) = content_section dots name own ind le extra body.
Proof. reflexivity. Qed.

(* [SpecSerializer.spec_call] with [container_section]/[content_section] left unassembled *)
Definition spec_parts (e0 : option bytes) (h : hist) (c : call) : option (parts * hist) :=
  let d := depth h in
  match c with
  | NewChange e =>
      olet own <- str_arg e;
      Some (container_parts 1 (B "change") own, h ++ [Encodings.TChange own])
  | NewFile e =>
      if Nat.leb 1 d then
        olet own <- str_arg e;
        Some (container_parts 2 (B "file") own, h ++ [Encodings.TFile own])
      else None
  | WritePreamble (WStr t) enc ind le mt =>
      if Nat.leb d 1 then
        olet own <- str_arg enc;
        olet k <- spec_indent_arg ind;
        olet mime <- choice_arg spec_mimetypes mt;
        olet kind <- line_kind_text le t;
        olet eb <- effective e0 h own;
        if is_nil t then None else
        olet body <- text_body eb kind t k;
        Some (content_parts (S d) (B "preamble") own k (Some kind) (B "mimetype", mime) body, h)
      else None
  | WritePreamble _ _ _ _ _ => None
  | WriteMeta (WDict (JObj kv)) enc fmt =>
      olet own <- str_arg enc;
      olet f <- format_arg fmt;
      if is_nil kv then None else
      match json_dump (JObj kv) with
      | Ok d0 =>
          match effective e0 h own with
          | Some eb =>
              olet body <- text_body eb (B "unix") (map byte_n d0) None;
              Some (content_parts (S d) (B "meta") own None None (B "format", Some f) body, h)
          | None =>
              Some (content_parts (S d) (B "meta") own None None (B "format", Some f) (terminate LFb d0), h)
          end
      | Err _ => None
      end
  | WriteMeta _ _ _ => None
  | WriteDiff (WBytes b) dt enc le =>
      if Nat.eqb d 2 then
        olet own <- str_arg enc;
        olet ty <- choice_arg spec_diff_types dt;
        olet kind <- line_kind_bytes le own b;
        if is_nil b then None else
        olet body <- diff_body own kind b;
        Some (content_parts 3 (B "diff") own None (Some kind) (B "type", ty) body, h)
      else None
  | WriteDiff _ _ _ _ => None
  end.

Lemma spec_call_parts : forall e0 h c,
  spec_call e0 h c = option_map (fun ph => (asm (fst ph), snd ph)) (spec_parts e0 h c).
Proof.
  intros e0 h c. unfold spec_call, spec_parts.
  destruct c as [e|e|tx enc ind le mt|md enc fmt|ct dt enc le].
  - destruct (str_arg e); cbn [obind option_map fst snd]; [rewrite asm_container|]; reflexivity.
  - destruct (Nat.leb 1 (depth h)); [|reflexivity].
    destruct (str_arg e); cbn [obind option_map fst snd]; [rewrite asm_container|]; reflexivity.
  - destruct tx; try reflexivity. destruct (Nat.leb (depth h) 1); [|reflexivity].
    destruct (str_arg enc); cbn [obind]; [|reflexivity].
    destruct (spec_indent_arg ind); cbn [obind]; [|reflexivity].
    destruct (choice_arg spec_mimetypes mt); cbn [obind]; [|reflexivity].
    destruct (line_kind_text le t); cbn [obind]; [|reflexivity].
    destruct (effective e0 h o); cbn [obind]; [|reflexivity].
    destruct (is_nil t); [reflexivity|].
    destruct (text_body _ _ _ _); cbn [obind]; reflexivity.
  - destruct md; try reflexivity. destruct j; try reflexivity.
    destruct (str_arg enc); cbn [obind]; [|reflexivity].
    destruct (format_arg fmt); cbn [obind]; [|reflexivity].
    destruct (is_nil kv); [reflexivity|].
    destruct (json_dump (JObj kv)); [|reflexivity].
    destruct (effective e0 h o); [|reflexivity].
    destruct (text_body _ _ _ _); cbn [obind]; reflexivity.
  - destruct ct; try reflexivity. destruct (Nat.eqb (depth h) 2); [|reflexivity].
    destruct (str_arg enc); cbn [obind]; [|reflexivity].
    destruct (choice_arg spec_diff_types dt); cbn [obind]; [|reflexivity].
    destruct (line_kind_bytes le o b); cbn [obind]; [|reflexivity].
    destruct (is_nil b); [reflexivity|].
    destruct (diff_body _ _ _); cbn [obind]; reflexivity.
Qed.

(* the abstract section of LexerHeaderFacts.v that a section's parts denote: the header token, the option text
   (None when no option is present), and the body decoded as UTF-8 *)
Definition opts_text (o : list (bytes * option bytes)) : option text :=
  match spec_pairs o with
  | [] => None
  | ps => Some (map byte_n (join (B ", ") (map HeaderFacts.render_pair ps)))
  end.
Definition hdr_text (dots : nat) (name : bytes) : text :=
  map byte_n (B "#" ++ repeat_b "."%byte dots ++ name ++ B ":").
Definition sec_of (p : parts) : option LH.section :=
  match p with
  | (d, n, o, b) =>
      olet tb <- u8_dec b;
      Some {| LH.s_hdr := hdr_text d n; LH.s_opts := opts_text o; LH.s_body := tb |}
  end.

Fixpoint doc_walk (e0 : option bytes) (h : hist) (cs : list call) : option (list LH.section) :=
  match cs with
  | [] => Some []
  | c :: t =>
      olet ph <- spec_parts e0 h c;
      olet s <- sec_of (fst ph);
      olet rest <- doc_walk e0 (snd ph) t;
      Some (s :: rest)
  end.

(* the abstract document of DiffXWriter(enc0, ver) followed by the calls *)
Definition doc_of_calls (enc0 ver : wv) (cs : list call) : option (list LH.section) :=
  olet e0 <- str_arg enc0;
  olet vo <- choice_arg spec_versions ver;
  olet v <- vo;
  olet s0 <- sec_of (0, B "diffx", [(B "encoding", e0); (B "version", Some v)], []);
  olet rest <- doc_walk e0 [] cs;
  Some (s0 :: rest).

(* ================================================================================================ *)
(** * 2. utf-8 spellings: the codec, the newlines *)

Lemma is_u8_lookup : forall eb, is_u8 eb = true -> lookup_codec eb = Codec.LOk (B "utf-8") utf8.
Proof.
  intros eb H. unfold is_u8 in H. destruct (lookup_codec eb) as [canon c| |] eqn:E; try discriminate H.
  apply TextFacts.beq_eq in H. subst canon. pose proof (lookup_modelled _ _ _ E) as Hm.
  assert (E8 : assoc_get beq (B "utf-8") modelled = Some utf8) by reflexivity.
  rewrite E8 in Hm. injection Hm as <-. reflexivity.
Qed.

Lemma py_encode_u8 : forall t eb cb, is_u8 eb = true -> py_encode t eb = Ok cb -> u8_dec cb = Some t.
Proof.
  intros t eb cb H E. unfold py_encode in E. rewrite (is_u8_lookup eb H) in E. cbn [c_enc utf8] in E.
  destruct (u8_enc t) eqn:Eu; [|discriminate E]. injection E as <-. apply u8_dec_enc. exact Eu.
Qed.

Lemma is_u8_row : forall eb, is_u8 eb = true ->
  exists r, In r GenCodecs.rows /\ eb = GenCodecs.cr_spelling r /\ beq (GenCodecs.cr_canonical r) (B "utf-8") = true.
Proof.
  intros eb H. unfold is_u8, lookup_codec in H. destruct (find_row eb GenCodecs.rows) as [r|] eqn:F; [|discriminate H].
  apply TextFacts.find_row_some in F. destruct F as [Hin ->]. exists r. split; [exact Hin|]. split; [reflexivity|].
  destruct (assoc_get beq (GenCodecs.cr_canonical r) modelled); [exact H|discriminate H].
Qed.

(* the BOM-free encoded newline of every kind, in ASCII and in every spelling of utf-8: LF or CR LF *)
Definition two_newlines (nl : bytes) : bool := beq nl [x0a] || beq nl [x0d; x0a].
Definition nl_row_ok (e : bytes) : bool :=
  forallb (fun p => match get_newline_for_type (fst p) (Some e) with Ok nl => two_newlines nl | Err _ => true end)
          GenText.newline_formats.

Lemma nl_rows_b :
  nl_row_ok (B "ascii") = true /\
  forallb (fun r => negb (beq (GenCodecs.cr_canonical r) (B "utf-8")) || nl_row_ok (GenCodecs.cr_spelling r))
          GenCodecs.rows = true.
Proof. split; vm_compute; reflexivity. Qed.

Lemma nl_row_ok_u8 : forall o, u8_opt o = true -> nl_row_ok (enc_or_ascii o) = true.
Proof.
  intros [eb|] H; [|exact (proj1 nl_rows_b)]. cbn [u8_opt] in H. destruct (is_u8_row eb H) as (r & Hin & -> & Hc).
  pose proof (proj2 nl_rows_b) as Hall. rewrite forallb_forall in Hall. specialize (Hall r Hin).
  rewrite Hc in Hall. exact Hall.
Qed.

Lemma nl_cases : forall kind own nl, u8_opt own = true -> get_newline_for_type kind own = Ok nl ->
  nl = [x0a] \/ nl = [x0d; x0a].
Proof.
  intros kind own nl Hu H. pose proof (nl_row_ok_u8 own Hu) as Hr. unfold nl_row_ok in Hr. rewrite forallb_forall in Hr.
  assert (Hk : exists nlt, In (kind, nlt) GenText.newline_formats).
  { unfold get_newline_for_type in H. destruct (assoc_get beq kind GenText.newline_formats) as [nlt|] eqn:E; [|discriminate H].
    exists nlt. clear -E. induction GenText.newline_formats as [|[k v] l IH]; [discriminate E|]. cbn [assoc_get] in E.
    destruct (beq kind k) eqn:Ek; [apply TextFacts.beq_eq in Ek; injection E as <-; subst k; left; reflexivity|].
    right. exact (IH E). }
  destruct Hk as (nlt & Hin). specialize (Hr _ Hin). cbn [fst] in Hr.
  assert (E : get_newline_for_type kind (Some (enc_or_ascii own)) = get_newline_for_type kind own) by (destruct own; reflexivity).
  rewrite E, H in Hr. unfold two_newlines in Hr. apply orb_true_iff in Hr.
  destruct Hr as [Hr|Hr]; apply TextFacts.beq_eq in Hr; auto.
Qed.

(* ================================================================================================ *)
(** * 3. header lines: ASCII without LF *)

Definition hchar (x : byte) : bool := N.ltb (byte_n x) 128 && negb (N.eqb (byte_n x) 10).
Definition hclean (v : bytes) : bool := forallb hchar v.

Lemma val_char_hchar : forall x, val_char x = true -> hchar x = true.
Proof. intros x; destruct x; intros H; try reflexivity; vm_compute in H; discriminate H. Qed.

Lemma val_ok_hclean : forall v, val_ok v = true -> hclean v = true.
Proof.
  intros v H. unfold val_ok in H. apply andb_true_iff in H. destruct H as [_ H].
  induction v as [|x v IH]; [reflexivity|]. cbn [all_b] in H. apply andb_true_iff in H. destruct H as [Hx Hv].
  cbn [hclean forallb]. rewrite (val_char_hchar x Hx). exact (IH Hv).
Qed.

Lemma spec_val_hclean : forall v, HeaderFacts.spec_val v -> hclean v = true.
Proof. intros v H. apply val_ok_hclean. apply HeaderFacts.spec_val_iff. exact H. Qed.

Lemma is_u8_hclean : forall eb, is_u8 eb = true -> hclean eb = true.
Proof.
  intros eb H. destruct (is_u8_row eb H) as (r & Hin & -> & _). apply val_ok_hclean.
  pose proof spellings_b as Hb. rewrite forallb_forall in Hb. exact (Hb r Hin).
Qed.

Lemma dec_hclean : forall n, hclean (dec n) = true.
Proof. intros n. apply spec_val_hclean. apply Z_to_dec_spec_val. Qed.

Lemma hclean_app : forall a b, hclean (a ++ b) = hclean a && hclean b.
Proof. intros. apply forallb_app. Qed.

Lemma hclean_ascii : forall v, hclean v = true -> Forall (fun x => (byte_n x < 128)%N) v.
Proof.
  induction v as [|x v IH]; intros H; [constructor|]. cbn [hclean forallb] in H. apply andb_true_iff in H.
  destruct H as [Hx Hv]. constructor; [|exact (IH Hv)]. unfold hchar in Hx. lia.
Qed.

Lemma hclean_notlf : forall v, hclean v = true -> forallb LH.notlf (map byte_n v) = true.
Proof.
  induction v as [|x v IH]; intros H; [reflexivity|]. cbn [hclean forallb] in H. apply andb_true_iff in H.
  destruct H as [Hx Hv]. cbn [map forallb]. rewrite (IH Hv), andb_true_r. apply LH.notlf_spec. unfold hchar in Hx. lia.
Qed.

Definition pair_clean (kv : bytes * option bytes) : bool :=
  hclean (fst kv) && match snd kv with Some v => hclean v | None => true end.
Definition opts_clean (o : list (bytes * option bytes)) : bool := forallb pair_clean o.
Definition parts_clean (p : parts) : bool := match p with (d, n, o, b) => hclean n && opts_clean o end.

Definition rpair_clean (p : bytes * bytes) : Prop := hclean (fst p) = true /\ hclean (snd p) = true.

Lemma spec_pairs_clean : forall o, opts_clean o = true -> Forall rpair_clean (spec_pairs o).
Proof.
  intros o H. unfold spec_pairs.
  apply (Permutation_Forall (isort_perm (fun a b : bytes * bytes => bytes_leb (fst a) (fst b)) (opt_pairs o))).
  unfold opt_pairs. induction o as [|[k [v|]] o IH]; cbn [flat_map snd fst app]; [constructor| |].
  - cbn [opts_clean forallb] in H. apply andb_true_iff in H. destruct H as [Hp Ho].
    unfold pair_clean in Hp. cbn [fst snd] in Hp. apply andb_true_iff in Hp.
    constructor; [exact Hp|exact (IH Ho)].
  - cbn [opts_clean forallb] in H. apply andb_true_iff in H. exact (IH (proj2 H)).
Qed.

Lemma join_clean : forall ps, Forall rpair_clean ps -> hclean (join (B ", ") (map HeaderFacts.render_pair ps)) = true.
Proof.
  induction ps as [|p ps IH]; intros H; [reflexivity|]. inversion H as [|? ? [Hk Hv] Hps]; subst.
  assert (Hp : hclean (HeaderFacts.render_pair p) = true).
  { unfold HeaderFacts.render_pair. rewrite !hclean_app, Hk, Hv. reflexivity. }
  destruct ps as [|q ps]; [exact Hp|].
  change (join (B ", ") (map HeaderFacts.render_pair (p :: q :: ps)))
    with (HeaderFacts.render_pair p ++ B ", " ++ join (B ", ") (map HeaderFacts.render_pair (q :: ps))).
  rewrite !hclean_app, Hp, (IH Hps). reflexivity.
Qed.

Lemma repeat_dot_clean : forall d, hclean (repeat_b "."%byte d) = true.
Proof. induction d as [|d IH]; [reflexivity|]. cbn [repeat_b hclean forallb]. exact IH. Qed.

(* a section, decoded: the header line is ASCII, so the text is the rendering of the abstract section *)
Lemma asm_dec : forall d n o b s, parts_clean (d, n, o, b) = true -> sec_of (d, n, o, b) = Some s ->
  u8_dec (asm (d, n, o, b)) = Some (LH.render s) /\ LH.nolf (LH.s_opts s).
Proof.
  intros d n o b s Hc Hs. cbn [parts_clean] in Hc. apply andb_true_iff in Hc. destruct Hc as [Hn Ho].
  cbn [sec_of] in Hs. destruct (u8_dec b) as [tb|] eqn:Eb; [|discriminate Hs]. cbn [obind] in Hs. injection Hs as <-.
  pose proof (spec_pairs_clean o Ho) as Hps.
  unfold LH.render. cbn [LH.s_hdr LH.s_opts LH.s_body asm].
  set (tail := match spec_pairs o with [] => [] | _ :: _ => B " " ++ join (B ", ") (map HeaderFacts.render_pair (spec_pairs o)) end).
  assert (Hline : header d n o = (B "#" ++ repeat_b "."%byte d ++ n ++ B ":") ++ tail ++ LFb).
  { unfold header, HeaderFacts.render_header. fold tail. rewrite <- !app_assoc. reflexivity. }
  assert (Htail : hclean tail = true /\ map byte_n tail = LH.optline (opts_text o) /\ LH.nolf (opts_text o)).
  { unfold tail, opts_text. destruct (spec_pairs o) as [|p ps] eqn:Ep; [repeat split|].
    pose proof (join_clean _ Hps) as Hj. split; [|split].
    - rewrite hclean_app, Hj. reflexivity.
    - rewrite map_app. reflexivity.
    - cbn [LH.nolf]. apply hclean_notlf. exact Hj. }
  destruct Htail as (Ht1 & Ht2 & Ht3). split; [|exact Ht3].
  rewrite Hline.
  assert (Hh : hclean (B "#" ++ repeat_b "."%byte d ++ n ++ B ":") = true).
  { rewrite !hclean_app, repeat_dot_clean, Hn. reflexivity. }
  erewrite u8_dec_app; [| |exact Eb].
  2:{ apply u8_dec_ascii. apply Forall_app. split; [apply hclean_ascii; exact Hh|].
      apply Forall_app. split; [apply hclean_ascii; exact Ht1|]. repeat constructor. }
  f_equal. unfold hdr_text. rewrite !map_app, Ht2, <- !app_assoc. reflexivity.
Qed.

(* ================================================================================================ *)
(** * 4. content bodies: valid UTF-8, non-empty, no "#." *)

Lemma has_marker_hm : forall t, LH.has_marker t = hm false t.
Proof.
  induction t as [|x t IH]; [reflexivity|]. destruct t as [|y t']; [cbn; rewrite ?andb_false_r; reflexivity|].
  change (LH.has_marker (x :: y :: t')) with ((N.eqb x 35 && N.eqb y 46) || LH.has_marker (y :: t')).
  rewrite IH. cbn [hm andb orb]. reflexivity.
Qed.

Lemma terminate_dec : forall nl c tc, nl = [x0a] \/ nl = [x0d; x0a] -> u8_dec c = Some tc ->
  exists tt, u8_dec (terminate nl c) = Some tt /\ (hm false tc = false -> hm false tt = false) /\ tt <> [].
Proof.
  intros nl c tc Hnl Hc. unfold terminate. destruct (bends nl c) eqn:Eb.
  - exists tc. split; [exact Hc|]. split; [auto|]. intros ->. apply u8_dec_nonempty in Hc. subst c.
    destruct Hnl as [-> | ->]; discriminate Eb.
  - exists (tc ++ map byte_n nl). split; [|split].
    + apply u8_dec_app; [exact Hc|]. destruct Hnl as [-> | ->]; reflexivity.
    + intros H. apply hm_neutral_suffix; [|exact H]. destruct Hnl as [-> | ->]; reflexivity.
    + intros E. apply app_eq_nil in E. destruct E as [_ E]. destruct Hnl as [-> | ->]; discriminate E.
Qed.

Lemma terminate_bends : forall nl c, bends nl (terminate nl c) = true.
Proof.
  intros nl c. unfold terminate. destruct (bends nl c) eqn:E; [exact E|]. apply TextFacts.bends_spec. exists c. reflexivity.
Qed.

Lemma terminated_lf : forall nl l, nl = [x0a] \/ nl = [x0d; x0a] -> TextFacts.b_terminated nl l -> lf_ended l.
Proof.
  intros nl l Hnl (body & -> & _). destruct Hnl as [-> | ->]; [exists body; reflexivity|].
  exists (body ++ [x0d]). rewrite <- app_assoc. reflexivity.
Qed.

(* text content (preamble, metadata) in a utf-8 spelling *)
Lemma text_body_dec : forall eb kind t k body, is_u8 eb = true -> hm false t = false ->
  text_body eb kind t k = Some body -> exists tb, u8_dec body = Some tb /\ tb <> [] /\ hm false tb = false.
Proof.
  intros eb kind t k body Hu Hm H. unfold text_body in H.
  destruct (get_newline_for_type kind (Some eb)) as [nl|] eqn:Enl; [|discriminate H].
  destruct (py_encode t eb) as [cb|] eqn:Ecb; [|discriminate H].
  pose proof (nl_cases kind (Some eb) nl Hu Enl) as Hnl.
  pose proof (py_encode_u8 t eb cb Hu Ecb) as Hcb.
  destruct (terminate_dec nl cb t Hnl Hcb) as (tt & Ht & Hmt & Hnt).
  destruct k as [k|].
  - unfold indent_lines in H. destruct (split_lines (terminate nl cb) nl true) as [ls|] eqn:Els; [|discriminate H].
    injection H as <-. destruct (TextFacts.model_newlines_unbordered _ _ _ Enl) as [Hn0 Hub].
    assert (Hc1 : terminate nl cb <> []).
    { intros E. rewrite E in Ht. cbn in Ht. injection Ht as Ht. apply Hnt. symmetry. exact Ht. }
    pose proof (TextFacts.C16b_concat _ _ _ Hc1 Hn0 Hub Els) as Hcat.
    destruct (TextFacts.C16b_shape _ _ _ Hc1 Hn0 Hub Els) as (init & lst & -> & Hinit & Hlast & _).
    assert (Hlf : Forall lf_ended (init ++ [lst])).
    { apply Forall_app. split.
      - eapply Forall_impl; [|exact Hinit]. intros l Hl. exact (terminated_lf nl l Hnl Hl).
      - constructor; [|constructor]. apply (terminated_lf nl lst Hnl). apply Hlast. apply terminate_bends. }
    rewrite <- Hcat in Ht. destruct (indent_dec k _ tt Hlf Ht) as (tb & Hb & Hmm & Hnn).
    exists tb. split; [exact Hb|]. split; [apply Hnn; destruct init; discriminate|]. apply Hmm, Hmt, Hm.
  - injection H as <-. exists tt. split; [exact Ht|]. split; [exact Hnt|exact (Hmt Hm)].
Qed.

(* diff content: valid UTF-8 bytes as given; own encoding absent or a utf-8 spelling *)
Lemma diff_body_dec : forall own kind b t body, u8_opt own = true -> u8_dec b = Some t -> hm false t = false ->
  diff_body own kind b = Some body -> exists tb, u8_dec body = Some tb /\ tb <> [] /\ hm false tb = false.
Proof.
  intros own kind b t body Hu Hb Hm H. unfold diff_body in H.
  destruct (get_newline_for_type kind own) as [nl|] eqn:Enl; [|discriminate H]. injection H as <-.
  destruct (terminate_dec nl b t (nl_cases kind own nl Hu Enl) Hb) as (tt & Ht & Hmt & Hnt).
  exists tt. split; [exact Ht|]. split; [exact Hnt|exact (Hmt Hm)].
Qed.

(* ================================================================================================ *)
(** * 5. option values are in the header alphabet *)

Lemma choice_arg_clean : forall set v o, forallb val_ok set = true -> choice_arg set v = Some o ->
  match o with Some x => hclean x = true | None => True end.
Proof.
  intros set v o Hset H. unfold choice_arg in H. destruct (str_arg v) as [[x|]|]; cbn [obind] in H; try discriminate H.
  - destruct (mem beq x set) eqn:Em; [|discriminate H]. injection H as <-.
    apply val_ok_hclean. rewrite forallb_forall in Hset. apply Hset. apply HeaderFacts.in_ids_In. exact Em.
  - injection H as <-. exact I.
Qed.

Lemma guess_text_clean : forall t, hclean (fst (guess_line_endings_text t)) = true.
Proof.
  intros t. unfold guess_line_endings_text. destruct (find N.eqb _ t); [destruct (suffixb _ _ _)|]; reflexivity.
Qed.

Lemma guess_bytes_clean : forall b own p, guess_line_endings_bytes b own = Ok p -> hclean (fst p) = true.
Proof.
  intros b own p H. unfold guess_line_endings_bytes in H.
  destruct (py_encode (nl_text GenText.le_unix) (enc_or_ascii own)); cbn [bind] in H; [|discriminate H].
  destruct (py_encode (nl_text GenText.le_dos) (enc_or_ascii own)); cbn [bind] in H; [|discriminate H].
  destruct (bfind _ b); [destruct (bends _ _)|]; injection H as <-; reflexivity.
Qed.

Lemma line_kind_text_clean : forall le t kind, line_kind_text le t = Some kind -> hclean kind = true.
Proof.
  intros le t kind H. unfold line_kind_text in H.
  destruct (choice_arg spec_line_endings le) as [o|] eqn:Ec; cbn [obind] in H; [|discriminate H].
  pose proof (choice_arg_clean spec_line_endings le o eq_refl Ec) as Hc.
  destruct o as [k|]; injection H as <-; [exact Hc|apply guess_text_clean].
Qed.

Lemma line_kind_bytes_clean : forall le own b kind, line_kind_bytes le own b = Some kind -> hclean kind = true.
Proof.
  intros le own b kind H. unfold line_kind_bytes in H.
  destruct (choice_arg spec_line_endings le) as [o|] eqn:Ec; cbn [obind] in H; [|discriminate H].
  pose proof (choice_arg_clean spec_line_endings le o eq_refl Ec) as Hc.
  destruct o as [k|]; [injection H as <-; exact Hc|].
  destruct (guess_line_endings_bytes b own) as [p|] eqn:Eg; [|discriminate H]. injection H as <-.
  exact (guess_bytes_clean b own p Eg).
Qed.

Lemma format_arg_clean : forall fmt f, format_arg fmt = Some f -> hclean f = true.
Proof.
  intros [v|] f H; cbn [format_arg] in H; [|injection H as <-; reflexivity].
  destruct (choice_arg spec_meta_formats v) as [o|] eqn:Ec; cbn [obind] in H; [|discriminate H]. subst o.
  exact (choice_arg_clean spec_meta_formats v (Some f) eq_refl Ec).
Qed.

Lemma u8_opt_clean : forall own, u8_opt own = true -> match own with Some v => hclean v | None => true end = true.
Proof. intros [eb|] H; [apply is_u8_hclean; exact H|reflexivity]. Qed.

(* ================================================================================================ *)
(** * 6. positions: every declared encoding is a utf-8 spelling *)

Definition hist_u8 (h : hist) : Prop := Forall (fun t => u8_opt (Encodings.decl t) = true) h.

Lemma enclosing_u8 : forall r : hist, hist_u8 r -> u8_opt (Encodings.enclosing_change r) = true.
Proof.
  induction r as [|[e|e] r IH]; intros H; [reflexivity| |]; inversion H as [|? ? Ht Hr]; subst; cbn [Encodings.enclosing_change].
  - exact Ht.
  - exact (IH Hr).
Qed.

Lemma orelse_u8 : forall a b : option bytes, u8_opt a = true -> u8_opt b = true -> u8_opt (Encodings.orelse a b) = true.
Proof. intros [x|] b Ha Hb; [exact Ha|exact Hb]. Qed.

Lemma effective_u8 : forall eb0 h own, is_u8 eb0 = true -> hist_u8 h -> u8_opt own = true ->
  exists eb, effective (Some eb0) h own = Some eb /\ is_u8 eb = true.
Proof.
  intros eb0 h own H0 Hh Ho. destruct own as [e|]; [exists e; split; [reflexivity|exact Ho]|].
  cbn [effective]. assert (Hs : u8_opt (Encodings.spec_effective (Some eb0) h) = true).
  { unfold Encodings.spec_effective. apply Forall_rev in Hh. destruct (rev h) as [|[e|e] r]; [exact H0| |];
      inversion Hh as [|? ? Ht Hr]; subst; cbn [Encodings.decl] in Ht.
    - apply orelse_u8; [exact Ht|exact H0].
    - apply orelse_u8; [exact Ht|]. apply orelse_u8; [apply enclosing_u8; exact Hr|exact H0]. }
  assert (Hsome : Encodings.spec_effective (Some eb0) h <> None).
  { unfold Encodings.spec_effective. destruct (rev h) as [|[[x|]|[x|]] r]; cbn [Encodings.orelse]; try discriminate.
    destruct (Encodings.enclosing_change r); discriminate. }
  destruct (Encodings.spec_effective (Some eb0) h) as [eb|]; [|congruence]. exists eb. split; [reflexivity|exact Hs].
Qed.

(* ================================================================================================ *)
(** * 7. one call: its section *)

Definition is_container (c : call) : bool := match c with NewChange _ | NewFile _ => true | _ => false end.

Lemma content_parts_clean : forall dots name own ind le extra body,
  hclean name = true -> u8_opt own = true -> match le with Some k => hclean k = true | None => True end ->
  pair_clean extra = true -> parts_clean (content_parts dots name own ind le extra body) = true.
Proof.
  intros dots name own ind le extra body Hn Ho Hle He.
  assert (P1 : pair_clean (B "encoding", own) = true)
    by (unfold pair_clean; cbn [fst snd]; rewrite (u8_opt_clean own Ho); reflexivity).
  assert (P2 : pair_clean (B "indent", option_map dec ind) = true)
    by (destruct ind; unfold pair_clean; cbn [fst snd option_map]; rewrite ?dec_hclean; reflexivity).
  assert (P3 : pair_clean (B "length", Some (dec (length body))) = true)
    by (unfold pair_clean; cbn [fst snd]; rewrite dec_hclean; reflexivity).
  assert (P4 : pair_clean (B "line_endings", le) = true)
    by (destruct le; unfold pair_clean; cbn [fst snd]; rewrite ?Hle; reflexivity).
  unfold content_parts, parts_clean, opts_clean. cbn [forallb]. rewrite Hn, P1, P2, P3, P4, He. reflexivity.
Qed.

Lemma container_parts_clean : forall dots name own,
  hclean name = true -> u8_opt own = true -> parts_clean (container_parts dots name own) = true.
Proof.
  intros dots name own Hn Ho.
  assert (P1 : pair_clean (B "encoding", own) = true)
    by (unfold pair_clean; cbn [fst snd]; rewrite (u8_opt_clean own Ho); reflexivity).
  unfold container_parts, parts_clean, opts_clean. cbn [forallb]. rewrite Hn, P1. reflexivity.
Qed.

Lemma u8_arg_inv : forall v, u8_arg v = true -> exists own, str_arg v = Some own /\ u8_opt own = true.
Proof. intros v H. unfold u8_arg in H. destruct (str_arg v) as [o|]; [eauto|discriminate H]. Qed.

Lemma hist_u8_snoc : forall h t, hist_u8 h -> u8_opt (Encodings.decl t) = true -> hist_u8 (h ++ [t]).
Proof. intros h t Hh Ht. apply Forall_app. split; [exact Hh|]. constructor; [exact Ht|constructor]. Qed.

Lemma negb_marker : forall t, negb (LH.has_marker t) = true -> hm false t = false.
Proof. intros t H. rewrite <- has_marker_hm. apply negb_true_iff. exact H. Qed.

Lemma call_section : forall eb0 h c p h',
  is_u8 eb0 = true -> hist_u8 h -> u8_arg (call_enc c) = true -> content_clean c = true ->
  spec_parts (Some eb0) h c = Some (p, h') ->
  exists s, sec_of p = Some s /\ parts_clean p = true /\ LH.s_hdr s = call_header (depth h) c /\
            (if is_container c then LH.s_body s = []
             else LH.s_body s <> [] /\ LH.has_marker (LH.s_body s) = false) /\
            hist_u8 h' /\ depth h' = next_depth (depth h) c.
Proof.
  intros eb0 h c p h' H0 Hh Hu Hc H. destruct (u8_arg_inv _ Hu) as (own & Hown & Hou).
  destruct c as [e|e|tx enc ind le mt|md enc fmt|ct dt enc le]; cbn [call_enc] in Hown; unfold spec_parts in H.
  - (* new_change *)
    rewrite Hown in H. cbn [obind] in H. injection H as <- <-.
    eexists. split; [reflexivity|]. split; [|split; [reflexivity|split; [reflexivity|split]]].
    + apply container_parts_clean; [reflexivity|exact Hou].
    + apply hist_u8_snoc; assumption.
    + unfold depth. rewrite depth_snoc. reflexivity.
  - (* new_file *)
    destruct (Nat.leb 1 (depth h)); [|discriminate H].
    rewrite Hown in H. cbn [obind] in H. injection H as <- <-.
    eexists. split; [reflexivity|]. split; [|split; [reflexivity|split; [reflexivity|split]]].
    + apply container_parts_clean; [reflexivity|exact Hou].
    + apply hist_u8_snoc; assumption.
    + unfold depth. rewrite depth_snoc. reflexivity.
  - (* write_preamble *)
    destruct tx as [| | |t| | |]; try discriminate H. cbn [content_clean] in Hc.
    destruct (Nat.leb (depth h) 1) eqn:Ed; [|discriminate H]. apply Nat.leb_le in Ed.
    rewrite Hown in H. cbn [obind] in H.
    destruct (spec_indent_arg ind) as [k|]; cbn [obind] in H; [|discriminate H].
    destruct (choice_arg spec_mimetypes mt) as [mime|] eqn:Em; cbn [obind] in H; [|discriminate H].
    destruct (line_kind_text le t) as [kind|] eqn:Ek; cbn [obind] in H; [|discriminate H].
    destruct (effective_u8 eb0 h own H0 Hh Hou) as (eb & Eeff & Heb). rewrite Eeff in H. cbn [obind] in H.
    destruct (is_nil t); [discriminate H|].
    destruct (text_body eb kind t k) as [body|] eqn:Eb; cbn [obind] in H; [|discriminate H]. injection H as <- <-.
    destruct (text_body_dec eb kind t k body Heb (negb_marker t Hc) Eb) as (tb & Htb & Hne & Hm).
    exists {| LH.s_hdr := hdr_text (S (depth h)) (B "preamble");
              LH.s_opts := opts_text [(B "encoding", own); (B "indent", option_map dec k);
                                      (B "length", Some (dec (length body))); (B "line_endings", Some kind);
                                      (B "mimetype", mime)];
              LH.s_body := tb |}.
    split; [unfold content_parts, sec_of; rewrite Htb; reflexivity|].
    split; [|split; [|split; [|split; [exact Hh|reflexivity]]]].
    + apply content_parts_clean; [reflexivity|exact Hou|exact (line_kind_text_clean le t kind Ek)|].
      unfold pair_clean. cbn [fst snd]. pose proof (choice_arg_clean spec_mimetypes mt mime eq_refl Em) as Hmm.
      destruct mime; [rewrite Hmm|]; reflexivity.
    + cbn [LH.s_hdr call_header]. destruct (depth h) as [|[|n]]; [reflexivity|reflexivity|lia].
    + cbn [is_container LH.s_body]. split; [exact Hne|]. rewrite has_marker_hm. exact Hm.
  - (* write_meta *)
    destruct md as [| | | | |j|]; try discriminate H. destruct j as [| | | | | |kv|]; try discriminate H.
    cbn [content_clean] in Hc. rewrite Hown in H. cbn [obind] in H.
    destruct (format_arg fmt) as [f|] eqn:Ef; cbn [obind] in H; [|discriminate H].
    destruct (is_nil kv); [discriminate H|].
    destruct (json_dump (JObj kv)) as [d0|]; [|discriminate H].
    destruct (effective_u8 eb0 h own H0 Hh Hou) as (eb & Eeff & Heb). rewrite Eeff in H.
    destruct (text_body eb (B "unix") (map byte_n d0) None) as [body|] eqn:Eb; cbn [obind] in H; [|discriminate H].
    injection H as <- <-.
    destruct (text_body_dec eb _ _ None body Heb (negb_marker _ Hc) Eb) as (tb & Htb & Hne & Hm).
    exists {| LH.s_hdr := hdr_text (S (depth h)) (B "meta");
              LH.s_opts := opts_text [(B "encoding", own); (B "indent", option_map dec None);
                                      (B "length", Some (dec (length body))); (B "line_endings", None);
                                      (B "format", Some f)];
              LH.s_body := tb |}.
    split; [unfold content_parts, sec_of; rewrite Htb; reflexivity|].
    split; [|split; [|split; [|split; [exact Hh|reflexivity]]]].
    + apply content_parts_clean; [reflexivity|exact Hou|exact I|].
      unfold pair_clean. cbn [fst snd]. rewrite (format_arg_clean fmt f Ef). reflexivity.
    + cbn [LH.s_hdr call_header]. pose proof (depth_le2 h) as Hd2. unfold depth.
      destruct (Encodings.depth h) as [|[|[|n]]]; [reflexivity|reflexivity|reflexivity|lia].
    + cbn [is_container LH.s_body]. split; [exact Hne|]. rewrite has_marker_hm. exact Hm.
  - (* write_diff *)
    destruct ct as [| | | |b| |]; try discriminate H. cbn [content_clean] in Hc.
    destruct (Nat.eqb (depth h) 2) eqn:Ed; [|discriminate H]. apply Nat.eqb_eq in Ed.
    rewrite Hown in H. cbn [obind] in H.
    destruct (choice_arg spec_diff_types dt) as [ty|] eqn:Et; cbn [obind] in H; [|discriminate H].
    destruct (line_kind_bytes le own b) as [kind|] eqn:Ek; cbn [obind] in H; [|discriminate H].
    destruct (is_nil b); [discriminate H|].
    destruct (diff_body own kind b) as [body|] eqn:Eb; cbn [obind] in H; [|discriminate H]. injection H as <- <-.
    destruct (u8_dec b) as [t|] eqn:Edec; [|discriminate Hc].
    destruct (diff_body_dec own kind b t body Hou Edec (negb_marker t Hc) Eb) as (tb & Htb & Hne & Hm).
    exists {| LH.s_hdr := hdr_text 3 (B "diff");
              LH.s_opts := opts_text [(B "encoding", own); (B "indent", option_map dec None);
                                      (B "length", Some (dec (length body))); (B "line_endings", Some kind);
                                      (B "type", ty)];
              LH.s_body := tb |}.
    split; [unfold content_parts, sec_of; rewrite Htb; reflexivity|].
    split; [|split; [|split; [|split; [exact Hh|reflexivity]]]].
    + apply content_parts_clean; [reflexivity|exact Hou|exact (line_kind_bytes_clean le own b kind Ek)|].
      unfold pair_clean. cbn [fst snd]. pose proof (choice_arg_clean spec_diff_types dt ty eq_refl Et) as Hty.
      destruct ty; [rewrite Hty|]; reflexivity.
    + reflexivity.
    + cbn [is_container LH.s_body]. split; [exact Hne|]. rewrite has_marker_hm. exact Hm.
Qed.

(* the abstract section of a call is well-formed in the sense of LexerHeaderFacts.v *)
Lemma call_wf : forall s d c,
  LH.nolf (LH.s_opts s) -> LH.s_hdr s = call_header d c ->
  (if is_container c then LH.s_body s = [] else LH.s_body s <> [] /\ LH.has_marker (LH.s_body s) = false) ->
  LH.wf_later s.
Proof.
  intros s d c Hn Hh Hb. unfold LH.wf_later, LH.wf_sec. rewrite Hh.
  destruct c as [e|e|tx enc ind le mt|md enc fmt|ct dt enc le]; cbn [call_header is_container] in *.
  - split; [split; [exact Hn|left; split; [cbn; tauto|exact Hb]]|cbn; tauto].
  - split; [split; [exact Hn|left; split; [cbn; tauto|exact Hb]]|cbn; tauto].
  - destruct d; (split; [split; [exact Hn|right; split; [cbn; tauto|exact Hb]]|cbn; tauto]).
  - destruct d as [|[|d]]; (split; [split; [exact Hn|right; split; [cbn; tauto|exact Hb]]|cbn; tauto]).
  - split; [split; [exact Hn|right; split; [cbn; tauto|exact Hb]]|cbn; tauto].
Qed.

(* ================================================================================================ *)
(** * 8. the walk, the constructor *)

Lemma walk_doc : forall cs eb0 h rest,
  is_u8 eb0 = true -> hist_u8 h -> forallb (fun c => u8_arg (call_enc c)) cs = true -> contents_no_marker cs = true ->
  walk (Some eb0) h cs = Some rest ->
  exists d, doc_walk (Some eb0) h cs = Some d /\ u8_dec rest = Some (LH.render_doc d) /\
            Forall LH.wf_later d /\ map LH.s_hdr d = headers_from (depth h) cs.
Proof.
  induction cs as [|c cs IH]; intros eb0 h rest H0 Hh Hu Hc H.
  - cbn in H. injection H as <-. exists []. repeat split; constructor.
  - cbn [forallb] in Hu. apply andb_true_iff in Hu. destruct Hu as [Hu1 Hu2].
    unfold contents_no_marker in Hc. cbn [forallb] in Hc. apply andb_true_iff in Hc. destruct Hc as [Hc1 Hc2].
    cbn [walk] in H. rewrite spec_call_parts in H.
    destruct (spec_parts (Some eb0) h c) as [[p h']|] eqn:Ep; cbn [option_map obind fst snd] in H; [|discriminate H].
    destruct (walk (Some eb0) h' cs) as [rest'|] eqn:Ew; cbn [obind] in H; [|discriminate H]. injection H as <-.
    destruct (call_section eb0 h c p h' H0 Hh Hu1 Hc1 Ep) as (s & Hs & Hpc & Hhd & Hbody & Hh' & Hd').
    destruct (IH eb0 h' rest' H0 Hh' Hu2 Hc2 Ew) as (d & Hd & Hdec & Hwf & Hhdrs).
    destruct p as [[[dd n] o] b]. destruct (asm_dec dd n o b s Hpc Hs) as [Hdec1 Hnolf].
    exists (s :: d). split; [|split; [|split]].
    + cbn [doc_walk]. rewrite Ep. cbn [obind fst snd]. rewrite Hs. cbn [obind]. rewrite Hd. reflexivity.
    + unfold LH.render_doc. cbn [map concat]. apply u8_dec_app; [exact Hdec1|exact Hdec].
    + constructor; [exact (call_wf s (depth h) c Hnolf Hhd Hbody)|exact Hwf].
    + cbn [map headers_from]. rewrite Hhd, Hhdrs, Hd'. reflexivity.
Qed.

Lemma opt_inj {A} : forall a b : A, Some a = Some b -> a = b.
Proof. intros a b H. congruence. Qed.

Lemma u8_main_inv : forall v, u8_main v = true -> exists eb0, str_arg v = Some (Some eb0) /\ is_u8 eb0 = true.
Proof. intros v H. unfold u8_main in H. destruct (str_arg v) as [[eb|]|]; try discriminate H. eauto. Qed.

(* the specification's serialization of utf-8 calls with "#."-free contents, decoded, is the rendering of the
   abstract document of the calls; that document is well-formed and its headers are the expected ones *)
Lemma serialize_doc : forall enc0 ver cs out,
  encodings_utf8 enc0 cs = true -> contents_no_marker cs = true -> spec_serialize enc0 ver cs = Some out ->
  exists d, doc_of_calls enc0 ver cs = Some d /\ u8_dec out = Some (LH.render_doc d) /\
            LH.wf_doc d /\ map LH.s_hdr d = expected_headers cs.
Proof.
  intros enc0 ver cs out Hu Hc H. unfold encodings_utf8 in Hu. apply andb_true_iff in Hu. destruct Hu as [Hu0 Hu].
  destruct (u8_main_inv enc0 Hu0) as (eb0 & He0 & H0).
  unfold spec_serialize in H. unfold doc_of_calls. rewrite He0 in *. cbn [obind] in *.
  destruct (choice_arg spec_versions ver) as [vo|] eqn:Ev; cbn [obind] in *; [|discriminate H].
  pose proof (choice_arg_clean spec_versions ver vo eq_refl Ev) as Hv.
  destruct vo as [v|]; cbn [obind] in *; [|discriminate H].
  destruct (walk (Some eb0) [] cs) as [rest|] eqn:Ew; cbn [obind] in H; [|discriminate H].
  apply opt_inj in H. subst out.
  assert (Hh0 : hist_u8 []) by constructor.
  destruct (walk_doc cs eb0 [] rest H0 Hh0 Hu Hc Ew) as (d & Hd & Hdec & Hwf & Hhdrs).
  set (o0 := [(B "encoding", Some eb0); (B "version", Some v)]).
  set (s0 := {| LH.s_hdr := hdr_text 0 (B "diffx"); LH.s_opts := opts_text o0; LH.s_body := [] |}).
  assert (Hs0 : sec_of (0, B "diffx", o0, []) = Some s0) by reflexivity.
  assert (Hpc : parts_clean (0, B "diffx", o0, []) = true).
  { assert (P1 : pair_clean (B "encoding", Some eb0) = true)
      by (unfold pair_clean; cbn [fst snd]; rewrite (is_u8_hclean eb0 H0); reflexivity).
    assert (P2 : pair_clean (B "version", Some v) = true) by (unfold pair_clean; cbn [fst snd]; rewrite Hv; reflexivity).
    unfold o0, parts_clean, opts_clean. cbn [forallb]. rewrite P1, P2. reflexivity. }
  destruct (asm_dec 0 (B "diffx") o0 [] s0 Hpc Hs0) as [Hdec0 Hnolf].
  exists (s0 :: d). split; [|split; [|split]].
  - fold o0. rewrite Hs0. cbn [obind]. rewrite Hd. reflexivity.
  - fold o0. replace (header 0 (B "diffx") o0) with (asm (0, B "diffx", o0, [])) by apply app_nil_r.
    unfold LH.render_doc. cbn [map concat]. apply u8_dec_app; [exact Hdec0|exact Hdec].
  - cbn [LH.wf_doc]. split; [|exact Hwf]. split; [exact Hnolf|]. left. split; [cbn; tauto|reflexivity].
  - cbn [map]. rewrite Hhdrs. reflexivity.
Qed.

(* ================================================================================================ *)
(** * 9. the theorems *)

(* every UTF-8 output of the writer whose contents contain no "#." is the rendering of a well-formed document *)
Theorem C20_writer_shape_thm : forall enc0 ver s0 cs out,
  writer_init enc0 ver = (s0, Ok tt) -> enc_ok enc0 -> Forall call_good cs -> accepted s0 cs ->
  encodings_utf8 enc0 cs = true -> contents_no_marker cs = true ->
  w_out (snd (run_calls s0 cs)) = out ->
  exists t d, c_dec utf8 out = Some t /\ doc_of_calls enc0 ver cs = Some d /\ LH.render_doc d = t /\
              LH.wf_doc d /\ map LH.s_hdr d = expected_headers cs.
Proof.
  intros enc0 ver s0 cs out Hi He Hg Ha Hu Hc <-.
  pose proof (C02_writer_is_spec_thm enc0 ver s0 cs Hi He Hg Ha) as Hspec.
  destruct (serialize_doc enc0 ver cs _ Hu Hc Hspec) as (d & Hd & Hdec & Hwf & Hh).
  exists (LH.render_doc d), d. split; [exact Hdec|]. split; [exact Hd|]. split; [reflexivity|]. split; assumption.
Qed.

(* ... hence the lexer model, looking at the tokens of the DiffX-level rules, produces no Error token on it and its
   Name.Tag tokens are exactly the headers the calls determine *)
Theorem C20_headers_writer_thm : forall enc0 ver s0 cs out,
  writer_init enc0 ver = (s0, Ok tt) -> enc_ok enc0 -> Forall call_good cs -> accepted s0 cs ->
  encodings_utf8 enc0 cs = true -> contents_no_marker cs = true ->
  w_out (snd (run_calls s0 cs)) = out ->
  forall oracle, LexerFacts.oracle_lossless oracle -> (forall name txt, oracle name txt <> None) ->
  exists t toks, c_dec utf8 out = Some t /\
                 Lexer.lex_default (LH.hide oracle) GenLexer.rules t = Lexer.LOk toks /\
                 LH.tagvals toks = expected_headers cs /\ LH.errors toks = [].
Proof.
  intros enc0 ver s0 cs out Hi He Hg Ha Hu Hc Ho oracle Hl Ht.
  destruct (C20_writer_shape_thm enc0 ver s0 cs out Hi He Hg Ha Hu Hc Ho) as (t & d & Hdec & _ & <- & Hwf & Hh).
  destruct (LH.headers_thm (LH.hide oracle) (LH.hide_lossless oracle Hl) (LH.hide_total oracle Ht) (LH.hide_quiet oracle) d Hwf)
    as (toks & Hlex & Htag & Herr).
  exists (LH.render_doc d), toks. split; [exact Hdec|]. split; [exact Hlex|]. split; [rewrite Htag; exact Hh|exact Herr].
Qed.

(* ================================================================================================ *)
(** * 10. a concrete utf-8 program *)

(* main encoding "utf-8", a change declaring "UTF-8", a metadata section with its own "utf8"; non-ASCII text (2- and
   3-byte characters), default and explicit indentation, detected and declared ("dos") line endings; a '#' as the last
   character of a line followed by a line starting with '.', a '#' as the very last character of a body (the next
   header starts with '#'): no "#." anywhere in the contents as given *)
Definition T (s : String.string) : text := ascii_text (B s).
Definition ex_enc0 : wv := WStr (T "utf-8").
Definition ex_ver : wv := WStr (T "1.0").
Definition ex_s0 : wstate := fst (writer_init ex_enc0 ex_ver).
Definition ex_cs : list call :=
  [ WritePreamble (WStr (T "Hello #" ++ [10%N] ++ T ".w" ++ [246%N; 8364%N] ++ T "rld")) WNone None WNone (WStr (T "text/plain"));
    WriteMeta (WDict (JObj [(T "stats", JObj [(T "changes", JInt 1)])])) WNone None;
    NewChange (WStr (T "UTF-8"));
    WritePreamble (WStr (T "caf" ++ [233%N] ++ T " #")) WNone (Some (WInt 2)) (WStr (T "dos")) WNone;
    NewFile WNone;
    WriteMeta (WDict (JObj [(T "path", JStr (T ".a.txt#"))])) (WStr (T "utf8")) None;
    WriteDiff (WBytes (B "-a#" ++ [x0a] ++ B ".+b" ++ [xc3; xa9] ++ B "#")) (WStr (T "text")) WNone WNone ].

(* the file it writes (the source of this literal is UTF-8: "ö" "€" "é" are 2, 3 and 2 bytes) *)
Definition ex_out : bytes :=
  B "#diffx: encoding=utf-8, version=1.0
#.preamble: indent=4, length=27, line_endings=unix, mimetype=text/plain
    Hello #
    .wö€rld
#.meta: format=json, length=46
{
    ""stats"": {
        ""changes"": 1
    }
}
#.change: encoding=UTF-8
#..preamble: indent=2, length=11, line_endings=dos
  café #" ++ [x0d; x0a] ++ B "#..file:
#...meta: encoding=utf8, format=json, length=26
{
    ""path"": "".a.txt#""
}
#...diff: length=11, line_endings=unix, type=text
-a#
.+bé#
".

(* ... decoded: what the lexer is given *)
Definition ex_text : text := Eval vm_compute in match u8_dec ex_out with Some t => t | None => [] end.

Definition ex_headers : list text :=
  map LexerFacts.ascii_text
      ["#diffx:"; "#.preamble:"; "#.meta:"; "#.change:"; "#..preamble:"; "#..file:"; "#...meta:"; "#...diff:"].

Lemma ex_init : writer_init ex_enc0 ex_ver = (ex_s0, Ok tt).
Proof. vm_compute. reflexivity. Qed.

Lemma ex_enc0_ok : enc_ok ex_enc0.
Proof. apply (RoundTripSeqExample.enc_ok_spelled "utf-8"). vm_compute. reflexivity. Qed.

Ltac ex_enc_tac := first [ left; reflexivity | apply RoundTripSeqExample.enc_ok_spelled; vm_compute; reflexivity ].
Ltac ex_good_tac :=
  cbn [call_good indent_ok]; repeat split;
  first [ ex_enc_tac | exact I | apply ia_int; lia | apply la_none | exact RoundTripSeqExample.ex_le_dos
        | eexists; reflexivity ].

Lemma ex_good : Forall call_good ex_cs.
Proof. unfold ex_cs. repeat (apply Forall_cons; [ex_good_tac|]). apply Forall_nil. Qed.

Lemma ex_accepted : accepted ex_s0 ex_cs.
Proof. unfold accepted. vm_compute. repeat constructor. Qed.

Lemma ex_utf8 : encodings_utf8 ex_enc0 ex_cs = true.
Proof. vm_compute. reflexivity. Qed.

Lemma ex_clean : contents_no_marker ex_cs = true.
Proof. vm_compute. reflexivity. Qed.

Lemma ex_output : w_out (snd (run_calls ex_s0 ex_cs)) = ex_out.
Proof. vm_compute. reflexivity. Qed.

(* all hypotheses of the two theorems hold; what they say for the instance; and the same by running the models *)
Lemma writer_example :
  writer_init ex_enc0 ex_ver = (ex_s0, Ok tt) /\ enc_ok ex_enc0 /\ Forall call_good ex_cs /\ accepted ex_s0 ex_cs /\
  encodings_utf8 ex_enc0 ex_cs = true /\ contents_no_marker ex_cs = true /\
  w_out (snd (run_calls ex_s0 ex_cs)) = ex_out /\
  expected_headers ex_cs = ex_headers /\
  c_dec utf8 ex_out = Some ex_text /\
  (exists d, doc_of_calls ex_enc0 ex_ver ex_cs = Some d /\ LH.render_doc d = ex_text /\ LH.wf_doc d /\
             map LH.s_hdr d = ex_headers) /\
  (exists toks, Lexer.lex_default (LH.hide LexerFacts.one_token_oracle) GenLexer.rules ex_text = Lexer.LOk toks /\
                LH.tagvals toks = ex_headers /\ LH.errors toks = []) /\
  (* computed *)
  option_map LH.render_doc (doc_of_calls ex_enc0 ex_ver ex_cs) = Some ex_text /\
  match Lexer.lex_default (LH.hide LexerFacts.one_token_oracle) GenLexer.rules ex_text with
  | Lexer.LOk toks => LH.tagvals toks = ex_headers /\ LH.errors toks = []
  | _ => False
  end.
Proof.
  assert (Hh : expected_headers ex_cs = ex_headers) by (vm_compute; reflexivity).
  assert (Hd : c_dec utf8 ex_out = Some ex_text) by (vm_compute; reflexivity).
  split; [exact ex_init|]. split; [exact ex_enc0_ok|]. split; [exact ex_good|]. split; [exact ex_accepted|].
  split; [exact ex_utf8|]. split; [exact ex_clean|]. split; [exact ex_output|]. split; [exact Hh|]. split; [exact Hd|].
  split; [|split; [|split]].
  - destruct (C20_writer_shape_thm ex_enc0 ex_ver ex_s0 ex_cs ex_out ex_init ex_enc0_ok ex_good ex_accepted ex_utf8
                ex_clean ex_output) as (t & d & Ht & Hdoc & Hr & Hwf & Hhd).
    rewrite Hd in Ht. apply opt_inj in Ht. subst t. exists d. rewrite <- Hh. auto.
  - destruct (C20_headers_writer_thm ex_enc0 ex_ver ex_s0 ex_cs ex_out ex_init ex_enc0_ok ex_good ex_accepted ex_utf8
                ex_clean ex_output LexerFacts.one_token_oracle LexerFacts.one_token_oracle_lossless
                LexerFacts.one_token_oracle_total) as (t & toks & Ht & Hlex & Htag & Herr).
    rewrite Hd in Ht. apply opt_inj in Ht. subst t. exists toks. rewrite <- Hh. auto.
  - vm_compute. reflexivity.
  - vm_compute. split; reflexivity.
Qed.

(* the premise on the contents is needed: an unindented preamble whose second line is "#.meta: x=1" is accepted, all
   encodings are utf-8, and the lexer tags that line as a header (three Name.Tag tokens for two sections) *)
Definition ex_bad_cs : list call :=
  [ WritePreamble (WStr (T "a" ++ [10%N] ++ T "#.meta: x=1" ++ [10%N] ++ T "b")) WNone (Some WNone) WNone WNone ].

Lemma marker_needed :
  writer_init ex_enc0 ex_ver = (ex_s0, Ok tt) /\ enc_ok ex_enc0 /\ Forall call_good ex_bad_cs /\ accepted ex_s0 ex_bad_cs /\
  encodings_utf8 ex_enc0 ex_bad_cs = true /\ contents_no_marker ex_bad_cs = false /\
  exists t toks, c_dec utf8 (w_out (snd (run_calls ex_s0 ex_bad_cs))) = Some t /\
    Lexer.lex_default (LH.hide LexerFacts.one_token_oracle) GenLexer.rules t = Lexer.LOk toks /\
    expected_headers ex_bad_cs = map LexerFacts.ascii_text ["#diffx:"; "#.preamble:"] /\
    LH.tagvals toks = map LexerFacts.ascii_text ["#diffx:"; "#.preamble:"; "#.meta:"].
Proof.
  split; [exact ex_init|]. split; [exact ex_enc0_ok|].
  split; [unfold ex_bad_cs; repeat (apply Forall_cons; [cbn [call_good indent_ok]; repeat split;
            first [left; reflexivity | apply ia_none | apply la_none]|]); apply Forall_nil|].
  split; [unfold accepted; vm_compute; repeat constructor|].
  split; [vm_compute; reflexivity|]. split; [vm_compute; reflexivity|].
  eexists. eexists. split; [vm_compute; reflexivity|]. split; [vm_compute; reflexivity|].
  split; vm_compute; reflexivity.
Qed.
