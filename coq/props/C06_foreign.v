(* C06, second sentence — files of OTHER producers.
   "For every well-formed file from another producer that the object model accepts, re-serialising succeeds, carries
    the same section contents, and is a fixed point: parsing and serialising the result again changes nothing."

   The files are the ASTs of theories/SpecReader.v (props/C03_spec.v): options in any order, repeated keys, blank lines,
   CRLF header lines, byte order marks or none, declared or detected line endings, indentation, compact JSON,
   sections with no encoding in force, any of the ten codecs under any catalogue spelling.  Definitions in
   theories/DomForeign.v, proofs in theories/DomForeignFacts.v; statements only here.

   (A) C06_foreign_read: what the object model builds from such a file, exactly: [tree_of_file f] when
       [dom_accepts f] (decidable, section by section), the exception of the first rejected section otherwise.
       It rejects: a preamble with no encoding in force (its text stays bytes), metadata that is not a JSON object,
       keyword arguments its .change / ..file constructors refuse.
   (B) C06_foreign_writes: the tree serialises.  The calls issued to the streaming writer are [file_calls f]
       (C06_foreign_calls), and the writer accepts every one of them.
   (C) [same_contents]: the preamble texts, metadata objects and diff bytes of every section, in order (an absent
       section and an empty one are not distinguished: neither is written).
   (D) the fixed point, by composition with C05_full / C06_full.

   PREMISES of C06_foreign beyond well-formedness and acceptance, all decidable (bool), each shown necessary by a
   [_refuted] witness below (a well-formed file that the object model reads and then cannot serialise):
     opts_known f            no header carries an option the specification does not define for that kind of section.
                             (On the main header and on content sections such an option loads and then to_bytes()
                             raises TypeError; on .change / ..file it is a constructor keyword.)
     choice_values_ok f      mimetype= / type=, when present, are values of the specification's lists (the reader
                             does not look at them, the writer rejects anything else: DiffXOptionValueChoiceError).
     sub_metas_nonempty f    every ..meta and ...meta section holds a NON-EMPTY JSON object.  The DOM writer skips an
                             empty dict (`if content:`), after which the streaming writer's order table rejects the
                             next call (new_file / write_diff after new_file; new_change after new_change or
                             write_preamble): DiffXSectionOrderError.  The specification requires keys in both; an
                             empty main .meta is harmless (it is dropped; [same_contents] does not see it).
     metas_plain f           the JSON value of each metadata section contains no value json.dumps rejects and its float
                             reprs are ASCII (true of everything json.loads returns; the oracle is a parameter).
   No longer a premise: [no_meta_line_endings f] (no metadata section declares line_endings=).  It existed until
   pydiffx fix D15: the DOM writer passed the option on to write_meta(), which has no such parameter (TypeError).
   Since the fix the option is dropped when re-serialising (the streaming writer never writes it for metadata);
   the re-serialised section has no line_endings, [same_contents] is about contents and does not see options, and
   the fixed point goes through [normalise], which keeps only encoding / format on a metadata section.  The former
   witness is now the positive example C06_foreign_meta_line_endings_ok.
   Not needed: a premise that decoded texts can be encoded again (it follows from [wf_file] by the codec laws), and
   [contents_final] (texts and diffs already end with the line ending the object model determines: proved from
   [wf_file], C06_contents_final; for undeclared line endings this is where the byte-level detection of the reader
   and the text-level detection of the writer are shown to agree).

   The hypotheses [tree_oracle_ok] / [tree_metas_oracle_ok] / [tree_guesses_ok] and the size bound on the output are
   those of C05_full / C06_full (props/C05_full.v), on the tree that was read; they concern the json.loads oracle on
   the RE-SERIALISED metadata text (pretty-printed by json.dumps, in general not the foreign producer's text) and the
   UTF-16/32 newline guess.  C06_foreign_tree_oracle restates the first on the calls of the file. *)
From Coq Require Import List Arith NArith ZArith Bool Strings.Byte.
From Coq Require Strings.String.
From DX Require Import Bytes Res Codec Text Sections Header Stream Json Reader Writer Dom SectionsSpec SpecReader.
From DX Require Import DomSpec DomCompose DomForeign DomForeignFacts.
From DX Require RoundTrip SpecReaderExamples DomForeignNoGuess.
From DXGen Require GenSections GenText.
Import ListNotations.
Import String.StringSyntax.
Local Open Scope string_scope.
Local Open Scope list_scope.

(* ---- (A) reading ---- *)
Theorem C06_foreign_read : forall f orc,
  wf_file f = true -> oracle_ok_file orc f ->
  (Z.of_nat (length (render_file f)) <= sys_maxsize)%Z ->
  dom_read orc (render_file f) = (if dom_accepts f then Ok (tree_of_file f) else Err (dom_error f)).
Proof. exact DomForeignFacts.foreign_read. Qed.
Print Assumptions C06_foreign_read.

Theorem C06_foreign_accepts_iff : forall f orc,
  wf_file f = true -> oracle_ok_file orc f -> (Z.of_nat (length (render_file f)) <= sys_maxsize)%Z ->
  (dom_accepts f = true <-> exists t, dom_read orc (render_file f) = Ok t).
Proof. exact DomForeignFacts.foreign_accepts_iff. Qed.
Print Assumptions C06_foreign_accepts_iff.

(* one section at a time: the DOM reader's handler on the record the specification assigns to the section *)
Theorem C06_foreign_read_step : forall prev x s t line,
  wf_section prev x s = true -> Shape (depth_of prev) t ->
  apply_record (t, cursor_of prev) (sec_record line s) =
  (if sec_accepts s then Ok (tof_step t s, cursor_of (Some (fs_id s))) else Err (sec_error s)).
Proof. exact DomForeignFacts.step_read. Qed.
Print Assumptions C06_foreign_read_step.

(* ---- (B) re-serialising succeeds ---- *)
Theorem C06_foreign_calls : forall f,
  wf_file f = true -> dom_accepts f = true -> opts_known f = true ->
  tree_calls (tree_of_file f) = Ok (file_calls f).
Proof. exact DomForeignFacts.foreign_tree_calls. Qed.
Print Assumptions C06_foreign_calls.

Theorem C06_foreign_writes : forall f,
  wf_file f = true -> dom_accepts f = true -> opts_known f = true ->
  choice_values_ok f = true -> sub_metas_nonempty f = true -> metas_plain f = true ->
  exists b, dom_write (tree_of_file f) = Ok b.
Proof. exact DomForeignFacts.foreign_writes. Qed.
Print Assumptions C06_foreign_writes.

(* ---- (C) the tree is in the domain of C05_full / C06_full; normalisation keeps the contents ---- *)
Theorem C06_contents_final : forall f, wf_file f = true -> contents_final f = true.
Proof. exact DomForeignFacts.contents_final_wf. Qed.
Print Assumptions C06_contents_final.

Theorem C06_foreign_domain : forall f,
  wf_file f = true -> dom_accepts f = true -> opts_known f = true ->
  choice_values_ok f = true -> sub_metas_nonempty f = true -> metas_plain f = true ->
  typed_tree (tree_of_file f) = true /\ tree_encs_ok (tree_of_file f) = true /\
  tree_indents_ok (tree_of_file f) = true /\ same_contents (tree_of_file f) (normalise (tree_of_file f)).
Proof. exact DomForeignFacts.foreign_domain_wf. Qed.
Print Assumptions C06_foreign_domain.

Theorem C06_same_contents_def : forall a b,
  same_contents a b <->
  (psec_text (d_pre a), m_content (d_meta a), map change_contents (d_changes a)) =
  (psec_text (d_pre b), m_content (d_meta b), map change_contents (d_changes b)).
Proof. intros; reflexivity. Qed.

Theorem C06_foreign_tree_oracle : forall f orc,
  wf_file f = true -> dom_accepts f = true -> opts_known f = true ->
  RoundTrip.oracle_ok orc (file_calls f) -> tree_oracle_ok orc (tree_of_file f).
Proof. exact DomForeignFacts.foreign_tree_oracle. Qed.
Print Assumptions C06_foreign_tree_oracle.

(* ---- (A)-(D) ---- *)
Theorem C06_foreign : forall f orc t,
  wf_file f = true -> oracle_ok_file orc f ->
  (Z.of_nat (length (render_file f)) <= sys_maxsize)%Z ->
  dom_read orc (render_file f) = Ok t ->
  opts_known f = true -> choice_values_ok f = true ->
  sub_metas_nonempty f = true -> metas_plain f = true ->
  exists b, dom_write t = Ok b /\ same_contents t (normalise t) /\
    (tree_oracle_ok orc t -> tree_metas_oracle_ok orc t -> tree_guesses_ok t ->
     (Z.of_nat (length b) <= sys_maxsize)%Z ->
     dom_read orc b = Ok (normalise t) /\ dom_write (normalise t) = Ok b /\
     normalise (normalise t) = normalise t /\
     (forall b', dom_write (normalise t) = Ok b' -> dom_read orc b' = Ok (normalise t))).
Proof. exact DomForeignFacts.C06_foreign. Qed.
Print Assumptions C06_foreign.

(* ---- instance: every hypothesis holds (CRLF header lines, shuffled options, blank lines, an indented utf-8-sig
        preamble with byte order mark and undeclared DOS line endings, compact JSON, an empty main .meta, a latin-1
        ..file, a diff with declared line endings), and the conclusion ---- *)
Example C06_foreign_ex_hypotheses :
  wf_file fx_good = true /\ oracle_ok_file fx_orc fx_good /\
  (Z.of_nat (length (render_file fx_good)) <= sys_maxsize)%Z /\
  dom_read fx_orc (render_file fx_good) = Ok (tree_of_file fx_good) /\
  opts_known fx_good = true /\ choice_values_ok fx_good = true /\
  sub_metas_nonempty fx_good = true /\ metas_plain fx_good = true /\
  tree_oracle_ok fx_orc (tree_of_file fx_good) /\ tree_metas_oracle_ok fx_orc (tree_of_file fx_good) /\
  tree_guesses_ok (tree_of_file fx_good).
Proof. exact DomForeignFacts.fx_good_all_hypotheses. Qed.

Example C06_foreign_ex :
  exists b, dom_write (tree_of_file fx_good) = Ok b /\
            same_contents (tree_of_file fx_good) (normalise (tree_of_file fx_good)) /\
            dom_read fx_orc b = Ok (normalise (tree_of_file fx_good)) /\
            dom_write (normalise (tree_of_file fx_good)) = Ok b /\ b = fx_good_bytes.
Proof. exact DomForeignFacts.fx_good_C06. Qed.

(* the file of props/C03_spec.v: the tree the object model reads is [tree_of_file] *)
Example C06_foreign_read_ex :
  dom_accepts SpecReaderExamples.sx_foreign = true /\
  dom_read SpecReaderExamples.sx_foreign_orc (render_file SpecReaderExamples.sx_foreign)
  = Ok (tree_of_file SpecReaderExamples.sx_foreign).
Proof. split; vm_compute; reflexivity. Qed.

(* ---- each premise is needed: [reads_but_fails f e] = f is well-formed, the oracle answers, the object model reads
        it into [tree_of_file f], and serialising that tree raises e; the six booleans are
        (opts_known, no_meta_line_endings, choice_values_ok, sub_metas_nonempty, metas_plain, contents_final);
        the second one is no longer a premise (pydiffx fix D15) and is kept in the tuple as a record ---- *)
Theorem C06_reads_but_fails_def : forall f e,
  reads_but_fails f e <->
  wf_file f = true /\ oracle_ok_file rx_orc f /\ dom_read rx_orc (render_file f) = Ok (tree_of_file f) /\
  dom_write (tree_of_file f) = Err e.
Proof. intros; reflexivity. Qed.

(* finding D15, repaired:  #.meta: format=json, length=8, line_endings=unix  {"a":1}
   Until pydiffx fix D15 [no_meta_line_endings f = true] was a premise of C06_foreign (and of _calls, _writes,
   _domain, _tree_oracle, _noguess) and this file was its witness C06_foreign_meta_line_endings_refuted: it loaded
   and to_bytes() raised TypeError.  Now the same file (which still declares the option: second boolean false, and
   the tree that is read holds it) loads and re-serialises to the bytes shown, without line_endings on the metadata
   section; the contents are the same and the fixed point holds. *)
Example C06_foreign_meta_line_endings_ok :
  wf_file rx_meta_le = true /\ oracle_ok_file rx_meta_le_orc rx_meta_le /\
  dom_read rx_meta_le_orc (render_file rx_meta_le) = Ok (tree_of_file rx_meta_le) /\
  other_premises rx_meta_le = (true, false, true, true, true, true) /\
  kw (m_opts (d_meta (tree_of_file rx_meta_le))) "line_endings" = S_ "unix" /\
  dom_write (tree_of_file rx_meta_le) = Ok rx_meta_le_bytes /\
  same_contents (tree_of_file rx_meta_le) (normalise (tree_of_file rx_meta_le)) /\
  dom_read rx_meta_le_orc rx_meta_le_bytes = Ok (normalise (tree_of_file rx_meta_le)) /\
  dom_write (normalise (tree_of_file rx_meta_le)) = Ok rx_meta_le_bytes.
Proof. exact DomForeignFacts.meta_line_endings_ok. Qed.
Example C06_foreign_meta_line_endings_ok_bytes :
  rx_meta_le_bytes =
  B "#diffx: encoding=utf-8, version=1.0" ++ [x0a] ++
  B "#.meta: format=json, length=15" ++ [x0a] ++
  B "{" ++ [x0a] ++ B "    " ++ [x22] ++ B "a" ++ [x22] ++ B ": 1" ++ [x0a] ++ B "}" ++ [x0a].
Proof. vm_compute. reflexivity. Qed.

(* #.change: / #..file: / #...meta: {} / #...diff: a   — write_diff() after new_file() *)
Example C06_foreign_empty_file_meta_refuted :
  reads_but_fails rx_empty_file_meta ELibOrder /\ other_premises rx_empty_file_meta = (true, true, true, false, true, true).
Proof. exact DomForeignFacts.empty_file_meta_refuted. Qed.

(* #.change: / #..meta: {} / #.change: ...   — new_change() after new_change() *)
Example C06_foreign_empty_change_meta_refuted :
  reads_but_fails rx_empty_change_meta ELibOrder /\ other_premises rx_empty_change_meta = (true, true, true, false, true, true).
Proof. exact DomForeignFacts.empty_change_meta_refuted. Qed.

(* an unknown option on the main header, and (sx_foreign of props/C03_spec.v) on a preamble *)
Example C06_foreign_unknown_option_refuted :
  reads_but_fails rx_unknown_main EType /\ other_premises rx_unknown_main = (false, true, true, true, true, true).
Proof. exact DomForeignFacts.unknown_option_refuted. Qed.
Example C06_foreign_unknown_content_option_refuted :
  wf_file SpecReaderExamples.sx_foreign = true /\
  dom_read SpecReaderExamples.sx_foreign_orc (render_file SpecReaderExamples.sx_foreign) = Ok (tree_of_file SpecReaderExamples.sx_foreign) /\
  opts_known SpecReaderExamples.sx_foreign = false /\ dom_write (tree_of_file SpecReaderExamples.sx_foreign) = Err EType.
Proof. exact DomForeignFacts.unknown_content_option_refuted. Qed.

(* mimetype=text/html *)
Example C06_foreign_mimetype_refuted :
  reads_but_fails rx_mimetype ELibChoice /\ other_premises rx_mimetype = (true, true, false, true, true, true).
Proof. exact DomForeignFacts.mimetype_refuted. Qed.

(* an oracle answering with a value json.dumps rejects *)
Example C06_foreign_bad_json_refuted :
  wf_file rx_bad_json = true /\ oracle_ok_file rx_bad_orc rx_bad_json /\
  dom_read rx_bad_orc (render_file rx_bad_json) = Ok (tree_of_file rx_bad_json) /\
  dom_write (tree_of_file rx_bad_json) = Err EType /\
  other_premises rx_bad_json = (true, true, true, true, false, true).
Proof. exact DomForeignFacts.bad_json_refuted. Qed.

(* a well-formed file the object model does NOT accept: a preamble with no encoding in force *)
Example C06_foreign_raw_preamble_rejected :
  wf_file SpecReaderExamples.sx_mixed = true /\ dom_accepts SpecReaderExamples.sx_mixed = false /\
  dom_read SpecReaderExamples.sx_mixed_orc (render_file SpecReaderExamples.sx_mixed) = Err ELibParse.
Proof. exact DomForeignFacts.raw_preamble_rejected. Qed.

(* ---- the same with the guess premise discharged (GuessFacts: the reader's line-ending guess on re-serialised
        metadata is always the newline the writer used, for every codec) ---- *)
Theorem C06_foreign_noguess : forall f orc t,
  wf_file f = true -> oracle_ok_file orc f ->
  (Z.of_nat (length (render_file f)) <= sys_maxsize)%Z ->
  dom_read orc (render_file f) = Ok t ->
  opts_known f = true -> choice_values_ok f = true ->
  sub_metas_nonempty f = true -> metas_plain f = true ->
  exists b, dom_write t = Ok b /\ same_contents t (normalise t) /\
    (tree_oracle_ok orc t -> tree_metas_oracle_ok orc t ->
     (Z.of_nat (length b) <= sys_maxsize)%Z ->
     dom_read orc b = Ok (normalise t) /\ dom_write (normalise t) = Ok b /\
     normalise (normalise t) = normalise t /\
     (forall b', dom_write (normalise t) = Ok b' -> dom_read orc b' = Ok (normalise t))).
Proof. exact DomForeignNoGuess.C06_foreign_noguess. Qed.
Print Assumptions C06_foreign_noguess.
