(* SpecSerializerFacts.v — C02, last clause: the bytes the writer model (Writer.v) emits are, byte for byte, what
   the independent serializer [SpecSerializer.spec_serialize] (written from the specification text) produces for
   the same calls.

   Structure:
     A. argument views: what [str_arg] / [choice_arg] / [spec_indent_arg] say about arguments in the domain
     B. headers: the writer's header is the spec-side rendering of the present options sorted by key
        (no bound on the size of integers: unlike C02_header_is_spec_rendering, nothing is read back here)
     C. positions: the invariant [Pos] relating a writer state to the nesting history of the spec's walk
        (level from the stack depth, effective encoding from C04)
     D. per-call lemmas: container, preamble, metadata, diff
     E. the walk, the constructor, the theorem *)
From Coq Require Import List Arith NArith ZArith Bool Strings.Byte Lia ZifyBool.
From Coq Require Import Sorting.Sorted Sorting.Permutation.
From Coq Require Strings.String.
From DX Require Import Bytes Res Codec Text Sections Header Json Writer.
From DX Require HeaderFacts TextFacts WriterFacts Encodings.
From DX Require Import WriterCanonFacts RoundTripBase RoundTripContent RoundTripSim RoundTrip.
From DX Require Import SpecSerializer.
From DX Require RoundTripSeqExample.
From DXGen Require GenSections GenText GenCodecs.
Import ListNotations.
Import String.StringSyntax.
Local Open Scope string_scope.
Local Open Scope list_scope.

(* ================================================================================================ *)
(** * A. argument views *)

(* a codec name as the writer holds it *)
Definition inj (eb : bytes) : wv := WStr (ascii_text eb).
(* the bytes an option value is rendered as; None: the option is absent *)
Definition sval (v : wv) : option bytes := match v with WNone => None | _ => Some (val_bytes v) end.

Lemma ascii_text_forallb : forall b, Forall ascii_byte b -> forallb ascii_cp (ascii_text b) = true.
Proof.
  induction b as [|x b IH]; intros H; [reflexivity|]. inversion H as [|? ? Hx Hb]; subst.
  cbn [ascii_text map forallb]. change (map byte_n b) with (ascii_text b). rewrite (IH Hb), andb_true_r.
  unfold ascii_cp. apply N.ltb_lt. exact Hx.
Qed.

Lemma str_arg_ascii : forall x, Forall ascii_byte x -> x <> [] -> str_arg (WStr (ascii_text x)) = Some (Some x).
Proof.
  intros x Ha Hne. cbn [str_arg]. rewrite (ascii_text_forallb x Ha).
  assert (Hn : nonempty (ascii_text x) = true) by (destruct x; [congruence|reflexivity]).
  rewrite Hn. cbn [andb]. rewrite map_n_byte_ascii_text. reflexivity.
Qed.

(* the values the header renderer is defined on (no size bound: nothing is read back here) *)
Inductive rend_value : wv -> Prop :=
| RV_none : rend_value WNone
| RV_int z : rend_value (WInt z)
| RV_str vb : HeaderFacts.spec_val vb -> rend_value (WStr (ascii_text vb)).
Definition rend_opt (kv : bytes * wv) : Prop := HeaderFacts.spec_key (fst kv) /\ rend_value (snd kv).

Lemma good_rend : forall v, good_value v -> rend_value v.
Proof. intros v [|z _|vb H]; constructor; assumption. Qed.

(* encodings: None or a catalogue spelling of a modelled codec *)
Lemma enc_ok_arg : forall v, enc_ok v ->
  exists own, str_arg v = Some own /\ Encodings.wdecl v = option_map inj own /\ sval v = own /\
              v = match own with Some eb => inj eb | None => WNone end /\
              (forall eb, own = Some eb -> exists canon c, lookup_codec eb = LOk canon c).
Proof.
  intros v [->|(eb & canon & c & -> & H)].
  - exists None. repeat split; try reflexivity. intros eb E. discriminate E.
  - destruct (spelling_facts _ _ _ H) as (_ & _ & Hne & Hv).
    exists (Some eb). split; [apply str_arg_ascii; [apply spec_val_ascii; exact Hv|exact Hne]|].
    split.
    + unfold Encodings.wdecl. cbn [wv_truthy]. destruct eb; [congruence|reflexivity].
    + split; [cbn [sval val_bytes]; rewrite map_n_byte_ascii_text; reflexivity|].
      split; [reflexivity|]. intros eb' E. injection E as <-. eauto.
Qed.

Lemma enc_ok_rend : forall v, enc_ok v -> rend_value v.
Proof. intros v H. apply good_rend, enc_ok_good_value, H. Qed.

(* members of the writer's choice sets *)
Lemma choice_arg_member : forall set x, In x set -> In x choice_values ->
  choice_arg set (WStr (ascii_text x)) = Some (Some x) /\ sval (WStr (ascii_text x)) = Some x /\
  rend_value (WStr (ascii_text x)).
Proof.
  intros set x Hin Hc. destruct (choice_values_spec x Hc) as (Hv & Hg & _).
  split; [|split; [cbn [sval val_bytes]; rewrite map_n_byte_ascii_text; reflexivity|apply good_rend; exact Hg]].
  unfold choice_arg. rewrite str_arg_ascii; [|apply spec_val_ascii; exact Hv|apply Hv]. cbn [obind].
  replace (mem beq x set) with true; [reflexivity|]. symmetry. apply (proj2 (HeaderFacts.in_ids_In x set)). exact Hin.
Qed.

(* a choice argument the writer accepted: None or a member *)
Lemma choice_arg_accepted : forall v set, (forall x, In x set -> In x choice_values) ->
  match v with WNone => Ok true | v' => in_strset v' set end = Ok true ->
  choice_arg set v = Some (sval v) /\ rend_value v.
Proof.
  intros v set Hsub H. destruct (choice_good_exact v set Hsub H) as (_ & _ & [->|(x & Hx & ->)]).
  - split; [reflexivity|constructor].
  - destruct (choice_arg_member set x Hx (Hsub x Hx)) as (H1 & H2 & H3). rewrite H1, H2. split; [reflexivity|exact H3].
Qed.

(* the specification's value sets are the library's (generated tables; re-checked when they are regenerated) *)
Lemma spec_sets :
  spec_versions = GenText.versions /\ spec_line_endings = GenText.line_endings_values /\
  spec_mimetypes = GenText.mimetypes /\ spec_meta_formats = GenText.meta_formats /\
  spec_diff_types = GenText.diff_types /\ Z.of_nat spec_default_indent = GenText.default_indent /\
  B "unix" = GenText.le_unix /\ B "json" = GenText.meta_format_json.
Proof. repeat split; reflexivity. Qed.

(* ================================================================================================ *)
(** * B. headers *)

Lemma rend_pair : forall kv, rend_opt kv -> is_present kv = true ->
  tpair_of kv (ascii_text (HeaderFacts.render_pair (spec_pair_of kv))) /\
  HeaderFacts.spec_pair (spec_pair_of kv) /\
  Forall ascii_byte (HeaderFacts.render_pair (spec_pair_of kv)).
Proof.
  intros [k v] [Hk Hv] Hp. cbn [fst snd] in *. unfold spec_pair_of, HeaderFacts.render_pair. cbn [fst snd].
  assert (Hgen : forall vb, fmt_value v = Ok (ascii_text vb) -> HeaderFacts.spec_val vb ->
            tpair_of (k, v) (ascii_text (k ++ B "=" ++ vb)) /\ HeaderFacts.spec_pair (k, vb) /\
            Forall ascii_byte (k ++ B "=" ++ vb)).
  { intros vb Hf Hs. split; [|split].
    - exists (ascii_text vb). split; [exact Hf|]. unfold ascii_text. rewrite !map_app. reflexivity.
    - split; assumption.
    - apply Forall_app. split; [apply spec_key_ascii; exact Hk|]. apply Forall_app. split.
      + constructor; [vm_compute; reflexivity|constructor].
      + apply spec_val_ascii. exact Hs. }
  destruct Hv as [|z|vb Hvb]; [discriminate Hp| |]; cbn [val_bytes].
  - exact (Hgen (Z_to_dec z) eq_refl (Z_to_dec_spec_val z)).
  - rewrite map_n_byte_ascii_text. exact (Hgen vb eq_refl Hvb).
Qed.

(* the writer's header, for renderable options: the spec-side rendering of its own sorted present options *)
Lemma render_header_sorted : forall dots name opts, Forall rend_opt opts ->
  render_header (build_id dots name) opts
  = Ok (HeaderFacts.render_header dots name (map spec_pair_of (present (sort_opts opts))) ++ [x0a]).
Proof.
  intros dots name opts Hgood.
  set (so := present (sort_opts opts)). set (ps := map spec_pair_of so).
  assert (Hso_good : forall kv, In kv so -> rend_opt kv /\ is_present kv = true).
  { intros kv Hin. unfold so, present in Hin. apply filter_In in Hin. destruct Hin as [Hin Hp]. split; [|exact Hp].
    rewrite Forall_forall in Hgood. apply Hgood.
    apply (Permutation_in _ (Permutation_sym (sort_opts_perm opts))). exact Hin. }
  assert (Hpairs : Forall HeaderFacts.spec_pair ps).
  { unfold ps. apply Forall_forall. intros p Hp. apply in_map_iff in Hp. destruct Hp as (kv & <- & Hkv).
    destruct (Hso_good kv Hkv) as [Hg Hp]. apply (rend_pair kv Hg Hp). }
  assert (Hrender : render_pairs (sort_opts opts)
                    = Ok (map (fun kv => ascii_text (HeaderFacts.render_pair (spec_pair_of kv))) so)).
  { apply render_pairs_complete. fold so. apply Forall2_map_self. apply Forall_forall. intros kv Hkv.
    destruct (Hso_good kv Hkv) as [Hg Hp]. apply (rend_pair kv Hg Hp). }
  set (J := join (B ", ") (map HeaderFacts.render_pair ps)).
  assert (HJ : join (ascii_text (B ", ")) (map (fun kv => ascii_text (HeaderFacts.render_pair (spec_pair_of kv))) so)
               = ascii_text J).
  { unfold J, ps, ascii_text. rewrite map_join, !map_map. reflexivity. }
  assert (HJascii : Forall ascii_byte J).
  { unfold J. apply Forall_join.
    - constructor; [vm_compute; reflexivity|]. constructor; [vm_compute; reflexivity|constructor].
    - unfold ps. rewrite map_map. apply Forall_forall. intros q Hq. apply in_map_iff in Hq.
      destruct Hq as (kv & <- & Hkv). destruct (Hso_good kv Hkv) as [Hg Hp]. apply (rend_pair kv Hg Hp). }
  unfold render_header. rewrite Hrender. cbn [bind]. rewrite HJ.
  unfold HeaderFacts.render_header, build_id.
  destruct ps as [|p ps'] eqn:Eps.
  - unfold J. cbn [map join ascii_text nonempty]. rewrite <- !app_assoc. reflexivity.
  - assert (HJne : J <> []).
    { unfold J. intros E. cbn [map] in E. apply join_nil_head in E.
      unfold HeaderFacts.render_pair in E. inversion Hpairs as [|? ? [Hk _] _]; subst.
      destruct Hk as (c & t & Hk & _). rewrite Hk in E. discriminate E. }
    assert (Hne : nonempty (ascii_text J) = true) by (destruct J; [congruence|reflexivity]).
    rewrite Hne. unfold encode_ascii. rewrite (enc_ascii_complete J HJascii). cbn [bind].
    fold J. change (B ": ") with (B ":" ++ B " "). rewrite <- !app_assoc. reflexivity.
Qed.

Lemma present_pairs : forall opts,
  map spec_pair_of (present opts) = opt_pairs (map (fun kv => (fst kv, sval (snd kv))) opts).
Proof.
  induction opts as [|[k v] t IH]; [reflexivity|].
  unfold present, opt_pairs in *. cbn [map filter flat_map fst snd].
  destruct v; cbn [is_present snd sval app map]; rewrite IH; reflexivity.
Qed.

Lemma key_leb_total : forall a b : bytes * bytes, bytes_leb (fst a) (fst b) = true \/ bytes_leb (fst b) (fst a) = true.
Proof. intros. apply bytes_leb_total. Qed.
Lemma key_leb_trans : forall a b c : bytes * bytes,
  bytes_leb (fst a) (fst b) = true -> bytes_leb (fst b) (fst c) = true -> bytes_leb (fst a) (fst c) = true.
Proof. intros a b c. apply bytes_leb_trans. Qed.

(* whatever order the options dict has: the writer's header is the specification's *)
Lemma writer_header_eq : forall dots name opts l h,
  NoDup (map fst opts) -> Forall rend_opt opts ->
  Permutation (opt_pairs (map (fun kv => (fst kv, sval (snd kv))) opts)) (opt_pairs l) ->
  render_header (build_id dots name) opts = Ok h -> h = header dots name l.
Proof.
  intros dots name opts l h Hnd Hgood Hperm H. rewrite render_header_sorted in H by exact Hgood.
  apply Ok_inj in H. rewrite <- H. unfold header, LFb.
  assert (E : map spec_pair_of (present (sort_opts opts)) = spec_pairs l); [|rewrite E; reflexivity].
  unfold spec_pairs.
  apply (sorted_perm_unique (@fst bytes bytes) bytes_leb bytes_leb_antisym).
  - apply StronglySorted_map_keys. apply present_sort_sorted.
  - apply (isort_sorted (fun a b : bytes * bytes => bytes_leb (fst a) (fst b)) key_leb_total key_leb_trans).
  - eapply perm_trans; [apply Permutation_map; apply Permutation_sym, present_sort_perm|].
    rewrite present_pairs. eapply perm_trans; [exact Hperm|]. apply isort_perm.
  - rewrite map_map. cbn [spec_pair_of fst]. unfold present. apply NoDup_map_filter.
    eapply Permutation_NoDup; [|exact Hnd]. apply Permutation_map. apply sort_opts_perm.
Qed.

Lemma key_nodup : forall l : list bytes, HeaderFacts.nodup_b l = true -> NoDup l.
Proof. exact HeaderFacts.nodup_b_sound. Qed.

(* ================================================================================================ *)
(** * C. positions *)

Definition tmap {A C} (f : A -> C) (t : Encodings.transition A) : Encodings.transition C :=
  match t with Encodings.TChange e => Encodings.TChange (option_map f e) | Encodings.TFile e => Encodings.TFile (option_map f e) end.

Lemma enclosing_change_map : forall {A C} (f : A -> C) (r : Encodings.history A),
  Encodings.enclosing_change (map (tmap f) r) = option_map f (Encodings.enclosing_change r).
Proof. induction r as [|[e|e] r IH]; cbn; auto. Qed.

Lemma orelse_map : forall {A C} (f : A -> C) a b,
  Encodings.orelse (option_map f a) (option_map f b) = option_map f (Encodings.orelse a b).
Proof. intros A C f [x|] b; reflexivity. Qed.

Lemma spec_effective_map : forall {A C} (f : A -> C) e0 (h : Encodings.history A),
  Encodings.spec_effective (option_map f e0) (map (tmap f) h) = option_map f (Encodings.spec_effective e0 h).
Proof.
  intros A C f e0 h. unfold Encodings.spec_effective. rewrite <- map_rev.
  destruct (rev h) as [|[e|e] r]; cbn [map tmap]; [reflexivity|apply orelse_map|].
  rewrite enclosing_change_map, !orelse_map. reflexivity.
Qed.

Lemma depth_map : forall {A C} (f : A -> C) (h : Encodings.history A),
  Encodings.depth (map (tmap f) h) = Encodings.depth h.
Proof. intros. unfold Encodings.depth. rewrite <- map_rev. destruct (rev h) as [|[e|e] r]; reflexivity. Qed.

Lemma path_stack_length : forall {E} (e0 : option E) h,
  length (Encodings.path_stack e0 h) = Encodings.depth h + 1.
Proof. intros. unfold Encodings.path_stack, Encodings.depth. destruct (rev h) as [|[e|e] r]; reflexivity. Qed.

Lemma depth_le2 : forall {E} (h : Encodings.history E), Encodings.depth h <= 2.
Proof. intros. unfold Encodings.depth. destruct (rev h) as [|[e|e] r]; lia. Qed.

Lemma depth_nonempty : forall {E} (h : Encodings.history E), h <> [] -> 1 <= Encodings.depth h.
Proof.
  intros E h Hne. unfold Encodings.depth. destruct (rev h) as [|[e|e] r] eqn:Er; try lia.
  exfalso. apply Hne. rewrite <- (rev_involutive h), Er. reflexivity.
Qed.

Lemma depth_snoc : forall {E} (h : Encodings.history E) t,
  Encodings.depth (h ++ [t]) = match t with Encodings.TChange _ => 1 | Encodings.TFile _ => 2 end.
Proof. intros. unfold Encodings.depth. rewrite rev_unit. destruct t; reflexivity. Qed.

Lemma run_calls_app_fst : forall cs cs' s,
  fst (run_calls s (cs ++ cs')) = fst (run_calls s cs) ++ fst (run_calls (snd (run_calls s cs)) cs').
Proof.
  induction cs as [|c t IH]; intros cs' s; [reflexivity|].
  cbn [app]. rewrite !WriterFacts.run_calls_cons. cbn [fst snd app]. rewrite IH. reflexivity.
Qed.

Lemma ok_history_snoc : forall pre s c,
  Encodings.ok_history (pre ++ [c]) (fst (run_calls s (pre ++ [c]))) =
  Encodings.ok_history pre (fst (run_calls s pre)) ++
  match Encodings.call_transition c, snd (do_call c (snd (run_calls s pre))) with
  | Some t, Ok _ => [t]
  | _, _ => []
  end.
Proof.
  induction pre as [|a p IH]; intros s c.
  - cbn [app]. rewrite WriterFacts.run_calls_cons. cbn [fst snd run_calls Encodings.ok_history app].
    destruct (Encodings.call_transition c); [destruct (snd (do_call c s))|]; reflexivity.
  - cbn [app]. rewrite !WriterFacts.run_calls_cons. cbn [fst snd Encodings.ok_history].
    destruct (Encodings.call_transition a); [destruct (snd (do_call a s))|]; cbn [app]; rewrite IH; reflexivity.
Qed.

Section Walk.
  Variables (enc0 ver : wv) (s0 : wstate) (e0 : option bytes).
  Hypothesis Hinit : writer_init enc0 ver = (s0, Ok tt).
  Hypothesis He0 : str_arg enc0 = Some e0.
  Hypothesis Henc0 : enc_ok enc0.

  (* the writer state [s] is at position [h] of the walk: it is the state after some calls whose accepted
     container calls are, in order, the containers of [h] *)
  Definition Pos (h : hist) (s : wstate) : Prop :=
    exists pre, s = snd (run_calls s0 pre) /\
                Encodings.ok_history pre (fst (run_calls s0 pre)) = map (tmap inj) h.

  Lemma pos_init : Pos [] s0.
  Proof. exists []. split; reflexivity. Qed.

  Lemma wdecl_enc0 : Encodings.wdecl enc0 = option_map inj e0.
  Proof.
    destruct (enc_ok_arg enc0 Henc0) as (own & H1 & H2 & _). rewrite He0 in H1. injection H1 as <-. exact H2.
  Qed.

  Lemma pos_facts : forall h s, Pos h s ->
    WriterFacts.reachable s /\ cur_level s = depth h + 1 /\
    Encodings.ordered (map (tmap inj) h) /\
    exists top, cur_encoding s = Ok top /\ Encodings.wdecl top = option_map inj (Encodings.spec_effective e0 h).
  Proof.
    intros h s (pre & -> & Hh).
    pose proof (Encodings.writer_history_ordered enc0 ver s0 pre Hinit) as Hord. rewrite Hh in Hord.
    split; [apply WriterFacts.reachable_run; eapply WriterFacts.reachable_init; exact Hinit|].
    split; [|split; [exact Hord|]].
    - destruct (Encodings.writer_init_stack enc0 ver s0 Hinit) as [Hne Hs0].
      pose proof (Encodings.writer_stack_history pre s0 Hne) as Hr. rewrite Hs0, Hh in Hr.
      fold (Encodings.wrun (Encodings.wdecl enc0) (map (tmap inj) h)) in Hr.
      rewrite (Encodings.wrun_invariant _ _ Hord) in Hr. injection Hr as Hr.
      apply (f_equal (@length _)) in Hr. rewrite map_length, app_length, path_stack_length, depth_map in Hr.
      cbn [length] in Hr. unfold cur_level, depth. lia.
    - destruct (Encodings.writer_effective_encoding_total enc0 ver s0 pre Hinit) as (top & Ht & Hd).
      exists top. split; [exact Ht|]. rewrite Hd, Hh, wdecl_enc0. apply spec_effective_map.
  Qed.

  Lemma pos_step : forall h s c s' t',
    Pos h s -> do_call c s = (s', Ok tt) ->
    match Encodings.call_transition c with Some t => [t] | None => [] end = map (tmap inj) t' ->
    Pos (h ++ t') s'.
  Proof.
    intros h s c s' t' (pre & -> & Hh) Hc Ht. exists (pre ++ [c]). split.
    - rewrite WriterFacts.run_calls_app_snd, WriterFacts.run_calls_cons. cbn [snd run_calls]. rewrite Hc. reflexivity.
    - rewrite ok_history_snoc, Hh, Hc. cbn [snd]. rewrite map_app, <- Ht.
      destruct (Encodings.call_transition c); reflexivity.
  Qed.

  (* ============================================================================================== *)
  (** * D. per-call lemmas *)

  (* ---- containers ---- *)
  Lemma ncs_spec : forall name level e s s' own,
    w_stack s <> [] -> 1 <= level -> enc_ok e -> str_arg e = Some own ->
    new_container_section name level e [] s = (s', Ok tt) ->
    w_out s' = w_out s ++ container_section (level - 1) name own.
  Proof.
    intros name level e s s' own Hne Hl He Hown H.
    rewrite WriterFacts.ncs_eq in H by assumption.
    destruct (validate_section s _) as [[]|err]; [|inversion H].
    destruct (render_header _ _) as [hd|err] eqn:Eh; [|inversion H]. cbv zeta in H.
    change (dict_set "encoding" e []) with [(B "encoding", e)] in Eh.
    injection H as <-. cbn [w_out]. f_equal. unfold container_section.
    apply (writer_header_eq _ _ [(B "encoding", e)] _ _); [| | |exact Eh].
    - cbn. constructor; [intros []|constructor].
    - constructor; [|constructor]. split; [apply key_spec; reflexivity|apply enc_ok_rend; exact He].
    - destruct (enc_ok_arg e He) as (own' & H1 & _ & H3 & _). rewrite Hown in H1. injection H1 as <-.
      cbn [map fst snd]. rewrite H3. apply Permutation_refl.
  Qed.

  Lemma container_step : forall h s c e s',
    (c = NewChange e \/ c = NewFile e) -> Pos h s -> enc_ok e -> do_call c s = (s', Ok tt) ->
    exists out h', spec_call e0 h c = Some (out, h') /\ w_out s' = w_out s ++ out /\ Pos h' s'.
  Proof.
    intros h s c e s' Hc HP He H.
    destruct (pos_facts h s HP) as (Hreach & _ & _ & _).
    pose proof (WriterFacts.Inv_stack s (WriterFacts.reachable_inv s Hreach)) as Hne.
    destruct (enc_ok_arg e He) as (own & Hown & Hwd & _).
    destruct Hc as [-> | ->].
    - exists (container_section 1 (B "change") own), (h ++ [Encodings.TChange own]).
      assert (HP' : Pos (h ++ [Encodings.TChange own]) s').
      { eapply pos_step; [exact HP|exact H|]. cbn [Encodings.call_transition map tmap]. rewrite Hwd. reflexivity. }
      split; [cbn [spec_call]; rewrite Hown; reflexivity|]. split; [|exact HP'].
      cbn [do_call] in H. assert (Hl : 1 <= GenText.writer_level_change) by (vm_compute; lia).
      exact (ncs_spec _ _ _ _ _ own Hne Hl He Hown H).
    - exists (container_section 2 (B "file") own), (h ++ [Encodings.TFile own]).
      assert (HP' : Pos (h ++ [Encodings.TFile own]) s').
      { eapply pos_step; [exact HP|exact H|]. cbn [Encodings.call_transition map tmap]. rewrite Hwd. reflexivity. }
      split; [|split; [|exact HP']].
      + destruct (pos_facts _ _ HP') as (_ & _ & Hord & _). rewrite map_app in Hord.
        apply Encodings.ordered_snoc in Hord. destruct Hord as [_ [Hch|Hh]]; [discriminate Hch|].
        assert (Hd : 1 <= depth h).
        { unfold depth. apply depth_nonempty. intros ->. apply Hh. reflexivity. }
        cbn [spec_call]. apply Nat.leb_le in Hd. rewrite Hd, Hown. reflexivity.
      + cbn [do_call] in H. assert (Hl : 1 <= GenText.writer_level_file) by (vm_compute; lia).
        exact (ncs_spec _ _ _ _ _ own Hne Hl He Hown H).
  Qed.


  (* ---- content sections: the header ---- *)
  Lemma opt_pairs_cons_snoc : forall x L, Permutation (opt_pairs (x :: L)) (opt_pairs (L ++ [x])).
  Proof.
    intros x L. unfold opt_pairs. rewrite flat_map_app. cbn [flat_map]. rewrite app_nil_r. apply Permutation_app_comm.
  Qed.

  Lemma opt_pairs_none_mid : forall L k R, opt_pairs (L ++ (k, None) :: R) = opt_pairs (L ++ R).
  Proof. intros. unfold opt_pairs. rewrite !flat_map_app. reflexivity. Qed.

  Lemma content_header_eq : forall dots name body lo enc ind wle key v hd own sind sle sv,
    content_opts body lo enc ind wle [(key, v)] =
      (key, v) :: [(B "encoding", enc); (B "indent", ind); (B "length", WInt (Z.of_nat (length body)))]
               ++ (if wle then [(B "line_endings", lo)] else []) ->
    NoDup (map fst (content_opts body lo enc ind wle [(key, v)])) ->
    HeaderFacts.spec_key key -> rend_value v -> rend_value enc -> rend_value ind -> rend_value lo ->
    sval enc = own -> sval ind = option_map dec sind -> (if wle then sval lo else None) = sle -> sval v = sv ->
    render_header (build_id dots name) (content_opts body lo enc ind wle [(key, v)]) = Ok hd ->
    hd ++ body = content_section dots name own sind sle (key, sv) body.
  Proof.
    intros dots name body lo enc ind wle key v hd own sind sle sv Hlist Hnd Hkey Hv Henc Hind Hlo Eown Eind Ele Ev Hh.
    unfold content_section. f_equal.
    apply (writer_header_eq _ _ _ _ _ Hnd); [| |exact Hh]; rewrite Hlist.
    - constructor; [split; assumption|].
      constructor; [split; [apply key_spec; reflexivity|exact Henc]|].
      constructor; [split; [apply key_spec; reflexivity|exact Hind]|].
      constructor; [split; [apply key_spec; reflexivity|constructor]|].
      destruct wle; [|constructor]. constructor; [split; [apply key_spec; reflexivity|exact Hlo]|constructor].
    - cbn [map fst snd app]. rewrite Eown, Eind, Ev. destruct wle; cbn [map fst snd app].
      + rewrite Ele.
        change [(B "encoding", own); (B "indent", option_map dec sind); (B "length", Some (dec (length body)));
                (B "line_endings", sle); (key, sv)]
          with ([(B "encoding", own); (B "indent", option_map dec sind); (B "length", Some (dec (length body)));
                 (B "line_endings", sle)] ++ [(key, sv)]).
        apply opt_pairs_cons_snoc.
      + subst sle.
        change [(B "encoding", own); (B "indent", option_map dec sind); (B "length", Some (dec (length body)));
                (B "line_endings", None); (key, sv)]
          with ([(B "encoding", own); (B "indent", option_map dec sind); (B "length", Some (dec (length body)))]
                 ++ (B "line_endings", None) :: [(key, sv)]).
        rewrite opt_pairs_none_mid. apply opt_pairs_cons_snoc.
  Qed.

  (* ---- content sections: the position ---- *)
  Lemma preamble_depth : forall n, n <= 2 -> In (build_id (n + 1) (B "preamble")) WriterFacts.ids -> n <= 1.
  Proof.
    intros n Hn H. destruct n as [|[|[|n]]]; try lia. exfalso. vm_compute in H.
    repeat (destruct H as [H|H]; [discriminate H|]). exact H.
  Qed.

  Lemma diff_depth : forall n, n <= 2 -> In (build_id (n + 1) (B "diff")) WriterFacts.ids -> n = 2.
  Proof.
    intros n Hn H. destruct n as [|[|[|n]]]; try lia; exfalso; vm_compute in H;
      repeat (destruct H as [H|H]; [discriminate H|]); exact H.
  Qed.

  Lemma content_target : forall h s c s' name,
    Pos h s -> do_call c s = (s', Ok tt) -> WriterFacts.target s c = build_id (cur_level s + 1 - 1) name ->
    cur_level s = depth h + 1 /\ depth h <= 2 /\ In (build_id (depth h + 1) name) WriterFacts.ids.
  Proof.
    intros h s c s' name HP H Ht. destruct (pos_facts h s HP) as (Hreach & Hlev & _).
    split; [exact Hlev|]. split; [apply depth_le2|].
    destruct (C02_ids_legal s c s' Hreach H) as (p & dots & nm & pairs & rest & _ & _ & _ & _ & _ & Hin & _).
    rewrite Ht, Hlev in Hin. replace (depth h + 1 + 1 - 1) with (depth h + 1) in Hin by lia. exact Hin.
  Qed.

  (* ---- content sections: the effective encoding, by position ---- *)
  Lemma lookup_nonempty : forall eb canon c, lookup_codec eb = LOk canon c -> eb <> [].
  Proof. intros eb canon c H. apply (spelling_facts _ _ _ H). Qed.

  Lemma eff_enc_spec : forall h s enc own e eb canon c,
    Pos h s -> enc_ok enc -> str_arg enc = Some own ->
    eff_enc s enc true = Ok (WStr e) -> c_enc ascii e = Some eb -> lookup_codec eb = LOk canon c ->
    effective e0 h own = Some eb.
  Proof.
    intros h s enc own e eb canon c HP He Hown H1 Heb Hl.
    destruct (enc_ok_arg enc He) as (own' & Ho & _ & _ & Eenc & Hlk). rewrite Hown in Ho. injection Ho as <-.
    apply enc_ascii_spec in Heb. destruct Heb as [-> _].
    pose proof (lookup_nonempty _ _ _ Hl) as Hne.
    unfold eff_enc in H1. destruct own as [eb'|]; subst enc.
    - destruct (Hlk eb' eq_refl) as (cn' & c' & Hl'). pose proof (lookup_nonempty _ _ _ Hl') as Hne'.
      assert (Ht : wv_truthy (inj eb') = true) by (cbn [inj wv_truthy]; destruct eb'; [congruence|reflexivity]).
      rewrite Ht in H1. cbn [negb andb] in H1. apply Ok_inj in H1. injection H1 as H1. apply ascii_text_inj in H1.
      subst eb'. reflexivity.
    - cbn [wv_truthy negb andb] in H1. destruct (pos_facts h s HP) as (_ & _ & _ & top & Htop & Hd).
      rewrite Htop in H1. apply Ok_inj in H1. subst top. cbn [effective].
      unfold Encodings.wdecl in Hd. cbn [wv_truthy] in Hd.
      assert (Hn : nonempty (ascii_text eb) = true) by (destruct eb; [congruence|reflexivity]). rewrite Hn in Hd.
      destruct (Encodings.spec_effective e0 h) as [eb'|]; [|discriminate Hd].
      cbn [option_map inj] in Hd. injection Hd as Hd. apply ascii_text_inj in Hd. subst eb'. reflexivity.
  Qed.

  (* ---- line_endings: declared values ---- *)
  Lemma le_choice : forall lev, In lev GenText.line_endings_values ->
    choice_arg spec_line_endings (WStr (ascii_text lev)) = Some (Some lev).
  Proof. intros lev [<-|[<-|[]]]; vm_compute; reflexivity. Qed.

  Lemma le_declared : forall lev, In lev GenText.line_endings_values ->
    declared_newline (WStr (ascii_text lev)) = Some (nl_text lev) /\
    assoc_get beq lev GenText.newline_formats = Some (nl_text lev).
  Proof.
    intros lev H. destruct (le_values_facts lev H) as (H1 & _ & H3 & _).
    unfold declared_newline. rewrite H1, H3. split; reflexivity.
  Qed.

  (* ---- text content (preamble, metadata) ---- *)
  Lemma text_content_spec : forall h s t indw sind le enc own body le_out,
    Pos h s -> enc_ok enc -> str_arg enc = Some own -> le_arg le ->
    (indw = WNone /\ sind = None \/ exists k, (0 <= k)%Z /\ indw = WInt k /\ sind = Some (Z.to_nat k)) ->
    prepare_content s (CText t) indw le enc true = Ok (body, le_out) ->
    exists eb kind,
      effective e0 h own = Some eb /\ line_kind_text le t = Some kind /\ le_out = WStr (ascii_text kind) /\
      is_nil t = false /\ text_body eb kind t sind = Some body.
  Proof.
    intros h s t indw sind le enc own body le_out HP He Hown Hle Hind H.
    apply prepare_content_unfold in H. destruct H as (e1 & nl0 & nb & cb & H1 & H2 & H3 & H4 & H5 & H6).
    destruct (text_newline_is_model_newline _ _ _ _ _ _ H2 H3) as (e & eb & lename & -> & Heb & Hin & Hlo & Hdecl & Hg).
    cbn [encode_content] in H4. unfold encode_dyn in H4. rewrite Heb in H4.
    assert (Hl : exists canon c, lookup_codec eb = LOk canon c).
    { unfold py_encode in H4. destruct (lookup_codec eb) as [canon c| |]; try discriminate H4. eauto. }
    destruct Hl as (canon & c & Hl).
    exists eb, lename.
    split; [eapply eff_enc_spec; eassumption|].
    split; [|split; [exact Hlo|split; [exact H5|]]].
    - destruct Hle as [|lev Hlev].
      + unfold choose_newline in H2. cbn [declared_newline] in H2.
        destruct (guess_line_endings_text t) as [le0 nl] eqn:Eg. apply Ok_inj in H2. injection H2 as _ H2.
        rewrite Hlo in H2. injection H2 as H2. apply ascii_text_inj in H2. subst le0.
        unfold line_kind_text. cbn [choice_arg str_arg obind]. rewrite Eg. reflexivity.
      + destruct (le_declared lev Hlev) as [Hd _].
        assert (Hne : declared_newline (WStr (ascii_text lev)) <> None) by (rewrite Hd; discriminate).
        specialize (Hdecl Hne). rewrite Hlo in Hdecl. injection Hdecl as Hdecl. apply ascii_text_inj in Hdecl. subst lename.
        unfold line_kind_text. rewrite (le_choice lev Hlev). reflexivity.
    - unfold text_body. rewrite Hg, H4.
      set (nl := strip_bom nb (enc1_name (WStr e))) in *.
      change (add_newline nl cb) with (terminate nl cb) in H6.
      destruct (TextFacts.model_newlines_unbordered _ _ _ Hg) as [Hnl Hu].
      destruct Hind as [[-> ->]|(k & Hk & -> & ->)].
      + unfold finish_content in H6. cbn [wv_truthy] in H6. apply Ok_inj in H6. rewrite H6. reflexivity.
      + unfold finish_content in H6. cbn [wv_truthy] in H6. unfold indent_lines.
        destruct (Z.eqb k 0) eqn:Ek; cbn [negb] in H6.
        * apply Ok_inj in H6. apply Z.eqb_eq in Ek. subst k. cbn [Z.to_nat].
          assert (Hc1 : terminate nl cb <> []) by (apply WriterFacts.content1_ne; exact Hnl).
          destruct (WriterFacts.split_lines_ok _ _ Hc1 Hnl) as (ls & Els). rewrite Els.
          cbn [repeat_b app]. rewrite map_id. rewrite (TextFacts.C16b_concat _ _ _ Hc1 Hnl Hu Els). rewrite H6. reflexivity.
        * cbn [indent_bytes bind] in H6.
          destruct (split_lines (terminate nl cb) nl true) as [ls|] eqn:Els; cbn [bind] in H6; [|discriminate H6].
          apply Ok_inj in H6. rewrite H6. reflexivity.
  Qed.

  (* ---- diff content ---- *)
  Lemma diff_content_spec : forall s b le enc own body le_out,
    enc_ok enc -> str_arg enc = Some own -> le_arg le ->
    prepare_content s (CBytes b) WNone le enc false = Ok (body, le_out) ->
    exists kind, line_kind_bytes le own b = Some kind /\ le_out = WStr (ascii_text kind) /\
      In kind (map fst GenText.newline_formats) /\ is_nil b = false /\ diff_body own kind b = Some body.
  Proof.
    intros s b le enc own body le_out He Hown Hle H.
    apply prepare_content_unfold in H. destruct H as (e1 & nl0 & nb & cb & H1 & H2 & H3 & H4 & H5 & H6).
    unfold eff_enc in H1. rewrite andb_false_r in H1. apply Ok_inj in H1. subst e1.
    cbn [encode_content] in H4. apply Ok_inj in H4. subst cb.
    unfold finish_content in H6. cbn [wv_truthy] in H6. apply Ok_inj in H6.
    set (nl := strip_bom nb (enc1_name enc)) in *.
    change (add_newline nl b) with (terminate nl b) in H6.
    assert (Hkey : exists kind, line_kind_bytes le own b = Some kind /\ le_out = WStr (ascii_text kind) /\
                     In kind (map fst GenText.newline_formats) /\ get_newline_for_type kind own = Ok nl).
    { destruct (enc_ok_arg enc He) as (own' & Ho & _ & _ & Eenc & Hlk). rewrite Hown in Ho. injection Ho as <-.
      destruct own as [eb|]; subst enc.
      - (* an own encoding *)
        destruct (Hlk eb eq_refl) as (canon & c & Hl). destruct (spelling_facts _ _ _ Hl) as (_ & Hce & Hne & _).
        assert (Ht : wv_truthy (inj eb) = true) by (cbn [inj wv_truthy]; destruct eb; [congruence|reflexivity]).
        assert (Hnle : newline_encoding_of (inj eb) = inj eb) by (unfold newline_encoding_of; rewrite Ht; reflexivity).
        assert (Hen : enc1_name (inj eb) = Some eb) by (cbn [inj enc1_name]; exact Hce).
        unfold nl. rewrite Hen. clear nl H6.
        unfold choose_newline in H2. rewrite Hnle in H2.
        destruct Hle as [|lev Hlev].
        + cbn [declared_newline] in H2. unfold enc_name, inj in H2. rewrite Hce in H2. cbn [bind] in H2.
          destruct (guess_line_endings_bytes b (Some eb)) as [p|] eqn:Eg; cbn [bind] in H2; [|discriminate H2].
          apply Ok_inj in H2. injection H2 as <- <-. cbn [encode_newline] in H3. apply Ok_inj in H3. subst nb.
          destruct (guess_bytes_spec _ _ _ Eg) as [Hin Hg].
          exists (fst p). split; [|split; [reflexivity|split; [exact Hin|]]].
          * unfold line_kind_bytes. cbn [choice_arg str_arg obind]. rewrite Eg. reflexivity.
          * rewrite (model_newline_strip_idem _ _ _ Hg). exact Hg.
        + destruct (le_declared lev Hlev) as [Hd Hnf]. rewrite Hd in H2.
          destruct (encode_dyn (nl_text lev) (inj eb)) as [nb'|] eqn:Ee; cbn [bind] in H2; [|discriminate H2].
          apply Ok_inj in H2. injection H2 as <- <-. cbn [encode_newline] in H3. apply Ok_inj in H3. subst nb'.
          unfold encode_dyn, inj in Ee. rewrite Hce in Ee.
          exists lev. split; [|split; [reflexivity|split; [eapply TextFacts.assoc_get_beq_in; exact Hnf|]]].
          * unfold line_kind_bytes. rewrite (le_choice lev Hlev). reflexivity.
          * eapply gnft_unfold; eassumption.
      - (* no encoding: the newline is ASCII *)
        assert (Hnle : newline_encoding_of WNone = WStr (ascii_text (B "ascii"))) by reflexivity.
        assert (Hca : c_enc ascii (ascii_text (B "ascii")) = Some (B "ascii")) by (vm_compute; reflexivity).
        assert (Hnl : nl = nb) by reflexivity. rewrite Hnl. clear nl H6 Hnl.
        unfold choose_newline in H2. rewrite Hnle in H2.
        destruct Hle as [|lev Hlev].
        + cbn [declared_newline] in H2. unfold enc_name in H2. rewrite Hca in H2. cbn [bind] in H2.
          destruct (guess_line_endings_bytes b (Some (B "ascii"))) as [p|] eqn:Eg; cbn [bind] in H2; [|discriminate H2].
          apply Ok_inj in H2. injection H2 as <- <-. cbn [encode_newline] in H3. apply Ok_inj in H3. subst nb.
          destruct (guess_bytes_spec _ _ _ Eg) as [Hin Hg].
          exists (fst p). split; [|split; [reflexivity|split; [exact Hin|exact Hg]]].
          unfold line_kind_bytes. cbn [choice_arg str_arg obind].
          change (guess_line_endings_bytes b None) with (guess_line_endings_bytes b (Some (B "ascii"))).
          rewrite Eg. reflexivity.
        + destruct (le_declared lev Hlev) as [Hd Hnf]. rewrite Hd in H2.
          destruct (encode_dyn (nl_text lev) (WStr (ascii_text (B "ascii")))) as [nb'|] eqn:Ee; cbn [bind] in H2;
            [|discriminate H2].
          apply Ok_inj in H2. injection H2 as <- <-. cbn [encode_newline] in H3. apply Ok_inj in H3. subst nb'.
          unfold encode_dyn in Ee. rewrite Hca in Ee.
          exists lev. split; [|split; [reflexivity|split; [eapply TextFacts.assoc_get_beq_in; exact Hnf|]]].
          * unfold line_kind_bytes. rewrite (le_choice lev Hlev). reflexivity.
          * change (get_newline_for_type lev None) with (get_newline_for_type lev (Some (B "ascii"))).
            rewrite (gnft_unfold _ _ _ _ Hnf Ee). rewrite strip_bom_no_entry by apply ascii_no_bom. reflexivity. }
    destruct Hkey as (kind & Hk1 & Hk2 & Hk3 & Hk4).
    exists kind. split; [exact Hk1|]. split; [exact Hk2|]. split; [exact Hk3|]. split; [exact H5|].
    unfold diff_body. rewrite Hk4, H6. reflexivity.
  Qed.


  (* ---- write_preamble ---- *)
  Lemma indent_views : forall ind, indent_ok ind ->
    exists sind, spec_indent_arg ind = Some sind /\
      (preamble_indent ind = WNone /\ sind = None \/
       exists k, (0 <= k)%Z /\ preamble_indent ind = WInt k /\ sind = Some (Z.to_nat k)) /\
      sval (preamble_indent ind) = option_map dec sind /\ rend_value (preamble_indent ind).
  Proof.
    intros [v|] H; cbn [indent_ok] in H.
    - destruct H as [|k Hk].
      + exists None. split; [reflexivity|]. split; [left; split; reflexivity|]. split; [reflexivity|constructor].
      + exists (Some (Z.to_nat k)).
        split; [cbn [spec_indent_arg]; apply Z.leb_le in Hk; rewrite Hk; reflexivity|].
        split; [right; exists k; auto|]. split; [|constructor].
        cbn [preamble_indent sval val_bytes option_map]. unfold dec. rewrite Z2Nat.id by exact Hk. reflexivity.
    - exists (Some spec_default_indent). split; [reflexivity|].
      split; [right; exists 4%Z; split; [lia|split; reflexivity]|]. split; [reflexivity|constructor].
  Qed.

  Lemma sval_le_out : forall kind, sval (WStr (ascii_text kind)) = Some kind.
  Proof. intros. cbn [sval val_bytes]. rewrite map_n_byte_ascii_text. reflexivity. Qed.

  Lemma preamble_step : forall h s text enc ind le mt s',
    Pos h s -> call_good (WritePreamble text enc ind le mt) ->
    do_call (WritePreamble text enc ind le mt) s = (s', Ok tt) ->
    exists out, spec_call e0 h (WritePreamble text enc ind le mt) = Some (out, h) /\ w_out s' = w_out s ++ out.
  Proof.
    intros h s text enc ind le mt s' HP (He & Hi & Hle) H.
    destruct (content_target h s _ s' (B "preamble") HP H eq_refl) as (Hlev & Hd2 & Hin).
    pose proof (preamble_depth _ Hd2 Hin) as Hd1.
    destruct (preamble_call_inv _ _ _ _ _ _ _ H) as (t & -> & Hmt & Hn).
    destruct (C02_length_exact _ _ _ _ _ _ _ _ _ _ Hn) as (body & le_out & hd & Hprep & Hh & _ & Hout & _ & _).
    destruct (enc_ok_arg enc He) as (own & Hown & _ & Hsv & _).
    destruct (indent_views ind Hi) as (sind & Hsi & Hshape & Hsvi & Hri).
    destruct (text_content_spec h s t _ sind le enc own body le_out HP He Hown Hle Hshape Hprep)
      as (eb & kind & Heff & Hkind & Hlo & Hnil & Hbody).
    destruct (choice_arg_accepted mt GenText.mimetypes choice_sub_mimetypes Hmt) as [Hcm Hrm].
    destruct (prepared_le_out _ _ _ _ _ _ _ _ Hprep) as (x & _ & _ & Hlog & _).
    exists (content_section (S (depth h)) (B "preamble") own sind (Some kind) (B "mimetype", sval mt) body).
    split.
    - cbn [spec_call]. apply Nat.leb_le in Hd1. rewrite Hd1, Hown. cbn [obind]. rewrite Hsi. cbn [obind].
      change spec_mimetypes with GenText.mimetypes. rewrite Hcm. cbn [obind]. rewrite Hkind. cbn [obind].
      rewrite Heff. cbn [obind]. rewrite Hnil, Hbody. reflexivity.
    - rewrite Hout. f_equal. rewrite Hlev in Hh. replace (depth h + 1) with (S (depth h)) in Hh by lia.
      eapply content_header_eq. 12: exact Hh.
      + reflexivity.
      + apply key_nodup. reflexivity.
      + apply key_spec. reflexivity.
      + exact Hrm.
      + apply enc_ok_rend. exact He.
      + exact Hri.
      + apply good_rend. exact Hlog.
      + exact Hsv.
      + exact Hsvi.
      + rewrite Hlo. apply sval_le_out.
      + reflexivity.
  Qed.

  (* ---- write_meta ---- *)
  Lemma format_views : forall fmt, in_strset (meta_fmt fmt) GenText.meta_formats = Ok true ->
    exists f, format_arg fmt = Some f /\ sval (meta_fmt fmt) = Some f /\ rend_value (meta_fmt fmt).
  Proof.
    intros fmt H. destruct (in_strset_true _ _ H) as (x & Hx & E).
    destruct (choice_arg_member GenText.meta_formats x Hx (choice_sub_meta_formats x Hx)) as (H1 & H2 & H3).
    exists x. rewrite E. split; [|split; [exact H2|exact H3]].
    destruct fmt as [v|]; cbn [meta_fmt] in E.
    - subst v. cbn [format_arg]. change spec_meta_formats with GenText.meta_formats. rewrite H1. reflexivity.
    - cbn [format_arg]. assert (E' : ascii_text GenText.meta_format_json = ascii_text x) by congruence.
      apply ascii_text_inj in E'. rewrite <- E'. reflexivity.
  Qed.

  (* the canonical JSON text of a non-empty dict starts with "{" LF: its first line ends with LF, not CR LF *)
  Lemma json_guess_unix : forall kv d, kv <> [] -> json_dump (JObj kv) = Ok d ->
    fst (guess_line_endings_text (ascii_text d)) = B "unix".
  Proof.
    intros kv d Hkv Ed. unfold json_dump in Ed. rewrite dump_obj in Ed by exact Hkv.
    destruct (dump_members 0 kv); [|discriminate Ed]. apply Ok_inj in Ed. subst d.
    assert (Hd : exists r, ascii_text (B "{" ++ nl_indent 1 ++ join (B "," ++ nl_indent 1) (map render_member (sort_kb a))
                                        ++ nl_indent 0 ++ B "}") = 123%N :: 10%N :: r).
    { eexists. unfold ascii_text. rewrite !map_app. reflexivity. }
    destruct Hd as (r & ->). rewrite guess_json_text. reflexivity.
  Qed.

  (* write_meta.  An encoding in force ([meta_enc_b], RoundTripSim.v): the JSON text, encoded.  None in force (the
     fixed writer accepts the call and writes the JSON as bytes): the specification's ASCII-bytes section. *)
  Lemma meta_step : forall h s md enc fmt s',
    Pos h s -> call_good (WriteMeta md enc fmt) ->
    do_call (WriteMeta md enc fmt) s = (s', Ok tt) ->
    exists out, spec_call e0 h (WriteMeta md enc fmt) = Some (out, h) /\ w_out s' = w_out s ++ out.
  Proof.
    intros h s md enc fmt s' HP (He & kv & ->) H.
    destruct (content_target h s _ s' (B "meta") HP H eq_refl) as (Hlev & _ & _).
    assert (Hne : w_stack s <> []).
    { destruct (pos_facts h s HP) as (Hr & _). apply WriterFacts.Inv_stack, WriterFacts.reachable_inv, Hr. }
    destruct (meta_call_inv_gen _ _ _ _ _ H) as (j & d & he & Ej & Htr & Hfmt & Hd & Hhe & Hn). injection Ej as <-.
    pose proof (has_enc_meta_enc s (WDict (JObj kv)) enc fmt he Hne Hhe) as Hme.
    assert (Hkv : kv <> []) by (intros ->; discriminate Htr).
    destruct (C02_length_exact _ _ _ _ _ _ _ _ _ _ Hn) as (body & le_out & hd & Hprep & Hh & _ & Hout & _ & _).
    destruct (enc_ok_arg enc He) as (own & Hown & _ & Hsv & Eenc & _).
    destruct (format_views fmt Hfmt) as (f & Hf & Hsf & Hrf).
    destruct (prepared_le_out _ _ _ _ _ _ _ _ Hprep) as (x & _ & _ & Hlog & _).
    assert (Hn0 : is_nil kv = false) by (destruct kv; [congruence|reflexivity]).
    exists (content_section (S (depth h)) (B "meta") own None None (B "format", Some f) body).
    split.
    - destruct he; cbv iota in Hprep.
      + (* an encoding is in force *)
        destruct (text_content_spec h s (ascii_text d) WNone None WNone enc own body le_out HP He Hown la_none
                    (or_introl (conj eq_refl eq_refl)) Hprep) as (eb & kind & Heff & Hkind & Hlo & Hnil & Hbody).
        unfold line_kind_text in Hkind. cbn [choice_arg str_arg obind] in Hkind. injection Hkind as Hkind.
        rewrite (json_guess_unix kv d Hkv Hd) in Hkind. subst kind.
        cbn [spec_call]. rewrite Hown. cbn [obind]. rewrite Hf. cbn [obind]. rewrite Hn0, Hd, Heff. cbn [obind].
        change (map byte_n d) with (ascii_text d). rewrite Hbody. reflexivity.
      + (* no encoding in force: the argument is None and no enclosing container declares one *)
        cbn [meta_enc_b] in Hme. unfold Encodings.w_content_encoding in Hme.
        destruct (wv_truthy enc) eqn:Et; cbn [negb andb] in Hme; [congruence|].
        pose proof (RoundTripStep.enc_ok_falsy enc He Et) as ->. clear Eenc.
        cbn [str_arg] in Hown. injection Hown as <-.
        destruct (pos_facts h s HP) as (_ & _ & _ & top & Htop & Hdecl).
        rewrite (WriterFacts.cur_encoding_hd s Hne) in Htop. injection Htop as Htop. rewrite Htop in Hme.
        unfold Encodings.wdecl in Hdecl. rewrite Hme in Hdecl.
        assert (Heff : effective e0 h None = None).
        { cbn [effective]. destruct (Encodings.spec_effective e0 h); [discriminate Hdecl|reflexivity]. }
        assert (Hb : exists r, d = x7b :: x0a :: r).
        { unfold json_dump in Hd. rewrite dump_obj in Hd by exact Hkv.
          destruct (dump_members 0 kv); [|discriminate Hd]. apply Ok_inj in Hd. subst d. eexists. reflexivity. }
        destruct Hb as (r & Hr).
        assert (Hce : eff_enc s WNone true = Ok top).
        { unfold eff_enc. cbn [wv_truthy negb andb]. rewrite (WriterFacts.cur_encoding_hd s Hne), Htop. reflexivity. }
        destruct (prepare_meta_bytes s d r WNone top body le_out Hr Hce Hme Hprep) as [Hbody _].
        cbn [spec_call str_arg obind]. rewrite Hf. cbn [obind]. rewrite Hn0, Hd, Heff.
        rewrite Hbody. reflexivity.
    - rewrite Hout. f_equal. rewrite Hlev in Hh. replace (depth h + 1) with (S (depth h)) in Hh by lia.
      eapply content_header_eq. 12: exact Hh.
      + reflexivity.
      + apply key_nodup. reflexivity.
      + apply key_spec. reflexivity.
      + exact Hrf.
      + apply enc_ok_rend. exact He.
      + constructor.
      + apply good_rend. exact Hlog.
      + exact Hsv.
      + reflexivity.
      + reflexivity.
      + exact Hsf.
  Qed.

  (* ---- write_diff ---- *)
  Lemma diff_step : forall h s content dt enc le s',
    Pos h s -> call_good (WriteDiff content dt enc le) ->
    do_call (WriteDiff content dt enc le) s = (s', Ok tt) ->
    exists out, spec_call e0 h (WriteDiff content dt enc le) = Some (out, h) /\ w_out s' = w_out s ++ out.
  Proof.
    intros h s content dt enc le s' HP (He & Hle) H.
    destruct (content_target h s _ s' (B "diff") HP H eq_refl) as (Hlev & Hd2 & Hin).
    pose proof (diff_depth _ Hd2 Hin) as Hd.
    destruct (diff_call_inv _ _ _ _ _ _ H) as (b & -> & Hdt & Hn).
    destruct (C02_length_exact _ _ _ _ _ _ _ _ _ _ Hn) as (body & le_out & hd & Hprep & Hh & _ & Hout & _ & _).
    destruct (enc_ok_arg enc He) as (own & Hown & _ & Hsv & _).
    destruct (diff_content_spec s b le enc own body le_out He Hown Hle Hprep)
      as (kind & Hkind & Hlo & _ & Hnil & Hbody).
    destruct (choice_arg_accepted dt GenText.diff_types choice_sub_diff_types Hdt) as [Hct Hrt].
    destruct (prepared_le_out _ _ _ _ _ _ _ _ Hprep) as (x & _ & _ & Hlog & _).
    exists (content_section 3 (B "diff") own None (Some kind) (B "type", sval dt) body).
    split.
    - cbn [spec_call]. rewrite Hd. cbn [Nat.eqb]. rewrite Hown. cbn [obind].
      change spec_diff_types with GenText.diff_types. rewrite Hct. cbn [obind]. rewrite Hkind. cbn [obind].
      rewrite Hnil, Hbody. reflexivity.
    - rewrite Hout. f_equal. rewrite Hlev, Hd in Hh. change (2 + 1) with 3 in Hh.
      eapply content_header_eq. 12: exact Hh.
      + reflexivity.
      + apply key_nodup. reflexivity.
      + apply key_spec. reflexivity.
      + exact Hrt.
      + apply enc_ok_rend. exact He.
      + constructor.
      + apply good_rend. exact Hlog.
      + exact Hsv.
      + reflexivity.
      + rewrite Hlo. apply sval_le_out.
      + reflexivity.
  Qed.

  (* ============================================================================================== *)
  (** * E. the walk *)

  (* one accepted call: the writer appended exactly the section the specification puts at this position *)
  Lemma call_step : forall h s c s',
    Pos h s -> call_good c -> do_call c s = (s', Ok tt) ->
    exists out h', spec_call e0 h c = Some (out, h') /\ w_out s' = w_out s ++ out /\ Pos h' s'.
  Proof.
    intros h s c s' HP Hg H.
    assert (Hkeep : Encodings.call_transition c = None -> Pos h s').
    { intros Hc. rewrite <- (app_nil_r h). eapply (pos_step h s c s' []); [exact HP|exact H|]. rewrite Hc. reflexivity. }
    destruct c as [e|e|text enc ind le mt|md enc fmt|content dt enc le].
    - eapply container_step; eauto.
    - eapply container_step; eauto.
    - destruct (preamble_step _ _ _ _ _ _ _ _ HP Hg H) as (out & H1 & H2). exists out, h. auto.
    - destruct (meta_step _ _ _ _ _ _ HP Hg H) as (out & H1 & H2). exists out, h. auto.
    - destruct (diff_step _ _ _ _ _ _ _ HP Hg H) as (out & H1 & H2). exists out, h. auto.
  Qed.

  Lemma walk_correct : forall cs h s, Pos h s -> Forall call_good cs -> accepted s cs ->
    exists suf, walk e0 h cs = Some suf /\ w_out (snd (run_calls s cs)) = w_out s ++ suf.
  Proof.
    induction cs as [|c t IH]; intros h s HP Hg Ha.
    - exists []. split; [reflexivity|]. cbn [run_calls snd]. rewrite app_nil_r. reflexivity.
    - inversion Hg as [|? ? Hc Ht]; subst. destruct (accepted_cons _ _ _ Ha) as (s' & Hd & Ha').
      destruct (call_step h s c s' HP Hc Hd) as (out & h' & Hs & Ho & HP').
      destruct (IH h' s' HP' Ht Ha') as (suf & Hw & Hr).
      exists (out ++ suf). split.
      + cbn [walk]. rewrite Hs. cbn [obind fst snd]. rewrite Hw. reflexivity.
      + rewrite WriterFacts.run_calls_cons, Hd. cbn [fst snd]. rewrite Hr, Ho, app_assoc. reflexivity.
  Qed.

  (* the constructor: the main header *)
  Lemma init_spec : exists v, choice_arg spec_versions ver = Some (Some v) /\
    w_out s0 = header 0 (B "diffx") [(B "encoding", e0); (B "version", Some v)].
  Proof.
    pose proof Hinit as H. unfold writer_init in H.
    destruct (in_strset ver GenText.versions) as [[|]|] eqn:Ev; try (inversion H; fail).
    apply in_strset_true in Ev. destruct Ev as (x & Hx & Ever).
    assert (Hxc : In x choice_values) by (unfold choice_values; do 4 (apply in_or_app; right); exact Hx).
    destruct (choice_arg_member GenText.versions x Hx Hxc) as (H1 & H2 & H3).
    exists x. rewrite Ever. split; [exact H1|].
    rewrite WriterFacts.ncs_eq in H by (first [discriminate | unfold GenText.writer_level_main; lia]).
    cbn [validate_section w_prev] in H.
    destruct (render_header _ _) as [hd|] eqn:Eh; [|inversion H]. cbv zeta in H. injection H as Hs.
    rewrite <- Hs. cbn [w_out app].
    rewrite Ever in Eh.
    change (dict_set "encoding" enc0 [(B "version", WStr (ascii_text x))])
      with [(B "version", WStr (ascii_text x)); (B "encoding", enc0)] in Eh.
    change (GenText.writer_level_main - 1) with 0 in Eh.
    refine (writer_header_eq 0 (B "diffx") _ _ hd _ _ _ Eh).
    - apply key_nodup. reflexivity.
    - constructor; [split; [apply key_spec; reflexivity|exact H3]|].
      constructor; [split; [apply key_spec; reflexivity|apply enc_ok_rend; exact Henc0]|constructor].
    - cbn [map fst snd]. rewrite H2.
      destruct (enc_ok_arg enc0 Henc0) as (own & Ho & _ & Hsv & _). rewrite He0 in Ho. injection Ho as <-. rewrite Hsv.
      apply (opt_pairs_cons_snoc (B "version", Some x) [(B "encoding", e0)]).
  Qed.

End Walk.

(* ================================================================================================ *)
(** * The theorem *)

(* Since the fix of write_meta a writer without any encoding (DiffXWriter(encoding=None), [enc_ok] allows it) accepts
   write_meta and writes the JSON as bytes; the specification's serializer puts the same ASCII-bytes section there
   ([spec_call], "no encoding in force"), so the statement needs no hypothesis about encodings:
   [writer_is_spec_unencoded_ex] below. *)
Theorem C02_writer_is_spec_thm : forall enc0 ver s0 cs,
  writer_init enc0 ver = (s0, Ok tt) -> enc_ok enc0 -> Forall call_good cs -> accepted s0 cs ->
  spec_serialize enc0 ver cs = Some (w_out (snd (run_calls s0 cs))).
Proof.
  intros enc0 ver s0 cs Hi He Hg Ha.
  destruct (enc_ok_arg enc0 He) as (e0 & He0 & _).
  destruct (init_spec enc0 ver s0 e0 Hi He0 He) as (v & Hv & Hout).
  destruct (walk_correct enc0 ver s0 e0 Hi He0 He cs [] s0 (pos_init s0) Hg Ha) as (suf & Hw & Hr).
  unfold spec_serialize. rewrite He0. cbn [obind]. rewrite Hv. cbn [obind]. rewrite Hw. cbn [obind].
  rewrite Hr, Hout. reflexivity.
Qed.

(* under the same hypotheses the specification's serializer is defined: every argument is in its domain and every
   section has a legal id at its position *)
Corollary spec_serialize_defined : forall enc0 ver s0 cs,
  writer_init enc0 ver = (s0, Ok tt) -> enc_ok enc0 -> Forall call_good cs -> accepted s0 cs ->
  spec_serialize enc0 ver cs <> None.
Proof. intros enc0 ver s0 cs Hi He Hg Ha. rewrite (C02_writer_is_spec_thm _ _ _ _ Hi He Hg Ha). discriminate. Qed.

(* every intermediate output too: the bytes after each accepted call are the serialization of the calls so far *)
Corollary writer_is_spec_prefix : forall enc0 ver s0 pre post,
  writer_init enc0 ver = (s0, Ok tt) -> enc_ok enc0 -> Forall call_good (pre ++ post) -> accepted s0 (pre ++ post) ->
  spec_serialize enc0 ver pre = Some (w_out (snd (run_calls s0 pre))).
Proof.
  intros enc0 ver s0 pre post Hi He Hg Ha. apply Forall_app in Hg. destruct Hg as [Hg _].
  apply C02_writer_is_spec_thm; try assumption.
  unfold accepted in *. rewrite run_calls_app_fst in Ha. apply Forall_app in Ha. apply Ha.
Qed.

(* the new path of the fixed writer, on an instance: DiffXWriter(encoding=None); write_meta({'k': 1}) is accepted,
   no encoding is in force, and both sides are these bytes *)
Lemma writer_is_spec_unencoded_ex :
  exists enc0 ver s0 cs,
    writer_init enc0 ver = (s0, Ok tt) /\ enc_ok enc0 /\ Forall call_good cs /\ accepted s0 cs /\
    ~ metas_encoded s0 cs /\
    spec_serialize enc0 ver cs = Some (w_out (snd (run_calls s0 cs))) /\
    w_out (snd (run_calls s0 cs)) =
      B "#diffx: version=1.0" ++ [x0a] ++ B "#.meta: format=json, length=15" ++ [x0a] ++
      B "{" ++ [x0a] ++ B "    ""k"": 1" ++ [x0a] ++ B "}" ++ [x0a].
Proof.
  exists WNone, (WStr (ascii_text (B "1.0"))), (fst (writer_init WNone (WStr (ascii_text (B "1.0"))))),
         [WriteMeta (WDict (JObj [(ascii_text (B "k"), JInt 1)])) WNone None].
  split; [vm_compute; reflexivity|]. split; [left; reflexivity|].
  split; [constructor; [split; [left; reflexivity|eexists; reflexivity]|constructor]|].
  split; [unfold accepted; vm_compute; repeat constructor|].
  split; [intros [H _]; vm_compute in H; discriminate H|].
  split; vm_compute; reflexivity.
Qed.

(* ================================================================================================ *)
(** * Examples *)

(* the 14-call program of RoundTripSeqExample.v (three changes, six encodings, inherited and own, indentation,
   declared and detected line endings): the hypotheses hold and both sides are the same 857 bytes *)
Lemma spec_example :
  writer_init RoundTripSeqExample.ex_enc0 RoundTripSeqExample.ex_ver = (RoundTripSeqExample.ex_s0, Ok tt) /\
  enc_ok RoundTripSeqExample.ex_enc0 /\ Forall call_good RoundTripSeqExample.ex_cs /\
  accepted RoundTripSeqExample.ex_s0 RoundTripSeqExample.ex_cs /\
  spec_serialize RoundTripSeqExample.ex_enc0 RoundTripSeqExample.ex_ver RoundTripSeqExample.ex_cs
    = Some (w_out (snd (run_calls RoundTripSeqExample.ex_s0 RoundTripSeqExample.ex_cs))) /\
  option_map (@length byte)
    (spec_serialize RoundTripSeqExample.ex_enc0 RoundTripSeqExample.ex_ver RoundTripSeqExample.ex_cs) = Some 857.
Proof.
  split; [exact RoundTripSeqExample.ex_init|]. split; [exact RoundTripSeqExample.ex_enc0_ok|].
  split; [exact RoundTripSeqExample.ex_good|]. split; [exact RoundTripSeqExample.ex_accepted|].
  split; vm_compute; reflexivity.
Qed.

(* [spec_serialize] does not check the ORDER of sections (that is C09/C10: the writer enforces the state tree of
   section-format.rst); so it is defined on call lists the writer rejects, and the converse of the theorem
   ("spec_serialize = Some b -> all calls accepted") is false as stated.  Witness: two main preambles. *)
Definition ex_preamble_a : call := WritePreamble (WStr (ascii_text (B "a"))) WNone None WNone WNone.
Lemma spec_converse_refuted :
  exists enc0 ver s0 cs b,
    writer_init enc0 ver = (s0, Ok tt) /\ enc_ok enc0 /\ Forall call_good cs /\
    spec_serialize enc0 ver cs = Some b /\ ~ accepted s0 cs.
Proof.
  exists RoundTripSeqExample.ex_enc0, RoundTripSeqExample.ex_ver, RoundTripSeqExample.ex_s0,
         [ex_preamble_a; ex_preamble_a].
  eexists. split; [exact RoundTripSeqExample.ex_init|]. split; [exact RoundTripSeqExample.ex_enc0_ok|].
  split; [|split].
  - assert (G : call_good ex_preamble_a).
    { cbn [call_good ex_preamble_a indent_ok]. split; [left; reflexivity|]. split; [exact I|apply la_none]. }
    constructor; [exact G|]. constructor; [exact G|constructor].
  - vm_compute. reflexivity.
  - intros H. unfold accepted in H. vm_compute in H.
    inversion H as [|? ? _ H2]. inversion H2 as [|? ? H3 _]. discriminate H3.
Qed.
