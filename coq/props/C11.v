(* C11 — header grammar.  Property statements only; lemmas and proofs are in theories/HeaderFacts.v.
   The grammar [spec_header] / [spec_key] / [spec_val] / [spec_convert] is defined there from the
   property text, independently of the model (Header.v). *)
From Coq Require Import List Arith NArith ZArith Bool Strings.Byte.
From Coq Require Strings.String.
From DX Require Import Bytes Res Sections Header Stream Reader HeaderFacts.
Import ListNotations.
Import String.StringSyntax.
Local Open Scope string_scope.
Local Open Scope list_scope.

(* accepted => documented form; options reported verbatim (later duplicates override) *)
Theorem C11_sound : forall valid line level name id opts,
  parse_header valid line = HOk level name id opts ->
  exists ps, spec_header line level name ps /\
             id = repeat_b "."%byte level ++ name /\ In id valid /\
             opts = opts_of convert_value ps.
Proof. exact HeaderFacts.C11_sound. Qed.
Print Assumptions C11_sound.

(* documented form with an expected section ID => accepted with exactly those options *)
Theorem C11_complete : forall valid line dots name ps,
  spec_header line dots name ps -> In (repeat_b "."%byte dots ++ name) valid ->
  parse_header valid line =
    HOk dots name (repeat_b "."%byte dots ++ name) (opts_of convert_value ps).
Proof. exact HeaderFacts.C11_complete. Qed.
Print Assumptions C11_complete.

(* every other line is rejected with a parse error: [hdr_result] has no other outcome *)
Theorem C11_reject : forall valid line,
  ~ (exists dots name ps, spec_header line dots name ps /\ In (repeat_b "."%byte dots ++ name) valid) ->
  exists col, parse_header valid line = HErr col.
Proof. exact HeaderFacts.C11_reject. Qed.
Print Assumptions C11_reject.

Theorem C11_reject_form : forall valid line,
  ~ (exists dots name ps, spec_header line dots name ps) ->
  exists col, parse_header valid line = HErr col.
Proof. exact HeaderFacts.C11_reject_form. Qed.
Print Assumptions C11_reject_form.

Theorem C11_unexpected : forall valid line dots name ps,
  spec_header line dots name ps -> ~ In (repeat_b "."%byte dots ++ name) valid ->
  parse_header valid line = HErr None.
Proof. exact HeaderFacts.C11_unexpected. Qed.
Print Assumptions C11_unexpected.

Theorem C11_exact : forall valid line,
  (exists level name id opts, parse_header valid line = HOk level name id opts) <->
  (exists dots name ps, spec_header line dots name ps /\ In (repeat_b "."%byte dots ++ name) valid).
Proof. exact HeaderFacts.C11_exact. Qed.
Print Assumptions C11_exact.

(* "integer-valued ones as integers": -?[0-9]+ is reported as its value, anything else verbatim;
   explicit side condition: more than 4300 digits stay a string (CPython's int-string limit). *)
Theorem C11_convert : forall v, spec_convert v (convert_value v).
Proof. exact HeaderFacts.convert_value_spec. Qed.
Print Assumptions C11_convert.

Theorem C11_convert_unique : forall v a, spec_convert v a -> a = convert_value v.
Proof. exact HeaderFacts.convert_value_unique. Qed.
Print Assumptions C11_convert_unique.

(* the grammar is unambiguous, so "exactly those options" is well defined *)
Theorem C11_unambiguous : forall line d1 n1 ps1 d2 n2 ps2,
  spec_header line d1 n1 ps1 -> spec_header line d2 n2 ps2 -> d1 = d2 /\ n1 = n2 /\ ps1 = ps2.
Proof. exact HeaderFacts.spec_header_unambiguous. Qed.
Print Assumptions C11_unambiguous.

(* in the reader a rejected header becomes a parse error; any other exception of [read_header] comes from
   reading the stream, not from the header line *)
Theorem C11_reader_never_other_exception : forall chunk valid st e,
  read_header chunk valid st = HdrExc e ->
  next_nonblank (S (length (remaining (st_stream st)))) chunk (st_stream st) = Err e.
Proof. exact HeaderFacts.read_header_err_is_parse. Qed.
Print Assumptions C11_reader_never_other_exception.

(* ---- examples ---- *)

(* hypotheses of C11_complete are satisfiable *)
Example C11_ex_spec :
  spec_header (B "#..meta: length=100, my-option=value") 2 (B "meta")
              [(B "length", B "100"); (B "my-option", B "value")].
Proof. apply spec_header_b_sound. vm_compute. reflexivity. Qed.

(* accepted, length as an integer *)
Example C11_ex_accept :
  parse_header [B "..meta"] (B "#..meta: length=100, my-option=value")
  = HOk 2 (B "meta") (B "..meta") [(B "length", VInt 100); (B "my-option", VStr (B "value"))].
Proof. vm_compute. reflexivity. Qed.

Example C11_ex_accept_via_theorem :
  parse_header [B "..meta"] (B "#..meta: length=100, my-option=value")
  = HOk 2 (B "meta") (B "..meta")
        (opts_of convert_value [(B "length", B "100"); (B "my-option", B "value")]).
Proof. apply (C11_complete [B "..meta"] _ 2 (B "meta")); [exact C11_ex_spec|left; reflexivity]. Qed.

(* negative, leading zeros, duplicates (last wins); "1_0" and "-" are not integers *)
Example C11_ex_ints :
  parse_header [B "..meta"] (B "#..meta: n=-12, n=007, p=1_0, q=-")
  = HOk 2 (B "meta") (B "..meta") [(B "n", VInt 7); (B "p", VStr (B "1_0")); (B "q", VStr (B "-"))].
Proof. vm_compute. reflexivity. Qed.

(* rejected: invalid value character (column of the value), as in the documentation's list *)
Example C11_ex_reject_value : parse_header [B "..meta"] (B "#..meta: option=100+") = HErr (Some 16).
Proof. vm_compute. reflexivity. Qed.

Example C11_ex_reject_colon : parse_header [B "diffx"] (B "#diffx::") = HErr None.
Proof. vm_compute. reflexivity. Qed.

(* rejected: non-ASCII byte in a key / in a value *)
Example C11_ex_reject_nonascii_key :
  parse_header [B "..meta"] (B "#..meta: k" ++ [xc3; xa9] ++ B "y=1") = HErr (Some 9).
Proof. vm_compute. reflexivity. Qed.

Example C11_ex_reject_nonascii_value :
  parse_header [B "..meta"] (B "#..meta: key=caf" ++ [xc3; xa9]) = HErr (Some 13).
Proof. vm_compute. reflexivity. Qed.

(* the other invalid headers listed in docs/spec/section-format.rst *)
Example C11_ex_reject_doc_list :
  map (parse_header [B "diffx"; B ".preamble"; B ".change"; B "..meta"; B "....diff"])
      [B ".preamble"; B "#.change"; B "#....diff:"; B "#diffx: 1.0"; B "#..meta: option=value,option2=value";
       B "#..meta: option=value, option2=value:"; B "#..meta: _option=value"; B "#..meta: my-option = value"]
  = [HErr None; HErr None; HErr None; HErr None; HErr None; HErr (Some 31); HErr (Some 9); HErr None].
Proof. vm_compute. reflexivity. Qed.

(* well-formed header whose section ID is not expected here *)
Example C11_ex_unexpected : parse_header [B "diffx"] (B "#..meta: length=100") = HErr None.
Proof. vm_compute. reflexivity. Qed.

(* a digit string longer than 4300 digits stays a string (the explicit side condition of [spec_convert]) *)
Example C11_ex_long_digits :
  convert_value (repeat_b "1"%byte 4301) = VStr (repeat_b "1"%byte 4301) /\
  exists z, convert_value (repeat_b "1"%byte 4300) = VInt z.
Proof. split; [vm_compute; reflexivity|eexists; vm_compute; reflexivity]. Qed.
