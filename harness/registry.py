"""Which families and generated modules decide which property."""
import fam_text
import fam_stream

_split = fam_text.Split()
_codec = fam_text.CodecFam()

_stream = fam_stream.Stream()

FAMILIES = {f.name: f for f in [_split, _codec, _stream]}

PROPS = {
    'C16': dict(families=[_split], trusted_base=[
        'Python bytes.split/endswith/slicing behave as Bytes.split/suffixb/firstn (validated by the split family)']),
}
