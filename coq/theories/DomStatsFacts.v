(* DomStatsFacts.v — C13 end to end: composes the statistics model (DomFacts.v) with the line splitter (TextFacts.v,
   C16) and the hunk parser (HunksFacts.v, C14): for a diff that IS a sequence of LF-terminated lines made of
   well-formed hunks interleaved with non-hunk lines, the figures generate_stats stores are the numbers of "-" and
   "+" lines inside the hunks. Kept apart from DomFacts.v so that DomFacts.v depends on model files only. *)
From Coq Require Import List Arith NArith ZArith Bool Strings.Byte Lia.
From Coq Require Strings.String.
From DX Require Import Bytes Res Codec Text Json Writer Hunks Dom TextFacts HunksFacts DomFacts.
From DXGen Require GenText.
Import ListNotations.
Import String.StringSyntax.
Local Open Scope string_scope.
Local Open Scope list_scope.

Definition lf : bytes := [x0a].
(* the text whose lines are [lines], each terminated by LF *)
Definition join_lf (lines : list bytes) : bytes := concat (map (fun l => l ++ lf) lines).

Lemma split_aux_lf_line : forall line rest cur, ~ In x0a line ->
  split_aux byte_eqb lf cur (line ++ x0a :: rest) 0 = frev (rev line ++ cur) :: split_aux byte_eqb lf [] rest 0.
Proof.
  induction line as [|x line IH]; intros rest cur N.
  - cbn. reflexivity.
  - cbn [app split_aux lf prefixb length Nat.sub].
    assert (E : byte_eqb x0a x = false).
    { destruct (byte_eqb x0a x) eqn:E; auto. apply byte_eqb_spec in E. subst. exfalso. apply N. left; auto. }
    rewrite E. cbn [andb]. rewrite IH by (intro; apply N; right; auto).
    cbn [rev]. rewrite <- app_assoc. reflexivity.
Qed.
Lemma split_join_lf : forall lines, Forall (fun l => ~ In x0a l) lines -> split byte_eqb lf (join_lf lines) = lines ++ [[]].
Proof.
  unfold split. induction 1 as [|l lines Hl F IH]; [reflexivity|].
  change (join_lf (l :: lines)) with ((l ++ lf) ++ join_lf lines). rewrite <- app_assoc.
  change (lf ++ join_lf lines) with (x0a :: join_lf lines).
  rewrite split_aux_lf_line by auto. rewrite app_nil_r, frev_rev, rev_involutive. cbn [app]. f_equal. exact IH.
Qed.
Lemma split_lines_join_lf : forall lines, lines <> [] -> Forall (fun l => ~ In x0a l) lines ->
  split_lines (join_lf lines) lf false = Ok lines.
Proof.
  intros lines NE F. unfold split_lines.
  assert (S : exists q, join_lf lines = q ++ lf).
  { destruct (exists_last NE) as (init & lst & ->). exists (join_lf init ++ lst).
    unfold join_lf. rewrite map_app, concat_app. cbn. rewrite app_nil_r, app_assoc. reflexivity. }
  destruct S as [q S].
  rewrite (split_lines_nokeep byte_eqb (join_lf lines) lf lines []).
  - rewrite S, (suffixb_app byte_eqb byte_eqb_spec). reflexivity.
  - rewrite S. destruct q; discriminate.
  - discriminate.
  - apply split_join_lf; auto.
Qed.

(* C13_file, end to end.  The diff section holds a diff which, once brought to UTF-8 with newline LF by
   fs_newline / fs_recode (this is where the declared encoding and line endings enter — for ASCII-transparent
   encodings fs_recode is the identity on the bytes, for UTF-16/32 it is the transcoding), is the LF-joined
   sequence of well-formed hunks [hs] interleaved with non-hunk lines [seps].  Then the analysis yields exactly the
   number of "-" lines and of "+" lines inside the hunks. *)
Theorem C13_file_counts : forall d diff nl diff' hs seps,
  x_content d = Some diff -> diff <> [] -> wv_eq (kw (x_opts d) "type") binary_type = false ->
  fs_newline (x_opts d) diff = Ok nl ->
  fs_recode (text_of (kw (x_opts d) "encoding")) diff nl = Ok (diff', lf) ->
  Forall wf_hunk hs -> List.length seps = S (List.length hs) -> Forall (Forall non_header) seps ->
  let lines := interleave seps (map render_hunk hs) in
  lines <> [] -> Forall (fun l => ~ In x0a l) lines -> diff' = join_lf lines ->
  fs_analyse d = FStats (Z.of_nat (total_del hs)) (Z.of_nat (total_ins hs)).
Proof.
  intros d diff nl diff' hs seps C NE T N R W L S lines LNE NLF ->.
  eapply fs_analyse_stats; eauto.
  - apply split_lines_join_lf; auto.
  - apply C14_tolerant_thm; auto.
Qed.

(* the figures are the plain counts of Del / Ins lines of the hunk bodies *)
Theorem C13_totals_def : forall hs,
  total_del hs = fold_right (fun a n => (countb is_del (a_body a) + n)%nat) 0%nat hs /\
  total_ins hs = fold_right (fun a n => (countb is_ins (a_body a) + n)%nat) 0%nat hs.
Proof. intros; split; reflexivity. Qed.

(* instance: no declared encoding, line endings declared "unix" (no guessing, no transcoding) *)
Theorem C13_file_counts_plain : forall f hs seps le,
  x_opts (f_diff f) = le ->
  kw le "type" = WNone -> kw le "encoding" = WNone -> kw le "line_endings" = S_ "unix" ->
  Forall wf_hunk hs -> List.length seps = S (List.length hs) -> Forall (Forall non_header) seps ->
  let lines := interleave seps (map render_hunk hs) in
  lines <> [] -> Forall (fun l => ~ In x0a l) lines ->
  x_content (f_diff f) = Some (join_lf lines) ->
  (jget "stats" (m_content (f_meta f)) = None \/ exists o, jget "stats" (m_content (f_meta f)) = Some (JObj o)) ->
  exists f', file_stats f = Ok f' /\
    file_fig "deletions" f' = Z.of_nat (total_del hs) /\ file_fig "insertions" f' = Z.of_nat (total_ins hs) /\
    file_fig "lines changed" f' = (Z.of_nat (total_del hs) + Z.of_nat (total_ins hs))%Z.
Proof.
  intros f hs seps le O T E LE W L S lines LNE NLF C ST.
  assert (NE : join_lf lines <> []).
  { destruct lines as [|l0 ls]; [contradiction|]. unfold join_lf. cbn. destruct l0; discriminate. }
  assert (A : fs_analyse (f_diff f) = FStats (Z.of_nat (total_del hs)) (Z.of_nat (total_ins hs))).
  { eapply (C13_file_counts (f_diff f) (join_lf lines) lf (join_lf lines) hs seps); eauto.
    - rewrite O, T. reflexivity.
    - rewrite O. unfold fs_newline. rewrite E, LE. vm_compute. reflexivity.
    - rewrite O, E. reflexivity. }
  pose proof (C13_file_total f _ _ A ST) as FS. eexists. split; [exact FS|].
  unfold file_fig, stat_of. cbn [with_file_meta f_meta m_content].
  unfold jset, jget. rewrite aget_set_same_t.
  pose proof (NoDup_file_keys (Z.of_nat (total_del hs)) (Z.of_nat (total_ins hs))) as ND.
  set (old := old_stats (m_content (f_meta f))).
  assert (G1 : assoc_get teq (ascii_text (B "deletions")) (jupdate (file_stat_list (Z.of_nat (total_del hs)) (Z.of_nat (total_ins hs))) old)
               = Some (JInt (Z.of_nat (total_del hs)))) by (apply jupdate_get_in; cbn; auto).
  assert (G2 : assoc_get teq (ascii_text (B "insertions")) (jupdate (file_stat_list (Z.of_nat (total_del hs)) (Z.of_nat (total_ins hs))) old)
               = Some (JInt (Z.of_nat (total_ins hs)))) by (apply jupdate_get_in; cbn; auto).
  assert (G3 : assoc_get teq (ascii_text (B "lines changed")) (jupdate (file_stat_list (Z.of_nat (total_del hs)) (Z.of_nat (total_ins hs))) old)
               = Some (JInt (Z.of_nat (total_del hs) + Z.of_nat (total_ins hs)))) by (apply jupdate_get_in; cbn; auto).
  rewrite G1, G2, G3. auto.
Qed.

(* C14's example document as UTF-16 bytes (with BOM), for the Example in props/C13.v *)
Definition ex_utf16 : bytes := match py_encode (ascii_text (join_lf ex_lines)) (B "utf-16") with Ok b => b | Err _ => [] end.
