(* Entry.v — dispatch from a harness case (an S-expression) to a model function; result as an S-expression. *)
From Coq Require Import List Arith NArith ZArith Bool Strings.Byte.
From Coq Require Strings.String.
From DX Require Import Bytes Sx Res Codec Text Json Sections Header Stream Reader Writer Wire Hunks Dom DomWire DomOps LexEntry SpecWire.
Import ListNotations.
Import String.StringSyntax.
Local Open Scope string_scope.
Local Open Scope list_scope.

Definition exn_name (e : exn) : String.string :=
  match e with
  | EAssertion => "AssertionError" | ELookup => "LookupError" | EType => "TypeError"
  | EUnicodeEncode => "UnicodeEncodeError" | EUnicodeDecode => "UnicodeDecodeError" | EValue => "ValueError"
  | EKey => "KeyError" | EOverflow => "OverflowError" | EAttribute => "AttributeError"
  | EUnboundLocal => "UnboundLocalError" | ERecursion => "RecursionError" | EIndex => "IndexError"
  | ELibParse => "DiffXParseError" | ELibContent => "DiffXContentError" | ELibOrder => "DiffXSectionOrderError"
  | ELibOptionValue => "DiffXOptionValueError" | ELibChoice => "DiffXOptionValueChoiceError"
  | ELibUnknownOption => "DiffXUnknownOptionError"
  | EUnmodelled => "UNMODELLED" | EOracleMiss => "ORACLE-MISS"
  end.
Definition sx_of_exn (e : exn) : sx := tagged "exc" [sym (exn_name e)].
Definition sx_of_res {A} (f : A -> sx) (r : res A) : sx :=
  match r with Ok a => tagged "ok" [f a] | Err e => sx_of_exn e end.

(* (split_lines #data #nl bool) *)
Definition run_split_lines (args : list sx) : sx :=
  match args with
  | [d; n; k] =>
      match sx_bytes d, sx_bytes n, sx_bool k with
      | Some d, Some n, Some k => sx_of_res (sx_of_list sx_of_bytes) (split_lines d n k)
      | _, _, _ => bad_case "split_lines args"
      end
  | _ => bad_case "split_lines arity"
  end.

(* (codec enc|dec #name payload) *)
Definition run_codec (args : list sx) : sx :=
  match args with
  | [op; name; payload] =>
      match sx_bytes name with
      | Some name =>
          if sym_is op "enc" then
            match sx_text payload with
            | Some t => sx_of_res sx_of_bytes (py_encode t name)
            | None => bad_case "codec enc payload"
            end
          else
            match sx_bytes payload with
            | Some b => sx_of_res sx_of_text (py_decode b name)
            | None => bad_case "codec dec payload"
            end
      | None => bad_case "codec name"
      end
  | _ => bad_case "codec arity"
  end.

(* (newline_for #le (some #enc)|none) and (guess #data enc) *)
Definition run_newline_for (args : list sx) : sx :=
  match args with
  | [le; enc] =>
      match sx_bytes le, sx_option sx_bytes enc with
      | Some le, Some enc => sx_of_res sx_of_bytes (get_newline_for_type le enc)
      | _, _ => bad_case "newline_for args"
      end
  | _ => bad_case "newline_for arity"
  end.
Definition run_guess (args : list sx) : sx :=
  match args with
  | [d; enc] =>
      match sx_bytes d, sx_option sx_bytes enc with
      | Some d, Some enc =>
          sx_of_res (fun p => Li [sx_of_bytes (fst p); sx_of_bytes (snd p)]) (guess_line_endings_bytes d enc)
      | _, _ => bad_case "guess args"
      end
  | _ => bad_case "guess arity"
  end.

(* (read chunk #data oracle) *)
Definition sx_of_read_result (r : list record * term) : sx :=
  Li [sx_of_list sx_of_record (fst r); sx_of_term (snd r) sx_of_exn].
Definition run_read (args : list sx) : sx :=
  match args with
  | [c; d; o] =>
      match sx_nat c, sx_bytes d, sx_oracle o with
      | Some c, Some d, Some o => sx_of_read_result (read_all o c d)
      | _, _, _ => bad_case "read args"
      end
  | _ => bad_case "read arity"
  end.

(* (header (#valid ...) #line) *)
Definition run_header (args : list sx) : sx :=
  match args with
  | [v; h] =>
      match sx_list sx_bytes v, sx_bytes h with
      | Some v, Some h =>
          match parse_header v h with
          | HOk level name id opts => tagged "ok" [sx_of_nat level; Hex name; Hex id; sx_of_options opts]
          | HErr col => tagged "parse" [sx_of_option sx_of_nat col]
          end
      | _, _ => bad_case "header args"
      end
  | _ => bad_case "header arity"
  end.

(* (write enc version (call ...)) *)
Definition sx_of_status (r : res unit * nat) : sx :=
  match fst r with
  | Ok _ => Li [sym "ok"; sx_of_nat (snd r)]
  | Err e => Li [sx_of_exn e; sx_of_nat (snd r)]
  end.
Definition run_write (args : list sx) : sx :=
  match args with
  | [e; v; cs] =>
      match sx_wv e, sx_wv v, sx_list sx_call cs with
      | Some e, Some v, Some cs =>
          let (s0, r0) := writer_init e v in
          match r0 with
          | Err ex => tagged "init" [sx_of_exn ex]
          | Ok _ =>
              let (rs, f) := run_calls s0 cs in
              Li [sym "ok"; sx_of_nat (length (w_out s0)); sx_of_list sx_of_status rs; Hex (w_out f)]
          end
      | _, _, _ => bad_case "write args"
      end
  | _ => bad_case "write arity"
  end.

(* (write_read enc version (call ...) chunk oracle): the writer, then the reader on what the model writer produced *)
Definition run_write_read (args : list sx) : sx :=
  match args with
  | [e; v; cs; c; o] =>
      match sx_wv e, sx_wv v, sx_list sx_call cs, sx_nat c, sx_oracle o with
      | Some e, Some v, Some cs, Some c, Some o =>
          let (s0, r0) := writer_init e v in
          match r0 with
          | Err ex => tagged "init" [sx_of_exn ex]
          | Ok _ =>
              let (rs, f) := run_calls s0 cs in
              Li [Li [sym "ok"; sx_of_nat (length (w_out s0)); sx_of_list sx_of_status rs; Hex (w_out f)];
                  sx_of_read_result (read_all o c (w_out f))]
          end
      | _, _, _, _, _ => bad_case "write_read args"
      end
  | _ => bad_case "write_read arity"
  end.

(* (hunks (#line ...) bool) *)
Definition sx_of_side (s : side) : sx :=
  Li [sx_of_option sx_of_Z (sd_first s); sx_of_option sx_of_Z (sd_last s); sx_of_Z (sd_num s); sx_of_Z (sd_changed s); sx_of_Z (sd_start s)].
Definition sx_of_hunk (h : hunk) : sx :=
  Li [sx_of_option sx_of_bytes (h_context h); sx_of_side (h_orig h); sx_of_side (h_mod h); sx_of_Z (h_pre h); sx_of_Z (h_post h)].
Definition run_hunks (args : list sx) : sx :=
  match args with
  | [ls; ig] =>
      match sx_list sx_bytes ls, sx_bool ig with
      | Some ls, Some ig =>
          match get_unified_diff_hunks ls ig with
          | HunksOk hs n d i => tagged "ok" [sx_of_list sx_of_hunk hs; sx_of_Z n; sx_of_Z d; sx_of_Z i]
          | Malformed l n eof => tagged "malformed" [Hex l; sx_of_Z n; sx_of_bool eof]
          end
      | _, _ => bad_case "hunks args"
      end
  | _ => bad_case "hunks arity"
  end.

(* (dom_write tree) ; (dom_read #data oracle) ; (dom_roundtrip tree oracle) ; (dom_reserialise #data oracle) ; (stats tree) *)
Definition run_dom_write (args : list sx) : sx :=
  match args with
  | [t] => match sx_tree t with Some t => sx_of_res sx_of_bytes (dom_write t) | None => bad_case "tree" end
  | _ => bad_case "dom_write arity"
  end.
Definition run_dom_read (args : list sx) : sx :=
  match args with
  | [d; o] => match sx_bytes d, sx_oracle o with
              | Some d, Some o => sx_of_res sx_of_tree (dom_read o d)
              | _, _ => bad_case "dom_read args" end
  | _ => bad_case "dom_read arity"
  end.
Definition run_dom_roundtrip (args : list sx) : sx :=
  match args with
  | [t; o] =>
      match sx_tree t, sx_oracle o with
      | Some t, Some o =>
          match dom_write t with
          | Err e => sx_of_exn e
          | Ok b => Li [sym "ok"; Hex b; sx_of_res sx_of_tree (dom_read o b)]
          end
      | _, _ => bad_case "dom_roundtrip args"
      end
  | _ => bad_case "dom_roundtrip arity"
  end.
Definition run_dom_reserialise (args : list sx) : sx :=
  match args with
  | [d; o] =>
      match sx_bytes d, sx_oracle o with
      | Some d, Some o =>
          match dom_read o d with
          | Err e => sx_of_exn e
          | Ok t => Li [sym "ok"; sx_of_tree t; sx_of_res sx_of_bytes (dom_write t)]
          end
      | _, _ => bad_case "dom_reserialise args"
      end
  | _ => bad_case "dom_reserialise arity"
  end.
Definition run_stats (args : list sx) : sx :=
  match args with
  | [t] => match sx_tree t with Some t => sx_of_res sx_of_tree (tree_stats t) | None => bad_case "tree" end
  | _ => bad_case "stats arity"
  end.

(* (dom_ops oracle (op ...)) *)
Definition sx_attrs (s : sx) : option (list (bytes * wv)) := sx_dopts s.
Definition sx_path (s : sx) : option path :=
  match s with
  | Sym _ => if sym_is s "main" then Some PMain else None
  | Li [t; a] => if sym_is t "c" then option_map PChange (sx_nat a) else None
  | Li [t; a; b] => if sym_is t "f" then match sx_nat a, sx_nat b with Some a, Some b => Some (PFile a b) | _, _ => None end else None
  | _ => None
  end.
Definition sx_secsel (s : sx) : option secsel :=
  if sym_is s "self" then Some SSelf else if sym_is s "pre" then Some SPre
  else if sym_is s "meta" then Some SMeta else if sym_is s "diff" then Some SDiff else None.
Definition sx_op (s : sx) : option op :=
  match s with
  | Li (t :: args) =>
      if sym_is t "new" then match args with [a] => option_map ONew (sx_attrs a) | _ => None end
      else if sym_is t "add_change" then
        match args with [i; a] => match sx_nat i, sx_attrs a with Some i, Some a => Some (OAddChange i a) | _, _ => None end | _ => None end
      else if sym_is t "add_file" then
        match args with [i; c; a] => match sx_nat i, sx_nat c, sx_attrs a with Some i, Some c, Some a => Some (OAddFile i c a) | _, _, _ => None end | _ => None end
      else if sym_is t "set" then
        match args with [i; p; Hex n; v] => match sx_nat i, sx_path p, sx_wv v with Some i, Some p, Some v => Some (OSet i p n v) | _, _, _ => None end | _ => None end
      else if sym_is t "meta_put" then
        match args with [i; p; k; v] => match sx_nat i, sx_path p, sx_text k, sx_json v with Some i, Some p, Some k, Some v => Some (OMetaPut i p k v) | _, _, _, _ => None end | _ => None end
      else if sym_is t "opt_put" then
        match args with [i; p; sel; Hex k; v] => match sx_nat i, sx_path p, sx_secsel sel, sx_wv v with Some i, Some p, Some sel, Some v => Some (OOptPut i p sel k v) | _, _, _, _ => None end | _ => None end
      else if sym_is t "to_bytes" then match args with [i] => option_map OToBytes (sx_nat i) | _ => None end
      else if sym_is t "eq" then match args with [i; j] => match sx_nat i, sx_nat j with Some i, Some j => Some (OEq i j) | _, _ => None end | _ => None end
      else if sym_is t "parse" then match args with [Hex d] => Some (OParse d) | _ => None end
      else if sym_is t "stats" then match args with [i] => option_map OStats (sx_nat i) | _ => None end
      else None
  | _ => None
  end.
Definition sx_of_outcome (o : outcome) : sx :=
  match o with
  | RUnit => sym "unit"
  | RBytes b => Hex b
  | RBool b => sx_of_bool b
  | RExc e => sx_of_exn e
  | RBadIndex => sym "bad-index"
  end.
Definition run_dom_ops (args : list sx) : sx :=
  match args with
  | [o; ops] =>
      match sx_oracle o, sx_list sx_op ops with
      | Some o, Some ops => sx_of_list (fun p => Li [sx_of_outcome (fst p); sx_of_list sx_of_tree (snd p)]) (run_ops o [] ops)
      | _, _ => bad_case "dom_ops args"
      end
  | _ => bad_case "dom_ops arity"
  end.

Definition run_json_dump (args : list sx) : sx :=
  match args with
  | [j] => match sx_json j with Some j => sx_of_res sx_of_bytes (json_dump j) | None => bad_case "json" end
  | _ => bad_case "json_dump arity"
  end.

Definition table : list (String.string * (list sx -> sx)) :=
  [ ("split_lines", run_split_lines); ("codec", run_codec); ("newline_for", run_newline_for); ("guess", run_guess);
    ("read", run_read); ("header", run_header); ("write", run_write); ("write_read", run_write_read); ("json_dump", run_json_dump); ("hunks", run_hunks);
    ("dom_write", run_dom_write); ("dom_read", run_dom_read); ("dom_roundtrip", run_dom_roundtrip);
    ("dom_reserialise", run_dom_reserialise); ("stats", run_stats); ("dom_ops", run_dom_ops); ("lex", run_lex); ("spec_file", run_spec_file) ].

Fixpoint dispatch (t : list (String.string * (list sx -> sx))) (name : bytes) (args : list sx) : sx :=
  match t with
  | [] => bad_case "unknown entry"
  | (n, f) :: r => if beq name (B n) then f args else dispatch r name args
  end.

Definition run (s : sx) : sx :=
  match s with
  | Li (Sym name :: args) => dispatch table name args
  | _ => bad_case "not a call"
  end.
