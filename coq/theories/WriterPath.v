(* C10 seen from the writer: the section ids of what ANY accepted call list denotes form a legal path of the
   specification's hierarchy (composition of C01_round_trip_noguess with SectionsFacts.C10_reader_sound: the reader's
   order table and the writer's agree on every accepted history, of any length). *)
From Coq Require Import List Arith NArith ZArith Bool Strings.Byte Lia.
From Coq Require Strings.String.
From DX Require Import Bytes Res Codec Text Sections Header Stream Json Reader Writer SectionsSpec.
From DX Require Import RoundTripCodec RoundTripContent RoundTripBase RoundTripSim RoundTripStep RoundTrip RoundTripCor.
From DX Require Import GuessFacts SectionsFacts.
Import ListNotations.
Local Open Scope list_scope.

Theorem writer_ids_legal : forall (enc0 ver : wv) (s0 : wstate) (cs : list call) (orc : oracle),
  writer_init enc0 ver = (s0, Ok tt) -> enc_ok enc0 -> Forall call_good cs -> accepted s0 cs ->
  metas_oracle_ok orc s0 cs -> oracle_ok orc cs ->
  (Z.of_nat (length (w_out (snd (run_calls s0 cs)))) <= sys_maxsize)%Z ->
  exists w : list sid,
    map r_id (main_record enc0 ver :: expected_records s0 1 cs) = map sid_bytes w /\ spec_path w.
Proof.
  intros enc0 ver s0 cs orc Hi He Hg Ha Hm Ho Hmax.
  assert (Hc : 0 < 96) by lia.
  pose proof (C01_round_trip_noguess enc0 ver s0 cs orc 96 Hi He Hg Ha Hm Ho Hc Hmax) as H.
  exact (C10_reader_sound orc 96 _ _ _ H).
Qed.
