(* Lexer.v — model of pygments' RegexLexer engine as used by pydiffx.integrations.pygments_lexer.DiffXLexer (C20).
   Model file: definitions only (proofs live in LexerFacts.v).

   * [regex]: the subset of Python `re` syntax trees (re._parser.parse) that gen/gen_lexer.py recognises.
   * [rm]/[rmatch]: an executable backtracking matcher with the semantics of `pattern.match(text, pos)`:
     leftmost alternative first, greedy / lazy repetition order, groups record the last participating span,
     a positive lookahead is atomic and keeps the groups set inside it.  The matcher is total: it is structural
     on the regex, and a repetition iterates at most [S (length rest)] times because an iteration that consumes
     nothing is cut (gen_lexer.py refuses repetitions whose body can match the empty string, so that cut never
     fires on a generated table and the difference with sre's own empty-iteration rule cannot be observed).
   * [lex]: `RegexLexer.get_tokens_unprocessed` followed literally, with pygments' `bygroups` and `using`
     callbacks; `using(OtherLexer)` is an oracle supplied by the caller.  The engine runs on fuel (one unit per
     loop iteration and per nested `using(this)` call); LexerFacts.C20_lossless proves [S (length text)] suffices
     for every rule table accepted by [rules_ok]. *)
From Coq Require Import List Arith NArith Bool Strings.Byte.
From Coq Require Strings.String.
From DX Require Import Bytes.
Import ListNotations.
Import String.StringSyntax.
Local Open Scope string_scope.
Local Open Scope list_scope.

(* ------------------------------------------------------------------ regex syntax *)
Inductive regex :=
| REmpty                                              (* empty sequence *)
| RLit (c : N)                                        (* LITERAL *)
| RClass (neg : bool) (ranges : list (N * N))         (* IN / NOT_LITERAL / categories expanded to ranges *)
| RAny                                                (* ANY under DOTALL: every character *)
| RSeq (a b : regex)
| RAlt (a b : regex)                                  (* BRANCH, leftmost first *)
| RRepeat (greedy : bool) (lo : nat) (hi : option nat) (a : regex)   (* MAX_REPEAT / MIN_REPEAT; hi = None: unbounded *)
| RGroup (n : nat) (a : regex)                        (* capturing SUBPATTERN number n (non-capturing = plain nesting) *)
| RLook (a : regex)                                   (* ASSERT, direction 1: positive lookahead *)
| RBol                                                (* ^ under MULTILINE *)
| REndZ.                                              (* \Z *)

(* group numbers in order of their opening parenthesis *)
Fixpoint groups_of (r : regex) : list nat :=
  match r with
  | RSeq a b | RAlt a b => groups_of a ++ groups_of b
  | RRepeat _ _ _ a | RLook a => groups_of a
  | RGroup n a => n :: groups_of a
  | _ => []
  end.

(* ------------------------------------------------------------------ matcher *)
(* A position in the subject string: the previous character (for ^), the remaining text, the absolute offset. *)
Record mstate := { m_prev : option N; m_rest : text; m_pos : N }.

Definition init_state (t : text) : mstate := {| m_prev := None; m_rest := t; m_pos := 0%N |}.
Definition step (st : mstate) (c : N) (t : text) : mstate :=
  {| m_prev := Some c; m_rest := t; m_pos := N.succ (m_pos st) |}.

(* A recorded group: start offset, length, and the text remaining at its start (match.group(n) is computed lazily). *)
Record cap := { c_start : N; c_len : N; c_rest : text }.
Definition cap_text (c : cap) : text := firstn (N.to_nat (c_len c)) (c_rest c).
Definition caps := list (nat * cap).        (* most recent first *)
Fixpoint getcap (n : nat) (cs : caps) : option cap :=
  match cs with
  | [] => None
  | (m, c) :: t => if Nat.eqb n m then Some c else getcap n t
  end.

Definition mres := option (mstate * caps).
Definition cont := mstate -> caps -> mres.

Definition in_class (rs : list (N * N)) (ch : N) : bool :=
  existsb (fun p => N.leb (fst p) ch && N.leb ch (snd p)) rs.

Definition opt_pred (o : option nat) : option nat := option_map Nat.pred o.

(* One repetition operator; [n] bounds the number of iterations still possible. The thunks keep the extracted
   (strict) code from evaluating the alternative that has lower priority before it is needed. *)
Fixpoint rep_loop (body : mstate -> caps -> cont -> mres) (greedy : bool) (n : nat) (lo : nat) (hi : option nat)
         (st : mstate) (c : caps) (k : cont) {struct n} : mres :=
  match n with
  | O => None
  | S n' =>
      let iter (_ : unit) :=
        match hi with
        | Some O => None
        | _ => body st c (fun st1 c1 =>
                 if N.ltb (m_pos st) (m_pos st1) then rep_loop body greedy n' (Nat.pred lo) (opt_pred hi) st1 c1 k
                 else None)
        end in
      let stop (_ : unit) := match lo with O => k st c | S _ => None end in
      if greedy
      then match iter tt with Some r => Some r | None => stop tt end
      else match stop tt with Some r => Some r | None => iter tt end
  end.

Fixpoint rm (r : regex) (st : mstate) (c : caps) (k : cont) {struct r} : mres :=
  match r with
  | REmpty => k st c
  | RLit x =>
      match m_rest st with
      | ch :: t => if N.eqb ch x then k (step st ch t) c else None
      | [] => None
      end
  | RClass neg rs =>
      match m_rest st with
      | ch :: t => if xorb neg (in_class rs ch) then k (step st ch t) c else None
      | [] => None
      end
  | RAny =>
      match m_rest st with
      | ch :: t => k (step st ch t) c
      | [] => None
      end
  | RSeq a b => rm a st c (fun st1 c1 => rm b st1 c1 k)
  | RAlt a b => match rm a st c k with Some r => Some r | None => rm b st c k end
  | RRepeat g lo hi a => rep_loop (rm a) g (S (length (m_rest st))) lo hi st c k
  | RGroup n a =>
      rm a st c (fun st1 c1 =>
        k st1 ((n, {| c_start := m_pos st; c_len := (m_pos st1 - m_pos st)%N; c_rest := m_rest st |}) :: c1))
  | RLook a =>
      match rm a st c (fun st1 c1 => Some (st1, c1)) with
      | Some (_, c1) => k st c1
      | None => None
      end
  | RBol =>
      match m_prev st with
      | None => k st c
      | Some p => if N.eqb p 10 then k st c else None
      end
  | REndZ => match m_rest st with [] => k st c | _ :: _ => None end
  end.

(* pattern.match(text, pos): the state after the match and the groups *)
Definition rmatch (r : regex) (st : mstate) : mres := rm r st [] (fun st1 c1 => Some (st1, c1)).

(* m.group() for a match from [st] to [st1] *)
Definition matched (st st1 : mstate) : text := firstn (N.to_nat (m_pos st1 - m_pos st)) (m_rest st).

(* ------------------------------------------------------------------ rules *)
Inductive using_kind :=
| UThis (stack : list bytes)       (* using(this, state=...): the stack passed to get_tokens_unprocessed, bottom first *)
| UOther (lexer : bytes).          (* using(OtherLexer): class name; its tokens come from the oracle *)

Inductive gaction :=               (* one argument of bygroups *)
| GTok (t : bytes)
| GNone
| GUsing (u : using_kind).

Inductive action :=
| ATok (t : bytes)
| AByGroups (args : list gaction)
| AUsing (u : using_kind).

Inductive newstate :=              (* the processed third component of a rule *)
| NsNone
| NsPop (n : nat)                  (* the int -n produced by '#pop' / '#pop:n' *)
| NsPush                           (* '#push' *)
| NsStates (l : list bytes).       (* a tuple of state names, '#pop' and '#push' *)

Record rule := { r_re : regex; r_act : action; r_new : newstate }.
Definition rule_table := list (bytes * list rule).

Definition token := (N * bytes * text)%type.      (* (offset, token type dotted name, value) *)
Definition tok_val (t : token) : text := snd t.

Definition tok_whitespace : bytes := B "Token.Text.Whitespace".
Definition tok_error : bytes := B "Token.Error".
Definition st_root : bytes := B "root".

Inductive lexres :=
| LOk (toks : list token)
| LFuel                 (* out of fuel: Python would not terminate (or hit the recursion limit) *)
| LOracleMiss           (* the oracle table has no entry for a using(OtherLexer) call *)
| LBadState             (* KeyError / IndexError on the state table *)
| LBadGroup.            (* IndexError: no such group *)

Definition lbind (r : lexres) (f : list token -> lexres) : lexres :=
  match r with LOk t => f t | e => e end.

Definition shift (s : N) (toks : list token) : list token :=
  map (fun t => match t with (i, ty, v) => ((i + s)%N, ty, v) end) toks.

(* the state stack is kept top first *)
Definition stack := list bytes.

Fixpoint apply_states (l : list bytes) (s : stack) : stack :=
  match l with
  | [] => s
  | x :: t =>
      apply_states t
        (if beq x (B "#pop") then match s with _ :: (_ :: _) as s' => s' | _ => s end
         else if beq x (B "#push") then match s with top :: _ => top :: s | [] => s end
         else x :: s)
  end.

Definition apply_new (ns : newstate) (s : stack) : stack :=
  match ns with
  | NsNone => s
  | NsPop n => if Nat.leb (length s) n then match frev s with b :: _ => [b] | [] => [] end else skipn n s
  | NsPush => match s with top :: _ => top :: s | [] => s end
  | NsStates l => apply_states l s
  end.

Section Engine.
  Variable oracle : bytes -> text -> option (list token).
  Variable tbl : rule_table.

  Fixpoint first_match (rules : list rule) (st : mstate) : option (rule * mstate * caps) :=
    match rules with
    | [] => None
    | r :: rs =>
        match rmatch (r_re r) st with
        | Some (st1, c) => Some (r, st1, c)
        | None => first_match rs st
        end
    end.

  Section Actions.
    (* the engine itself one level down: get_tokens_unprocessed(text, stack) *)
    Variable self : stack -> mstate -> lexres.

    Definition run_using (u : using_kind) (start : N) (txt : text) : lexres :=
      match u with
      | UThis stk => lbind (self (frev stk) (init_state txt)) (fun toks => LOk (shift start toks))
      | UOther name =>
          match oracle name txt with
          | Some toks => LOk (shift start toks)
          | None => LOracleMiss
          end
      end.

    (* bygroups with its args: [i] is the group number of the head of [args], [ng] = pattern.groups *)
    Fixpoint run_groups (args : list gaction) (i : nat) (ng : nat) (c : caps) : lexres :=
      match args with
      | [] => LOk []
      | a :: more =>
          match a with
          | GNone => run_groups more (S i) ng c
          | GTok t =>
              if Nat.ltb ng i then LBadGroup
              else
                lbind (run_groups more (S i) ng c) (fun rest =>
                  match getcap i c with
                  | Some cp =>
                      match cap_text cp with
                      | [] => LOk rest
                      | data => LOk ((c_start cp, t, data) :: rest)
                      end
                  | None => LOk rest
                  end)
          | GUsing u =>
              if Nat.ltb ng i then LBadGroup
              else
                match getcap i c with
                | Some cp =>
                    lbind (run_using u (c_start cp) (cap_text cp)) (fun toks =>
                      lbind (run_groups more (S i) ng c) (fun rest => LOk (toks ++ rest)))
                | None => run_groups more (S i) ng c
                end
          end
      end.

    Definition run_action (r : rule) (st st1 : mstate) (c : caps) : lexres :=
      match r_act r with
      | ATok t => LOk [(m_pos st, t, matched st st1)]
      | AByGroups args => run_groups args 1 (length (groups_of (r_re r))) c
      | AUsing u => run_using u (m_pos st) (matched st st1)
      end.
  End Actions.

  (* get_tokens_unprocessed: [stk] is the state stack (top first), [st] the current position *)
  Fixpoint lex (fuel : nat) (stk : stack) (st : mstate) {struct fuel} : lexres :=
    match fuel with
    | O => LFuel
    | S f =>
        match stk with
        | [] => LBadState
        | top :: _ =>
            match assoc_get beq top tbl with
            | None => LBadState
            | Some rules =>
                match first_match rules st with
                | Some (r, st1, c) =>
                    lbind (run_action (lex f) r st st1 c) (fun toks =>
                      lbind (lex f (apply_new (r_new r) stk) st1) (fun more => LOk (toks ++ more)))
                | None =>
                    match m_rest st with
                    | [] => LOk []
                    | ch :: t =>
                        if N.eqb ch 10
                        then lbind (lex f [st_root] (step st ch t)) (fun more => LOk ((m_pos st, tok_whitespace, [ch]) :: more))
                        else lbind (lex f stk (step st ch t)) (fun more => LOk ((m_pos st, tok_error, [ch]) :: more))
                    end
                end
            end
        end
    end.

  Definition lex_text (fuel : nat) (stack_bottom_first : list bytes) (t : text) : lexres :=
    lex fuel (frev stack_bottom_first) (init_state t).
End Engine.

(* DiffXLexer().get_tokens_unprocessed(text) *)
Definition lex_default (oracle : bytes -> text -> option (list token)) (tbl : rule_table) (t : text) : lexres :=
  lex_text oracle tbl (S (length t)) [st_root] t.
