(* HeaderFacts.v — C11 (header grammar) and the header-level part of C12 (unknown options carried through)
   for the model in Header.v.  The SPEC part below is written from the property text and the format
   documentation (docs/spec/section-format.rst), not from Header.v. *)
From Coq Require Import List Arith NArith ZArith Bool Strings.Byte Lia ZifyBool.
From Coq Require Strings.String.
From DX Require Import Bytes Res Sections Header Stream Reader.
Import ListNotations.
Import String.StringSyntax.
Local Open Scope string_scope.
Local Open Scope list_scope.

(* ================================================================================================ *)
(** * Generic list lemmas: [prefixb], [split], [join], association lists *)

Lemma frev_is_rev {A} (l : list A) : frev l = rev l.
Proof. unfold frev. symmetry. apply rev_alt. Qed.

Lemma all_b_Forall {A} (f : A -> bool) (l : list A) : all_b f l = true <-> Forall (fun x => f x = true) l.
Proof.
  induction l as [|x t IH]; cbn [all_b].
  - split; auto.
  - rewrite andb_true_iff, IH. split.
    + intros [? ?]. constructor; assumption.
    + intros H. inversion H; subst. split; assumption.
Qed.

Lemma nonempty_true {A} (l : list A) : nonempty l = true <-> l <> [].
Proof. destruct l; cbn; split; intros; congruence. Qed.

Section Generic.
  Context {A : Type} (eqb : A -> A -> bool) (eqb_spec : forall a b, eqb a b = true <-> a = b).

  Lemma eqb_refl : forall a, eqb a a = true.
  Proof. intros. apply eqb_spec. reflexivity. Qed.

  Lemma eqb_false : forall a b, a <> b -> eqb a b = false.
  Proof. intros a b H. destruct (eqb a b) eqn:E; [apply eqb_spec in E; contradiction|reflexivity]. Qed.

  Lemma list_eqb_spec : forall a b, list_eqb eqb a b = true <-> a = b.
  Proof.
    induction a as [|x a IH]; destruct b as [|y b]; cbn [list_eqb]; try (split; congruence).
    rewrite andb_true_iff, eqb_spec, IH. split.
    - intros [-> ->]. reflexivity.
    - intros H. inversion H. auto.
  Qed.

  Lemma mem_In : forall x l, mem (list_eqb eqb) x l = true <-> In x l.
  Proof.
    intros x l. induction l as [|y t IH]; cbn [mem In].
    - split; [discriminate|tauto].
    - rewrite orb_true_iff, list_eqb_spec, IH. split; intros [H|H]; auto.
  Qed.

  Lemma prefixb_app : forall p l, prefixb eqb p (p ++ l) = true.
  Proof. induction p as [|x p IH]; intros; cbn; [reflexivity|]. rewrite eqb_refl, IH. reflexivity. Qed.

  Lemma prefixb_true : forall p l, prefixb eqb p l = true -> l = p ++ skipn (length p) l.
  Proof.
    induction p as [|x p IH]; intros l H; cbn in *; [reflexivity|].
    destruct l as [|y l]; [discriminate|].
    apply andb_true_iff in H. destruct H as [H1 H2]. apply eqb_spec in H1. subst y.
    cbn. f_equal. apply IH. assumption.
  Qed.

  Lemma prefixb_head_neq : forall s0 sep' x t, s0 <> x -> prefixb eqb (s0 :: sep') (x :: t) = false.
  Proof. intros. cbn. rewrite eqb_false by assumption. reflexivity. Qed.

  Lemma split_aux_skip : forall sep l cur k,
    split_aux eqb sep cur l k = split_aux eqb sep cur (skipn k l) 0.
  Proof.
    intros sep. induction l as [|x t IH]; intros cur k.
    - destruct k; reflexivity.
    - destruct k as [|k]; [reflexivity|]. cbn [split_aux skipn]. apply IH.
  Qed.

  Lemma split_aux_ne : forall sep l cur k, split_aux eqb sep cur l k <> [].
  Proof.
    intros sep. induction l as [|x t IH]; intros cur k; cbn [split_aux]; [discriminate|].
    destruct k; [|apply IH]. destruct (prefixb eqb sep (x :: t)); [discriminate|apply IH].
  Qed.

  Lemma join_cons2 : forall (sep p : list A) q, q <> [] -> join sep (p :: q) = p ++ sep ++ join sep q.
  Proof. intros sep p q H. destruct q; [congruence|reflexivity]. Qed.

  (* a separator at the head of the input closes the current piece *)
  Lemma split_aux_sep : forall sep rest cur, sep <> [] ->
    split_aux eqb sep cur (sep ++ rest) 0 = frev cur :: split_aux eqb sep [] rest 0.
  Proof.
    intros sep rest cur Hne. destruct sep as [|s0 sep']; [congruence|].
    change ((s0 :: sep') ++ rest) with (s0 :: (sep' ++ rest)).
    cbn [split_aux].
    change (s0 :: sep' ++ rest) with ((s0 :: sep') ++ rest). rewrite prefixb_app.
    f_equal. rewrite split_aux_skip. f_equal.
    cbn [length]. rewrite Nat.sub_1_r. cbn [Nat.pred].
    rewrite skipn_app, skipn_all, Nat.sub_diag. reflexivity.
  Qed.

  (* b', '.join(x.split(b', ')) == x *)
  Lemma join_split_aux : forall sep n l cur, sep <> [] -> length l <= n ->
    join sep (split_aux eqb sep cur l 0) = rev cur ++ l.
  Proof.
    intros sep n. induction n as [|n IH]; intros l cur Hne Hlen.
    - destruct l; [|cbn in Hlen; lia]. cbn. rewrite frev_is_rev, app_nil_r. reflexivity.
    - destruct l as [|x t]; [cbn; rewrite frev_is_rev, app_nil_r; reflexivity|].
      destruct (prefixb eqb sep (x :: t)) eqn:Ep.
      + apply prefixb_true in Ep. rewrite Ep. rewrite split_aux_sep by assumption.
        rewrite join_cons2 by apply split_aux_ne.
        rewrite IH; [rewrite frev_is_rev; reflexivity|assumption|].
        rewrite skipn_length. cbn [length] in *. destruct sep; [congruence|]. cbn [length]. lia.
      + cbn [split_aux]. rewrite Ep. rewrite IH; [|assumption|cbn in Hlen; lia].
        cbn [rev]. rewrite <- app_assoc. reflexivity.
  Qed.

  Lemma join_split : forall sep l, sep <> [] -> join sep (split eqb sep l) = l.
  Proof. intros. unfold split. rewrite (join_split_aux sep (length l)); auto. Qed.

  (* x.split(sep) of a join of pieces none of which contains the first element of sep *)
  Lemma split_aux_piece : forall s0 sep' p rest cur, ~ In s0 p ->
    split_aux eqb (s0 :: sep') cur (p ++ rest) 0 = split_aux eqb (s0 :: sep') (rev p ++ cur) rest 0.
  Proof.
    intros s0 sep'. induction p as [|x p IH]; intros rest cur Hn; [reflexivity|].
    change ((x :: p) ++ rest) with (x :: (p ++ rest)). cbn [split_aux].
    rewrite prefixb_head_neq by (intros ->; apply Hn; left; reflexivity).
    rewrite IH by (intros Hin; apply Hn; right; assumption).
    cbn [rev]. rewrite <- app_assoc. reflexivity.
  Qed.

  Lemma split_aux_join : forall s0 sep' ps p cur,
    Forall (fun q => ~ In s0 q) (p :: ps) ->
    split_aux eqb (s0 :: sep') cur (join (s0 :: sep') (p :: ps)) 0 = (rev cur ++ p) :: ps.
  Proof.
    intros s0 sep'. induction ps as [|q ps IH]; intros p cur HF.
    - cbn [join]. rewrite <- (app_nil_r p) at 1. rewrite split_aux_piece by (inversion HF; assumption).
      cbn [split_aux]. rewrite frev_is_rev, rev_app_distr, rev_involutive. reflexivity.
    - rewrite join_cons2 by discriminate.
      rewrite split_aux_piece by (inversion HF; assumption).
      rewrite split_aux_sep by discriminate.
      rewrite frev_is_rev, rev_app_distr, rev_involutive.
      f_equal. rewrite IH by (inversion HF; assumption). reflexivity.
  Qed.

  Lemma split_join : forall s0 sep' ps, ps <> [] -> Forall (fun q => ~ In s0 q) ps ->
    split eqb (s0 :: sep') (join (s0 :: sep') ps) = ps.
  Proof.
    intros s0 sep' ps Hne HF. destruct ps as [|p ps]; [congruence|].
    unfold split. rewrite split_aux_join by assumption. reflexivity.
  Qed.

  (* dict semantics *)
  Lemma assoc_get_set : forall {V} (k k' : A) (v : V) d,
    assoc_get eqb k (assoc_set eqb k' v d) = if eqb k k' then Some v else assoc_get eqb k d.
  Proof.
    intros V k k' v. induction d as [|[k0 v0] t IH]; cbn [assoc_set assoc_get].
    - reflexivity.
    - destruct (eqb k' k0) eqn:E0; cbn [assoc_get].
      + apply eqb_spec in E0. subst k0. destruct (eqb k k'); reflexivity.
      + rewrite IH. destruct (eqb k k0) eqn:E1; [|reflexivity].
        destruct (eqb k k') eqn:E2; [|reflexivity].
        apply eqb_spec in E1, E2. subst. rewrite eqb_refl in E0. discriminate.
  Qed.
End Generic.

Lemma byte_eqb_spec : forall a b, byte_eqb a b = true <-> a = b.
Proof. intros. unfold byte_eqb. split; [apply Byte.byte_dec_bl|apply Byte.byte_dec_lb]. Qed.

Lemma beq_spec : forall a b, beq a b = true <-> a = b.
Proof. apply list_eqb_spec. exact byte_eqb_spec. Qed.

(* ================================================================================================ *)
(** * SPEC — written from the property text (C11) and docs/spec/section-format.rst *)

(* the character classes, as literal alphabets *)
Definition alpha_alphabet : bytes := B "ABCDEFGHIJKLMNOPQRSTUVWXYZabcdefghijklmnopqrstuvwxyz".
Definition digit_alphabet : bytes := B "0123456789".
(* [A-Za-z] *)
Definition spec_alpha (b : byte) : Prop := In b alpha_alphabet.
(* [A-Za-z0-9_-] *)
Definition spec_key_char (b : byte) : Prop := In b (alpha_alphabet ++ digit_alphabet ++ B "_-").
(* [A-Za-z0-9/._-] *)
Definition spec_val_char (b : byte) : Prop := In b (alpha_alphabet ++ digit_alphabet ++ B "/._-").
(* [0-9] *)
Definition spec_digit (b : byte) : Prop := In b digit_alphabet.

(* key: [A-Za-z][A-Za-z0-9_-]*, value: [A-Za-z0-9/._-]+, both in their entirety *)
Definition spec_key (k : bytes) : Prop :=
  exists c t, k = c :: t /\ spec_alpha c /\ Forall spec_key_char t.
Definition spec_val (v : bytes) : Prop := v <> [] /\ Forall spec_val_char v.
Definition spec_pair (p : bytes * bytes) : Prop := spec_key (fst p) /\ spec_val (snd p).

(* the six section names *)
Definition spec_names : list bytes :=
  [B "diffx"; B "preamble"; B "meta"; B "change"; B "file"; B "diff"].

(* key=value *)
Definition render_pair (p : bytes * bytes) : bytes := fst p ++ B "=" ++ snd p.

(* "#", dots, name, ":", and optionally one space followed by the pairs separated by ", " *)
Definition render_header (dots : nat) (name : bytes) (ps : list (bytes * bytes)) : bytes :=
  B "#" ++ repeat_b "."%byte dots ++ name ++ B ":" ++
  match ps with
  | [] => []
  | _ :: _ => B " " ++ join (B ", ") (map render_pair ps)
  end.

Definition spec_header (line : bytes) (dots : nat) (name : bytes) (ps : list (bytes * bytes)) : Prop :=
  dots <= 3 /\ In name spec_names /\ Forall spec_pair ps /\ line = render_header dots name ps.

(* "integer-valued" = -?[0-9]+ ; its value is the usual positional one *)
Definition spec_digit_val (b : byte) : N :=
  match b with
  | "0"%byte => 0 | "1"%byte => 1 | "2"%byte => 2 | "3"%byte => 3 | "4"%byte => 4
  | "5"%byte => 5 | "6"%byte => 6 | "7"%byte => 7 | "8"%byte => 8 | "9"%byte => 9
  | _ => 0
  end%N.
Fixpoint spec_dec (ds : bytes) : N :=
  match ds with
  | [] => 0
  | d :: t => spec_digit_val d * 10 ^ N.of_nat (length t) + spec_dec t
  end%N.
Definition spec_digits (ds : bytes) : Prop := ds <> [] /\ Forall spec_digit ds.

(* The reported value of an option.  Caveat (documented): like CPython's int(), the library leaves digit
   strings longer than sys.get_int_max_str_digits() = 4300 as strings; this side condition is explicit. *)
Definition max_digits : nat := 4300.
Inductive spec_convert : bytes -> pv -> Prop :=
| SC_pos ds : spec_digits ds -> length ds <= max_digits ->
    spec_convert ds (VInt (Z.of_N (spec_dec ds)))
| SC_neg ds : spec_digits ds -> length ds <= max_digits ->
    spec_convert ("-"%byte :: ds) (VInt (- Z.of_N (spec_dec ds)))
| SC_long_pos ds : spec_digits ds -> max_digits < length ds -> spec_convert ds (VStr ds)
| SC_long_neg ds : spec_digits ds -> max_digits < length ds ->
    spec_convert ("-"%byte :: ds) (VStr ("-"%byte :: ds))
| SC_str v : ~ spec_digits v -> (forall ds, v = "-"%byte :: ds -> ~ spec_digits ds) ->
    spec_convert v (VStr v).

(* the options dict: pairs processed left to right, a later duplicate key overrides (Python dict) *)
Definition opts_step (conv : bytes -> pv) (acc : options) (p : bytes * bytes) : options :=
  assoc_set beq (fst p) (conv (snd p)) acc.
Definition opts_of (conv : bytes -> pv) (ps : list (bytes * bytes)) : options :=
  fold_left (opts_step conv) ps [].

(* ps' is ps with the elements of extra inserted at arbitrary positions (C12) *)
Inductive interleave {A : Type} : list A -> list A -> list A -> Prop :=
| il_nil : interleave [] [] []
| il_l x a b c : interleave a b c -> interleave (x :: a) b (x :: c)
| il_r x a b c : interleave a b c -> interleave a (x :: b) (x :: c).

(* ================================================================================================ *)
(** * Character classes: model = spec (256-case computations) *)

Lemma In_mem_byte : forall (b : byte) l, In b l <-> mem byte_eqb b l = true.
Proof.
  intros b l. induction l as [|y t IH]; cbn [mem In].
  - split; [tauto|discriminate].
  - rewrite orb_true_iff, byte_eqb_spec, <- IH. split; intros [H|H]; auto.
Qed.

Lemma spec_alpha_iff : forall b, spec_alpha b <-> is_alpha b = true.
Proof.
  intros b. unfold spec_alpha. rewrite In_mem_byte.
  assert (H : mem byte_eqb b alpha_alphabet = is_alpha b) by (destruct b; vm_compute; reflexivity).
  rewrite H. tauto.
Qed.
Lemma spec_key_char_iff : forall b, spec_key_char b <-> key_tail_char b = true.
Proof.
  intros b. unfold spec_key_char. rewrite In_mem_byte.
  assert (H : mem byte_eqb b (alpha_alphabet ++ digit_alphabet ++ B "_-") = key_tail_char b)
    by (destruct b; vm_compute; reflexivity).
  rewrite H. tauto.
Qed.
Lemma spec_val_char_iff : forall b, spec_val_char b <-> val_char b = true.
Proof.
  intros b. unfold spec_val_char. rewrite In_mem_byte.
  assert (H : mem byte_eqb b (alpha_alphabet ++ digit_alphabet ++ B "/._-") = val_char b)
    by (destruct b; vm_compute; reflexivity).
  rewrite H. tauto.
Qed.
Lemma spec_digit_iff : forall b, spec_digit b <-> is_digit b = true.
Proof.
  intros b. unfold spec_digit. rewrite In_mem_byte.
  assert (H : mem byte_eqb b digit_alphabet = is_digit b) by (destruct b; vm_compute; reflexivity).
  rewrite H. tauto.
Qed.

Lemma Forall_iff {A} (P Q : A -> Prop) l : (forall x, P x <-> Q x) -> (Forall P l <-> Forall Q l).
Proof. intros H. split; apply Forall_impl; intros; apply H; assumption. Qed.

Lemma spec_key_iff : forall k, spec_key k <-> key_ok k = true.
Proof.
  intros k. unfold spec_key, key_ok. split.
  - intros (c & t & -> & Hc & Ht). apply andb_true_iff. split.
    + apply spec_alpha_iff. assumption.
    + apply all_b_Forall. revert Ht. apply Forall_impl. intros. apply spec_key_char_iff. assumption.
  - destruct k as [|c t]; [discriminate|]. intros H. apply andb_true_iff in H. destruct H as [Hc Ht].
    exists c, t. split; [reflexivity|]. split; [apply spec_alpha_iff; assumption|].
    apply all_b_Forall in Ht. revert Ht. apply Forall_impl. intros. apply spec_key_char_iff. assumption.
Qed.

Lemma spec_val_iff : forall v, spec_val v <-> val_ok v = true.
Proof.
  intros v. unfold spec_val, val_ok. rewrite andb_true_iff, nonempty_true, all_b_Forall.
  rewrite (Forall_iff spec_val_char (fun x => val_char x = true)) by apply spec_val_char_iff. tauto.
Qed.

Lemma spec_digits_iff : forall ds, spec_digits ds <-> nonempty ds && all_b is_digit ds = true.
Proof.
  intros v. unfold spec_digits. rewrite andb_true_iff, nonempty_true, all_b_Forall.
  rewrite (Forall_iff spec_digit (fun x => is_digit x = true)) by apply spec_digit_iff. tauto.
Qed.

(* what the model's regex classes need of the spec's classes *)
Lemma key_char_facts : forall b, key_tail_char b = true ->
  pair_key_char b = true /\ is_eq b = false /\ b <> ","%byte.
Proof. intros b. destruct b; vm_compute; intros H; try discriminate H; repeat split; discriminate. Qed.
Lemma alpha_key_char : forall b, is_alpha b = true -> key_tail_char b = true.
Proof. intros b. destruct b; vm_compute; intros H; try discriminate H; reflexivity. Qed.
Lemma val_char_facts : forall b, val_char b = true -> pair_val_char b = true /\ b <> ","%byte.
Proof. intros b. destruct b; vm_compute; intros H; try discriminate H; repeat split; discriminate. Qed.
Lemma eq_not_comma : "="%byte <> ","%byte.
Proof. discriminate. Qed.
Lemma digit_not_minus : forall b, is_digit b = true -> byte_eqb b "-"%byte = false.
Proof. intros b. destruct b; vm_compute; intros H; try discriminate H; reflexivity. Qed.
Lemma digit_val_model : forall b, is_digit b = true -> (byte_n b - 48)%N = spec_digit_val b.
Proof. intros b. destruct b; vm_compute; intros H; try discriminate H; reflexivity. Qed.

Lemma spec_names_model : spec_names = header_names.
Proof. reflexivity. Qed.

(* ================================================================================================ *)
(** * Integer conversion *)

Lemma dec_fold_spec : forall l acc, Forall (fun b => is_digit b = true) l ->
  fold_left (fun a b => (a * 10 + (byte_n b - 48))%N) l acc
  = (acc * 10 ^ N.of_nat (length l) + spec_dec l)%N.
Proof.
  induction l as [|d t IH]; intros acc HF.
  - cbn [fold_left length spec_dec]. change (N.of_nat 0) with 0%N. rewrite N.pow_0_r. lia.
  - inversion HF as [|? ? Hd Ht]; subst. cbn [fold_left]. rewrite IH by assumption.
    rewrite digit_val_model by assumption. cbn [spec_dec length].
    rewrite Nat2N.inj_succ, N.pow_succ_r'. set (P := (10 ^ N.of_nat (length t))%N). lia.
Qed.

Lemma dec_to_N_spec : forall l, Forall (fun b => is_digit b = true) l -> dec_to_N l = spec_dec l.
Proof. intros l H. unfold dec_to_N. rewrite dec_fold_spec by assumption. lia. Qed.

Lemma digits_no_minus : forall ds, spec_digits ds -> forall t, ds <> "-"%byte :: t.
Proof.
  intros ds [_ HF] t ->. inversion HF as [|? ? Hd _]; subst.
  apply spec_digit_iff, digit_not_minus in Hd. vm_compute in Hd. discriminate.
Qed.

(* the model's conversion satisfies the spec *)
Lemma convert_value_spec : forall v, spec_convert v (convert_value v).
Proof.
  intros v. unfold convert_value, int_ok, digits_of.
  change int_max_str_digits with max_digits.
  destruct v as [|c t].
  - cbn. apply SC_str.
    + intros [H _]. congruence.
    + intros ds H. discriminate.
  - destruct (byte_eqb c "-"%byte) eqn:Ec.
    + apply byte_eqb_spec in Ec. subst c.
      destruct (nonempty t && all_b is_digit t) eqn:Ed.
      * apply spec_digits_iff in Ed.
        destruct (Nat.leb (length t) max_digits) eqn:El; cbn [andb].
        -- apply Nat.leb_le in El. rewrite dec_to_N_spec.
           ++ apply SC_neg; assumption.
           ++ destruct Ed as [_ Ed]. revert Ed. apply Forall_impl. intros. apply spec_digit_iff. assumption.
        -- apply Nat.leb_gt in El. apply SC_long_neg; assumption.
      * cbn [andb]. apply SC_str.
        -- intros Hd. exact (digits_no_minus _ Hd t eq_refl).
        -- intros ds Heq Hd. inversion Heq; subst ds. apply spec_digits_iff in Hd. congruence.
    + destruct (all_b is_digit (c :: t)) eqn:Ed.
      * assert (Hd : spec_digits (c :: t)).
        { apply spec_digits_iff. rewrite Ed. reflexivity. }
        destruct (Nat.leb (length (c :: t)) max_digits) eqn:El; cbn [andb].
        -- apply Nat.leb_le in El. rewrite dec_to_N_spec.
           ++ apply SC_pos; assumption.
           ++ apply all_b_Forall. assumption.
        -- apply Nat.leb_gt in El. apply SC_long_pos; assumption.
      * cbn [andb]. apply SC_str.
        -- intros Hd. apply spec_digits_iff in Hd. cbn [nonempty andb] in Hd. congruence.
        -- intros ds Heq. inversion Heq; subst. rewrite (proj2 (byte_eqb_spec _ _) eq_refl) in Ec. discriminate.
Qed.

(* the spec determines the reported value *)
Lemma spec_convert_fun : forall v a b, spec_convert v a -> spec_convert v b -> a = b.
Proof.
  intros v a b Ha Hb.
  destruct Ha as [ds Hd Hl|ds Hd Hl|ds Hd Hl|ds Hd Hl|v Hn1 Hn2];
    inversion Hb as [ds' Hd' Hl' E|ds' Hd' Hl' E|ds' Hd' Hl' E|ds' Hd' Hl' E|v' Hn1' Hn2' E]; subst;
    try reflexivity;
    try (exfalso; lia);
    try (exfalso; eapply digits_no_minus; [|reflexivity]; eassumption);
    try (exfalso; apply Hn1'; assumption);
    try (exfalso; apply Hn1; assumption);
    try (exfalso; eapply Hn2'; [reflexivity|eassumption]);
    try (exfalso; eapply Hn2; [reflexivity|eassumption]).
Qed.

Lemma convert_value_unique : forall v a, spec_convert v a -> a = convert_value v.
Proof. intros v a H. eapply spec_convert_fun; [eassumption|apply convert_value_spec]. Qed.

(* ================================================================================================ *)
(** * The pieces of [match_header_re] / [parse_pairs] *)

Lemma take_dots_sound : forall l n rest, take_dots l = (n, rest) -> l = repeat_b "."%byte n ++ rest.
Proof.
  induction l as [|c t IH]; intros n rest H; cbn [take_dots] in H.
  - inversion H; subst. reflexivity.
  - destruct (byte_eqb c "."%byte) eqn:Ec.
    + destruct (take_dots t) as [m r] eqn:Et. inversion H; subst.
      apply byte_eqb_spec in Ec. subst c. cbn [repeat_b app]. f_equal. apply IH. reflexivity.
    + inversion H; subst. reflexivity.
Qed.

Lemma take_dots_complete : forall n rest,
  match rest with c :: _ => byte_eqb c "."%byte = false | [] => True end ->
  take_dots (repeat_b "."%byte n ++ rest) = (n, rest).
Proof.
  induction n as [|n IH]; intros rest H.
  - cbn [repeat_b app]. destruct rest as [|c t]; [reflexivity|]. cbn [take_dots]. rewrite H. reflexivity.
  - cbn [repeat_b app take_dots]. rewrite (proj2 (byte_eqb_spec _ _) eq_refl). rewrite IH by assumption. reflexivity.
Qed.

Lemma match_name_sound : forall names l name tail,
  match_name names l = Some (name, tail) -> In name names /\ l = name ++ B ":" ++ tail.
Proof.
  induction names as [|n r IH]; intros l name tail H; cbn [match_name] in H; [discriminate|].
  destruct (bstarts (n ++ B ":") l) eqn:Es.
  - inversion H; subst. split; [left; reflexivity|].
    apply (prefixb_true byte_eqb byte_eqb_spec) in Es.
    rewrite app_length in Es. cbn [B String.list_byte_of_string length] in Es.
    rewrite <- app_assoc in Es. exact Es.
  - destruct (IH _ _ _ H). split; [right; assumption|assumption].
Qed.

Lemma match_name_complete : forall name tail, In name spec_names ->
  match_name header_names (name ++ B ":" ++ tail) = Some (name, tail).
Proof.
  intros name tail H. unfold spec_names in H. cbn [In] in H.
  destruct H as [<-|[<-|[<-|[<-|[<-|[<-|[]]]]]]]; reflexivity.
Qed.

Lemma name_no_dot : forall name tail, In name spec_names ->
  match name ++ B ":" ++ tail with c :: _ => byte_eqb c "."%byte = false | [] => True end.
Proof.
  intros name tail H. unfold spec_names in H. cbn [In] in H.
  destruct H as [<-|[<-|[<-|[<-|[<-|[<-|[]]]]]]]; reflexivity.
Qed.

Lemma split_eq_sound : forall p k v, split_eq p = Some (k, v) -> p = k ++ B "=" ++ v.
Proof.
  induction p as [|c t IH]; intros k v H; cbn [split_eq] in H; [discriminate|].
  destruct (is_eq c) eqn:Ec.
  - inversion H; subst. apply byte_eqb_spec in Ec. subst c. reflexivity.
  - destruct (split_eq t) as [[k' v']|] eqn:Et; [|discriminate]. inversion H; subst.
    cbn [app]. f_equal. apply IH. reflexivity.
Qed.

Lemma split_eq_complete : forall k v, Forall (fun b => is_eq b = false) k ->
  split_eq (k ++ B "=" ++ v) = Some (k, v).
Proof.
  induction k as [|c t IH]; intros v H.
  - reflexivity.
  - inversion H; subst. cbn [app split_eq]. rewrite H2. rewrite IH by assumption. reflexivity.
Qed.

(* facts about a valid key / value that the model's regex needs *)
Lemma spec_key_model : forall k, spec_key k ->
  Forall (fun b => key_tail_char b = true) k /\ k <> [].
Proof.
  intros k (c & t & -> & Hc & Ht). split; [|discriminate]. constructor.
  - apply alpha_key_char, spec_alpha_iff. assumption.
  - revert Ht. apply Forall_impl. intros. apply spec_key_char_iff. assumption.
Qed.

Lemma spec_pair_split : forall p, spec_pair p -> split_eq (render_pair p) = Some (fst p, snd p).
Proof.
  intros [k v] [Hk _]. unfold render_pair. cbn [fst snd] in *. apply split_eq_complete.
  apply spec_key_model in Hk. destruct Hk as [Hk _]. revert Hk. apply Forall_impl.
  intros b Hb. apply key_char_facts in Hb. tauto.
Qed.

Lemma spec_pair_shape : forall p, spec_pair p -> pair_shape_ok (render_pair p) = true.
Proof.
  intros p Hp. unfold pair_shape_ok. rewrite (spec_pair_split p Hp).
  destruct p as [k v]. destruct Hp as [Hk Hv]. cbn [fst snd] in *.
  apply spec_key_model in Hk. destruct Hk as [Hk Hkn]. destruct Hv as [Hvn Hv].
  repeat (apply andb_true_iff; split).
  - apply nonempty_true. assumption.
  - apply all_b_Forall. revert Hk. apply Forall_impl. intros b Hb. apply key_char_facts in Hb. tauto.
  - apply nonempty_true. assumption.
  - apply all_b_Forall. revert Hv. apply Forall_impl. intros b Hb.
    apply spec_val_char_iff, val_char_facts in Hb. tauto.
Qed.

Lemma spec_pair_no_comma : forall p, spec_pair p -> ~ In ","%byte (render_pair p).
Proof.
  intros [k v] [Hk Hv] Hin. unfold render_pair in Hin. cbn [fst snd] in *.
  apply spec_key_model in Hk. destruct Hk as [Hk _]. destruct Hv as [_ Hv].
  apply in_app_or in Hin. destruct Hin as [Hin|Hin].
  - rewrite Forall_forall in Hk. apply Hk, key_char_facts in Hin. tauto.
  - cbn [B String.list_byte_of_string app In] in Hin. destruct Hin as [Hin|Hin].
    + apply eq_not_comma. assumption.
    + rewrite Forall_forall in Hv. apply Hv, spec_val_char_iff, val_char_facts in Hin. tauto.
Qed.

Lemma parse_pairs_sound : forall h pieces acc o, parse_pairs h pieces acc = inl o ->
  exists ps, pieces = map render_pair ps /\ Forall spec_pair ps /\
             o = fold_left (opts_step convert_value) ps acc.
Proof.
  intros h. induction pieces as [|p rest IH]; intros acc o H; cbn [parse_pairs] in H.
  - inversion H; subst. exists []. repeat split. constructor.
  - destruct (split_eq p) as [[k v]|] eqn:Es; [|discriminate].
    destruct (key_ok k) eqn:Ek; cbn [negb] in H; [|discriminate].
    destruct (val_ok v) eqn:Ev; cbn [negb] in H; [|discriminate].
    apply IH in H. destruct H as (ps & -> & HF & ->).
    exists ((k, v) :: ps). split; [|split].
    + cbn [map]. f_equal. apply split_eq_sound. assumption.
    + constructor; [|assumption]. split; cbn [fst snd]; [apply spec_key_iff|apply spec_val_iff]; assumption.
    + reflexivity.
Qed.

Lemma parse_pairs_complete : forall h ps acc, Forall spec_pair ps ->
  parse_pairs h (map render_pair ps) acc = inl (fold_left (opts_step convert_value) ps acc).
Proof.
  intros h. induction ps as [|p ps IH]; intros acc HF; [reflexivity|].
  inversion HF as [|? ? Hp HF']; subst. cbn [map parse_pairs].
  rewrite (spec_pair_split p Hp). destruct Hp as [Hk Hv].
  apply spec_key_iff in Hk. apply spec_val_iff in Hv. rewrite Hk, Hv. cbn [negb].
  rewrite IH by assumption. reflexivity.
Qed.

Lemma comma_space_cons : comma_space = ","%byte :: [" "%byte].
Proof. reflexivity. Qed.

Lemma bsplit_join_pairs : forall ps, ps <> [] -> Forall spec_pair ps ->
  bsplit comma_space (join comma_space (map render_pair ps)) = map render_pair ps.
Proof.
  intros ps Hne HF. unfold bsplit. rewrite comma_space_cons.
  apply (split_join byte_eqb byte_eqb_spec).
  - destruct ps; [congruence|discriminate].
  - apply Forall_forall. intros q Hq. apply in_map_iff in Hq. destruct Hq as (p & <- & Hp).
    apply spec_pair_no_comma. rewrite Forall_forall in HF. apply HF. assumption.
Qed.

(* the regex on a line of the spec's form *)
Lemma match_header_re_complete : forall dots name ps, dots <= 3 -> In name spec_names ->
  Forall spec_pair ps ->
  match_header_re (render_header dots name ps) =
    Some (dots, name, match ps with [] => None | _ => Some (join comma_space (map render_pair ps)) end).
Proof.
  intros dots name ps Hd Hn HF.
  set (tl := match ps with [] => [] | _ :: _ => B " " ++ join comma_space (map render_pair ps) end).
  assert (Hr : render_header dots name ps = "#"%byte :: (repeat_b "."%byte dots ++ (name ++ B ":" ++ tl)))
    by reflexivity.
  rewrite Hr. unfold match_header_re.
  rewrite (proj2 (byte_eqb_spec _ _) eq_refl).
  rewrite take_dots_complete by (apply name_no_dot; assumption).
  apply Nat.leb_le in Hd. rewrite Hd.
  rewrite match_name_complete by assumption.
  subst tl. destruct ps as [|p ps]; [reflexivity|].
  change (B " " ++ join comma_space (map render_pair (p :: ps)))
    with (" "%byte :: join comma_space (map render_pair (p :: ps))). cbv iota.
  rewrite (proj2 (byte_eqb_spec _ _) eq_refl). cbn [andb].
  rewrite bsplit_join_pairs by (discriminate || assumption).
  assert (Hne : nonempty (join comma_space (map render_pair (p :: ps))) = true).
  { apply nonempty_true. inversion HF as [|? ? Hp _]; subst.
    destruct Hp as [Hk _]. destruct Hk as (c & t & Hk & _).
    destruct p as [k v]. cbn [fst] in Hk. subst k.
    cbn [map]. destruct (map render_pair ps); cbn; discriminate. }
  rewrite Hne. cbn [andb].
  assert (Hall : all_b pair_shape_ok (map render_pair (p :: ps)) = true).
  { apply all_b_Forall. apply Forall_forall. intros q Hq. apply in_map_iff in Hq.
    destruct Hq as (p0 & <- & Hp0). apply spec_pair_shape. rewrite Forall_forall in HF. apply HF. assumption. }
  rewrite Hall. reflexivity.
Qed.

Lemma match_header_re_sound : forall line dots name ostr,
  match_header_re line = Some (dots, name, ostr) ->
  dots <= 3 /\ In name spec_names /\
  line = B "#" ++ repeat_b "."%byte dots ++ name ++ B ":" ++
         match ostr with None => [] | Some s => B " " ++ s end.
Proof.
  intros line dots name ostr H. unfold match_header_re in H.
  destruct line as [|c r]; [discriminate|].
  destruct (byte_eqb c "#"%byte) eqn:Ec; [|discriminate]. apply byte_eqb_spec in Ec. subst c.
  destruct (take_dots r) as [n rest] eqn:Et. apply take_dots_sound in Et.
  destruct (Nat.leb n 3) eqn:El; [|discriminate]. apply Nat.leb_le in El.
  destruct (match_name header_names rest) as [[nm tail]|] eqn:Em; [|discriminate].
  apply match_name_sound in Em. destruct Em as [Hin Hrest].
  destruct tail as [|sp opts].
  - inversion H; subst. repeat split; try assumption.
  - destruct (byte_eqb sp " "%byte && nonempty opts && all_b pair_shape_ok (bsplit comma_space opts)) eqn:Eb;
      [|discriminate].
    inversion H; subst. apply andb_true_iff in Eb. destruct Eb as [Eb _].
    apply andb_true_iff in Eb. destruct Eb as [Eb _]. apply byte_eqb_spec in Eb. subst sp.
    repeat split; try assumption.
Qed.

(* ================================================================================================ *)
(** * C11 *)

Lemma in_ids_In : forall id valid, in_ids id valid = true <-> In id valid.
Proof. intros. unfold in_ids, beq. apply mem_In. exact byte_eqb_spec. Qed.

(* Accepted => the line has the documented form, and the options are reported verbatim
   (integer-valued ones converted, see [convert_value_spec]); later duplicates override. *)
Theorem C11_sound : forall valid line level name id opts,
  parse_header valid line = HOk level name id opts ->
  exists ps, spec_header line level name ps /\
             id = repeat_b "."%byte level ++ name /\ In id valid /\
             opts = opts_of convert_value ps.
Proof.
  intros valid line level name id opts H. unfold parse_header in H.
  destruct (match_header_re line) as [[[d n] ostr]|] eqn:Em; [|discriminate].
  apply match_header_re_sound in Em. destruct Em as (Hd & Hn & Hline).
  destruct (in_ids (build_id d n) valid) eqn:Ei; cbn [negb] in H; [|discriminate].
  apply in_ids_In in Ei.
  destruct ostr as [s|].
  - destruct (parse_pairs line (bsplit comma_space s) []) as [o|col] eqn:Ep; [|discriminate].
    inversion H; subst level name id opts. clear H.
    apply parse_pairs_sound in Ep. destruct Ep as (ps & Hsplit & HF & Ho).
    exists ps. split; [|split; [reflexivity|split; [assumption|exact Ho]]].
    split; [assumption|split; [assumption|split; [assumption|]]].
    assert (Hs : s = join comma_space (map render_pair ps)).
    { rewrite <- Hsplit. unfold bsplit. symmetry.
      apply (join_split byte_eqb byte_eqb_spec). discriminate. }
    assert (Hne : ps <> []).
    { intros ->. cbn [map] in Hsplit. unfold bsplit, split in Hsplit.
      exact (split_aux_ne byte_eqb _ _ _ _ Hsplit). }
    rewrite Hline. unfold render_header. destruct ps as [|p ps]; [congruence|].
    rewrite Hs. reflexivity.
  - inversion H; subst level name id opts. clear H.
    exists []. split; [|split; [reflexivity|split; [assumption|reflexivity]]].
    split; [assumption|split; [assumption|split; [constructor|]]].
    rewrite Hline. reflexivity.
Qed.

(* Every line of the documented form whose section ID is expected is accepted, with exactly those options. *)
Theorem C11_complete : forall valid line dots name ps,
  spec_header line dots name ps -> In (repeat_b "."%byte dots ++ name) valid ->
  parse_header valid line =
    HOk dots name (repeat_b "."%byte dots ++ name) (opts_of convert_value ps).
Proof.
  intros valid line dots name ps (Hd & Hn & HF & ->) Hin. unfold parse_header.
  rewrite match_header_re_complete by assumption.
  apply in_ids_In in Hin. unfold build_id. rewrite Hin. cbn [negb].
  destruct ps as [|p ps]; [reflexivity|].
  rewrite bsplit_join_pairs by (discriminate || assumption).
  rewrite parse_pairs_complete by assumption. reflexivity.
Qed.

(* A line of the documented form whose section ID is not expected here is a parse error. *)
Theorem C11_unexpected : forall valid line dots name ps,
  spec_header line dots name ps -> ~ In (repeat_b "."%byte dots ++ name) valid ->
  parse_header valid line = HErr None.
Proof.
  intros valid line dots name ps (Hd & Hn & HF & ->) Hin. unfold parse_header.
  rewrite match_header_re_complete by assumption.
  destruct (in_ids (build_id dots name) valid) eqn:Ei; [|reflexivity].
  apply in_ids_In in Ei. contradiction.
Qed.

(* Every other line is rejected (the result type has only accept / parse error). *)
Theorem C11_reject : forall valid line,
  ~ (exists dots name ps, spec_header line dots name ps /\ In (repeat_b "."%byte dots ++ name) valid) ->
  exists col, parse_header valid line = HErr col.
Proof.
  intros valid line Hno. destruct (parse_header valid line) as [level name id opts|col] eqn:E.
  - exfalso. apply Hno. apply C11_sound in E. destruct E as (ps & Hs & -> & Hin & _).
    exists level, name, ps. split; assumption.
  - exists col. reflexivity.
Qed.

Theorem C11_exact : forall valid line,
  (exists level name id opts, parse_header valid line = HOk level name id opts) <->
  (exists dots name ps, spec_header line dots name ps /\ In (repeat_b "."%byte dots ++ name) valid).
Proof.
  intros valid line. split.
  - intros (level & name & id & opts & E). apply C11_sound in E. destruct E as (ps & Hs & -> & Hin & _).
    exists level, name, ps. split; assumption.
  - intros (dots & name & ps & Hs & Hin). eexists _, _, _, _. apply C11_complete; eassumption.
Qed.

(* In the reader, a rejected header line is a parse error: the only other exception [read_header]
   can produce comes from reading the stream, before the header is parsed. *)
Lemma read_header_err_is_parse : forall chunk valid st e,
  read_header chunk valid st = HdrExc e ->
  next_nonblank (S (length (remaining (st_stream st)))) chunk (st_stream st) = Err e.
Proof.
  intros chunk valid st e H. unfold read_header in H.
  destruct (next_nonblank _ chunk (st_stream st)) as [[[h|] s1]|e'].
  - destruct (negb _); [discriminate|]. destruct (parse_header _ _); discriminate.
  - discriminate.
  - inversion H. reflexivity.
Qed.

(* a boolean checker for [spec_header], for the examples *)
Definition spec_header_b (line : bytes) (dots : nat) (name : bytes) (ps : list (bytes * bytes)) : bool :=
  Nat.leb dots 3 && mem beq name spec_names && all_b (fun p => key_ok (fst p) && val_ok (snd p)) ps
  && beq line (render_header dots name ps).

Lemma spec_header_b_sound : forall line dots name ps,
  spec_header_b line dots name ps = true -> spec_header line dots name ps.
Proof.
  intros line dots name ps H. unfold spec_header_b in H.
  repeat (apply andb_true_iff in H; destruct H as [H ?]).
  split; [apply Nat.leb_le; assumption|]. split; [apply in_ids_In; assumption|].
  split; [|apply beq_spec; assumption].
  apply all_b_Forall in H1. revert H1. apply Forall_impl. intros p Hp.
  apply andb_true_iff in Hp. destruct Hp. split; [apply spec_key_iff|apply spec_val_iff]; assumption.
Qed.

(* ================================================================================================ *)
(** * C12 at header level *)

(* the value of the last pair with key k *)
Fixpoint last_val (k : bytes) (ps : list (bytes * bytes)) : option bytes :=
  match ps with
  | [] => None
  | p :: t => match last_val k t with
              | Some w => Some w
              | None => if beq k (fst p) then Some (snd p) else None
              end
  end.

Lemma get_fold_opts : forall conv k ps acc,
  assoc_get beq k (fold_left (opts_step conv) ps acc) =
  match last_val k ps with Some v => Some (conv v) | None => assoc_get beq k acc end.
Proof.
  intros conv k. induction ps as [|p t IH]; intros acc; [reflexivity|].
  cbn [fold_left last_val]. rewrite IH. destruct (last_val k t); [reflexivity|].
  unfold opts_step. rewrite (assoc_get_set beq beq_spec). destruct (beq k (fst p)); reflexivity.
Qed.

Lemma get_opts_of : forall conv k ps,
  assoc_get beq k (opts_of conv ps) = option_map conv (last_val k ps).
Proof. intros. unfold opts_of. rewrite get_fold_opts. destruct (last_val k ps); reflexivity. Qed.

Lemma last_val_none : forall k ps, ~ In k (map fst ps) -> last_val k ps = None.
Proof.
  intros k. induction ps as [|p t IH]; intros H; [reflexivity|]. cbn [last_val map In] in *.
  rewrite IH by tauto. destruct (beq k (fst p)) eqn:E; [|reflexivity].
  apply beq_spec in E. exfalso. apply H. left. congruence.
Qed.

Lemma last_val_some_in : forall k ps v, last_val k ps = Some v -> In k (map fst ps).
Proof.
  intros k ps v H. destruct (in_dec (list_eq_dec Byte.byte_eq_dec) k (map fst ps)) as [Hi|Hn]; [assumption|].
  rewrite last_val_none in H by assumption. discriminate.
Qed.

Lemma last_val_nodup : forall k v ps, NoDup (map fst ps) -> In (k, v) ps -> last_val k ps = Some v.
Proof.
  intros k v. induction ps as [|p t IH]; intros Hnd Hin; [contradiction|].
  cbn [map] in Hnd. inversion Hnd as [|? ? Hnotin Hnd']; subst. cbn [last_val].
  destruct Hin as [->|Hin].
  - cbn [fst snd] in *. rewrite last_val_none by assumption.
    rewrite (proj2 (beq_spec k k) eq_refl). reflexivity.
  - rewrite IH by assumption. reflexivity.
Qed.

Lemma interleave_sym {A} : forall (a b c : list A), interleave a b c -> interleave b a c.
Proof. intros a b c H. induction H; constructor; assumption. Qed.

Lemma interleave_Forall {A} (P : A -> Prop) : forall a b c, interleave a b c ->
  Forall P a -> Forall P b -> Forall P c.
Proof.
  intros a b c H. induction H; intros Ha Hb.
  - constructor.
  - inversion Ha; subst. constructor; auto.
  - inversion Hb; subst. constructor; auto.
Qed.

Lemma interleave_in {A} : forall (a b c : list A), interleave a b c ->
  forall x, In x c <-> In x a \/ In x b.
Proof.
  intros a b c H. induction H; intros y; cbn [In].
  - tauto.
  - rewrite IHinterleave. tauto.
  - rewrite IHinterleave. tauto.
Qed.

Lemma last_val_interleave : forall k ps extra ps', interleave ps extra ps' ->
  ~ In k (map fst extra) -> last_val k ps' = last_val k ps.
Proof.
  intros k ps extra ps' H. induction H; intros Hn.
  - reflexivity.
  - cbn [last_val]. rewrite IHinterleave by assumption. reflexivity.
  - cbn [map In] in Hn. cbn [last_val]. rewrite IHinterleave by tauto.
    destruct (last_val k a); [reflexivity|].
    destruct (beq k (fst x)) eqn:E; [|reflexivity]. apply beq_spec in E. exfalso. apply Hn. left. congruence.
Qed.

(* Adding syntactically valid options with fresh, pairwise distinct keys at any positions of the option
   list of an accepted header: the header is still accepted with the same level/name/id; every other key
   reads as before (in particular no further key appears), and each added key reads as its value
   (integers converted). *)
Theorem C12_header : forall valid line line' dots name ps extra ps',
  spec_header line dots name ps -> In (repeat_b "."%byte dots ++ name) valid ->
  interleave ps extra ps' ->
  Forall spec_pair extra -> NoDup (map fst extra) ->
  (forall k, In k (map fst extra) -> ~ In k (map fst ps)) ->
  line' = render_header dots name ps' ->
  exists opts opts',
    parse_header valid line = HOk dots name (repeat_b "."%byte dots ++ name) opts /\
    parse_header valid line' = HOk dots name (repeat_b "."%byte dots ++ name) opts' /\
    (forall k, ~ In k (map fst extra) -> assoc_get beq k opts' = assoc_get beq k opts) /\
    (forall k v, In (k, v) extra ->
       assoc_get beq k opts' = Some (convert_value v) /\ assoc_get beq k opts = None).
Proof.
  intros valid line line' dots name ps extra ps' Hs Hin Hil HFe Hnd Hfresh ->.
  assert (Hs' : spec_header (render_header dots name ps') dots name ps').
  { destruct Hs as (Hd & Hn & HF & _). repeat split; try assumption.
    eapply interleave_Forall; eassumption. }
  exists (opts_of convert_value ps), (opts_of convert_value ps').
  split; [apply C11_complete; assumption|]. split; [apply C11_complete; assumption|]. split.
  - intros k Hk. rewrite !get_opts_of. rewrite (last_val_interleave k ps extra ps') by assumption. reflexivity.
  - intros k v Hkv. assert (Hk : In k (map fst extra)).
    { apply in_map_iff. exists (k, v). split; [reflexivity|assumption]. }
    rewrite !get_opts_of. split.
    + rewrite (last_val_interleave k extra ps ps') by (first [apply interleave_sym; assumption | apply Hfresh; assumption]).
      rewrite (last_val_nodup k v extra) by assumption. reflexivity.
    + rewrite last_val_none by (apply Hfresh; assumption). reflexivity.
Qed.

(* the keys of the resulting dict are exactly the old keys and the added keys *)
Corollary C12_header_keys : forall conv ps extra ps' k, interleave ps extra ps' ->
  (assoc_get beq k (opts_of conv ps') <> None <-> In k (map fst ps) \/ In k (map fst extra)).
Proof.
  intros conv ps extra ps' k Hil. rewrite get_opts_of.
  assert (Hin : In k (map fst ps') <-> In k (map fst ps) \/ In k (map fst extra)).
  { rewrite !in_map_iff. split.
    - intros (p & <- & Hp). apply (interleave_in _ _ _ Hil) in Hp. destruct Hp; [left|right]; exists p; auto.
    - intros [(p & <- & Hp)|(p & <- & Hp)]; exists p; (split; [reflexivity|]);
        apply (interleave_in _ _ _ Hil); auto. }
  rewrite <- Hin. split.
  - destruct (last_val k ps') eqn:E; [|cbn; congruence]. intros _. eapply last_val_some_in; eassumption.
  - intros H. destruct (last_val k ps') eqn:E; [cbn; discriminate|].
    exfalso. revert H E. clear. induction ps' as [|p t IH]; cbn [map In last_val]; [tauto|].
    intros [H|H]; destruct (last_val k t) eqn:Et; try discriminate.
    + subst k. rewrite (proj2 (beq_spec _ _) eq_refl). discriminate.
    + intros _. apply IH; [assumption|reflexivity].
Qed.

(* ================================================================================================ *)
(** * Complements: pure-form rejection, unambiguity of the grammar *)

Theorem C11_reject_form : forall valid line,
  ~ (exists dots name ps, spec_header line dots name ps) ->
  exists col, parse_header valid line = HErr col.
Proof.
  intros valid line Hno. apply C11_reject. intros (d & n & ps & Hs & _). apply Hno. eauto.
Qed.

Lemma render_pair_inj : forall ps ps', Forall spec_pair ps -> Forall spec_pair ps' ->
  map render_pair ps = map render_pair ps' -> ps = ps'.
Proof.
  induction ps as [|p ps IH]; intros ps' HF HF' H; destruct ps' as [|p' ps']; try discriminate; [reflexivity|].
  inversion HF; subst. inversion HF'; subst. cbn [map] in H. inversion H as [[Hp Hps]].
  f_equal; [|apply IH; assumption].
  assert (E : Some (fst p, snd p) = Some (fst p', snd p')).
  { rewrite <- !spec_pair_split by assumption. rewrite Hp. reflexivity. }
  inversion E. destruct p, p'; cbn [fst snd] in *; congruence.
Qed.

(* a line has at most one reading in the grammar *)
Theorem spec_header_unambiguous : forall line d1 n1 ps1 d2 n2 ps2,
  spec_header line d1 n1 ps1 -> spec_header line d2 n2 ps2 -> d1 = d2 /\ n1 = n2 /\ ps1 = ps2.
Proof.
  intros line d1 n1 ps1 d2 n2 ps2 (Hd1 & Hn1 & HF1 & E1) (Hd2 & Hn2 & HF2 & E2).
  pose proof (match_header_re_complete d1 n1 ps1 Hd1 Hn1 HF1) as M1.
  pose proof (match_header_re_complete d2 n2 ps2 Hd2 Hn2 HF2) as M2.
  rewrite <- E1 in M1. rewrite <- E2 in M2. rewrite M1 in M2. injection M2. intros Ho Hn Hd.
  split; [assumption|]. split; [assumption|].
  destruct ps1 as [|p1 t1]; destruct ps2 as [|p2 t2]; try discriminate; [reflexivity|].
  assert (Hj : join comma_space (map render_pair (p1 :: t1)) = join comma_space (map render_pair (p2 :: t2)))
    by congruence.
  apply render_pair_inj; try assumption.
  rewrite <- (bsplit_join_pairs (p1 :: t1)) by (discriminate || assumption).
  rewrite <- (bsplit_join_pairs (p2 :: t2)) by (discriminate || assumption).
  rewrite Hj. reflexivity.
Qed.

(* ================================================================================================ *)
(** * Boolean checkers used by the examples in props/C11.v and props/C12.v *)

Lemma spec_pairs_b_sound : forall ps,
  all_b (fun p => key_ok (fst p) && val_ok (snd p)) ps = true -> Forall spec_pair ps.
Proof.
  intros ps H. apply all_b_Forall in H. revert H. apply Forall_impl. intros p Hp.
  apply andb_true_iff in Hp. destruct Hp. split; [apply spec_key_iff|apply spec_val_iff]; assumption.
Qed.

Fixpoint nodup_b (l : list bytes) : bool :=
  match l with [] => true | x :: t => negb (mem beq x t) && nodup_b t end.

Lemma nodup_b_sound : forall l, nodup_b l = true -> NoDup l.
Proof.
  induction l as [|x t IH]; intros H; [constructor|]. cbn [nodup_b] in H.
  apply andb_true_iff in H. destruct H as [H1 H2]. constructor; [|apply IH; assumption].
  intros Hin. apply (in_ids_In x t) in Hin. unfold in_ids in Hin. rewrite Hin in H1. discriminate.
Qed.

Lemma disjoint_b_sound : forall l1 l2, all_b (fun k => negb (mem beq k l2)) l1 = true ->
  forall k, In k l1 -> ~ In k l2.
Proof.
  intros l1 l2 H k Hk Hin. apply all_b_Forall in H. rewrite Forall_forall in H. apply H in Hk.
  apply (in_ids_In k l2) in Hin. unfold in_ids in Hin. rewrite Hin in Hk. discriminate.
Qed.
