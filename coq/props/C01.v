(* C01 — writer -> reader round trip: the per-section core.
   The composition over whole call sequences (C01_round_trip) is stated in RoundTrip.v by another file; this file holds the per-section core.

   Statements only; proofs are in theories/RoundTripCodec.v (codec laws), RoundTripCodecInst.v / RoundTripCodecUtf.v
   (the ten executable codecs), RoundTripContent.v (the content round trip), RoundTripGuess.v (guessed newline),
   RoundTripAll.v (all catalogue spellings), RoundTripExamples.v (non-vacuity).

   Vocabulary (defined in theories/RoundTripCodec.v and RoundTripContent.v):
   * [codec_ok enc]          the spelling [enc] names an executable codec that is stateless (encodes code point by code
                             point behind a fixed BOM), is inverted by its decoder, and whose BOM-free encodings of the
                             newline texts are non-empty, unbordered, free of 0x20, left alone by strip_bom and
                             recognisable at the end of an encoded text (laws L1-L5, L8 of DESIGN.md, C01).
   * [le_arg lev]            line_endings argument: None, or one of LINE_ENDINGS ("dos" / "unix") as a str.
   * [indent_arg indent]     indent argument: None, or an int >= 0.
   * [resolve_le lev t]      the line_endings value written in the header and its newline text (declared, else guessed
                             from the text as the writer does).
   * [final_text nl t]       t if it ends with nl, else t ++ nl.
   * [indent_body i y lines] y if i is None or 0, else the lines each prefixed with i spaces.
   * [indent_pv], [enc_pv]   the option values as the reader finds them in the header.
   Hypothesis carried by every round-trip theorem besides the argument domains: the body is not longer than
   sys.maxsize bytes (the reader reads min(length, sys.maxsize)). *)
From Coq Require Import List Arith NArith ZArith Bool Strings.Byte.
From Coq Require Strings.String.
From DX Require Import Bytes Res Codec Text Sections Header Stream Json Reader Writer TextFacts
                       RoundTripCodec RoundTripCodecInst RoundTripCodecUtf RoundTripContent RoundTripGuess RoundTripAll.
From DXGen Require GenText GenCodecs.
Import ListNotations.
Import String.StringSyntax.
Local Open Scope string_scope.
Local Open Scope list_scope.

(* ---- text sections (preambles): what prepare_content writes, read_content reads back ---- *)

Theorem C01_content_round_trip :
  forall enc, codec_ok enc ->
  forall (s : wstate) (e t : text) (x : bytes) (lev indent : wv),
    c_enc ascii e = Some enc -> t <> [] -> py_encode t enc = Ok x -> le_arg lev -> indent_arg indent ->
    exists body le nl nlb y lines,
      resolve_le lev t = (le, nl) /\ In (le, nl) GenText.newline_formats /\
      get_newline_for_type le (Some enc) = Ok nlb /\
      py_encode (final_text nl t) enc = Ok y /\
      split_lines y nlb true = Ok lines /\
      body = indent_body indent y lines /\
      prepare_content s (CText t) indent lev (WStr e) true = Ok (body, WStr (ascii_text le)) /\
      forall st rest, remaining (st_stream st) = body ++ rest -> (Z.of_nat (length body) <= sys_maxsize)%Z ->
        exists st',
          read_content st (Z.of_nat (length body)) (Some (VStr enc)) (indent_pv indent) (Some (VStr le)) false
            = COk (PText (final_text nl t)) st' /\
          remaining (st_stream st') = rest /\
          st_linenum st' = (st_linenum st + Z.of_nat (length lines))%Z /\
          st_fnl st' = st_fnl st.
Proof. exact content_round_trip_ok. Qed.
Print Assumptions C01_content_round_trip.

(* the same over the abstract laws, with the BOM-free encoder visible *)
Theorem C01_content_round_trip_laws :
  forall enc c bom enc0, codec_laws enc c bom enc0 ->
  forall (s : wstate) (e t : text) (b : bytes) (lev indent : wv),
    c_enc ascii e = Some enc -> t <> [] -> enc0 t = Some b -> le_arg lev -> indent_arg indent ->
    exists body le nl nlb b' lines,
      resolve_le lev t = (le, nl) /\ In (le, nl) GenText.newline_formats /\
      enc0 nl = Some nlb /\ enc0 (final_text nl t) = Some b' /\
      split_lines (bom ++ b') nlb true = Ok lines /\
      body = indent_body indent (bom ++ b') lines /\
      prepare_content s (CText t) indent lev (WStr e) true = Ok (body, WStr (ascii_text le)) /\
      forall st rest, remaining (st_stream st) = body ++ rest -> (Z.of_nat (length body) <= sys_maxsize)%Z ->
        exists st',
          read_content st (Z.of_nat (length body)) (Some (VStr enc)) (indent_pv indent) (Some (VStr le)) false
            = COk (PText (final_text nl t)) st' /\
          remaining (st_stream st') = rest /\
          st_linenum st' = (st_linenum st + Z.of_nat (length lines))%Z /\
          st_fnl st' = st_fnl st.
Proof. exact content_round_trip. Qed.
Print Assumptions C01_content_round_trip_laws.

(* ---- diffs: bytes in, bytes out (keep_bytes), no inheritance, no indentation ---- *)

Theorem C01_diff_round_trip :
  forall enc, codec_ok enc ->
  forall (s : wstate) (b : bytes) (lev encoding : wv),
    b <> [] -> le_arg lev -> diff_enc_ok enc encoding ->
    exists body le nlb lines,
      In le GenText.line_endings_values /\
      get_newline_for_type le (Some enc) = Ok nlb /\
      (lev = WNone -> guess_line_endings_bytes b (Some enc) = Ok (le, nlb)) /\
      (forall l, lev = WStr (ascii_text l) -> In l GenText.line_endings_values -> le = l) /\
      body = (if bends nlb b then b else b ++ nlb) /\
      split_lines body nlb true = Ok lines /\
      prepare_content s (CBytes b) WNone lev encoding false = Ok (body, WStr (ascii_text le)) /\
      forall st rest, remaining (st_stream st) = body ++ rest -> (Z.of_nat (length body) <= sys_maxsize)%Z ->
        exists st',
          read_content st (Z.of_nat (length body)) (enc_pv enc encoding) None (Some (VStr le)) true
            = COk (PBytes body) st' /\
          remaining (st_stream st') = rest /\
          st_linenum st' = (st_linenum st + Z.of_nat (length lines))%Z /\
          st_fnl st' = st_fnl st.
Proof. exact diff_round_trip_ok. Qed.
Print Assumptions C01_diff_round_trip.

(* ---- sections without line_endings in the header (metadata): the reader guesses the newline ---- *)

(* with the agreement of the two guesses as an explicit hypothesis, any codec satisfying the laws *)
Theorem C01_content_round_trip_guess :
  forall enc c bom enc0, codec_laws enc c bom enc0 ->
  forall (s : wstate) (e t : text) (b : bytes) (lev indent : wv),
    c_enc ascii e = Some enc -> t <> [] -> enc0 t = Some b -> le_arg lev -> indent_arg indent ->
    exists body le nl nlb b' lines,
      resolve_le lev t = (le, nl) /\ In (le, nl) GenText.newline_formats /\
      enc0 nl = Some nlb /\ enc0 (final_text nl t) = Some b' /\
      split_lines (bom ++ b') nlb true = Ok lines /\
      body = indent_body indent (bom ++ b') lines /\
      prepare_content s (CText t) indent lev (WStr e) true = Ok (body, WStr (ascii_text le)) /\
      forall st rest, guess_agrees enc body nlb -> remaining (st_stream st) = body ++ rest ->
        (Z.of_nat (length body) <= sys_maxsize)%Z ->
        exists st',
          read_content st (Z.of_nat (length body)) (Some (VStr enc)) (indent_pv indent) None false
            = COk (PText (final_text nl t)) st' /\
          remaining (st_stream st') = rest /\
          st_linenum st' = (st_linenum st + Z.of_nat (length lines))%Z /\
          st_fnl st' = st_fnl st.
Proof. exact content_round_trip_guess. Qed.
Print Assumptions C01_content_round_trip_guess.

(* the guess on the encoded bytes is the guess on the text when the first LF of the text is the first occurrence of
   the encoded LF in the bytes ([aligned_first_nl]) *)
Theorem C01_guess_bytes_text :
  forall enc c bom enc0, codec_laws enc c bom enc0 -> aligned_first_nl bom enc0 ->
  forall t b le nl nlb, enc0 t = Some b -> guess_line_endings_text t = (le, nl) -> enc0 nl = Some nlb ->
    guess_line_endings_bytes (bom ++ b) (Some enc) = Ok (le, nlb).
Proof. exact guess_bytes_text. Qed.
Print Assumptions C01_guess_bytes_text.

(* no hypothesis about guesses left for the single-byte-newline codecs, for texts that contain an LF
   (json.dumps output starts with "{" LF) *)
Theorem C01_meta_content_round_trip :
  forall enc, codec_ok_aligned enc ->
  forall (s : wstate) (e t : text) (x : bytes),
    c_enc ascii e = Some enc -> t <> [] -> py_encode t enc = Ok x ->
    find N.eqb (nl_text GenText.le_unix) t <> None ->
    exists body le nl nlb lines,
      guess_line_endings_text t = (le, nl) /\
      get_newline_for_type le (Some enc) = Ok nlb /\
      py_encode (final_text nl t) enc = Ok body /\
      split_lines body nlb true = Ok lines /\
      prepare_content s (CText t) WNone WNone (WStr e) true = Ok (body, WStr (ascii_text le)) /\
      forall st rest, remaining (st_stream st) = body ++ rest -> (Z.of_nat (length body) <= sys_maxsize)%Z ->
        exists st',
          read_content st (Z.of_nat (length body)) (Some (VStr enc)) None None false
            = COk (PText (final_text nl t)) st' /\
          remaining (st_stream st') = rest /\
          st_linenum st' = (st_linenum st + Z.of_nat (length lines))%Z /\
          st_fnl st' = st_fnl st.
Proof. exact content_round_trip_meta. Qed.
Print Assumptions C01_meta_content_round_trip.

(* ---- the key lemmas ---- *)

(* (a) indenting the kept-ends lines of a newline-terminated byte string and splitting again gives the indented lines *)
Theorem C01_split_indent_commute :
  forall (nl d : bytes) (k : nat) (lines : list bytes),
    nl <> [] -> unbordered nl -> ~ In x20 nl -> d <> [] -> bends nl d = true ->
    split_lines d nl true = Ok lines ->
    split_lines (concat (map (app (repeat_b x20 k)) lines)) nl true = Ok (map (app (repeat_b x20 k)) lines) /\
    lines <> [] /\ concat lines = d.
Proof. exact split_indent_commute. Qed.
Print Assumptions C01_split_indent_commute.

(* (b) the reader strips exactly the k added spaces, also when the line itself starts with spaces *)
Theorem C01_strip_spaces_indent : forall k l, strip_spaces k (repeat_b x20 k ++ l) = l.
Proof. exact strip_spaces_indent. Qed.
Print Assumptions C01_strip_spaces_indent.

(* (d) the reader's size computation *)
Theorem C01_read_size : forall (body rest : bytes), (Z.of_nat (length body) <= sys_maxsize)%Z ->
  Z.to_nat (Z.min (Z.min (Z.of_nat (length body)) sys_maxsize) (Z.of_nat (length (body ++ rest)))) = length body.
Proof. exact read_size. Qed.
Print Assumptions C01_read_size.

(* ---- the codecs ---- *)

(* every spelling of the catalogue that resolves to one of the ten executable codecs *)
Theorem C01_codec_ok_modelled : forall enc canon c, lookup_codec enc = LOk canon c -> codec_ok enc.
Proof. exact codec_ok_modelled. Qed.
Print Assumptions C01_codec_ok_modelled.

(* a generic way to obtain the laws for a codec that encodes code point by code point *)
Theorem C01_codec_laws_of_cp : forall enc canon c bom f dec0,
  lookup_codec enc = LOk canon c ->
  (forall t, c_enc c t = option_map (app bom) (enc_all f t)) ->
  (forall b, c_dec c (bom ++ b) = dec0 b) ->
  dec0 [] = Some [] ->
  (forall c x r, f c = Some x -> dec0 (x ++ r) = option_map (cons c) (dec0 r)) ->
  (forall n, nl_char n -> nl_cp_ok f n) ->
  closed_check canon c bom f = true ->
  codec_laws enc c bom (enc_all f).
Proof. exact codec_laws_of_cp. Qed.
Print Assumptions C01_codec_laws_of_cp.

Theorem C01_codec_ok_ascii : codec_ok (B "ascii").
Proof. exact codec_ok_sp_ascii. Qed.
Print Assumptions C01_codec_ok_ascii.

Theorem C01_codec_ok_latin1 : codec_ok (B "latin-1").
Proof. exact codec_ok_sp_latin1. Qed.
Print Assumptions C01_codec_ok_latin1.

Theorem C01_codec_ok_utf8 : codec_ok (B "utf-8").
Proof. exact codec_ok_sp_utf8. Qed.
Print Assumptions C01_codec_ok_utf8.

Theorem C01_codec_ok_utf8sig : codec_ok (B "utf-8-sig").
Proof. exact codec_ok_sp_utf8sig. Qed.
Print Assumptions C01_codec_ok_utf8sig.

Theorem C01_codec_ok_utf16 : codec_ok (B "utf-16").
Proof. exact codec_ok_sp_utf16. Qed.
Print Assumptions C01_codec_ok_utf16.

Theorem C01_codec_ok_utf16le : codec_ok (B "utf-16-le").
Proof. exact codec_ok_sp_utf16le. Qed.
Print Assumptions C01_codec_ok_utf16le.

Theorem C01_codec_ok_utf16be : codec_ok (B "utf-16-be").
Proof. exact codec_ok_sp_utf16be. Qed.
Print Assumptions C01_codec_ok_utf16be.

Theorem C01_codec_ok_utf32 : codec_ok (B "utf-32").
Proof. exact codec_ok_sp_utf32. Qed.
Print Assumptions C01_codec_ok_utf32.

Theorem C01_codec_ok_utf32le : codec_ok (B "utf-32-le").
Proof. exact codec_ok_sp_utf32le. Qed.
Print Assumptions C01_codec_ok_utf32le.

Theorem C01_codec_ok_utf32be : codec_ok (B "utf-32-be").
Proof. exact codec_ok_sp_utf32be. Qed.
Print Assumptions C01_codec_ok_utf32be.

(* the single-byte-newline codecs satisfy the alignment law as well (all their spellings) *)
Theorem C01_codec_ok_aligned_modelled : forall enc canon c, lookup_codec enc = LOk canon c ->
  In canon [B "ascii"; B "iso8859-1"; B "utf-8"; B "utf-8-sig"] -> codec_ok_aligned enc.
Proof. exact codec_ok_aligned_modelled. Qed.
Print Assumptions C01_codec_ok_aligned_modelled.

(* ... and UTF-16 does not: the alignment hypothesis is a real one there *)
Theorem C01_utf16_misaligned :
  let t := [0x0A41; 0x4100]%N in
  find N.eqb (nl_text GenText.le_unix) t = None /\
  exists b, py_encode t (B "utf-16-le") = Ok b /\ bfind [x0a; x00] b = Some 1.
Proof. exact utf16_misaligned. Qed.
Print Assumptions C01_utf16_misaligned.
